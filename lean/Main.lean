import Dagrt.Driver.C06
import Dagrt.Driver.Kinds
import Dagrt.Driver.C10
import Dagrt.Driver.C04
import Dagrt.Driver.C05
import Dagrt.Driver.C08
import Dagrt.Driver.C02
import Dagrt.Driver.C01
import Dagrt.Driver.C20
import Dagrt.Driver.C13
import Dagrt.Driver.C18
import Dagrt.Driver.C19
import Dagrt.Driver.C12
import Dagrt.Driver.C16
import Dagrt.Driver.C07
import Dagrt.Driver.C17
open Lean Dagrt.Driver

def dispatch (j : Json) : R Json := do
  let op ← str? (← field j "op")
  match op.splitOn "." with
  | ["C05", o] => C05.handle o j
  | ["C06", o] => C06.handle o j
  | ["C02", o] => C02.handle o j
  | ["C01", o] => C01.handle o j
  | ["C11", o] => C01.handle o j
  | ["C04", o] => C04.handle o j
  | ["C08", o] => C08.handle o j
  | ["C07", o] => C07.handle o j
  | ["C10", o] => C10.handle o j
  | ["C16", o] => C16.handle o j
  | ["C17", o] => C17.handle o j
  | ["C18", o] => C18.handle o j
  | ["C20", o] => C20.handle o j
  | ["C19", o] => C19.handle o j
  | ["C12", o] => C12.handle o j
  | ["C13", o] => C13.handle o j
  | ["C14", o] => Kinds.handle o j
  | ["C09", o] => Kinds.handle o j
  | _ => throw s!"unknown op {op}"

partial def loop (h : IO.FS.Stream) (out : IO.FS.Stream) : IO Unit := do
  let line ← h.getLine
  if line.isEmpty then return ()
  let res : Json := match Json.parse line with
    | .error e => jobj [("bad", jstr e)]
    | .ok j => match dispatch j with
      | .ok r => r
      | .error e => jobj [("bad", jstr e)]
  out.putStrLn res.compress
  loop h out

def main : IO Unit := do
  let out ← IO.getStdout
  loop (← IO.getStdin) out
  out.flush
