import Dagrt.Props.C06
import Dagrt.Props.C10
import Dagrt.Props.C14
import Dagrt.Props.C04
import Dagrt.Props.C05
import Dagrt.Props.C08
import Dagrt.Props.C02
import Dagrt.Props.C20
