import Dagrt.Props.C06
