import Dagrt.Model.Names
set_option linter.unusedVariables false
set_option linter.unusedSimpArgs false
namespace Dagrt.Names

/-! ### the sanitiser -/

theorem makeIdentifier_chars (name : List Char) : ∀ c ∈ makeIdentifier name, identChar c = true := by
  unfold makeIdentifier
  simp only
  split
  · intro c hc; revert c hc; decide
  · intro c hc
    have := (List.dropWhile_sublist (· == '_')).subset hc
    simp only [List.mem_map] at this
    obtain ⟨a, _, ha⟩ := this
    split at ha
    · rename_i h; rw [← ha]; exact h
    · rw [← ha]; decide

theorem makeIdentifier_ne_nil (name : List Char) : makeIdentifier name ≠ [] := by
  unfold makeIdentifier
  simp only
  split
  · decide
  · assumption

theorem dropWhile_head_not {α} (p : α → Bool) : ∀ (l : List α) (x : α) (xs : List α),
    l.dropWhile p = x :: xs → p x = false
  | [], _, _, h => by simp at h
  | a :: as, x, xs, h => by
    simp only [List.dropWhile] at h
    split at h
    · exact dropWhile_head_not p as x xs h
    · rename_i hp; simp at h; rw [← h.1]; simpa using hp

/-- the result never starts with an underscore (leading ones are stripped) -/
theorem makeIdentifier_head (name : List Char) : ∀ x xs, makeIdentifier name = x :: xs → x ≠ '_' := by
  intro x xs h
  unfold makeIdentifier at h
  simp only at h
  split at h
  · have : x = 'd' := by
      have := congrArg List.head? h; simpa using this.symm
    rw [this]; decide
  · have := dropWhile_head_not (· == '_') _ x xs h
    simpa using this

/-! ### the generator: a returned name was free and is taken afterwards -/

theorem searchFrom_free (g : Gen) (base : List Char) : ∀ (fuel k k' : Nat) (nm : List Char),
    searchFrom g base fuel k = some (k', nm) → g.conflicting nm = false ∧ ∃ j, nm = numbered base j
  | 0, _, _, _, h => by simp [searchFrom] at h
  | fuel+1, k, k', nm, h => by
    unfold searchFrom at h
    simp only at h
    split at h
    · exact searchFrom_free g base fuel (k + 1) k' nm h
    · rename_i hc; simp at h; rw [← h.2]; exact ⟨by simpa using hc, k, rfl⟩

theorem addName_conflicting (g : Gen) (cs : List (List Char × Nat)) (nm : List Char) :
    ({ g with counters := cs }.addName nm).conflicting nm = true := by
  simp [Gen.addName, Gen.conflicting, Gen.norm]

theorem addName_mono (g : Gen) (cs : List (List Char × Nat)) (nm m : List Char)
    (h : g.conflicting m = true) : ({ g with counters := cs }.addName nm).conflicting m = true := by
  simp [Gen.addName, Gen.conflicting, Gen.norm] at h ⊢
  exact Or.inr h

/-- `UniqueNameGenerator.__call__`: the name returned was not in use, is in use afterwards, and
    nothing that was in use is forgotten -/
theorem gen_fresh (g g' : Gen) (b nm : List Char) (h : g.call b = some (g', nm)) :
    g.conflicting nm = false ∧ g'.conflicting nm = true ∧ (∀ m, g.conflicting m = true → g'.conflicting m = true) := by
  unfold Gen.call at h
  simp only at h
  have fin : ∀ (bb : List Char) (r : Option (Nat × List Char)),
      (match r with
        | none => none
        | some (k, nm') => some ({ g with counters := setCounter g.counters bb k }.addName nm', nm')) = some (g', nm) →
      (∀ k nm', r = some (k, nm') → g.conflicting nm' = false) →
      g.conflicting nm = false ∧ g'.conflicting nm = true ∧ (∀ m, g.conflicting m = true → g'.conflicting m = true) := by
    intro bb r hr hfree
    cases r with
    | none => simp at hr
    | some p =>
      obtain ⟨k, nm'⟩ := p
      simp at hr
      obtain ⟨hg, hn⟩ := hr
      subst hn
      refine ⟨hfree k nm' rfl, ?_, ?_⟩
      · rw [← hg]; exact addName_conflicting g _ nm'
      · intro m hm; rw [← hg]; exact addName_mono g _ nm' m hm
  split at h
  · exact fin _ _ h (fun k nm' hr => (searchFrom_free g _ _ _ k nm' hr).1)
  · split at h
    · exact fin _ _ h (fun k nm' hr => (searchFrom_free g _ _ _ k nm' hr).1)
    · split at h
      · exact fin _ _ h (fun k nm' hr => (searchFrom_free g _ _ _ k nm' hr).1)
      · rename_i hc
        exact fin _ _ h (fun k nm' hr => by simp at hr; rw [← hr.2]; simpa using hc)

/-! ### the key map: stable and injective -/

/-- every identifier in the map is known to the generator, and no two keys share one (compared
    the way the generator compares: case-folded for Fortran) -/
structure MapInv (m : KeyMap) (g : Gen) : Prop where
  known : ∀ k n, (k, n) ∈ m → g.conflicting n = true
  inj : ∀ k1 n1 k2 n2, (k1, n1) ∈ m → (k2, n2) ∈ m → g.norm n1 = g.norm n2 → k1 = k2
  keys : ∀ k n1 n2, (k, n1) ∈ m → (k, n2) ∈ m → n1 = n2

theorem lookup_mem {m : KeyMap} {k : String} {n : List Char} (h : m.lookup k = some n) : (k, n) ∈ m := by
  induction m with
  | nil => simp at h
  | cons p ps ih =>
    obtain ⟨k', n'⟩ := p
    simp only [List.lookup] at h
    split at h
    · rename_i hk; simp at h hk; subst h; simp [hk]
    · exact List.mem_cons_of_mem _ (ih h)

theorem lookup_none_not_mem {m : KeyMap} {k : String} (h : m.lookup k = none) : ∀ n, (k, n) ∉ m := by
  induction m with
  | nil => simp
  | cons p ps ih =>
    obtain ⟨k', n'⟩ := p
    simp only [List.lookup] at h
    split at h
    · cases h
    · rename_i hk
      intro n hn
      simp at hn
      rcases hn with ⟨e, _⟩ | hn
      · subst e; simp at hk
      · exact ih h n hn

/-- a later lookup of a key returns the first answer, whatever happened to the generator since -/
theorem map_stable (m m' : KeyMap) (g g' g'' : Gen) (key : String) (p p' : Option String) (n : List Char)
    (h : getOrMake m g key p = some (m', g', n)) :
    getOrMake m' g'' key p' = some (m', g'', n) := by
  unfold getOrMake at h ⊢
  cases hl : m.get key with
  | some n0 =>
    simp [hl] at h
    obtain ⟨hm, _, hn⟩ := h
    subst hm; subst hn
    simp [hl]
  | none =>
    simp [hl] at h
    cases hc : g.call (makeIdentifier ((p.getD "") ++ key).toList) with
    | none => simp [hc] at h
    | some r =>
      simp [hc] at h
      obtain ⟨hm, _, hn⟩ := h
      subst hm
      simp [KeyMap.get, List.lookup, hn]

theorem norm_conflicting_eq (g : Gen) (a b : List Char) (h : g.norm a = g.norm b) :
    g.conflicting a = g.conflicting b := by simp [Gen.conflicting, h]

/-- distinct keys get distinct identifiers; the invariant survives every lookup, also when the
    generator is shared with other maps (`hshared`: only monotone growth in between) -/
theorem map_injective (m m' : KeyMap) (g g' : Gen) (key : String) (p : Option String) (n : List Char)
    (hi : MapInv m g) (h : getOrMake m g key p = some (m', g', n)) (hn : g'.caseless = g.caseless) :
    MapInv m' g' := by
  unfold getOrMake at h
  cases hl : m.get key with
  | some n0 =>
    simp [hl] at h
    obtain ⟨hm, hg, _⟩ := h
    subst hm; subst hg; exact hi
  | none =>
    simp [hl] at h
    cases hc : g.call (makeIdentifier ((p.getD "") ++ key).toList) with
    | none => simp [hc] at h
    | some r =>
      obtain ⟨g1, n1⟩ := r
      simp [hc] at h
      obtain ⟨hm, hg, hn'⟩ := h
      subst hm; subst hg; subst hn'
      obtain ⟨hfree, htaken, hmono⟩ := gen_fresh g g1 _ n1 hc
      have hnorm : ∀ x, g1.norm x = g.norm x := by intro x; simp [Gen.norm, hn]
      have hnotmem := lookup_none_not_mem hl
      refine ⟨?_, ?_, ?_⟩
      · intro k n hmem
        simp at hmem
        rcases hmem with ⟨_, e⟩ | hmem
        · subst e; exact htaken
        · exact hmono n (hi.known k n hmem)
      · intro k1 a k2 b h1 h2 heq
        rw [hnorm, hnorm] at heq
        simp at h1 h2
        rcases h1 with ⟨e1, f1⟩ | h1 <;> rcases h2 with ⟨e2, f2⟩ | h2
        · rw [e1, e2]
        · subst f1
          have := hi.known k2 b h2
          rw [← norm_conflicting_eq g a b heq, hfree] at this; cases this
        · subst f2
          have := hi.known k1 a h1
          rw [norm_conflicting_eq g a b heq, hfree] at this; cases this
        · exact hi.inj k1 a k2 b h1 h2 heq
      · intro k a b h1 h2
        simp at h1 h2
        rcases h1 with ⟨e1, f1⟩ | h1 <;> rcases h2 with ⟨e2, f2⟩ | h2
        · rw [f1, f2]
        · subst e1; exact absurd h2 (hnotmem b)
        · subst e2; exact absurd h1 (hnotmem a)
        · exact hi.keys k a b h1 h2

end Dagrt.Names
