import Dagrt.Model.Names
set_option linter.unusedVariables false
set_option linter.unusedSimpArgs false
namespace Dagrt.Names

/-! ### the sanitiser -/

theorem makeIdentifier_chars (name : List Char) : ∀ c ∈ makeIdentifier name, identChar c = true := by
  unfold makeIdentifier
  simp only
  split
  · intro c hc; revert c hc; decide
  · intro c hc
    have := (List.dropWhile_sublist (· == '_')).subset hc
    simp only [List.mem_map] at this
    obtain ⟨a, _, ha⟩ := this
    split at ha
    · rename_i h; rw [← ha]; exact h
    · rw [← ha]; decide

theorem makeIdentifier_ne_nil (name : List Char) : makeIdentifier name ≠ [] := by
  unfold makeIdentifier
  simp only
  split
  · decide
  · assumption

theorem dropWhile_head_not {α} (p : α → Bool) : ∀ (l : List α) (x : α) (xs : List α),
    l.dropWhile p = x :: xs → p x = false
  | [], _, _, h => by simp at h
  | a :: as, x, xs, h => by
    simp only [List.dropWhile] at h
    split at h
    · exact dropWhile_head_not p as x xs h
    · rename_i hp; simp at h; rw [← h.1]; simpa using hp

/-- the result never starts with an underscore (leading ones are stripped) -/
theorem makeIdentifier_head (name : List Char) : ∀ x xs, makeIdentifier name = x :: xs → x ≠ '_' := by
  intro x xs h
  unfold makeIdentifier at h
  simp only at h
  split at h
  · have : x = 'd' := by
      have := congrArg List.head? h; simpa using this.symm
    rw [this]; decide
  · have := dropWhile_head_not (· == '_') _ x xs h
    simpa using this

/-! ### the generator: a returned name was free and is taken afterwards -/

theorem searchFrom_free (g : Gen) (base : List Char) : ∀ (fuel k k' : Nat) (nm : List Char),
    searchFrom g base fuel k = some (k', nm) → g.conflicting nm = false ∧ ∃ j, nm = numbered base j
  | 0, _, _, _, h => by simp [searchFrom] at h
  | fuel+1, k, k', nm, h => by
    unfold searchFrom at h
    simp only at h
    split at h
    · exact searchFrom_free g base fuel (k + 1) k' nm h
    · rename_i hc; simp at h; rw [← h.2]; exact ⟨by simpa using hc, k, rfl⟩

theorem addName_conflicting (g : Gen) (cs : List (List Char × Nat)) (nm : List Char) :
    ({ g with counters := cs }.addName nm).conflicting nm = true := by
  simp [Gen.addName, Gen.conflicting, Gen.norm]

theorem addName_mono (g : Gen) (cs : List (List Char × Nat)) (nm m : List Char)
    (h : g.conflicting m = true) : ({ g with counters := cs }.addName nm).conflicting m = true := by
  simp [Gen.addName, Gen.conflicting, Gen.norm] at h ⊢
  exact Or.inr h

/-- `UniqueNameGenerator.__call__`: the name returned was not in use, is in use afterwards, and
    nothing that was in use is forgotten -/
theorem gen_fresh (g g' : Gen) (b nm : List Char) (h : g.call b = some (g', nm)) :
    g.conflicting nm = false ∧ g'.conflicting nm = true ∧ (∀ m, g.conflicting m = true → g'.conflicting m = true) := by
  unfold Gen.call at h
  simp only at h
  have fin : ∀ (bb : List Char) (r : Option (Nat × List Char)),
      (match r with
        | none => none
        | some (k, nm') => some ({ g with counters := setCounter g.counters bb k }.addName nm', nm')) = some (g', nm) →
      (∀ k nm', r = some (k, nm') → g.conflicting nm' = false) →
      g.conflicting nm = false ∧ g'.conflicting nm = true ∧ (∀ m, g.conflicting m = true → g'.conflicting m = true) := by
    intro bb r hr hfree
    cases r with
    | none => simp at hr
    | some p =>
      obtain ⟨k, nm'⟩ := p
      simp at hr
      obtain ⟨hg, hn⟩ := hr
      subst hn
      refine ⟨hfree k nm' rfl, ?_, ?_⟩
      · rw [← hg]; exact addName_conflicting g _ nm'
      · intro m hm; rw [← hg]; exact addName_mono g _ nm' m hm
  split at h
  · exact fin _ _ h (fun k nm' hr => (searchFrom_free g _ _ _ k nm' hr).1)
  · split at h
    · exact fin _ _ h (fun k nm' hr => (searchFrom_free g _ _ _ k nm' hr).1)
    · split at h
      · exact fin _ _ h (fun k nm' hr => (searchFrom_free g _ _ _ k nm' hr).1)
      · rename_i hc
        simp only [Option.some.injEq, Prod.mk.injEq] at h
        obtain ⟨hg, hn⟩ := h
        subst hn
        refine ⟨by simpa using hc, ?_, ?_⟩
        · rw [← hg]; exact addName_conflicting g _ _
        · intro m hm; rw [← hg]; exact addName_mono g _ _ m hm

/-! ### the key map: stable and injective -/

/-- every identifier in the map is known to the generator, and no two keys share one (compared
    the way the generator compares: case-folded for Fortran) -/
structure MapInv (m : KeyMap) (g : Gen) : Prop where
  known : ∀ k n, (k, n) ∈ m → g.conflicting n = true
  inj : ∀ k1 n1 k2 n2, (k1, n1) ∈ m → (k2, n2) ∈ m → g.norm n1 = g.norm n2 → k1 = k2
  keys : ∀ k n1 n2, (k, n1) ∈ m → (k, n2) ∈ m → n1 = n2

theorem lookup_mem {m : KeyMap} {k : String} {n : List Char} (h : m.lookup k = some n) : (k, n) ∈ m := by
  induction m with
  | nil => simp at h
  | cons p ps ih =>
    obtain ⟨k', n'⟩ := p
    simp only [List.lookup] at h
    split at h
    · rename_i hk; simp at h hk; subst h; simp [hk]
    · exact List.mem_cons_of_mem _ (ih h)

theorem lookup_none_not_mem {m : KeyMap} {k : String} (h : m.lookup k = none) : ∀ n, (k, n) ∉ m := by
  induction m with
  | nil => simp
  | cons p ps ih =>
    obtain ⟨k', n'⟩ := p
    simp only [List.lookup] at h
    split at h
    · cases h
    · rename_i hk
      intro n hn
      simp at hn
      rcases hn with ⟨e, _⟩ | hn
      · subst e; simp at hk
      · exact ih h n hn

/-- a later lookup of a key returns the first answer, whatever happened to the generator since -/
theorem map_stable (m m' : KeyMap) (g g' g'' : Gen) (key : String) (p p' : Option String) (n : List Char)
    (h : getOrMake m g key p = some (m', g', n)) :
    getOrMake m' g'' key p' = some (m', g'', n) := by
  unfold getOrMake at h
  split at h
  · rename_i n0 hl
    simp only [Option.some.injEq, Prod.mk.injEq] at h
    obtain ⟨hm, _, hn⟩ := h
    subst hm; subst hn
    unfold getOrMake; rw [hl]
  · rename_i hl
    simp only at h
    split at h
    · cases h
    · rename_i g1 n1 hc
      simp only [Option.some.injEq, Prod.mk.injEq] at h
      obtain ⟨hm, _, hn⟩ := h
      subst hm; subst hn
      unfold getOrMake
      simp [KeyMap.get, List.lookup]

theorem norm_conflicting_eq (g : Gen) (a b : List Char) (h : g.norm a = g.norm b) :
    g.conflicting a = g.conflicting b := by simp [Gen.conflicting, h]

/-- distinct keys get distinct identifiers; the invariant survives every lookup, also when the
    generator is shared with other maps (`hshared`: only monotone growth in between) -/
theorem map_injective (m m' : KeyMap) (g g' : Gen) (key : String) (p : Option String) (n : List Char)
    (hi : MapInv m g) (h : getOrMake m g key p = some (m', g', n)) (hn : g'.caseless = g.caseless) :
    MapInv m' g' := by
  unfold getOrMake at h
  split at h
  · simp only [Option.some.injEq, Prod.mk.injEq] at h
    obtain ⟨hm, hg, _⟩ := h
    subst hm; subst hg; exact hi
  · rename_i hl
    simp only at h
    split at h
    · cases h
    · rename_i g1 n1 hc
      simp only [Option.some.injEq, Prod.mk.injEq] at h
      obtain ⟨hm, hg, hn'⟩ := h
      subst hm; subst hg; subst hn'
      obtain ⟨hfree, htaken, hmono⟩ := gen_fresh g g1 _ n1 hc
      have hnorm : ∀ x, g1.norm x = g.norm x := by intro x; simp [Gen.norm, hn]
      have hnotmem := lookup_none_not_mem hl
      refine ⟨?_, ?_, ?_⟩
      · intro k n hmem
        simp at hmem
        rcases hmem with ⟨_, e⟩ | hmem
        · subst e; exact htaken
        · exact hmono n (hi.known k n hmem)
      · intro k1 a k2 b h1 h2 heq
        rw [hnorm, hnorm] at heq
        simp at h1 h2
        rcases h1 with ⟨e1, f1⟩ | h1 <;> rcases h2 with ⟨e2, f2⟩ | h2
        · rw [e1, e2]
        · subst f1
          have := hi.known k2 b h2
          rw [← norm_conflicting_eq g a b heq, hfree] at this; cases this
        · subst f2
          have := hi.known k1 a h1
          rw [norm_conflicting_eq g a b heq, hfree] at this; cases this
        · exact hi.inj k1 a k2 b h1 h2 heq
      · intro k a b h1 h2
        simp at h1 h2
        rcases h1 with ⟨e1, f1⟩ | h1 <;> rcases h2 with ⟨e2, f2⟩ | h2
        · rw [f1, f2]
        · subst e1; exact absurd h2 (hnotmem b)
        · subst e2; exact absurd h1 (hnotmem a)
        · exact hi.keys k a b h1 h2

end Dagrt.Names

namespace Dagrt.Names

/-! ### numbered candidates are pairwise different, so the search always succeeds -/

theorem toDigits_inj {a b : Nat} (h : Nat.toDigits 10 a = Nat.toDigits 10 b) : a = b := by
  have ha := Nat.ofDigitChars_toDigits (b := 10) (n := a) (by decide) (by decide)
  have hb := Nat.ofDigitChars_toDigits (b := 10) (n := b) (by decide) (by decide)
  rw [h] at ha; omega

theorem toString_toList (k : Nat) : (toString k).toList = Nat.toDigits 10 k := by
  simp [toString, Nat.toList_repr]

theorem numbered_inj (base : List Char) {j k : Nat} (h : numbered base j = numbered base k) : j = k := by
  unfold numbered at h
  have := List.append_cancel_left h
  simp [toString_toList] at this
  exact toDigits_inj this

theorem lowerChar_digit {c : Char} (h : c.isDigit = true) : lowerChar c = c := by
  unfold lowerChar
  simp only [Char.isDigit, Bool.and_eq_true, decide_eq_true_eq] at h
  have h2 : c.val ≤ 57 := h.2
  split
  · rename_i hc
    have : (65 : UInt32) ≤ c.val := hc.1
    exfalso
    have a1 : c.val.toNat ≤ 57 := by simpa using UInt32.le_iff_toNat_le.mp h2
    have a2 : 65 ≤ c.val.toNat := by simpa using UInt32.le_iff_toNat_le.mp this
    omega
  · rfl

theorem norm_numbered_inj (g : Gen) (base : List Char) {j k : Nat}
    (h : g.norm (numbered base j) = g.norm (numbered base k)) : j = k := by
  unfold Gen.norm at h
  cases hc : g.caseless with
  | false => simp [hc] at h; exact numbered_inj base h
  | true =>
    simp only [hc, cond_true, numbered, List.map_append, List.map_cons] at h
    have := List.append_cancel_left h
    simp only [List.cons.injEq, true_and] at this
    have hd : ∀ n : Nat, (toString n).toList.map lowerChar = (toString n).toList := by
      intro n
      rw [toString_toList]
      have : List.map lowerChar (Nat.toDigits 10 n) = List.map (fun c => c) (Nat.toDigits 10 n) := by
        apply List.map_congr_left
        intro c hc'
        exact lowerChar_digit (Nat.isDigit_of_mem_toDigits (by decide) (by decide) hc')
      rw [this]; simp
    rw [hd, hd, toString_toList, toString_toList] at this
    exact toDigits_inj this

theorem searchFrom_none (g : Gen) (base : List Char) : ∀ (fuel k : Nat),
    searchFrom g base fuel k = none → ∀ j, k ≤ j → j < k + fuel → g.conflicting (numbered base j) = true
  | 0, k, _, j, h1, h2 => by omega
  | fuel+1, k, h, j, h1, h2 => by
    unfold searchFrom at h
    simp only at h
    split at h
    · rename_i hc
      by_cases e : j = k
      · subst e; exact hc
      · exact searchFrom_none g base fuel (k + 1) h j (by omega) (by omega)
    · cases h

/-- with fuel exceeding the number of names in use the search finds a free candidate
    (pigeonhole: the candidates are pairwise different, also after case folding) -/
theorem searchFrom_total (g : Gen) (base : List Char) (k fuel : Nat) (hf : g.existing.length < fuel) :
    ∃ r, searchFrom g base fuel k = some r := by
  cases hs : searchFrom g base fuel k with
  | some r => exact ⟨r, rfl⟩
  | none =>
    exfalso
    have hall := searchFrom_none g base fuel k hs
    let cands := (List.range fuel).map (fun i => g.norm (numbered base (k + i)))
    have hnd : cands.Nodup := by
      show List.Pairwise (· ≠ ·) _
      rw [List.pairwise_map]
      have hr : (List.range fuel).Pairwise (· ≠ ·) := List.nodup_range
      apply hr.imp
      intro a b hab heq
      have := norm_numbered_inj g base heq
      omega
    have hsub : cands ⊆ g.existing := by
      intro x hx
      simp only [cands, List.mem_map, List.mem_range] at hx
      obtain ⟨i, hi, he⟩ := hx
      have := hall (k + i) (by omega) (by omega)
      simp only [Gen.conflicting, List.contains_iff_mem] at this
      rw [← he]; exact this
    have := List.Nodup.length_le_of_subset hnd hsub
    simp [cands] at this
    omega

/-- the generator never fails ("could not find a non-conflicting name" is unreachable) -/
theorem gen_total (g : Gen) (b : List Char) : ∃ r, g.call b = some r := by
  unfold Gen.call
  simp only
  have key : ∀ base k, ∃ r, searchFrom g base (g.existing.length + 2) k = some r :=
    fun base k => searchFrom_total g base k _ (by omega)
  split
  · rename_i c _
    obtain ⟨r, hr⟩ := key (g.forcedPrefix ++ b) c
    rw [hr]; exact ⟨_, rfl⟩
  · split
    · rename_i bb c _
      obtain ⟨r, hr⟩ := key bb c
      rw [hr]; exact ⟨_, rfl⟩
    · split
      · obtain ⟨r, hr⟩ := key (g.forcedPrefix ++ b) 0
        rw [hr]; exact ⟨_, rfl⟩
      · exact ⟨_, rfl⟩

end Dagrt.Names

namespace Dagrt.Names

/-! ### shape of generated names -/

theorem mem_takeWhile_prop {α} (p : α → Bool) : ∀ (l : List α) (x : α), x ∈ l.takeWhile p → p x = true
  | [], _, h => by simp at h
  | a :: as, x, h => by
    simp only [List.takeWhile] at h
    split at h
    · rename_i hp
      simp at h
      rcases h with e | h
      · subst e; exact hp
      · exact mem_takeWhile_prop p as x h
    · simp at h

theorem counterMatch_shape {s base : List Char} {c : Nat} (h : counterMatch s = some (base, c)) :
    ∃ ds, s = base ++ '_' :: ds ∧ (∀ x ∈ ds, isAsciiDigit x = true) ∧ ∀ x ∈ base, identChar x = true := by
  unfold counterMatch at h
  simp only at h
  split at h
  · rename_i baseRev hrest
    split at h
    · rename_i hcond
      simp only [Option.some.injEq, Prod.mk.injEq] at h
      obtain ⟨hb, _⟩ := h
      refine ⟨(s.reverse.takeWhile isAsciiDigit).reverse, ?_, ?_, ?_⟩
      · have := List.takeWhile_append_dropWhile (p := isAsciiDigit) (l := s.reverse)
        rw [hrest] at this
        have h2 := congrArg List.reverse this
        simp only [List.reverse_append, List.reverse_cons, List.reverse_reverse] at h2
        rw [← hb]
        have h3 : baseRev.reverse ++ '_' :: (List.takeWhile isAsciiDigit s.reverse).reverse = s := by
          simpa using h2
        exact h3.symm
      · intro x hx
        simp only [List.mem_reverse] at hx
        exact mem_takeWhile_prop isAsciiDigit _ x hx
      · intro x hx
        rw [← hb] at hx
        simp only [List.mem_reverse] at hx
        exact List.all_eq_true.mp hcond.2.2 x hx
    · cases h
  · cases h

theorem searchFrom_shape (g : Gen) (base : List Char) : ∀ (fuel k k' : Nat) (nm : List Char),
    searchFrom g base fuel k = some (k', nm) → ∃ j, nm = numbered base j :=
  fun fuel k k' nm h => (searchFrom_free g base fuel k k' nm h).2

/-- a generated name is the prefixed seed itself, or a numbered candidate built on the prefixed
    seed or on its part before a trailing `_<digits>` -/
theorem call_shape (g g' : Gen) (b nm : List Char) (h : g.call b = some (g', nm)) :
    nm = g.forcedPrefix ++ b ∨
    (∃ j, nm = numbered (g.forcedPrefix ++ b) j) ∨
    (∃ base c j, counterMatch (g.forcedPrefix ++ b) = some (base, c) ∧ nm = numbered base j) := by
  unfold Gen.call at h
  simp only at h
  have fin : ∀ (bb : List Char) (r : Option (Nat × List Char)),
      (match r with
        | none => none
        | some (k, nm') => some ({ g with counters := setCounter g.counters bb k }.addName nm', nm')) = some (g', nm) →
      ∃ k, r = some (k, nm) := by
    intro bb r hr
    cases r with
    | none => simp at hr
    | some p => obtain ⟨k, nm'⟩ := p; simp at hr; exact ⟨k, by rw [hr.2]⟩
  split at h
  · obtain ⟨k, hk⟩ := fin _ _ h
    exact Or.inr (Or.inl (searchFrom_shape g _ _ _ k nm hk))
  · split at h
    · rename_i bb c hm
      obtain ⟨k, hk⟩ := fin _ _ h
      obtain ⟨j, hj⟩ := searchFrom_shape g _ _ _ k nm hk
      exact Or.inr (Or.inr ⟨bb, c, j, hm, hj⟩)
    · split at h
      · obtain ⟨k, hk⟩ := fin _ _ h
        exact Or.inr (Or.inl (searchFrom_shape g _ _ _ k nm hk))
      · simp only [Option.some.injEq, Prod.mk.injEq] at h
        exact Or.inl h.2.symm

theorem digits_identChar (k : Nat) : ∀ c ∈ (toString k).toList, identChar c = true := by
  intro c hc
  rw [toString_toList] at hc
  have := Nat.isDigit_of_mem_toDigits (by decide) (by decide) hc
  simp only [Char.isDigit, Bool.and_eq_true, decide_eq_true_eq] at this
  simp only [identChar, isAsciiDigit, Bool.or_eq_true, Bool.and_eq_true, decide_eq_true_eq]
  right; exact this

/-- Python local names: `local` followed by identifier characters only -/
theorem py_local_shape (g g' : Gen) (x : List Char) (nm : List Char)
    (hp : g.forcedPrefix = "local".toList) (h : g.call (makeIdentifier x) = some (g', nm)) :
    ∃ rest, nm = "local".toList ++ rest ∧ ∀ c ∈ rest, identChar c = true := by
  have hid := makeIdentifier_chars x
  rcases call_shape g g' _ nm h with h1 | ⟨j, h1⟩ | ⟨base, c, j, hm, h1⟩
  · exact ⟨makeIdentifier x, by rw [h1, hp], hid⟩
  · refine ⟨makeIdentifier x ++ '_' :: (toString j).toList, by rw [h1, hp]; simp [numbered], ?_⟩
    intro c hc; simp at hc
    rcases hc with h' | h' | h'
    · exact hid c h'
    · subst h'; decide
    · exact digits_identChar j c (by rw [toString_toList]; exact h')
  · obtain ⟨ds, hs, _, hbase⟩ := counterMatch_shape hm
    rw [hp] at hs
    -- "local" ++ ident = base ++ '_' :: ds, and "local" has no underscore: base = "local" ++ a'
    rcases List.append_eq_append_iff.mp hs with ⟨a', hb, _⟩ | ⟨c', hl, hc'⟩
    · refine ⟨a' ++ '_' :: (toString j).toList, by rw [h1, hb]; simp [numbered], ?_⟩
      intro ch hch; simp at hch
      rcases hch with h' | h' | h'
      · exact hbase ch (by rw [hb]; simp [h'])
      · subst h'; decide
      · exact digits_identChar j ch (by rw [toString_toList]; exact h')
    · cases c' with
      | nil =>
        simp at hl
        refine ⟨'_' :: (toString j).toList, by rw [h1, ← hl]; simp [numbered], ?_⟩
        intro ch hch; simp at hch
        rcases hch with h' | h'
        · subst h'; decide
        · exact digits_identChar j ch (by rw [toString_toList]; exact h')
      | cons y ys =>
        exfalso
        simp at hc'
        have hy : y = '_' := hc'.1.symm
        subst hy
        have : '_' ∈ "local".toList := by rw [hl]; simp
        revert this; decide

/-- no Python keyword starts with `local`, and none contains an underscore -/
def pyKeywords : List String := ["False", "None", "True", "and", "as", "assert", "async", "await", "break",
  "class", "continue", "def", "del", "elif", "else", "except", "finally", "for", "from", "global", "if",
  "import", "in", "is", "lambda", "nonlocal", "not", "or", "pass", "raise", "return", "try", "while", "with", "yield"]

theorem keyword_not_local : ∀ kw ∈ pyKeywords, ("local".toList.isPrefixOf kw.toList) = false := by decide
theorem keyword_no_underscore : ∀ kw ∈ pyKeywords, kw.toList.contains '_' = false := by decide

end Dagrt.Names
