import Dagrt.Model.RtKinds
import Dagrt.Proofs.Unify
set_option linter.unusedVariables false
set_option linter.unusedSimpArgs false
namespace Dagrt.Kinds
open Dagrt

/-- int is neutral for the arithmetic combination as far as `compat` is concerned -/
theorem compat_int_arith (b : Rt) (kb : Kind) (h : compat b kb = true) (hb : kb ≠ .boolean) :
    compat (Rt.int.arith b) kb = true := by
  cases b <;> cases kb <;> simp_all [compat, Rt.arith]

/-- the unification of two known kinds, as a table -/
theorem unifyK_cases (ka kb k : Kind) (hu : unifyK ka kb = .ok k) :
    (ka = .integer ∧ k = kb ∧ kb ≠ .boolean) ∨ (kb = .integer ∧ k = ka ∧ ka ≠ .boolean) ∨
    (∃ r r', ka = .scalar r ∧ kb = .scalar r' ∧ k = .scalar (r && r')) ∨
    (∃ r r', ka = .scalar r ∧ kb = .array r' ∧ k = .array (r && r')) ∨
    (∃ r r', ka = .array r ∧ kb = .scalar r' ∧ k = .array (r && r')) ∨
    (∃ r r', ka = .array r ∧ kb = .array r' ∧ k = .array (r && r')) ∨
    (∃ r i, ka = .scalar r ∧ kb = .user i ∧ k = .user i) ∨
    (∃ r i, ka = .user i ∧ kb = .scalar r ∧ k = .user i) ∨
    (∃ i, ka = .user i ∧ kb = .user i ∧ k = .user i) := by
  cases ka <;> cases kb
  case user.user i j =>
    simp only [unifyK, unify] at hu
    by_cases hij : i = j
    · subst hij; simp at hu; subst hu; simp
    · simp [hij] at hu
  all_goals
    (simp only [unifyK, unify] at hu <;>
     (try (split at hu)) <;> (try (split at hu)) <;> (try (cases hu)) <;> (try (simp_all; done)) <;> simp)

/-- combining two values is compatible with the unification of their kinds -/
theorem compat_arith (a b : Rt) (ka kb k : Kind) (ha : compat a ka = true) (hb : compat b kb = true)
    (hu : unifyK ka kb = .ok k) : compat (a.arith b) k = true := by
  rcases unifyK_cases ka kb k hu with ⟨h1, h2, h3⟩ | ⟨h1, h2, h3⟩ | ⟨r, r', h1, h2, h3⟩ | ⟨r, r', h1, h2, h3⟩ |
      ⟨r, r', h1, h2, h3⟩ | ⟨r, r', h1, h2, h3⟩ | ⟨r, i, h1, h2, h3⟩ | ⟨r, i, h1, h2, h3⟩ | ⟨i, h1, h2, h3⟩
  · subst h1; subst h2
    cases a <;> simp [compat] at ha
    cases b <;> cases k <;> simp_all [compat, Rt.arith]
  · subst h1; subst h2
    cases b <;> simp [compat] at hb
    cases a <;> cases k <;> simp_all [compat, Rt.arith]
  · subst h1; subst h2; subst h3
    cases a <;> cases b <;> simp_all [compat, Rt.arith]
  · subst h1; subst h2; subst h3
    cases a <;> cases b <;> simp_all [compat, Rt.arith] <;> (cases r <;> cases r' <;> simp_all)
  · subst h1; subst h2; subst h3
    cases a <;> cases b <;> simp_all [compat, Rt.arith] <;> (cases r <;> cases r' <;> simp_all)
  · subst h1; subst h2; subst h3
    cases a <;> cases b <;> simp_all [compat, Rt.arith] <;> (cases r <;> cases r' <;> simp_all)
  · subst h1; subst h2; subst h3
    cases a <;> cases b <;> simp_all [compat, Rt.arith]
  · subst h1; subst h2; subst h3
    cases a <;> cases b <;> simp_all [compat, Rt.arith]
  · subst h1; subst h2; subst h3
    cases a <;> cases b <;> simp_all [compat, Rt.arith]

/-- a kind higher in the information order accepts the same values -/
theorem compat_mono (v : Rt) (k k' : Kind) (hc : compat v k = true) (hle : unifyK k k' = .ok k') :
    compat v k' = true := by
  rcases unifyK_cases k k' k' hle with ⟨h1, h2, h3⟩ | ⟨h1, h2, h3⟩ | ⟨r, r', h1, h2, h3⟩ | ⟨r, r', h1, h2, h3⟩ |
      ⟨r, r', h1, h2, h3⟩ | ⟨r, r', h1, h2, h3⟩ | ⟨r, i, h1, h2, h3⟩ | ⟨r, i, h1, h2, h3⟩ | ⟨i, h1, h2, h3⟩
  · subst h1
    cases v <;> simp [compat] at hc
    cases k' <;> simp_all [compat]
  · subst h1; subst h2; exact hc
  · subst h1; rw [h2] at h3 ⊢; simp at h3
    cases v <;> simp_all [compat] <;> (cases r <;> cases r' <;> simp_all)
  · subst h1; rw [h2] at h3 ⊢; simp at h3
    cases v <;> simp_all [compat] <;> (cases r <;> cases r' <;> simp_all)
  · subst h1; rw [h2] at h3; cases h3
  · subst h1; rw [h2] at h3 ⊢; simp at h3
    cases v <;> simp_all [compat] <;> (cases r <;> cases r' <;> simp_all)
  · subst h1; rw [h2]
    cases v <;> simp_all [compat]
  · subst h1; rw [h2] at h3; cases h3
  · subst h1; rw [h2]; exact hc

end Dagrt.Kinds

namespace Dagrt.Kinds
open Dagrt

/-! ### soundness of the per-operator kind rules -/

def isOk {α} : Except KErr α → Bool | .ok _ => true | .error _ => false

/-! "well-typed at run time and fully inferred": every sub-expression the mapper looks at gets a
    kind, nothing raises at run time, and a quotient is not of integer kind (Python's true division
    of two ints is a float — a recorded finding) -/
mutual
def good (chk : Bool) (reg : Registry) (t : Table) (ph : Name) (F : RtFuns) (ρ : Name → Rt) : Expr → Bool
  | .const (.int _) => true
  | .const (.float _) => true
  | .const (.cplx _) => true
  | .const (.bool _) => true
  | .const _ => false      -- `None`, strings are given the kind Scalar(real) by `map_constant`
  | .var _ => true
  | .sum cs => goodL chk reg t ph F ρ cs && rtEval F ρ (.sum cs) != .err
  | .prod cs => goodL chk reg t ph F ρ cs && rtEval F ρ (.prod cs) != .err
  | .quot a b => good chk reg t ph F ρ a && good chk reg t ph F ρ b && rtEval F ρ (.quot a b) != .err &&
      !(rtEval F ρ a == .int && rtEval F ρ b == .int && infer chk reg t ph (.quot a b) == .ok .integer)
  | .pow a b => good chk reg t ph F ρ a && good chk reg t ph F ρ b && rtEval F ρ (.pow a b) != .err
  | .call _ args kw => goodA chk reg t ph F ρ args && goodK chk reg t ph F ρ kw
  | .sub a _ => good chk reg t ph F ρ a && rtEval F ρ (.sub a (.const .none)) != .err
  | .cmp o a b => rtEval F ρ (.cmp o a b) != .err
  | .min cs => rtEval F ρ (.min cs) != .err
  | .max cs => rtEval F ρ (.max cs) != .err
  | _ => true
def goodL (chk : Bool) (reg : Registry) (t : Table) (ph : Name) (F : RtFuns) (ρ : Name → Rt) : List Expr → Bool
  | [] => true
  | c :: cs => good chk reg t ph F ρ c && (chk || isOk (infer chk reg t ph c)) && goodL chk reg t ph F ρ cs
def goodA (chk : Bool) (reg : Registry) (t : Table) (ph : Name) (F : RtFuns) (ρ : Name → Rt) : List Expr → Bool
  | [] => true
  | c :: cs => good chk reg t ph F ρ c && goodA chk reg t ph F ρ cs
def goodK (chk : Bool) (reg : Registry) (t : Table) (ph : Name) (F : RtFuns) (ρ : Name → Rt) : List (Name × Expr) → Bool
  | [] => true
  | (_, c) :: cs => good chk reg t ph F ρ c && goodK chk reg t ph F ρ cs
end

/-- the table describes the current values -/
def TableCompat (t : Table) (ph : Name) (ρ : Name → Rt) : Prop :=
  ∀ x k, lookupVar t ph x = some k → compat (ρ x) k = true

def ArgsCompat : List Rt → List (Option Kind) → Prop
  | [], [] => True
  | r :: rs, k :: ks => (∀ k', k = some k' → compat r k' = true) ∧ ArgsCompat rs ks
  | _, _ => False

def KwCompat : List (Name × Rt) → List (Name × Option Kind) → Prop
  | [], [] => True
  | (n, r) :: rs, (m, k) :: ks => n = m ∧ (∀ k', k = some k' → compat r k' = true) ∧ KwCompat rs ks
  | _, _ => False

def OutCompat : List Rt → List Kind → Prop
  | [], [] => True
  | r :: rs, k :: ks => compat r k = true ∧ OutCompat rs ks
  | _, _ => False

/-- the declared result kinds of every registered function describe what it returns -/
def RegSound (reg : Registry) (F : RtFuns) : Prop :=
  ∀ f fn chk rs ks rkw kkw out, reg f = some fn → ArgsCompat rs ks → KwCompat rkw kkw → fn chk ks kkw = .ok out →
    OutCompat (F f rs rkw) out

/-- accumulated value vs. accumulated kind in the sum / product loops (`None` ↔ the int start value) -/
def CompatAcc (r : Rt) : Option Kind → Prop
  | none => r = .int
  | some k => compat r k = true

theorem rtFold_err (F : RtFuns) (ρ : Name → Rt) : ∀ cs, rtFold F ρ .err cs = .err
  | [] => rfl
  | c :: cs => by simp only [rtFold]; have : Rt.err.arith (rtEval F ρ c) = .err := by cases rtEval F ρ c <;> rfl
                  rw [this]; exact rtFold_err F ρ cs

theorem ord_compat (a b : Rt) (h : a.ord b ≠ .err) : compat (a.ord b) (.scalar true) = true := by
  cases a <;> cases b <;> simp_all [Rt.ord, compat]

end Dagrt.Kinds

namespace Dagrt.Kinds
open Dagrt

theorem arith_err_left (b : Rt) : Rt.err.arith b = .err := by cases b <;> rfl

theorem arith_eq_int (a b : Rt) (h : a.arith b = .int) : a = .int ∧ b = .int := by
  cases a <;> cases b <;> simp [Rt.arith] at h ⊢
  split at h <;> cases h

mutual
theorem infer_sound (chk : Bool) (reg : Registry) (t : Table) (ph : Name) (F : RtFuns) (ρ : Name → Rt)
    (hT : TableCompat t ph ρ) (hR : RegSound reg F) :
    ∀ (e : Expr) (k : Kind), good chk reg t ph F ρ e = true → infer chk reg t ph e = .ok k →
      compat (rtEval F ρ e) k = true
  | .const c, k, _, h => by
    cases c <;> simp [good] at * <;> simp [infer] at h <;> subst h <;> simp [rtEval, compat]
  | .var x, k, _, h => by
    simp only [infer] at h
    split at h
    · rename_i k' hl; simp at h; subst h; simp only [rtEval]; exact hT x k' hl
    · cases h
  | .sum cs, k, hg, h => by
    simp only [good, Bool.and_eq_true, bne_iff_ne, ne_eq] at hg
    simp only [infer] at h
    split at h
    · cases h
    · cases h
    · rename_i k' hs
      simp at h; subst h
      have := inferSum_sound chk reg t ph F ρ hT hR cs none .int (some k') hg.1 hs (Or.inl rfl)
      simp only [rtEval]
      rcases this with h1 | h1
      · exact h1
      · exact absurd h1 hg.2
  | .prod cs, k, hg, h => by
    simp only [good, Bool.and_eq_true, bne_iff_ne, ne_eq] at hg
    simp only [infer] at h
    split at h
    · cases h
    · cases h
    · rename_i k' hs
      simp at h; subst h
      have := inferProd_sound chk reg t ph F ρ hT hR cs none .int (some k') hg.1 hs (Or.inl rfl)
      simp only [rtEval]
      rcases this with h1 | h1
      · exact h1
      · exact absurd h1 hg.2
  | .quot a b, k, hg, h => by
    simp only [good, Bool.and_eq_true, bne_iff_ne, ne_eq, Bool.not_eq_true'] at hg
    obtain ⟨⟨⟨ga, gb⟩, hne⟩, hq⟩ := hg
    simp only [infer, bind, Except.bind] at h
    cases ha : infer chk reg t ph a with
    | error e => simp [ha] at h
    | ok ka =>
      cases hb : infer chk reg t ph b with
      | error e => simp [ha, hb] at h
      | ok kb =>
        simp only [ha, hb] at h
        have ca := infer_sound chk reg t ph F ρ hT hR a ka ga ha
        have cb := infer_sound chk reg t ph F ρ hT hR b kb gb hb
        have car := compat_arith _ _ ka kb k ca cb h
        simp only [rtEval, Rt.div] at hne ⊢
        -- true division turns int into real
        cases hr : (rtEval F ρ a).arith (rtEval F ρ b) with
        | int =>
          simp only [hr] at car ⊢
          -- both operands are ints; the kind is not Integer by `good`
          have hab : rtEval F ρ a = .int ∧ rtEval F ρ b = .int := arith_eq_int _ _ hr
          have hk : k ≠ .integer := by
            intro hk; subst hk
            simp only [infer, bind, Except.bind, ha, hb, h] at hq
            simp [hab.1, hab.2] at hq
          cases k <;> simp_all [compat]
        | _ => simp only [hr] at car ⊢; exact car
  | .pow a b, k, hg, h => by
    simp only [good, Bool.and_eq_true, bne_iff_ne, ne_eq] at hg
    obtain ⟨⟨ga, gb⟩, hne⟩ := hg
    have h' : (do let ka ← infer chk reg t ph a; let kb ← infer chk reg t ph b; unifyK ka kb) = Except.ok k := by
      simp only [infer] at h
      cases chk with
      | false => simpa using h
      | true =>
        simp only [if_true, bind, Except.bind] at h
        cases hb : infer true reg t ph b with
        | error e => simp [hb] at h
        | ok kb =>
          simp only [hb] at h
          cases kb <;> simp_all [pure, Except.pure, throw, throwThe, MonadExceptOf.throw, bind, Except.bind]
    simp only [bind, Except.bind] at h'
    cases ha : infer chk reg t ph a with
    | error e => simp [ha] at h'
    | ok ka =>
      cases hb : infer chk reg t ph b with
      | error e => simp [ha, hb] at h'
      | ok kb =>
        simp only [ha, hb] at h'
        have ca := infer_sound chk reg t ph F ρ hT hR a ka ga ha
        have cb := infer_sound chk reg t ph F ρ hT hR b kb gb hb
        simp only [rtEval]
        exact compat_arith _ _ ka kb k ca cb h'
  | .call f args kw, k, hg, h => by
    simp only [good, Bool.and_eq_true] at hg
    simp only [infer] at h
    cases hf : reg f with
    | none => simp [hf] at h
    | some fn =>
      simp only [hf, bind, Except.bind] at h
      cases hia : inferArgs chk reg t ph args with
      | error e => simp [hia] at h
      | ok ak =>
        cases hik : inferKw chk reg t ph kw with
        | error e => simp [hia, hik] at h
        | ok kk =>
          simp only [hia, hik] at h
          have a1 := inferArgs_sound chk reg t ph F ρ hT hR args ak hg.1 hia
          have a2 := inferKw_sound chk reg t ph F ρ hT hR kw kk hg.2 hik
          cases hfn : fn chk ak kk with
          | error e => simp [hfn] at h
          | ok out =>
            simp only [hfn] at h
            have ho := hR f fn chk _ _ _ _ out hf a1 a2 hfn
            cases out with
            | nil => simp at h
            | cons k1 ks =>
              cases ks with
              | cons _ _ => simp at h
              | nil =>
                simp at h; subst h
                simp only [rtEval]
                cases hF : F f (rtEvalL F ρ args) (rtEvalK F ρ kw) with
                | nil => rw [hF] at ho; simp [OutCompat] at ho
                | cons r rs =>
                  rw [hF] at ho
                  cases rs with
                  | nil => simp only [OutCompat] at ho; exact ho.1
                  | cons _ _ => simp [OutCompat] at ho
  | .sub a i, k, hg, h => by
    simp only [good, Bool.and_eq_true, bne_iff_ne, ne_eq] at hg
    simp only [infer, bind, Except.bind] at h
    cases ha : infer chk reg t ph a with
    | error e => simp [ha] at h
    | ok ka =>
      simp only [ha] at h
      have ca := infer_sound chk reg t ph F ρ hT hR a ka hg.1 ha
      have hne := hg.2
      simp only [rtEval] at hne ⊢
      cases hr : rtEval F ρ a with
      | arr c =>
        rw [hr] at ca
        cases ka with
        | array r =>
          simp [isRealValued] at h; subst h
          cases c <;> cases r <;> simp_all [compat]
        | scalar r => simp [compat] at ca
        | boolean => simp [compat] at ca
        | integer => simp [compat] at ca
        | user i => simp [compat] at ca
      | _ => simp [hr] at hne
  | .attr a n, k, _, h => by simp [infer] at h
  | .cmp o a b, k, hg, h => by
    simp only [good, bne_iff_ne, ne_eq] at hg
    simp [infer] at h; subst h
    simp only [rtEval] at hg ⊢
    split <;> simp_all [compat]
  | .lnot a, k, _, h => by
    have hk : k = .boolean := by
      simp only [infer, bind, Except.bind] at h
      split at h
      · cases h
      · split at h
        · simp [throw, throwThe, MonadExceptOf.throw] at h
        · simpa using h.symm
    subst hk; simp [rtEval, compat]
  | .land cs, k, _, h => by
    simp only [infer, bind, Except.bind] at h
    split at h
    · cases h
    · simp at h; subst h; simp [rtEval, compat]
  | .lor cs, k, _, h => by
    simp only [infer, bind, Except.bind] at h
    split at h
    · cases h
    · simp at h; subst h; simp [rtEval, compat]
  | .ite c a b, k, _, h => by simp [infer] at h
  | .min cs, k, hg, h => by
    simp only [good, bne_iff_ne, ne_eq] at hg
    simp [infer] at h; subst h
    simp only [rtEval] at hg ⊢
    cases cs with
    | nil => simp [rtFold1] at hg
    | cons c cs' =>
      cases cs' with
      | nil => simp only [rtFold1] at hg ⊢; exact ord_compat _ _ hg
      | cons d ds => simp only [rtFold1] at hg ⊢; exact ord_compat _ _ hg
  | .max cs, k, hg, h => by
    simp only [good, bne_iff_ne, ne_eq] at hg
    simp [infer] at h; subst h
    simp only [rtEval] at hg ⊢
    cases cs with
    | nil => simp [rtFold1] at hg
    | cons c cs' =>
      cases cs' with
      | nil => simp only [rtFold1] at hg ⊢; exact ord_compat _ _ hg
      | cons d ds => simp only [rtFold1] at hg ⊢; exact ord_compat _ _ hg
theorem inferSum_sound (chk : Bool) (reg : Registry) (t : Table) (ph : Name) (F : RtFuns) (ρ : Name → Rt)
    (hT : TableCompat t ph ρ) (hR : RegSound reg F) :
    ∀ (cs : List Expr) (acc : Option Kind) (r : Rt) (res : Option Kind), goodL chk reg t ph F ρ cs = true →
      inferSum chk reg t ph cs acc = .ok res → (CompatAcc r acc ∨ r = .err) →
      (CompatAcc (rtFold F ρ r cs) res ∨ rtFold F ρ r cs = .err)
  | [], acc, r, res, _, h, hc => by
    simp [inferSum] at h; subst h; simpa [rtFold] using hc
  | c :: cs, acc, r, res, hg, h, hc => by
    simp only [goodL, Bool.and_eq_true] at hg
    obtain ⟨⟨gc, hok⟩, gcs⟩ := hg
    simp only [inferSum] at h
    cases hi : infer chk reg t ph c with
    | error e =>
      cases chk with
      | false => simp [hi, isOk] at hok
      | true =>
        simp only [hi] at h
        split at h
        · simp at h
        · cases h
        · rename_i heq; cases heq
    | ok kc =>
      simp only [hi] at h
      have cc := infer_sound chk reg t ph F ρ hT hR c kc gc hi
      cases hu : unify acc (some kc) with
      | error e => simp [hu] at h
      | ok acc' =>
        simp only [hu] at h
        simp only [rtFold]
        apply inferSum_sound chk reg t ph F ρ hT hR cs acc' _ res gcs h
        rcases hc with hc | hc
        · cases acc with
          | none =>
            simp only [CompatAcc] at hc; subst hc
            simp at hu; subst hu
            by_cases hb : kc = .boolean
            · right; subst hb; cases hrc : rtEval F ρ c <;> simp_all [compat, Rt.arith]
            · left; exact compat_int_arith _ kc cc hb
          | some ka =>
            simp only [CompatAcc] at hc
            cases acc' with
            | none => have := unify_some_isSome ka kc none hu; simp at this
            | some k' =>
              left
              apply compat_arith _ _ ka kc k' hc cc
              simp [unifyK, hu]
        · right; subst hc; exact arith_err_left _
theorem inferProd_sound (chk : Bool) (reg : Registry) (t : Table) (ph : Name) (F : RtFuns) (ρ : Name → Rt)
    (hT : TableCompat t ph ρ) (hR : RegSound reg F) :
    ∀ (cs : List Expr) (acc : Option Kind) (r : Rt) (res : Option Kind), goodL chk reg t ph F ρ cs = true →
      inferProd chk reg t ph cs acc = .ok res → (CompatAcc r acc ∨ r = .err) →
      (CompatAcc (rtFold F ρ r cs) res ∨ rtFold F ρ r cs = .err)
  | [], acc, r, res, _, h, hc => by
    simp [inferProd] at h; subst h; simpa [rtFold] using hc
  | c :: cs, acc, r, res, hg, h, hc => by
    simp only [goodL, Bool.and_eq_true] at hg
    obtain ⟨⟨gc, hok⟩, gcs⟩ := hg
    simp only [inferProd] at h
    cases hi : infer chk reg t ph c with
    | error e => simp [hi] at h
    | ok kc =>
      simp only [hi] at h
      have cc := infer_sound chk reg t ph F ρ hT hR c kc gc hi
      cases hu : unify acc (some kc) with
      | error e => simp [hu] at h
      | ok acc' =>
        simp only [hu] at h
        simp only [rtFold]
        apply inferProd_sound chk reg t ph F ρ hT hR cs acc' _ res gcs h
        rcases hc with hc | hc
        · cases acc with
          | none =>
            simp only [CompatAcc] at hc; subst hc
            simp at hu; subst hu
            by_cases hb : kc = .boolean
            · right; subst hb; cases hrc : rtEval F ρ c <;> simp_all [compat, Rt.arith]
            · left; exact compat_int_arith _ kc cc hb
          | some ka =>
            simp only [CompatAcc] at hc
            cases acc' with
            | none => have := unify_some_isSome ka kc none hu; simp at this
            | some k' =>
              left
              apply compat_arith _ _ ka kc k' hc cc
              simp [unifyK, hu]
        · right; subst hc; exact arith_err_left _
theorem inferArgs_sound (chk : Bool) (reg : Registry) (t : Table) (ph : Name) (F : RtFuns) (ρ : Name → Rt)
    (hT : TableCompat t ph ρ) (hR : RegSound reg F) :
    ∀ (cs : List Expr) (ks : List (Option Kind)), goodA chk reg t ph F ρ cs = true →
      inferArgs chk reg t ph cs = .ok ks → ArgsCompat (rtEvalL F ρ cs) ks
  | [], ks, _, h => by simp [inferArgs] at h; subst h; simp [rtEvalL, ArgsCompat]
  | c :: cs, ks, hg, h => by
    simp only [goodA, Bool.and_eq_true] at hg
    obtain ⟨gc, gcs⟩ := hg
    simp only [inferArgs] at h
    cases hr : inferArgs chk reg t ph cs with
    | error e =>
      simp only [hr, bind, Except.bind] at h
      split at h <;> simp at h
    | ok r =>
      have ih := inferArgs_sound chk reg t ph F ρ hT hR cs r gcs hr
      cases hi : infer chk reg t ph c with
      | error e =>
        simp only [hi, hr, bind, Except.bind] at h
        split at h
        · simp at h; subst h
          simp only [rtEvalL, ArgsCompat]
          exact ⟨(fun k' hk' => by cases hk'), ih⟩
        · cases h
        · rename_i heq; cases heq
      | ok kc =>
        simp only [hi, hr, bind, Except.bind] at h
        simp at h; subst h
        simp only [rtEvalL, ArgsCompat]
        refine ⟨?_, ih⟩
        intro k' hk'; simp at hk'; subst hk'
        exact infer_sound chk reg t ph F ρ hT hR c kc gc hi
theorem inferKw_sound (chk : Bool) (reg : Registry) (t : Table) (ph : Name) (F : RtFuns) (ρ : Name → Rt)
    (hT : TableCompat t ph ρ) (hR : RegSound reg F) :
    ∀ (cs : List (Name × Expr)) (ks : List (Name × Option Kind)), goodK chk reg t ph F ρ cs = true →
      inferKw chk reg t ph cs = .ok ks → KwCompat (rtEvalK F ρ cs) ks
  | [], ks, _, h => by simp [inferKw] at h; subst h; simp [rtEvalK, KwCompat]
  | (n, c) :: cs, ks, hg, h => by
    simp only [goodK, Bool.and_eq_true] at hg
    obtain ⟨gc, gcs⟩ := hg
    simp only [inferKw] at h
    cases hr : inferKw chk reg t ph cs with
    | error e =>
      simp only [hr, bind, Except.bind] at h
      split at h <;> simp at h
    | ok r =>
      have ih := inferKw_sound chk reg t ph F ρ hT hR cs r gcs hr
      cases hi : infer chk reg t ph c with
      | error e =>
        simp only [hi, hr, bind, Except.bind] at h
        split at h
        · simp at h; subst h
          simp only [rtEvalK, KwCompat]
          exact ⟨trivial, (fun k' hk' => by cases hk'), ih⟩
        · cases h
        · rename_i heq; cases heq
      | ok kc =>
        simp only [hi, hr, bind, Except.bind] at h
        simp at h; subst h
        simp only [rtEvalK, KwCompat]
        refine ⟨trivial, ?_, ih⟩
        intro k' hk'; simp at hk'; subst hk'
        exact infer_sound chk reg t ph F ρ hT hR c kc gc hi
end

end Dagrt.Kinds
