import Dagrt.Proofs.RenameProofs
import Dagrt.Proofs.StmtProofs
set_option linter.unusedVariables false
set_option linter.unusedSectionVars false
/-!
C16: renaming commutes with execution, relative to a set `S` of names — the renaming only has to be
injective ON `S`, the two stores only have to correspond ON `S`, and the statement's names have to
lie in `S` (what fusion's renaming provides: it is injective on the names in use).
-/
namespace Dagrt.Sem
open Dagrt Dagrt.Fuse

def RelOn (ρ : Name → Name) (S : List Name) (σ σ' : Store) : Prop := ∀ x ∈ S, σ' (ρ x) = σ x

theorem lookupEnv_renOn (ρ : Name → Name) (S : List Name) (hinj : ∀ x ∈ S, ∀ y ∈ S, ρ x = ρ y → x = y)
    (x : Name) (hx : x ∈ S) : ∀ env : List (Name × Int), (∀ p ∈ env, p.1 ∈ S) →
    lookupEnv (renEnv ρ env) (ρ x) = lookupEnv env x
  | [], _ => rfl
  | (k, v) :: r, henv => by
    simp only [renEnv, List.map_cons, lookupEnv]
    have hk : k ∈ S := henv (k, v) List.mem_cons_self
    by_cases h : k = x
    · subst h; simp
    · have : ρ k ≠ ρ x := fun he => h (hinj k hk x hx he)
      simp only [h, this, if_false]
      exact lookupEnv_renOn ρ S hinj x hx r (fun p hp => henv p (List.mem_cons_of_mem _ hp))

section
variable (F : Funs) (ρ : Name → Name) (S : List Name) (hinj : ∀ x ∈ S, ∀ y ∈ S, ρ x = ρ y → x = y)
  (hF : ∀ f vs ks, F (ρ f) vs ks = F f vs ks) (σ σ' : Store) (hrel : RelOn ρ S σ σ')
include hinj hF hrel

mutual
theorem evalI_renOn : ∀ (e : Expr) (env : List (Name × Int)), (∀ x ∈ depVars e, x ∈ S) → (∀ p ∈ env, p.1 ∈ S) →
    (evalI F (renEnv ρ env) σ' (renameExpr ρ e)).1 = (evalI F env σ e).1
  | .const c, env, _, _ => by cases c <;> simp [evalI, renameExpr]
  | .var x, env, hv, henv => by
    have hx : x ∈ S := hv x (by simp [depVars])
    simp only [evalI, renameExpr, lookupEnv_renOn ρ S hinj x hx env henv]
    cases lookupEnv env x with
    | some i => rfl
    | none => simp [Store.get, hrel x hx]
  | .sum cs, env, hv, henv => by
    simp only [evalI, renameExpr]; exact evalFold_renOn Val.add (.int 0) cs env (by simpa [depVars] using hv) henv
  | .prod cs, env, hv, henv => by
    simp only [evalI, renameExpr]; exact evalFold_renOn Val.mul (.int 1) cs env (by simpa [depVars] using hv) henv
  | .quot a b, env, hv, henv => by
    have ha : ∀ x ∈ depVars a, x ∈ S := fun x hx => hv x (by simp [depVars, hx])
    have hb : ∀ x ∈ depVars b, x ∈ S := fun x hx => hv x (by simp [depVars, hx])
    simp only [evalI, renameExpr, evalI_renOn a env ha henv, evalI_renOn b env hb henv]
  | .pow a b, env, hv, henv => by
    have ha : ∀ x ∈ depVars a, x ∈ S := fun x hx => hv x (by simp [depVars, hx])
    have hb : ∀ x ∈ depVars b, x ∈ S := fun x hx => hv x (by simp [depVars, hx])
    simp only [evalI, renameExpr, evalI_renOn a env ha henv, evalI_renOn b env hb henv]
  | .call f args kw, env, hv, henv => by
    have ha : ∀ x ∈ depVarsL args, x ∈ S := fun x hx => hv x (by simp [depVars, hx])
    have hk : ∀ x ∈ depVarsK kw, x ∈ S := fun x hx => hv x (by simp [depVars, hx])
    simp only [evalI, renameExpr, evalArgs_renOn args env ha henv, evalKw_renOn kw env hk henv, hF]
  | .sub a i, env, hv, henv => by
    have ha : ∀ x ∈ depVars a, x ∈ S := fun x hx => hv x (by simp [depVars, hx])
    have hb : ∀ x ∈ depVars i, x ∈ S := fun x hx => hv x (by simp [depVars, hx])
    simp only [evalI, renameExpr, evalI_renOn a env ha henv, evalI_renOn i env hb henv]
  | .attr a n, env, hv, henv => by
    have ha : ∀ x ∈ depVars a, x ∈ S := fun x hx => hv x (by simp [depVars, hx])
    simp only [evalI, renameExpr, evalI_renOn a env ha henv]
  | .cmp o a b, env, hv, henv => by
    have ha : ∀ x ∈ depVars a, x ∈ S := fun x hx => hv x (by simp [depVars, hx])
    have hb : ∀ x ∈ depVars b, x ∈ S := fun x hx => hv x (by simp [depVars, hx])
    simp only [evalI, renameExpr, evalI_renOn a env ha henv, evalI_renOn b env hb henv]
  | .lnot a, env, hv, henv => by
    have ha : ∀ x ∈ depVars a, x ∈ S := fun x hx => hv x (by simp [depVars, hx])
    simp only [evalI, renameExpr, evalI_renOn a env ha henv]
  | .land cs, env, hv, henv => by
    simp only [evalI, renameExpr]; exact evalAll_renOn cs env (by simpa [depVars] using hv) henv
  | .lor cs, env, hv, henv => by
    simp only [evalI, renameExpr]; exact evalAny_renOn cs env (by simpa [depVars] using hv) henv
  | .ite c t e, env, hv, henv => by
    have hc : ∀ x ∈ depVars c, x ∈ S := fun x hx => hv x (by simp [depVars, hx])
    have ht : ∀ x ∈ depVars t, x ∈ S := fun x hx => hv x (by simp [depVars, hx])
    have he : ∀ x ∈ depVars e, x ∈ S := fun x hx => hv x (by simp [depVars, hx])
    simp only [evalI, renameExpr, evalI_renOn c env hc henv]
    cases (evalI F env σ c).1.truthy <;> simp [evalI_renOn t env ht henv, evalI_renOn e env he henv]
  | .min cs, env, hv, henv => by
    simp only [evalI, renameExpr]; exact evalFold1_renOn Val.min2 cs env (by simpa [depVars] using hv) henv
  | .max cs, env, hv, henv => by
    simp only [evalI, renameExpr]; exact evalFold1_renOn Val.max2 cs env (by simpa [depVars] using hv) henv
theorem evalFold_renOn (op : Val → Val → Val) : ∀ (acc : Val) (cs : List Expr) (env : List (Name × Int)),
    (∀ x ∈ depVarsL cs, x ∈ S) → (∀ p ∈ env, p.1 ∈ S) →
    (evalFold F (renEnv ρ env) σ' op acc (renameL ρ cs)).1 = (evalFold F env σ op acc cs).1
  | acc, [], env, _, _ => by simp [evalFold, renameL]
  | acc, c :: cs, env, hv, henv => by
    have hc : ∀ x ∈ depVars c, x ∈ S := fun x hx => hv x (by simp [depVarsL, hx])
    have hcs : ∀ x ∈ depVarsL cs, x ∈ S := fun x hx => hv x (by simp [depVarsL, hx])
    simp only [evalFold, renameL, evalI_renOn c env hc henv]
    exact evalFold_renOn op _ cs env hcs henv
theorem evalFold1_renOn (op : Val → Val → Val) : ∀ (cs : List Expr) (env : List (Name × Int)),
    (∀ x ∈ depVarsL cs, x ∈ S) → (∀ p ∈ env, p.1 ∈ S) →
    (evalFold1 F (renEnv ρ env) σ' op (renameL ρ cs)).1 = (evalFold1 F env σ op cs).1
  | [], env, _, _ => by simp [evalFold1, renameL]
  | [c], env, hv, henv => by
    have hc : ∀ x ∈ depVars c, x ∈ S := fun x hx => hv x (by simp [depVarsL, hx])
    simp only [evalFold1, renameL]; exact evalI_renOn c env hc henv
  | c :: d :: cs, env, hv, henv => by
    have hc : ∀ x ∈ depVars c, x ∈ S := fun x hx => hv x (by simp [depVarsL, hx])
    have hcs : ∀ x ∈ depVarsL (d :: cs), x ∈ S := fun x hx => hv x (by simp [depVarsL] at hx ⊢; exact Or.inr hx)
    simp only [evalFold1, renameL, evalI_renOn c env hc henv]
    have := evalFold1_renOn op (d :: cs) env hcs henv
    simp only [renameL] at this
    rw [this]
theorem evalAll_renOn : ∀ (cs : List Expr) (env : List (Name × Int)),
    (∀ x ∈ depVarsL cs, x ∈ S) → (∀ p ∈ env, p.1 ∈ S) →
    (evalAll F (renEnv ρ env) σ' (renameL ρ cs)).1 = (evalAll F env σ cs).1
  | [], env, _, _ => by simp [evalAll, renameL]
  | c :: cs, env, hv, henv => by
    have hc : ∀ x ∈ depVars c, x ∈ S := fun x hx => hv x (by simp [depVarsL, hx])
    have hcs : ∀ x ∈ depVarsL cs, x ∈ S := fun x hx => hv x (by simp [depVarsL, hx])
    simp only [evalAll, renameL, evalI_renOn c env hc henv]
    cases (evalI F env σ c).1.truthy <;> simp [evalAll_renOn cs env hcs henv]
theorem evalAny_renOn : ∀ (cs : List Expr) (env : List (Name × Int)),
    (∀ x ∈ depVarsL cs, x ∈ S) → (∀ p ∈ env, p.1 ∈ S) →
    (evalAny F (renEnv ρ env) σ' (renameL ρ cs)).1 = (evalAny F env σ cs).1
  | [], env, _, _ => by simp [evalAny, renameL]
  | c :: cs, env, hv, henv => by
    have hc : ∀ x ∈ depVars c, x ∈ S := fun x hx => hv x (by simp [depVarsL, hx])
    have hcs : ∀ x ∈ depVarsL cs, x ∈ S := fun x hx => hv x (by simp [depVarsL, hx])
    simp only [evalAny, renameL, evalI_renOn c env hc henv]
    cases (evalI F env σ c).1.truthy <;> simp [evalAny_renOn cs env hcs henv]
theorem evalArgs_renOn : ∀ (cs : List Expr) (env : List (Name × Int)),
    (∀ x ∈ depVarsL cs, x ∈ S) → (∀ p ∈ env, p.1 ∈ S) →
    (evalArgs F (renEnv ρ env) σ' (renameL ρ cs)).1 = (evalArgs F env σ cs).1
  | [], env, _, _ => by simp [evalArgs, renameL]
  | c :: cs, env, hv, henv => by
    have hc : ∀ x ∈ depVars c, x ∈ S := fun x hx => hv x (by simp [depVarsL, hx])
    have hcs : ∀ x ∈ depVarsL cs, x ∈ S := fun x hx => hv x (by simp [depVarsL, hx])
    simp only [evalArgs, renameL, evalI_renOn c env hc henv, evalArgs_renOn cs env hcs henv]
theorem evalKw_renOn : ∀ (cs : List (Name × Expr)) (env : List (Name × Int)),
    (∀ x ∈ depVarsK cs, x ∈ S) → (∀ p ∈ env, p.1 ∈ S) →
    (evalKw F (renEnv ρ env) σ' (renameK ρ cs)).1 = (evalKw F env σ cs).1
  | [], env, _, _ => by simp [evalKw, renameK]
  | (k, c) :: cs, env, hv, henv => by
    have hc : ∀ x ∈ depVars c, x ∈ S := fun x hx => hv x (by simp [depVarsK, hx])
    have hcs : ∀ x ∈ depVarsK cs, x ∈ S := fun x hx => hv x (by simp [depVarsK, hx])
    simp only [evalKw, renameK, evalI_renOn c env hc henv, evalKw_renOn cs env hcs henv]
end

theorem relOn_set (x : Name) (hx : x ∈ S) (c : Cell) {σ σ' : Store} (h : RelOn ρ S σ σ') :
    RelOn ρ S (σ.set x c) (σ'.set (ρ x) c) := by
  intro y hy
  simp only [Store.set]
  by_cases hyx : y = x
  · subst hyx; simp
  · have : ρ y ≠ ρ x := fun he => hyx (hinj y hy x hx he)
    simp [hyx, this]
    exact h y hy

theorem relOn_get {σ σ' : Store} (h : RelOn ρ S σ σ') (x : Name) (hx : x ∈ S) : σ'.get (ρ x) = σ.get x := by
  simp [Store.get, h x hx]

theorem assignOnce_renOn (env : List (Name × Int)) (lhs : Name) (sub : Option Expr) (rhs : Expr) (a a' : Acc)
    (hl : lhs ∈ S) (hr : ∀ x ∈ depVars rhs, x ∈ S) (hs : ∀ i, sub = some i → ∀ x ∈ depVars i, x ∈ S)
    (henv : ∀ p ∈ env, p.1 ∈ S) (h : RelOn ρ S a.σ a'.σ) :
    RelOn ρ S (assignOnce F env lhs sub rhs a).σ
      (assignOnce F (renEnv ρ env) (ρ lhs) (sub.map (renameExpr ρ)) (renameExpr ρ rhs) a').σ := by
  cases sub with
  | none =>
    simp only [assignOnce, Option.map_none, Acc.write, Acc.read]
    rw [evalI_renOn F ρ S hinj hF a.σ a'.σ h rhs env hr henv]
    exact relOn_set F ρ S hinj hF σ σ' hrel lhs hl _ h
  | some i =>
    simp only [assignOnce, Option.map_some, Acc.write, Acc.read]
    rw [evalI_renOn F ρ S hinj hF a.σ a'.σ h rhs env hr henv,
      evalI_renOn F ρ S hinj hF a.σ a'.σ h i env (hs i rfl) henv,
      relOn_get F ρ S hinj hF σ σ' hrel h lhs hl]
    exact relOn_set F ρ S hinj hF σ σ' hrel lhs hl _ h

/-- the names a loop nest mentions: counters and the variables of the bounds -/
def loopNames : List (Name × Expr × Expr) → List Name
  | [] => []
  | (i, lo, hi) :: r => i :: (depVars lo ++ depVars hi ++ loopNames r)

mutual
theorem runLoops_renOn (lhs : Name) (sub : Option Expr) (rhs : Expr)
    (hl : lhs ∈ S) (hr : ∀ x ∈ depVars rhs, x ∈ S) (hs : ∀ i, sub = some i → ∀ x ∈ depVars i, x ∈ S) :
    ∀ (loops : List (Name × Expr × Expr)) (env : List (Name × Int)) (a a' : Acc),
      (∀ x ∈ loopNames loops, x ∈ S) → (∀ p ∈ env, p.1 ∈ S) → RelOn ρ S a.σ a'.σ →
      RelOn ρ S (runLoops F lhs sub rhs loops env a).σ
        (runLoops F (ρ lhs) (sub.map (renameExpr ρ)) (renameExpr ρ rhs) (renameLoops ρ loops) (renEnv ρ env) a').σ
  | [], env, a, a', _, henv, h => by
    simp only [runLoops, renameLoops]
    exact assignOnce_renOn F ρ S hinj hF σ σ' hrel env lhs sub rhs a a' hl hr hs henv h
  | (i, lo, hi) :: rest, env, a, a', hn, henv, h => by
    have hi' : i ∈ S := hn i (by simp [loopNames])
    have hlo : ∀ x ∈ depVars lo, x ∈ S := fun x hx => hn x (by simp [loopNames, hx])
    have hhi : ∀ x ∈ depVars hi, x ∈ S := fun x hx => hn x (by simp [loopNames, hx])
    have hrest : ∀ x ∈ loopNames rest, x ∈ S := fun x hx => hn x (by simp [loopNames, hx])
    simp only [runLoops, renameLoops]
    rw [evalI_renOn F ρ S hinj hF a.σ a'.σ h lo env hlo henv, evalI_renOn F ρ S hinj hF a.σ a'.σ h hi env hhi henv]
    exact iterate_renOn lhs sub rhs hl hr hs rest env i hi' hrest henv _ _ _ _ (by simpa [Acc.read] using h)
theorem iterate_renOn (lhs : Name) (sub : Option Expr) (rhs : Expr)
    (hl : lhs ∈ S) (hr : ∀ x ∈ depVars rhs, x ∈ S) (hs : ∀ i, sub = some i → ∀ x ∈ depVars i, x ∈ S)
    (rest : List (Name × Expr × Expr)) (env : List (Name × Int)) (i : Name) (hi : i ∈ S)
    (hrest : ∀ x ∈ loopNames rest, x ∈ S) (henv : ∀ p ∈ env, p.1 ∈ S) :
    ∀ (k : Int) (n : Nat) (a a' : Acc), RelOn ρ S a.σ a'.σ →
      RelOn ρ S (iterate F lhs sub rhs rest env i k n a).σ
        (iterate F (ρ lhs) (sub.map (renameExpr ρ)) (renameExpr ρ rhs) (renameLoops ρ rest) (renEnv ρ env) (ρ i) k n a').σ
  | k, 0, a, a', h => by simpa [iterate] using h
  | k, n + 1, a, a', h => by
    simp only [iterate]
    apply iterate_renOn lhs sub rhs hl hr hs rest env i hi hrest henv (k + 1) n
    have := runLoops_renOn lhs sub rhs hl hr hs rest ((i, k) :: env) a a' hrest
      (by intro p hp; simp at hp; rcases hp with rfl | hp; exact hi; exact henv p hp) h
    simpa [renEnv] using this
end

theorem assignResults_renOn : ∀ (xs : List Name) (vs : List Val) (a a' : Acc), (∀ x ∈ xs, x ∈ S) →
    RelOn ρ S a.σ a'.σ → RelOn ρ S (assignResults a xs vs).σ (assignResults a' (xs.map ρ) vs).σ
  | [], _, a, a', _, h => by simpa [assignResults] using h
  | x :: xs, [], a, a', _, h => by simpa [assignResults] using h
  | x :: xs, v :: vs, a, a', hx, h => by
    simp only [assignResults, List.map_cons]
    apply assignResults_renOn xs vs _ _ (fun y hy => hx y (List.mem_cons_of_mem _ hy))
    simp only [Acc.write]
    exact relOn_set F ρ S hinj hF σ σ' hrel x (hx x List.mem_cons_self) _ h
end

/-- every name a statement mentions: guard, right-hand sides, subscripts, assignees, loop counters and
    bounds, call arguments, yielded value and time -/
def stmtNames (s : Stmt) : List Name :=
  depVars s.cond ++
  match s.kind with
  | .assign lhs sub rhs loops =>
    lhs :: (depVars rhs ++ (match sub with | some i => depVars i | none => []) ++ loopNames loops)
  | .callAssign lhs _ args kw => lhs ++ depVarsL args ++ depVarsK kw
  | .yield e t _ _ => depVars e ++ depVars t
  | _ => []

/-- **Renaming commutes with execution, on a set of names**: the renaming is injective on `S`, the
    stores correspond on `S`, the statement's names and the event pseudo-variable lie in `S` -/
theorem exec_renameOn (F : Funs) (ρ : Name → Name) (S : List Name)
    (hinj : ∀ x ∈ S, ∀ y ∈ S, ρ x = ρ y → x = y)
    (hF : ∀ f vs ks, F (ρ f) vs ks = F f vs ks) (hexec : ρ EXEC = EXEC) (hE : EXEC ∈ S) (s : Stmt)
    (hs : ∀ x ∈ stmtNames s, x ∈ S) (σ σ' : Store)
    (h : RelOn ρ S σ σ') : RelOn ρ S (exec F s σ) (exec F (renameStmt ρ s) σ') := by
  have hEx : σ' EXEC = σ EXEC := by have := h EXEC hE; rwa [hexec] at this
  have hst : σ'.status = σ.status := by simp [Store.status, hEx]
  have hlog : σ'.log = σ.log := by simp [Store.log, hEx]
  have hcv : ∀ x ∈ depVars s.cond, x ∈ S := fun x hx => hs x (by simp [stmtNames, hx])
  have henv0 : ∀ p ∈ ([] : List (Name × Int)), p.1 ∈ S := by simp
  unfold exec execI
  rw [hst]
  cases hstat : σ.status <;> try exact h
  simp only
  have hc := evalI_renOn F ρ S hinj hF σ σ' h s.cond [] hcv henv0
  simp only [renEnv, List.map_nil] at hc
  simp only [renameStmt]
  rw [hc]
  cases (evalI F [] σ s.cond).1.truthy
  · simpa [Acc.read] using h
  · simp only [cond_true]
    cases hk : s.kind with
    | assign lhs sub rhs loops =>
      simp only
      have hl : lhs ∈ S := hs lhs (by simp [stmtNames, hk])
      have hr : ∀ x ∈ depVars rhs, x ∈ S := fun x hx => hs x (by simp [stmtNames, hk, hx])
      have hsub : ∀ i, sub = some i → ∀ x ∈ depVars i, x ∈ S := by
        intro i hi x hx; subst hi; exact hs x (by simp [stmtNames, hk, hx])
      have hloops : ∀ x ∈ loopNames loops, x ∈ S := fun x hx => hs x (by simp [stmtNames, hk, hx])
      have := runLoops_renOn F ρ S hinj hF σ σ' h lhs sub rhs hl hr hsub loops []
        (({ σ := σ, reads := [EXEC], writes := [] } : Acc).read (evalI F [] σ s.cond).2)
        (({ σ := σ', reads := [EXEC], writes := [] } : Acc).read (evalI F [] σ' (renameExpr ρ s.cond)).2)
        hloops henv0 (by simpa [Acc.read] using h)
      simpa [renEnv] using this
    | callAssign lhs f args kw =>
      simp only [Acc.read]
      have hargs : ∀ x ∈ depVarsL args, x ∈ S := fun x hx => hs x (by simp [stmtNames, hk, hx])
      have hkw : ∀ x ∈ depVarsK kw, x ∈ S := fun x hx => hs x (by simp [stmtNames, hk, hx])
      have hlhs : ∀ x ∈ lhs, x ∈ S := fun x hx => hs x (by simp [stmtNames, hk, hx])
      have ha := evalArgs_renOn F ρ S hinj hF σ σ' h args [] hargs henv0
      have hk' := evalKw_renOn F ρ S hinj hF σ σ' h kw [] hkw henv0
      simp only [renEnv, List.map_nil] at ha hk'
      rw [ha, hk', hF]
      exact assignResults_renOn F ρ S hinj hF σ σ' h lhs _ _ _ hlhs (by simpa using h)
    | yield e t tid comp =>
      simp only [Acc.read, setExec]
      have he : ∀ x ∈ depVars e, x ∈ S := fun x hx => hs x (by simp [stmtNames, hk, hx])
      have ht : ∀ x ∈ depVars t, x ∈ S := fun x hx => hs x (by simp [stmtNames, hk, hx])
      have h1 := evalI_renOn F ρ S hinj hF σ σ' h t [] ht henv0
      have h2 := evalI_renOn F ρ S hinj hF σ σ' h e [] he henv0
      simp only [renEnv, List.map_nil] at h1 h2
      rw [h1, h2, hlog]
      have := relOn_set F ρ S hinj hF σ σ' h EXEC hE
        (.exec (σ.log ++ [.stateComputed (evalI F [] σ t).1 tid comp (evalI F [] σ e).1]) .running) h
      rwa [hexec] at this
    | raise err =>
      simp only [Acc.read, setExec, hlog]
      have := relOn_set F ρ S hinj hF σ σ' h EXEC hE (.exec σ.log (.raised err)) h
      rwa [hexec] at this
    | fail =>
      simp only [Acc.read, setExec, hlog]
      have := relOn_set F ρ S hinj hF σ σ' h EXEC hE (.exec σ.log .failed) h
      rwa [hexec] at this
    | switch p =>
      simp only [Acc.read, setExec, hlog]
      have := relOn_set F ρ S hinj hF σ σ' h EXEC hE (.exec σ.log (.switched p)) h
      rwa [hexec] at this
    | nop => simpa [Acc.read] using h

end Dagrt.Sem
