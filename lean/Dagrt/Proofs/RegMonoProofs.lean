import Dagrt.Proofs.KindOrderProofs
import Dagrt.Model.Builtins
/-!
The hypothesis `RegMono` of the order-independence theorem (C14), discharged for the registry of the
simple built-ins plus functions with fixed result kinds (`regMono_simple`), and refuted for `matmul`
(`regMono_fails_matmul`).  `resolveArgs_mono`: `dagrt.utils.resolve_args` only looks at positions and
names, so better-known argument kinds resolve the same way.
-/
namespace Dagrt.Kinds

theorem argsLe_refl : ∀ l : List (Option Kind), ArgsLe l l
  | [] => .nil
  | a :: l => .cons (le_refl a) (argsLe_refl l)

theorem ksLe_refl : ∀ l : List Kind, KsLe l l
  | [] => .nil
  | a :: l => .cons (le_refl _) (ksLe_refl l)

theorem kwLookup_mono {kk kk' : List (Name × Option Kind)} (h : KwLe kk kk') (n : Name) :
    (kwLookup kk n = none ∧ kwLookup kk' n = none) ∨
    ∃ v v', kwLookup kk n = some v ∧ kwLookup kk' n = some v' ∧ le v v' := by
  induction h with
  | nil => left; simp [kwLookup]
  | @cons m a b as bs hab _ ih =>
    by_cases hm : m = n
    · right; exact ⟨a, b, by simp [kwLookup, hm], by simp [kwLookup, hm], hab⟩
    · simpa [kwLookup, hm] using ih

theorem kwErase_mono {kk kk' : List (Name × Option Kind)} (h : KwLe kk kk') (n : Name) :
    KwLe (kwErase kk n) (kwErase kk' n) := by
  induction h with
  | nil => exact .nil
  | @cons m a b as bs hab _ ih =>
    unfold kwErase at ih ⊢
    by_cases hm : m = n
    · simpa [List.filter, hm] using ih
    · have : (m != n) = true := by simpa using hm
      simp only [List.filter, this]
      exact .cons hab ih

theorem resolveArgs_mono : ∀ (ns : List Name) (ak ak' : List (Option Kind)) (kk kk' : List (Name × Option Kind))
    (r : List (Option Kind)), ArgsLe ak ak' → KwLe kk kk' → resolveArgs ns ak kk = .ok r →
    ∃ r', resolveArgs ns ak' kk' = .ok r' ∧ ArgsLe r r'
  | [], ak, ak', kk, kk', r, ha, hk, h => by
    cases ha with
    | nil =>
      cases hk with
      | nil => simp only [resolveArgs] at h ⊢; cases h; exact ⟨[], rfl, .nil⟩
      | cons _ _ => simp [resolveArgs] at h
    | cons _ _ => simp [resolveArgs] at h
  | n :: ns, ak, ak', kk, kk', r, ha, hk, h => by
    cases ha with
    | nil =>
      simp only [resolveArgs] at h ⊢
      rcases kwLookup_mono hk n with ⟨h1, h2⟩ | ⟨v, v', h1, h2, hv⟩
      · simp [h1] at h
      · simp only [h1, h2] at h ⊢
        cases hr : resolveArgs ns [] (kwErase kk n) with
        | error e => simp [hr, bind, Except.bind] at h
        | ok r0 =>
          simp only [hr, bind, Except.bind, Except.ok.injEq] at h
          subst h
          obtain ⟨r', hr', hle⟩ := resolveArgs_mono ns [] [] _ _ r0 .nil (kwErase_mono hk n) hr
          exact ⟨v' :: r', by simp [hr', bind, Except.bind], .cons hv hle⟩
    | @cons a b as bs hab has =>
      simp only [resolveArgs] at h ⊢
      rcases kwLookup_mono hk n with ⟨h1, h2⟩ | ⟨v, v', h1, h2, hv⟩
      · simp only [h1, h2] at h ⊢
        cases hr : resolveArgs ns as kk with
        | error e => simp [hr, bind, Except.bind] at h
        | ok r0 =>
          simp only [hr, bind, Except.bind, Except.ok.injEq] at h
          subst h
          obtain ⟨r', hr', hle⟩ := resolveArgs_mono ns as bs kk kk' r0 has hk hr
          exact ⟨b :: r', by simp [hr', bind, Except.bind], .cons hab hle⟩
      · simp [h1] at h

end Dagrt.Kinds

namespace Dagrt.Kinds

theorem bind_mono (names : List Name) (body : List (Option Kind) → Except KErr (List Kind))
    (hb : ∀ r r' ks, ArgsLe r r' → body r = .ok ks → ∃ ks', body r' = .ok ks' ∧ KsLe ks ks')
    (ak ak' : List (Option Kind)) (kk kk' : List (Name × Option Kind)) (ks : List Kind)
    (ha : ArgsLe ak ak') (hk : KwLe kk kk')
    (h : (resolveArgs names ak kk >>= body) = .ok ks) :
    ∃ ks', (resolveArgs names ak' kk' >>= body) = .ok ks' ∧ KsLe ks ks' := by
  cases hr : resolveArgs names ak kk with
  | error e => simp [hr, bind, Except.bind] at h
  | ok r =>
    obtain ⟨r', hr', hle⟩ := resolveArgs_mono names ak ak' kk kk' r ha hk hr
    simp only [hr, bind, Except.bind] at h
    obtain ⟨ks', h', hks⟩ := hb r r' ks hle h
    exact ⟨ks', by simp only [hr', bind, Except.bind]; exact h', hks⟩

theorem le_user {i : Name} {b : Option Kind} (h : le (some (.user i)) b) : b = some (.user i) := by
  rcases h with h | h
  · exact h.symm
  · cases b with
    | none => simp [unify] at h
    | some k => cases k <;> simp [unify] at h <;> (try split at h) <;> simp_all

theorem le_array {r : Bool} {b : Option Kind} (h : le (some (.array r)) b) : ∃ r', b = some (.array r') := by
  rcases h with h | h
  · exact ⟨r, h.symm⟩
  · cases b with
    | none => simp [unify] at h
    | some k => cases k <;> simp [unify] at h <;> exact ⟨_, rfl⟩

theorem le_scalar {r : Bool} {b : Option Kind} (h : le (some (.scalar r)) b) :
    (∃ r', b = some (.scalar r')) ∨ (∃ r', b = some (.array r')) ∨ ∃ j, b = some (.user j) := by
  rcases h with h | h
  · exact Or.inl ⟨r, h.symm⟩
  · cases b with
    | none => simp [unify] at h
    | some k =>
      cases k with
      | boolean => simp [unify] at h
      | integer => simp [unify] at h
      | scalar r' => exact Or.inl ⟨_, rfl⟩
      | array r' => exact Or.inr (Or.inl ⟨_, rfl⟩)
      | user j => exact Or.inr (Or.inr ⟨_, rfl⟩)

end Dagrt.Kinds

namespace Dagrt.Kinds

/-- a body that needs exactly `n` resolved arguments and then answers a constant -/
theorem const1_mono (res : List Kind) (P : Option Kind → Bool) :
    ∀ r r' ks, ArgsLe r r' →
      (match r with | [x] => (do need false (P x); .ok res : Except KErr (List Kind)) | _ => .error .typeError) = .ok ks →
      ∃ ks', (match r' with | [x] => (do need false (P x); .ok res : Except KErr (List Kind)) | _ => .error .typeError) = .ok ks'
        ∧ KsLe ks ks' := by
  intro r r' ks hle h
  cases hle with
  | nil => simp at h
  | cons hab htl =>
    cases htl with
    | nil =>
      simp only [need, Bool.false_and, Bool.false_eq_true, if_false, bind, Except.bind, Except.ok.injEq] at h ⊢
      subst h
      exact ⟨res, rfl, ksLe_refl res⟩
    | cons _ _ => simp at h

theorem const2_mono (res : List Kind) (P Q : Option Kind → Bool) :
    ∀ r r' ks, ArgsLe r r' →
      (match r with | [x, y] => (do need false (P x); need false (Q y); .ok res : Except KErr (List Kind))
                    | _ => .error .typeError) = .ok ks →
      ∃ ks', (match r' with | [x, y] => (do need false (P x); need false (Q y); .ok res : Except KErr (List Kind))
                            | _ => .error .typeError) = .ok ks' ∧ KsLe ks ks' := by
  intro r r' ks hle h
  cases hle with
  | nil => simp at h
  | cons hab htl =>
    cases htl with
    | nil => simp at h
    | cons _ htl2 =>
      cases htl2 with
      | nil =>
        simp only [need, Bool.false_and, Bool.false_eq_true, if_false, bind, Except.bind, Except.ok.injEq] at h ⊢
        subst h
        exact ⟨res, rfl, ksLe_refl res⟩
      | cons _ _ => simp at h

theorem abs_mono :
    ∀ r r' ks, ArgsLe r r' →
      (match r with
        | [some (.user i)] => (.ok [.user i] : Except KErr (List Kind))
        | [some (.array _)] => .ok [.array true]
        | [some (.scalar _)] => .ok [.scalar true]
        | _ => .error .typeError) = .ok ks →
      ∃ ks', (match r' with
        | [some (.user i)] => (.ok [.user i] : Except KErr (List Kind))
        | [some (.array _)] => .ok [.array true]
        | [some (.scalar _)] => .ok [.scalar true]
        | _ => .error .typeError) = .ok ks' ∧ KsLe ks ks' := by
  intro r r' ks hle h
  cases hle with
  | nil => simp at h
  | @cons a b as bs hab htl =>
    cases htl with
    | cons _ _ => cases a with | none => simp at h | some k => cases k <;> simp at h
    | nil =>
      cases a with
      | none => simp at h
      | some k =>
        cases k with
        | boolean => simp at h
        | integer => simp at h
        | user i =>
          have := le_user hab; subst this
          simp only [Except.ok.injEq] at h; subst h
          exact ⟨_, rfl, ksLe_refl _⟩
        | array ra =>
          obtain ⟨r2, hb⟩ := le_array hab; subst hb
          simp only [Except.ok.injEq] at h; subst h
          exact ⟨_, rfl, ksLe_refl _⟩
        | scalar ra =>
          simp only [Except.ok.injEq] at h; subst h
          rcases le_scalar hab with ⟨r2, hb⟩ | ⟨r2, hb⟩ | ⟨j, hb⟩ <;> subst hb
          · exact ⟨_, rfl, ksLe_refl _⟩
          · exact ⟨_, rfl, .cons (Or.inr (by simp [unify])) .nil⟩
          · exact ⟨_, rfl, .cons (Or.inr (by simp [unify])) .nil⟩

end Dagrt.Kinds

namespace Dagrt.Kinds

theorem regMono_simple (fixed : List (Name × List Kind)) : RegMono (mkRegistrySimple fixed) := by
  intro f fn hf ak ak' kk kk' ks ha hk hfn
  unfold mkRegistrySimple at hf
  split at hf
  · simp at hf
  · rename_i hheavy
    unfold mkRegistry at hf
    cases hb : builtin f with
    | none =>
      simp only [hb] at hf
      cases hl : fixed.lookup f with
      | none => simp [hl] at hf
      | some ks0 =>
        simp only [hl, Option.some.injEq] at hf
        subst hf
        simp only [Except.ok.injEq] at hfn
        subst hfn
        exact ⟨ks0, rfl, ksLe_refl ks0⟩
    | some g =>
      simp only [hb, Option.some.injEq] at hf
      subst hf
      unfold builtin at hb
      by_cases c1 : f = "<builtin>norm_1" ∨ f = "<builtin>norm_2" ∨ f = "<builtin>norm_inf"
      · rw [if_pos c1] at hb; cases hb; exact bind_mono _ _ (const1_mono _ _) _ _ _ _ _ ha hk hfn
      rw [if_neg c1] at hb
      by_cases c2 : f = "<builtin>len"
      · rw [if_pos c2] at hb; cases hb; exact bind_mono _ _ (const1_mono _ _) _ _ _ _ _ ha hk hfn
      rw [if_neg c2] at hb
      by_cases c3 : f = "<builtin>elementwise_abs"
      · rw [if_pos c3] at hb; cases hb; exact bind_mono _ _ abs_mono _ _ _ _ _ ha hk hfn
      rw [if_neg c3] at hb
      by_cases c4 : f = "<builtin>dot_product"
      · rw [if_pos c4] at hb; cases hb; exact bind_mono _ _ (const2_mono _ _ _) _ _ _ _ _ ha hk hfn
      rw [if_neg c4] at hb
      by_cases c5 : f = "<builtin>isnan"
      · rw [if_pos c5] at hb; cases hb; exact bind_mono _ _ (const1_mono _ _) _ _ _ _ _ ha hk hfn
      rw [if_neg c5] at hb
      by_cases c6 : f = "<builtin>array"
      · rw [if_pos c6] at hb; cases hb; exact bind_mono _ _ (const1_mono _ _) _ _ _ _ _ ha hk hfn
      rw [if_neg c6] at hb
      by_cases c7 : f = "<builtin>matmul" ∨ f = "<builtin>linear_solve"
      · exfalso; rcases c7 with h | h <;> simp [heavy, h] at hheavy
      rw [if_neg c7] at hb
      by_cases c8 : f = "<builtin>transpose"
      · exfalso; simp [heavy, c8] at hheavy
      rw [if_neg c8] at hb
      by_cases c9 : f = "<builtin>svd"
      · exfalso; simp [heavy, c9] at hheavy
      rw [if_neg c9] at hb
      by_cases c10 : f = "<builtin>print"
      · rw [if_pos c10] at hb; cases hb; exact bind_mono _ _ (const1_mono _ _) _ _ _ _ _ ha hk hfn
      rw [if_neg c10] at hb
      cases hb

end Dagrt.Kinds

namespace Dagrt.Kinds

/-- …and the restriction is needed: `matmul` answers for a scalar argument (in the loop's mode nothing
    is checked) but raises `AttributeError` for the user type that the scalar may later be refined to -/
theorem regMono_fails_matmul : ¬ RegMono (mkRegistry []) := by
  intro h
  cases hb : builtin "<builtin>matmul" with
  | none => simp [builtin] at hb
  | some fn =>
    have h1 : fn false [some (.scalar true), some (.scalar true), some (.scalar true), some (.scalar true)] []
        = .ok [.array true] := by
      simp [builtin] at hb; subst hb; decide
    have h2 : fn false [some (.user "y"), some (.scalar true), some (.scalar true), some (.scalar true)] []
        = .error .attributeError := by
      simp [builtin] at hb; subst hb; decide
    have hle : le (some (Kind.scalar true)) (some (Kind.user "y")) := Or.inr (by simp [unify])
    obtain ⟨ks', h', _⟩ := h "<builtin>matmul" fn (by simp [mkRegistry, hb])
      [some (.scalar true), some (.scalar true), some (.scalar true), some (.scalar true)]
      [some (.user "y"), some (.scalar true), some (.scalar true), some (.scalar true)] [] [] _
      (.cons hle (argsLe_refl _)) .nil h1
    rw [h2] at h'
    cases h'

end Dagrt.Kinds
