import Dagrt.Proofs.RtProofs
import Dagrt.Proofs.KindLoopProofs
/-!
Helper lemmas for call statements (C09): storing results one by one, the final consistency pass of
the inference (`finalCheck`) has counted assignees against results.
-/
namespace Dagrt.Kinds
open Dagrt

theorem outCompat_length : ∀ (rs : List Rt) (ks : List Kind), OutCompat rs ks → rs.length = ks.length
  | [], [], _ => rfl
  | [], _ :: _, h => by simp [OutCompat] at h
  | _ :: _, [], h => by simp [OutCompat] at h
  | _ :: rs, _ :: ks, h => by
    simp only [OutCompat] at h
    simp [outCompat_length rs ks h.2]

/-- storing results one by one keeps the table a description of the store, if every stored value is
    of the table's kind of its assignee -/
theorem assignZip_compat (t : Table) (ph : Name) : ∀ (lhs : List Name) (rs : List Rt) (ρ : Name → Rt),
    TableCompat t ph ρ →
    (∀ p ∈ List.zip lhs rs, ∀ k, lookupVar t ph p.1 = some k → compat p.2 k = true) →
    TableCompat t ph (assignZip ρ lhs rs)
  | [], _, ρ, hT, _ => by simpa [assignZip] using hT
  | _ :: _, [], ρ, hT, _ => by simpa [assignZip] using hT
  | x :: xs, r :: rs, ρ, hT, hp => by
    simp only [assignZip]
    apply assignZip_compat t ph xs rs
    · intro y ky hy
      by_cases hyx : y = x
      · subst hyx; simp only [if_true]
        exact hp (y, r) (by simp) ky hy
      · simp only [hyx, if_false]; exact hT y ky hy
    · intro p hpm k hk
      exact hp p (by simp [List.zip_cons_cons, hpm]) k hk

theorem zip_values_compat (t : Table) (ph : Name) : ∀ (lhs : List Name) (rs : List Rt) (ks : List Kind),
    OutCompat rs ks →
    (∀ p ∈ zipNK lhs ks, ∀ k', lookupVar t ph p.1 = some k' → p.2 = k' ∨ unifyK p.2 k' = .ok k') →
    ∀ p ∈ List.zip lhs rs, ∀ k, lookupVar t ph p.1 = some k → compat p.2 k = true
  | [], _, _, _, _ => by simp
  | _ :: _, [], _, _, _ => by simp
  | _ :: _, _ :: _, [], h, _ => by simp [OutCompat] at h
  | x :: xs, r :: rs, k0 :: ks, h, hpost => by
    simp only [OutCompat] at h
    intro p hp k hk
    simp only [List.zip_cons_cons, List.mem_cons] at hp
    rcases hp with hp | hp
    · subst hp
      rcases hpost (x, k0) (by simp [zipNK]) k hk with e | e
      · subst e; exact h.1
      · exact compat_mono r k0 k h.1 e
    · exact zip_values_compat t ph xs rs ks h.2 (fun q hq => hpost q (by simp [zipNK, hq])) p hp k hk


theorem inferCall_fn {chk : Bool} {reg : Registry} {t : Table} {ph f : Name} {args : List Expr}
    {kw : List (Name × Expr)} {ks : List Kind} (h : inferCall chk reg t ph f args kw = .ok ks) :
    ∃ fn ak kk, reg f = some fn ∧ fn chk ak kk = .ok ks := by
  unfold inferCall at h
  cases hf : reg f with
  | none => simp [hf] at h
  | some fn =>
    simp only [hf, bind, Except.bind] at h
    cases ha : inferArgs chk reg t ph args with
    | error e => simp [ha] at h
    | ok ak =>
      cases hk : inferKw chk reg t ph kw with
      | error e => simp [ha, hk] at h
      | ok kk =>
        simp only [ha, hk] at h
        cases hfn : fn chk ak kk with
        | error e => simp [hfn] at h
        | ok ks0 =>
          simp only [hfn, Except.ok.injEq] at h
          subst h
          exact ⟨fn, ak, kk, rfl, hfn⟩

/-- the final consistency pass accepted every call statement: as many assignees as results -/
theorem finalCheck_count (reg : Registry) (t : Table) : ∀ (prog : List (Name × KStmt)),
    finalCheck reg t prog = .ok () → ∀ ph lhs f args kw, (ph, KStmt.callAssign lhs f args kw) ∈ prog →
    ∃ ks', inferCall true reg t ph f args kw = .ok ks' ∧ ks'.length = lhs.length
  | [], _, _, _, _, _, _, hm => by cases hm
  | (ph0, s) :: r, h, ph, lhs, f, args, kw, hm => by
    cases s with
    | assign a b rhs c d =>
      simp only [finalCheck] at h
      cases hi : infer true reg t ph0 rhs with
      | error e => simp [hi] at h
      | ok k =>
        simp only [hi] at h
        rcases List.mem_cons.mp hm with hm | hm
        · cases hm
        · exact finalCheck_count reg t r h ph lhs f args kw hm
    | other =>
      simp only [finalCheck] at h
      rcases List.mem_cons.mp hm with hm | hm
      · cases hm
      · exact finalCheck_count reg t r h ph lhs f args kw hm
    | callAssign lhs0 f0 args0 kw0 =>
      simp only [finalCheck] at h
      cases hi : inferCall true reg t ph0 f0 args0 kw0 with
      | error e => simp [hi] at h
      | ok ks' =>
        simp only [hi] at h
        cases hb : (ks'.length != lhs0.length) with
        | true => simp [hb] at h
        | false =>
          simp only [hb, cond_false] at h
          rcases List.mem_cons.mp hm with hm | hm
          · cases hm
            exact ⟨ks', hi, by simpa using hb⟩
          · exact finalCheck_count reg t r h ph lhs f args kw hm


end Dagrt.Kinds
