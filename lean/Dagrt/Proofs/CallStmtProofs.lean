import Dagrt.Proofs.RtProofs
import Dagrt.Proofs.KindLoopProofs
import Dagrt.Model.Builtins
/-!
Helper lemmas for call statements (C09): storing results one by one, the final consistency pass of
the inference (`finalCheck`) has counted assignees against results.
-/
namespace Dagrt.Kinds
open Dagrt

theorem outCompat_length : ∀ (rs : List Rt) (ks : List Kind), OutCompat rs ks → rs.length = ks.length
  | [], [], _ => rfl
  | [], _ :: _, h => by simp [OutCompat] at h
  | _ :: _, [], h => by simp [OutCompat] at h
  | _ :: rs, _ :: ks, h => by
    simp only [OutCompat] at h
    simp [outCompat_length rs ks h.2]

/-- storing results one by one keeps the table a description of the store, if every stored value is
    of the table's kind of its assignee -/
theorem assignZip_compat (t : Table) (ph : Name) : ∀ (lhs : List Name) (rs : List Rt) (ρ : Name → Rt),
    TableCompat t ph ρ →
    (∀ p ∈ List.zip lhs rs, ∀ k, lookupVar t ph p.1 = some k → compat p.2 k = true) →
    TableCompat t ph (assignZip ρ lhs rs)
  | [], _, ρ, hT, _ => by simpa [assignZip] using hT
  | _ :: _, [], ρ, hT, _ => by simpa [assignZip] using hT
  | x :: xs, r :: rs, ρ, hT, hp => by
    simp only [assignZip]
    apply assignZip_compat t ph xs rs
    · intro y ky hy
      by_cases hyx : y = x
      · subst hyx; simp only [if_true]
        exact hp (y, r) (by simp) ky hy
      · simp only [hyx, if_false]; exact hT y ky hy
    · intro p hpm k hk
      exact hp p (by simp [List.zip_cons_cons, hpm]) k hk

theorem zip_values_compat (t : Table) (ph : Name) : ∀ (lhs : List Name) (rs : List Rt) (ks : List Kind),
    OutCompat rs ks →
    (∀ p ∈ zipNK lhs ks, ∀ k', lookupVar t ph p.1 = some k' → p.2 = k' ∨ unifyK p.2 k' = .ok k') →
    ∀ p ∈ List.zip lhs rs, ∀ k, lookupVar t ph p.1 = some k → compat p.2 k = true
  | [], _, _, _, _ => by simp
  | _ :: _, [], _, _, _ => by simp
  | _ :: _, _ :: _, [], h, _ => by simp [OutCompat] at h
  | x :: xs, r :: rs, k0 :: ks, h, hpost => by
    simp only [OutCompat] at h
    intro p hp k hk
    simp only [List.zip_cons_cons, List.mem_cons] at hp
    rcases hp with hp | hp
    · subst hp
      rcases hpost (x, k0) (by simp [zipNK]) k hk with e | e
      · subst e; exact h.1
      · exact compat_mono r k0 k h.1 e
    · exact zip_values_compat t ph xs rs ks h.2 (fun q hq => hpost q (by simp [zipNK, hq])) p hp k hk


theorem inferCall_fn {chk : Bool} {reg : Registry} {t : Table} {ph f : Name} {args : List Expr}
    {kw : List (Name × Expr)} {ks : List Kind} (h : inferCall chk reg t ph f args kw = .ok ks) :
    ∃ fn ak kk, reg f = some fn ∧ fn chk ak kk = .ok ks := by
  unfold inferCall at h
  cases hf : reg f with
  | none => simp [hf] at h
  | some fn =>
    simp only [hf, bind, Except.bind] at h
    cases ha : inferArgs chk reg t ph args with
    | error e => simp [ha] at h
    | ok ak =>
      cases hk : inferKw chk reg t ph kw with
      | error e => simp [ha, hk] at h
      | ok kk =>
        simp only [ha, hk] at h
        cases hfn : fn chk ak kk with
        | error e => simp [hfn] at h
        | ok ks0 =>
          simp only [hfn, Except.ok.injEq] at h
          subst h
          exact ⟨fn, ak, kk, rfl, hfn⟩

/-- the final consistency pass accepted every call statement: as many assignees as results -/
theorem finalCheck_count (reg : Registry) (t : Table) : ∀ (prog : List (Name × KStmt)),
    finalCheck reg t prog = .ok () → ∀ ph lhs f args kw, (ph, KStmt.callAssign lhs f args kw) ∈ prog →
    ∃ ks', inferCall true reg t ph f args kw = .ok ks' ∧ ks'.length = lhs.length
  | [], _, _, _, _, _, _, hm => by cases hm
  | (ph0, s) :: r, h, ph, lhs, f, args, kw, hm => by
    cases s with
    | assign a b rhs c d =>
      simp only [finalCheck] at h
      cases hi : infer true reg t ph0 rhs with
      | error e => simp [hi] at h
      | ok k =>
        simp only [hi] at h
        rcases List.mem_cons.mp hm with hm | hm
        · cases hm
        · exact finalCheck_count reg t r h ph lhs f args kw hm
    | other =>
      simp only [finalCheck] at h
      rcases List.mem_cons.mp hm with hm | hm
      · cases hm
      · exact finalCheck_count reg t r h ph lhs f args kw hm
    | callAssign lhs0 f0 args0 kw0 =>
      simp only [finalCheck] at h
      cases hi : inferCall true reg t ph0 f0 args0 kw0 with
      | error e => simp [hi] at h
      | ok ks' =>
        simp only [hi] at h
        cases hb : (ks'.length != lhs0.length) with
        | true => simp [hb] at h
        | false =>
          simp only [hb, cond_false] at h
          rcases List.mem_cons.mp hm with hm | hm
          · cases hm
            exact ⟨ks', hi, by simpa using hb⟩
          · exact finalCheck_count reg t r h ph lhs f args kw hm



/-! ### every built-in has a fixed number of results -/

/-- `need` either passes or raises: it never changes what follows -/
theorem need_bind_ok {chk b : Bool} {rest : Except KErr (List Kind)} {r : List Kind}
    (h : (do need chk b; rest) = .ok r) : rest = .ok r := by
  unfold need at h
  split at h
  · simp [bind, Except.bind] at h
  · simpa [bind, Except.bind] using h

/-- result of a built-in, if any, has the given length -/
theorem bind_len (names : List Name) (body : List (Option Kind) → Except KErr (List Kind)) (n : Nat)
    (hb : ∀ l r, body l = .ok r → r.length = n)
    (p : List (Option Kind)) (k : List (Name × Option Kind)) (r : List Kind)
    (h : (resolveArgs names p k >>= body) = .ok r) : r.length = n := by
  cases hr : resolveArgs names p k with
  | error e => simp [hr, bind, Except.bind] at h
  | ok l => simp only [hr, bind, Except.bind] at h; exact hb l r h



def arityB (f : Name) : Nat :=
  if f = "<builtin>svd" then 3 else if f = "<builtin>print" then 0 else 1

theorem builtin_arity (f : Name) (fn : Bool → List (Option Kind) → List (Name × Option Kind) → Except KErr (List Kind))
    (hb : builtin f = some fn) (chk : Bool) (p : List (Option Kind)) (k : List (Name × Option Kind))
    (r : List Kind) (h : fn chk p k = .ok r) : r.length = arityB f := by
  unfold builtin at hb
  by_cases c1 : f = "<builtin>norm_1" ∨ f = "<builtin>norm_2" ∨ f = "<builtin>norm_inf"
  · rw [if_pos c1] at hb; cases hb
    have : arityB f = 1 := by rcases c1 with c | c | c <;> subst c <;> decide
    rw [this]
    refine bind_len _ _ 1 ?_ p k r h
    intro l r hl
    split at hl
    · have := need_bind_ok hl; simp at this; subst this; rfl
    · simp at hl
  rw [if_neg c1] at hb
  by_cases c2 : f = "<builtin>len"
  · rw [if_pos c2] at hb; cases hb
    have : arityB f = 1 := by subst c2; decide
    rw [this]
    refine bind_len _ _ 1 ?_ p k r h
    intro l r hl
    split at hl
    · have := need_bind_ok hl; simp at this; subst this; rfl
    · simp at hl
  rw [if_neg c2] at hb
  by_cases c3 : f = "<builtin>elementwise_abs"
  · rw [if_pos c3] at hb; cases hb
    have : arityB f = 1 := by subst c3; decide
    rw [this]
    refine bind_len _ _ 1 ?_ p k r h
    intro l r hl
    split at hl <;> simp at hl <;> subst hl <;> rfl
  rw [if_neg c3] at hb
  by_cases c4 : f = "<builtin>dot_product"
  · rw [if_pos c4] at hb; cases hb
    have : arityB f = 1 := by subst c4; decide
    rw [this]
    refine bind_len _ _ 1 ?_ p k r h
    intro l r hl
    split at hl
    · have := need_bind_ok (need_bind_ok hl); simp at this; subst this; rfl
    · simp at hl
  rw [if_neg c4] at hb
  by_cases c5 : f = "<builtin>isnan"
  · rw [if_pos c5] at hb; cases hb
    have : arityB f = 1 := by subst c5; decide
    rw [this]
    refine bind_len _ _ 1 ?_ p k r h
    intro l r hl
    split at hl
    · have := need_bind_ok hl; simp at this; subst this; rfl
    · simp at hl
  rw [if_neg c5] at hb
  by_cases c6 : f = "<builtin>array"
  · rw [if_pos c6] at hb; cases hb
    have : arityB f = 1 := by subst c6; decide
    rw [this]
    refine bind_len _ _ 1 ?_ p k r h
    intro l r hl
    split at hl
    · have := need_bind_ok hl; simp at this; subst this; rfl
    · simp at hl
  rw [if_neg c6] at hb
  by_cases c7 : f = "<builtin>matmul" ∨ f = "<builtin>linear_solve"
  · rw [if_pos c7] at hb; cases hb
    have : arityB f = 1 := by rcases c7 with c | c <;> subst c <;> decide
    rw [this]
    refine bind_len _ _ 1 ?_ p k r h
    intro l r hl
    split at hl
    · split at hl
      · simp at hl
      · simp at hl
      · have h4 := need_bind_ok (need_bind_ok (need_bind_ok (need_bind_ok hl)))
        rename_i a b _ _ _ _ _ _
        cases hra : realAnd a b with
        | error e => simp [hra, bind, Except.bind] at h4
        | ok rr => simp [hra, bind, Except.bind] at h4; subst h4; rfl
    · simp at hl
  rw [if_neg c7] at hb
  by_cases c8 : f = "<builtin>transpose"
  · rw [if_pos c8] at hb; cases hb
    have : arityB f = 1 := by subst c8; decide
    rw [this]
    refine bind_len _ _ 1 ?_ p k r h
    intro l r hl
    split at hl
    · split at hl
      · simp at hl
      · have h2 := need_bind_ok (need_bind_ok hl)
        rename_i a _ _ _
        cases hra : realOf a with
        | error e => simp [hra, bind, Except.bind] at h2
        | ok rr => simp [hra, bind, Except.bind] at h2; subst h2; rfl
    · simp at hl
  rw [if_neg c8] at hb
  by_cases c9 : f = "<builtin>svd"
  · rw [if_pos c9] at hb; cases hb
    have : arityB f = 3 := by subst c9; decide
    rw [this]
    refine bind_len _ _ 3 ?_ p k r h
    intro l r hl
    split at hl
    · split at hl
      · simp at hl
      · have h2 := need_bind_ok (need_bind_ok hl)
        rename_i a _ _ _
        cases hra : realOf a with
        | error e => simp [hra, bind, Except.bind] at h2
        | ok rr => simp [hra, bind, Except.bind] at h2; subst h2; rfl
    · simp at hl
  rw [if_neg c9] at hb
  by_cases c10 : f = "<builtin>print"
  · rw [if_pos c10] at hb; cases hb
    have : arityB f = 0 := by subst c10; decide
    rw [this]
    refine bind_len _ _ 0 ?_ p k r h
    intro l r hl
    split at hl
    · have := need_bind_ok hl; simp at this; subst this; rfl
    · simp at hl
  rw [if_neg c10] at hb
  cases hb



end Dagrt.Kinds
