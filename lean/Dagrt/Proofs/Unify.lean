import Dagrt.Model.Kinds
namespace Dagrt.Kinds

@[simp] theorem unify_none_right (a : Option Kind) : unify a none = .ok a := by
  cases a <;> simp [unify]
@[simp] theorem unify_none_left (b : Option Kind) : unify none b = .ok b := by
  simp [unify]

theorem unify_comm_some (ka kb : Kind) (r : Option Kind) (h : unify (some ka) (some kb) = .ok r) :
    unify (some kb) (some ka) = .ok r := by
  cases ka <;> cases kb <;> simp only [unify] at h ⊢ <;> grind

theorem unify_comm' (a b r : Option Kind) (h : unify a b = .ok r) : unify b a = .ok r := by
  cases a with
  | none => cases b <;> simp_all [unify]
  | some ka =>
    cases b with
    | none => simp_all [unify]
    | some kb => exact unify_comm_some ka kb r h

theorem unify_idem' (a r : Option Kind) (h : unify a a = .ok r) : r = a := by
  cases a with
  | none => simp_all [unify]
  | some ka => cases ka <;> simp_all [unify]

theorem unify_assoc_some (ka kb kc : Kind) (r : Option Kind)
    (h : (unify (some ka) (some kb)).bind (fun ab => unify ab (some kc)) = .ok r) :
    (unify (some kb) (some kc)).bind (fun bc => unify (some ka) bc) = .ok r := by
  cases ka <;> cases kb <;> cases kc <;> simp only [unify, Except.bind] at h ⊢ <;> grind [unify, Except.bind]

theorem unify_assoc' (a b c r : Option Kind)
    (h : (unify a b).bind (fun ab => unify ab c) = .ok r) :
    (unify b c).bind (fun bc => unify a bc) = .ok r := by
  cases a with
  | none => simp [Except.bind] at h; simp [h, Except.bind]
  | some ka =>
    cases b with
    | none => simp [Except.bind] at h; simp [h, Except.bind]
    | some kb =>
      cases c with
      | none =>
        simp only [unify_none_right, Except.bind] at h ⊢
        split at h
        · cases h
        · simp at h; subst h; assumption
      | some kc => exact unify_assoc_some ka kb kc r h

theorem unify_assoc_rev (a b c r : Option Kind)
    (h : (unify b c).bind (fun bc => unify a bc) = .ok r) :
    (unify a b).bind (fun ab => unify ab c) = .ok r := by
  -- by commutativity, from `unify_assoc'` on (c, b, a)
  have h1 : (unify c b).bind (fun cb => unify cb a) = .ok r := by
    cases hbc : unify b c with
    | error e => simp [hbc, Except.bind] at h
    | ok bc =>
      simp [hbc, Except.bind] at h
      simp [unify_comm' b c bc hbc, Except.bind, unify_comm' a bc r h]
  have h2 := unify_assoc' c b a r h1
  cases hba : unify b a with
  | error e => simp [hba, Except.bind] at h2
  | ok ba =>
    simp [hba, Except.bind] at h2
    simp [unify_comm' b a ba hba, Except.bind, unify_comm' c ba r h2]

/-- a successful unification of two known kinds is a known kind -/
theorem unify_some_isSome (ka kb : Kind) (r : Option Kind) (h : unify (some ka) (some kb) = .ok r) :
    ∃ k, r = some k := by
  cases ka <;> cases kb <;> simp only [unify] at h <;> grind

/-! the information order induced by `unify`: `a ⊑ b` iff joining `a` into `b` gives `b` -/
def le (a b : Option Kind) : Prop := a = b ∨ unify a b = .ok b

theorem le_refl (a : Option Kind) : le a a := Or.inl rfl

theorem le_none (a : Option Kind) : le none a := Or.inr (by simp)

theorem le_antisymm (a b : Option Kind) (h1 : le a b) (h2 : le b a) : a = b := by
  rcases h1 with h1 | h1
  · exact h1
  rcases h2 with h2 | h2
  · exact h2.symm
  have := unify_comm' a b b h1
  rw [h2] at this; cases this; rfl

theorem le_trans (a b c : Option Kind) (h1 : le a b) (h2 : le b c) : le a c := by
  rcases h1 with h1 | h1
  · subst h1; exact h2
  rcases h2 with h2 | h2
  · subst h2; exact Or.inr h1
  right
  -- a ⊔ c = a ⊔ (b ⊔ c) = (a ⊔ b) ⊔ c = b ⊔ c = c
  have h : (unify a b).bind (fun ab => unify ab c) = .ok c := by simp [h1, Except.bind, h2]
  have := unify_assoc' a b c c h
  simpa [h2, Except.bind] using this

/-- where defined, `unify` is an upper bound … -/
theorem unify_upper_left (a b c : Option Kind) (h : unify a b = .ok c) : le a c := by
  cases a with
  | none => exact le_none c
  | some ka =>
    cases b with
    | none => simp at h; subst h; exact le_refl _
    | some kb =>
      right
      cases ka <;> cases kb <;> simp only [unify] at h <;> grind [unify]

theorem unify_upper_right (a b c : Option Kind) (h : unify a b = .ok c) : le b c :=
  unify_upper_left b a c (unify_comm' a b c h)

/-- … and the least one -/
theorem unify_least (a b c d : Option Kind) (h : unify a b = .ok c) (ha : le a d) (hb : le b d) :
    le c d := by
  rcases ha with ha | ha
  · subst ha
    -- b ⊑ a, so a ⊔ b = a
    rcases hb with hb | hb
    · subst hb; have := unify_idem' b c h; subst this; exact le_refl _
    · have := unify_comm' b a a hb; rw [h] at this; cases this; exact le_refl _
  rcases hb with hb | hb
  · subst hb; rw [ha] at h; cases h; exact le_refl _
  right
  -- c ⊔ d = (a ⊔ b) ⊔ d = a ⊔ (b ⊔ d) = a ⊔ d = d
  have h' : (unify b d).bind (fun bd => unify a bd) = .ok d := by simp [hb, Except.bind, ha]
  have := unify_assoc_rev a b d d h'
  simpa [h, Except.bind] using this

end Dagrt.Kinds
