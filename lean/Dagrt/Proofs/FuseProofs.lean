import Dagrt.Model.Fuse
import Dagrt.Proofs.NamesProofs
set_option linter.unusedVariables false
set_option linter.unusedSimpArgs false
namespace Dagrt.Fuse
open Dagrt Dagrt.Sem Dagrt.Names

/-! ### renaming commutes with the variable sets -/
mutual
theorem depVars_rename (σ : Name → Name) : ∀ e : Expr, depVars (renameExpr σ e) = (depVars e).map σ
  | .const c => by simp [renameExpr, depVars]
  | .var x => by simp [renameExpr, depVars]
  | .sum cs => by simp only [renameExpr, depVars]; exact depVarsL_rename σ cs
  | .prod cs => by simp only [renameExpr, depVars]; exact depVarsL_rename σ cs
  | .quot a b => by simp only [renameExpr, depVars, depVars_rename σ a, depVars_rename σ b, List.map_append]
  | .pow a b => by simp only [renameExpr, depVars, depVars_rename σ a, depVars_rename σ b, List.map_append]
  | .call f args kw => by
    simp only [renameExpr, depVars, depVarsL_rename σ args, depVarsK_rename σ kw, List.map_append]
  | .sub a b => by simp only [renameExpr, depVars, depVars_rename σ a, depVars_rename σ b, List.map_append]
  | .attr a n => by simp only [renameExpr, depVars, depVars_rename σ a]
  | .cmp o a b => by simp only [renameExpr, depVars, depVars_rename σ a, depVars_rename σ b, List.map_append]
  | .lnot a => by simp only [renameExpr, depVars, depVars_rename σ a]
  | .land cs => by simp only [renameExpr, depVars]; exact depVarsL_rename σ cs
  | .lor cs => by simp only [renameExpr, depVars]; exact depVarsL_rename σ cs
  | .ite c t e => by
    simp only [renameExpr, depVars, depVars_rename σ c, depVars_rename σ t, depVars_rename σ e, List.map_append]
  | .min cs => by simp only [renameExpr, depVars]; exact depVarsL_rename σ cs
  | .max cs => by simp only [renameExpr, depVars]; exact depVarsL_rename σ cs
theorem depVarsL_rename (σ : Name → Name) : ∀ cs : List Expr, depVarsL (renameL σ cs) = (depVarsL cs).map σ
  | [] => rfl
  | c :: cs => by simp only [renameL, depVarsL, depVars_rename σ c, depVarsL_rename σ cs, List.map_append]
theorem depVarsK_rename (σ : Name → Name) : ∀ cs : List (Name × Expr), depVarsK (renameK σ cs) = (depVarsK cs).map σ
  | [] => rfl
  | (k, c) :: cs => by simp only [renameK, depVarsK, depVars_rename σ c, depVarsK_rename σ cs, List.map_append]
end

theorem loopVars_rename (σ : Name → Name) : ∀ l, loopVars (renameLoops σ l) = (loopVars l).map σ
  | [] => rfl
  | (i, a, b) :: r => by
    simp only [renameLoops, loopVars, depVars_rename, loopVars_rename σ r, List.map_append]

theorem declReads_rename (σ : Name → Name) (s : Stmt) : declReads (renameStmt σ s) = (declReads s).map σ := by
  obtain ⟨c, k⟩ := s
  cases k with
  | assign lhs sub rhs loops =>
    cases sub <;> simp [renameStmt, declReads, depVars_rename, loopVars_rename, List.map_append]
  | callAssign lhs f args kw => simp [renameStmt, declReads, depVars_rename, depVarsL_rename, depVarsK_rename]
  | yield e t tid comp => simp [renameStmt, declReads, depVars_rename]
  | raise e => simp [renameStmt, declReads, depVars_rename]
  | fail => simp [renameStmt, declReads, depVars_rename]
  | switch p => simp [renameStmt, declReads, depVars_rename]
  | nop => simp [renameStmt, declReads, depVars_rename]

theorem declWrites_rename (σ : Name → Name) (s : Stmt) : declWrites (renameStmt σ s) = (declWrites s).map σ := by
  obtain ⟨c, k⟩ := s
  cases k <;> simp [renameStmt, declWrites]

/-- the identifiers used by the renamed second method are the images of its identifiers -/
theorem usedIdents_rename (σ : Name → Name) (B : List FStmt) :
    usedIdents (B.map fun b => { b with stmt := renameStmt σ b.stmt }) = (usedIdents B).map σ := by
  induction B with
  | nil => rfl
  | cons b bs ih =>
    simp only [usedIdents, List.map_cons, List.flatMap_cons, List.map_append] at ih ⊢
    rw [ih, declReads_rename, declWrites_rename]

/-! ### the substitution built by `disambiguate_identifiers` -/

/-- what is known about the substitution while the clash loop runs -/
structure SubInv (pred : Name → Bool) (clash : List Name) (g0 g : Gen) (sub : List (Name × Name)) : Prop where
  keys : ∀ p ∈ sub, pred p.1 = true ∧ p.1 ∈ clash
  fresh : ∀ p ∈ sub, g0.conflicting p.2.toList = false
  taken : ∀ p ∈ sub, g.conflicting p.2.toList = true
  mono : ∀ m, g0.conflicting m = true → g.conflicting m = true
  cl : g.caseless = false ∧ g0.caseless = false

theorem gen_call_caseless (g g' : Gen) (b nm : List Char) (h : g.call b = some (g', nm)) :
    g'.caseless = g.caseless := by
  unfold Gen.call at h
  simp only at h
  have fin : ∀ (bb : List Char) (r : Option (Nat × List Char)),
      (match r with
        | none => none
        | some (k, nm') => some ({ g with counters := setCounter g.counters bb k }.addName nm', nm')) = some (g', nm) →
      g'.caseless = g.caseless := by
    intro bb r hr
    cases r with
    | none => simp at hr
    | some p => obtain ⟨k, nm'⟩ := p; simp at hr; rw [← hr.1]; rfl
  split at h
  · exact fin _ _ h
  · split at h
    · exact fin _ _ h
    · split at h
      · exact fin _ _ h
      · simp only [Option.some.injEq, Prod.mk.injEq] at h; rw [← h.1]; rfl

theorem disambiguate_inv (pred : Name → Bool) (clash0 : List Name) (g0 : Gen) :
    ∀ (clash : List Name) (g : Gen) (acc res : List (Name × Name)), (∀ c ∈ clash, c ∈ clash0) →
      SubInv pred clash0 g0 g acc → disambiguate pred clash g acc = some res →
      ∃ g', SubInv pred clash0 g0 g' res
  | [], g, acc, res, _, hi, h => by simp [disambiguate] at h; subst h; exact ⟨g, hi⟩
  | c :: cs, g, acc, res, hsub, hi, h => by
    unfold disambiguate at h
    split at h
    · rename_i hp
      split at h
      · rename_i g' n hc
        obtain ⟨hfree, htaken, hmono⟩ := gen_fresh g g' _ n hc
        apply disambiguate_inv pred clash0 g0 cs g' _ res (fun x hx => hsub x (by simp [hx])) _ h
        have hcl := gen_call_caseless g g' _ n hc
        refine ⟨?_, ?_, ?_, ?_, ?_⟩
        · intro p hp'; simp at hp'; rcases hp' with h' | h'
          · exact hi.keys p h'
          · subst h'; exact ⟨hp, hsub c (by simp)⟩
        · intro p hp'; simp at hp'; rcases hp' with h' | h'
          · exact hi.fresh p h'
          · subst h'
            simp only [String.toList_ofList]
            cases hcf : g0.conflicting n with
            | false => rfl
            | true => rw [hi.mono n hcf] at hfree; cases hfree
        · intro p hp'; simp at hp'; rcases hp' with h' | h'
          · exact hmono _ (hi.taken p h')
          · subst h'; simpa using htaken
        · intro m hm; exact hmono m (hi.mono m hm)
        · exact ⟨by rw [hcl]; exact hi.cl.1, hi.cl.2⟩
      · cases h
    · exact disambiguate_inv pred clash0 g0 cs g acc res (fun x hx => hsub x (by simp [hx])) hi h

theorem applySubst_of_not_key (sub : List (Name × Name)) (x : Name) (h : ∀ p ∈ sub, p.1 ≠ x) :
    applySubst sub x = x := by
  unfold applySubst
  have : sub.lookup x = none := by
    induction sub with
    | nil => rfl
    | cons p ps ih =>
      obtain ⟨k, v⟩ := p
      simp only [List.lookup]
      have hk : k ≠ x := h (k, v) (by simp)
      have : (x == k) = false := by simpa using (fun e => hk e.symm)
      simp only [this]
      exact ih (fun q hq => h q (by simp [hq]))
  simp [this]

theorem applySubst_mem (sub : List (Name × Name)) (x : Name) :
    applySubst sub x = x ∨ ∃ p ∈ sub, p.1 = x ∧ applySubst sub x = p.2 := by
  unfold applySubst
  induction sub with
  | nil => left; rfl
  | cons p ps ih =>
    obtain ⟨k, v⟩ := p
    simp only [List.lookup]
    by_cases hk : x = k
    · subst hk; right; exact ⟨(x, v), by simp, rfl, by simp⟩
    · have : (x == k) = false := by simpa using hk
      simp only [this]
      rcases ih with h | ⟨q, hq, h1, h2⟩
      · left; exact h
      · right; exact ⟨q, by simp [hq], h1, h2⟩

end Dagrt.Fuse

namespace Dagrt.Fuse
open Dagrt Dagrt.Sem Dagrt.Names

/-! ### new statement ids -/

theorem conflicting_iff_mem (g : Gen) (h : g.caseless = false) (n : List Char) :
    g.conflicting n = true ↔ n ∈ g.existing := by
  simp [Gen.conflicting, Gen.norm, h]

theorem renumber_spec (aids : List (List Char)) : ∀ (bs : List FStmt) (g : Gen) (acc m : List (List Char × List Char)),
    g.caseless = false → (∀ a ∈ aids, g.conflicting a = true) → (∀ p ∈ acc, g.conflicting p.2 = true) →
    (acc.map (·.2)).Nodup → (∀ p ∈ acc, p.2 ∉ aids) → renumber bs g acc = some m →
    (m.map (·.2)).Nodup ∧ (∀ p ∈ m, p.2 ∉ aids) ∧ m.map (·.1) = acc.map (·.1) ++ bs.map (·.id)
  | [], g, acc, m, _, _, _, hnd, hna, h => by
    simp [renumber] at h; subst h; exact ⟨hnd, hna, by simp⟩
  | b :: bs, g, acc, m, hcl, ha, hk, hnd, hna, h => by
    unfold renumber at h
    split at h
    · rename_i g' n hc
      obtain ⟨hfree, htaken, hmono⟩ := gen_fresh g g' _ n hc
      have hcl' : g'.caseless = false := by rw [gen_call_caseless g g' _ n hc]; exact hcl
      have := renumber_spec aids bs g' (acc ++ [(b.id, n)]) m hcl' (fun a h' => hmono a (ha a h'))
        (by intro p hp; simp at hp; rcases hp with h' | h'
            · exact hmono _ (hk p h')
            · subst h'; exact htaken)
        (by rw [List.map_append, List.nodup_append]
            refine ⟨hnd, by simp, ?_⟩
            intro x hx y hy e; subst e
            simp at hy; subst hy
            simp only [List.mem_map] at hx
            obtain ⟨p, hp, he⟩ := hx
            have := hk p hp
            rw [he, hfree] at this; cases this)
        (by intro p hp; simp at hp; rcases hp with h' | h'
            · exact hna p h'
            · subst h'
              intro hmem
              have := ha n hmem
              rw [hfree] at this; cases this)
        h
      refine ⟨this.1, this.2.1, ?_⟩
      rw [this.2.2]; simp
    · cases h

theorem zipIds_spec : ∀ (bs : List FStmt) (m : List (List Char × List Char)), m.length = bs.length →
    (zipIds bs m).map (·.id) = m.map (·.2) ∧ (zipIds bs m).map (·.stmt) = bs.map (·.stmt) ∧
    (zipIds bs m).map (·.deps) = bs.map (·.deps)
  | [], [], _ => by simp [zipIds]
  | [], _ :: _, h => by simp at h
  | _ :: _, [], h => by simp at h
  | b :: bs, (o, n) :: ms, h => by
    have := zipIds_spec bs ms (by simpa using h)
    simp [zipIds, this.1, this.2.1, this.2.2]

theorem remapAll_spec (m : List (List Char × List Char)) : ∀ (bs res : List FStmt), remapAll m bs = some res →
    res.map (·.id) = bs.map (·.id) ∧ res.map (·.stmt) = bs.map (·.stmt) ∧
    (∀ (k : Nat) (r b : FStmt), res[k]? = some r → bs[k]? = some b → remapDeps m b.deps = some r.deps)
  | [], res, h => by simp [remapAll] at h; subst h; simp
  | b :: bs, res, h => by
    unfold remapAll at h
    split at h
    · rename_i d r hd hr
      simp at h; subst h
      have ih := remapAll_spec m bs r hr
      refine ⟨by simp [ih.1], by simp [ih.2.1], ?_⟩
      intro k r' b' h1 h2
      cases k with
      | zero => simp at h1 h2; subst h1; subst h2; exact hd
      | succ k => simp at h1 h2; exact ih.2.2 k r' b' h1 h2
    · cases h

theorem remapDeps_spec (m : List (List Char × List Char)) : ∀ (ds res : List (List Char)), remapDeps m ds = some res →
    res.length = ds.length ∧ ∀ (k : Nat) (d r : List Char), ds[k]? = some d → res[k]? = some r → lookupId m d = some r
  | [], res, h => by simp [remapDeps] at h; subst h; simp
  | d :: ds, res, h => by
    unfold remapDeps at h
    split at h
    · rename_i d' r hd hr
      simp at h; subst h
      have ih := remapDeps_spec m ds r hr
      refine ⟨by simp [ih.1], ?_⟩
      intro k x y h1 h2
      cases k with
      | zero => simp at h1 h2; subst h1; subst h2; exact hd
      | succ k => simp at h1 h2; exact ih.2 k x y h1 h2
    · cases h

theorem lookupId_mem (m : List (List Char × List Char)) (d r : List Char) (h : lookupId m d = some r) :
    (d, r) ∈ m := by
  unfold lookupId at h
  simp only [Option.map_eq_some_iff] at h
  obtain ⟨p, hp, he⟩ := h
  have hm := List.mem_of_find?_eq_some hp
  have hk := List.find?_some hp
  simp at hk hm
  obtain ⟨a, b⟩ := p
  simp at he hk; subst he; subst hk; exact hm

/-- decomposition of a successful fusion -/
theorem fuse_some (pred : Name → Bool) (clash : List Name) (A B out : List FStmt)
    (h : fuse pred clash A B = some out) :
    ∃ sub m B2,
      disambiguate pred clash ⟨(usedIdents A ++ usedIdents B).map String.toList, [], [], false⟩ [] = some sub ∧
      renumber (B.map fun b => { b with stmt := renameStmt (applySubst sub) b.stmt }) ⟨A.map (·.id), [], [], false⟩ [] = some m ∧
      remapAll m (zipIds (B.map fun b => { b with stmt := renameStmt (applySubst sub) b.stmt }) m) = some B2 ∧
      out = A ++ B2 := by
  unfold fuse at h
  simp only at h
  split at h
  · cases h
  · rename_i sub hs
    split at h
    · cases h
    · rename_i m hm
      split at h
      · cases h
      · rename_i B2 hb
        simp at h
        exact ⟨sub, m, B2, hs, hm, hb, h.symm⟩

end Dagrt.Fuse

namespace Dagrt.Fuse
open Dagrt Dagrt.Sem Dagrt.Names

theorem lookup_some_of_key : ∀ (sub : List (Name × Name)) (x : Name), (∃ q ∈ sub, q.1 = x) →
    ∃ v, sub.lookup x = some v
  | [], x, h => by obtain ⟨q, hq, _⟩ := h; simp at hq
  | (k, v) :: ps, x, h => by
    simp only [List.lookup]
    by_cases hk : x = k
    · subst hk; simp
    · have : (x == k) = false := by simpa using hk
      simp only [this]
      apply lookup_some_of_key ps x
      obtain ⟨q, hq, he⟩ := h
      simp at hq
      rcases hq with e | hq
      · subst e; exact absurd he.symm hk
      · exact ⟨q, hq, he⟩

theorem lookup_pair_mem : ∀ (sub : List (Name × Name)) (x v : Name), sub.lookup x = some v → (x, v) ∈ sub
  | [], x, v, h => by simp at h
  | (k, w) :: ps, x, v, h => by
    simp only [List.lookup] at h
    by_cases hk : x = k
    · subst hk; simp at h; subst h; simp
    · have : (x == k) = false := by simpa using hk
      simp only [this] at h
      exact List.mem_cons_of_mem _ (lookup_pair_mem ps x v h)

/-- every clashing name the predicate selects becomes a key of the substitution -/
theorem disambiguate_keys (pred : Name → Bool) (x : Name) (hp : pred x = true) :
    ∀ (cl : List Name) (g : Gen) (acc res : List (Name × Name)),
      disambiguate pred cl g acc = some res → (x ∈ cl ∨ ∃ q ∈ acc, q.1 = x) → ∃ q ∈ res, q.1 = x
  | [], g, acc, res, hd, hor => by simp [disambiguate] at hd; subst hd; simpa using hor
  | c :: cs, g, acc, res, hd, hor => by
    unfold disambiguate at hd
    split at hd
    · split at hd
      · rename_i g2 n2 _
        apply disambiguate_keys pred x hp cs _ _ _ hd
        rcases hor with h' | ⟨q, hq, he'⟩
        · simp at h'; rcases h' with e | h'
          · right; exact ⟨(c, String.ofList n2), by simp, e.symm⟩
          · left; exact h'
        · right; exact ⟨q, by simp [hq], he'⟩
      · cases hd
    · rename_i hpc
      apply disambiguate_keys pred x hp cs _ _ _ hd
      rcases hor with h' | h'
      · simp at h'; rcases h' with e | h'
        · subst e; rw [hp] at hpc; exact absurd rfl hpc
        · left; exact h'
      · right; exact h'

end Dagrt.Fuse
