import Dagrt.Model.Lower
import Dagrt.Proofs.VerifyProofs
import Dagrt.Proofs.SimplifyShape
set_option linter.unusedVariables false
set_option linter.unusedSimpArgs false
namespace Dagrt.Lower
open Dagrt.Verify (Inv Topo Acyclic scan step run Cover Frames)

/-! ## sorting -/
theorem mem_insertSorted {x z : Nat} : ∀ {l : List Nat}, z ∈ insertSorted x l ↔ z = x ∨ z ∈ l
  | [] => by simp [insertSorted]
  | y :: ys => by
    unfold insertSorted; split
    · simp
    · simp [mem_insertSorted (l := ys)]; constructor
      · rintro (h | h | h) <;> simp [h]
      · rintro (h | h | h) <;> simp [h]

theorem mem_isort {z : Nat} : ∀ {l : List Nat}, z ∈ isort l ↔ z ∈ l
  | [] => by simp [isort]
  | x :: xs => by simp [isort, mem_insertSorted, mem_isort (l := xs)]

/-! ## look-ups (same shape as in the verifier model) -/
theorem lookup_mem : ∀ {p : Phase} {i : Nat} {s : LStmt}, lookup p i = some s → s ∈ p ∧ s.id = i
  | [], _, _, h => by simp [lookup] at h
  | t :: r, i, s, h => by
    unfold lookup at h
    split at h
    · rename_i u hu
      cases h
      have := lookup_mem hu
      exact ⟨by simp [this.1], this.2⟩
    · split at h
      · cases h; rename_i he; exact ⟨by simp, he⟩
      · cases h

theorem lookup_none : ∀ {p : Phase} {i : Nat}, lookup p i = none → ∀ t ∈ p, t.id ≠ i
  | [], _, _, t, ht => by simp at ht
  | s :: r, i, h, t, ht => by
    unfold lookup at h
    split at h
    · cases h
    · rename_i hn
      split at h
      · cases h
      · rename_i hne
        simp at ht
        rcases ht with e | ht
        · subst e; exact hne
        · exact lookup_none hn t ht

theorem lookup_isSome_iff {p : Phase} {i : Nat} : (lookup p i).isSome = true ↔ ∃ t ∈ p, t.id = i := by
  constructor
  · intro h
    cases hl : lookup p i with
    | none => simp [hl] at h
    | some s => exact ⟨s, lookup_mem hl⟩
  · rintro ⟨t, ht, he⟩
    cases hl : lookup p i with
    | none => exact absurd he (lookup_none hl t ht)
    | some s => simp

theorem lookup_of_nodup : ∀ {p : Phase}, (ids p).Nodup → ∀ s ∈ p, lookup p s.id = some s
  | [], _, s, hs => by simp at hs
  | t :: r, hnd, s, hs => by
    have hnd0 : (t.id :: ids r).Nodup := by simpa [ids] using hnd
    have ⟨ht, hnd'⟩ := List.nodup_cons.mp hnd0
    simp [ids] at ht
    simp at hs
    unfold lookup
    rcases hs with e | hs
    · subst e
      have : lookup r s.id = none := by
        cases hl : lookup r s.id with
        | none => rfl
        | some u =>
          have := lookup_mem hl
          exact absurd this.2 (ht u this.1)
      simp [this]
    · have := lookup_of_nodup (p := r) hnd' s hs
      simp [this]

/-! ## well-formed phases -/
structure LWF (p : Phase) : Prop where
  nodup : (ids p).Nodup
  closed : ∀ s ∈ p, ∀ d ∈ s.deps, ∃ t ∈ p, t.id = d
  acyclic : ∃ rank : Nat → Nat, ∀ s ∈ p, ∀ d ∈ s.deps, rank d < rank s.id

def kn (p : Phase) : Nat → Bool := fun i => (lookup p i).isSome

theorem sortedDeps_mem {p : Phase} {u d : Nat} (h : d ∈ sortedDeps p u) :
    ∃ s ∈ p, s.id = u ∧ d ∈ s.deps := by
  unfold sortedDeps at h
  split at h
  · rename_i s hs; exact ⟨s, (lookup_mem hs).1, (lookup_mem hs).2, mem_isort.mp h⟩
  · simp at h

theorem lwf_acyclic {p : Phase} (wf : LWF p) : Acyclic (sortedDeps p) := by
  obtain ⟨rank, hr⟩ := wf.acyclic
  refine ⟨rank, fun u d hd => ?_⟩
  obtain ⟨s, hs, he, hd'⟩ := sortedDeps_mem hd
  subst he; exact hr s hs d hd'

theorem lwf_closed {p : Phase} (wf : LWF p) : ∀ u, ∀ d ∈ sortedDeps p u, kn p d = true := by
  intro u d hd
  obtain ⟨s, hs, he, hd'⟩ := sortedDeps_mem hd
  exact lookup_isSome_iff.mpr (wf.closed s hs d hd')

/-- on a well-formed phase the scan of the verifier's machine never fails -/
theorem scan_ok_of_wf {p : Phase} (wf : LWF p) {s : St} (hi : Inv (sortedDeps p) s)
    {top : Nat} {rest : List Nat} (hst : s.stack = top :: rest) (hv : top ∉ s.visited) :
    scan (kn p) (top :: s.visiting) (sortedDeps p top) = .ok := by
  cases hsc : scan (kn p) (top :: s.visiting) (sortedDeps p top) with
  | ok => rfl
  | cycle =>
    exfalso
    have : step (sortedDeps p) (kn p) s = .cycle := by
      obtain ⟨stack, visiting, visited, order⟩ := s
      simp only at hst hv hsc
      subst hst
      unfold step; simp [hv, hsc]
    exact Dagrt.Verify.step_cycle_sound _ _ hi this (lwf_acyclic wf)
  | keyError =>
    exfalso
    obtain ⟨n, hn, hk⟩ := Dagrt.Verify.scan_keyError (kn p) hsc
    have := lwf_closed wf top n hn
    rw [this] at hk; cases hk

/-- on a well-formed phase, with only known ids on the stack, the lowering's machine and the
    verifier's machine take the same step -/
theorem tstep_eq {p : Phase} (wf : LWF p) {s : St} (hi : Inv (sortedDeps p) s)
    (hk : ∀ x ∈ s.stack, kn p x = true) :
    (match step (sortedDeps p) (kn p) s with
      | .done o => tstep p s = .done o
      | .running s' => tstep p s = .running s'
      | .cycle => False
      | .keyError => False) := by
  obtain ⟨stack, visiting, visited, order⟩ := s
  cases stack with
  | nil => simp [step, tstep]
  | cons top rest =>
    by_cases hv : top ∈ visited
    · by_cases hg : top ∈ visiting <;> simp [step, tstep, hv, hg]
    · have hsc := scan_ok_of_wf wf hi (top := top) (rest := rest) rfl hv
      simp only at hsc
      have hkt := hk top (by simp)
      unfold kn at hkt
      cases hl : lookup p top with
      | none => simp [hl] at hkt
      | some st =>
        have hsd : sortedDeps p top = isort st.deps := by simp [sortedDeps, hl]
        rw [hsd] at hsc
        simp [step, tstep, hv, hsc, hl, hsd]

theorem ids_known {p : Phase} {i : Nat} (h : i ∈ ids p) : kn p i = true := by
  simp [ids] at h
  obtain ⟨t, ht, he⟩ := h
  exact lookup_isSome_iff.mpr ⟨t, ht, he⟩

theorem kn_ids {p : Phase} {i : Nat} (h : kn p i = true) : i ∈ ids p := by
  obtain ⟨t, ht, he⟩ := lookup_isSome_iff.mp h
  simp [ids]; exact ⟨t, ht, he⟩

theorem run_eq_trun {p : Phase} (wf : LWF p) : ∀ (fuel : Nat) (s : St), Inv (sortedDeps p) s →
    (∀ x ∈ s.stack, kn p x = true) →
    (match run (sortedDeps p) (kn p) fuel s with
      | .noCycle o => trun p fuel s = .ok o
      | .outOfFuel => trun p fuel s = .error .outOfFuel
      | .cycle => False
      | .keyError => False)
  | 0, s, _, _ => by simp [run, trun]
  | fuel+1, s, hi, hk => by
    have h := tstep_eq wf hi hk
    unfold run trun
    cases hst : step (sortedDeps p) (kn p) s with
    | cycle => rw [hst] at h; exact h
    | keyError => rw [hst] at h; exact h
    | done o => rw [hst] at h; simp only at h ⊢; rw [h]
    | running s' =>
      rw [hst] at h; simp only at h ⊢; rw [h]; simp only
      have hi' := Dagrt.Verify.inv_step _ _ hi hst
      have hk' : ∀ x ∈ s'.stack, kn p x = true := by
        have hnd : (ids p).Nodup := wf.nodup
        have := (Dagrt.Verify.step_mu (sortedDeps p) (kn p) (U := ids p) hnd (fun n hn => kn_ids hn)
          (fun x hx => kn_ids (hk x hx)) hst).2
        intro x hx; exact ids_known (this x hx)
      exact run_eq_trun wf fuel s' hi' hk'

theorem sinks_subset {p : Phase} {i : Nat} (h : i ∈ sinks p) : i ∈ ids p := by
  unfold sinks at h
  have := mem_isort.mp h
  simp at this
  exact this.1

theorem eraseDups_of_nodup : ∀ {l : List Nat}, l.Nodup → l.eraseDups = l := by
  intro l h
  induction l with
  | nil => simp
  | cons x xs ih =>
    have ⟨hx, hxs⟩ := List.nodup_cons.mp h
    rw [List.eraseDups_cons]
    have : xs.filter (fun b => !b == x) = xs := by
      rw [List.filter_eq_self]; intro a ha; simp; intro e; subst e; exact hx ha
    rw [this, ih hxs]

/-- the DFS of `create_ast_from_phase` on a well-formed phase: it terminates, and its finish
    order lists every statement exactly once, dependencies first -/
theorem topoOrder_spec {p : Phase} (wf : LWF p) :
    ∃ o, topoOrder p = .ok o ∧ Topo (sortedDeps p) o ∧ o.Nodup ∧ (∀ i ∈ sinks p, i ∈ o) := by
  let s0 : St := { stack := (sinks p).reverse, visiting := [], visited := [], order := [] }
  have hi0 : Inv (sortedDeps p) s0 := by
    refine ⟨by simp [s0], by simp [s0], by simp [s0], by simp [s0], Frames.nil _ _, ?_⟩
    intro pre u post h; simp [s0] at h
  have hk0 : ∀ x ∈ s0.stack, kn p x = true := by
    intro x hx; simp [s0] at hx; exact ids_known (sinks_subset hx)
  have hc0 : Cover (sinks p) s0 := by intro x hx; left; simp [s0, hx]
  have hspec := Dagrt.Verify.run_spec (sortedDeps p) (kn p) (sinks p) (topoFuel p) s0 hi0 hc0
  have heq := run_eq_trun wf (topoFuel p) s0 hi0 hk0
  have hfuel : run (sortedDeps p) (kn p) (topoFuel p) s0 ≠ .outOfFuel := by
    apply Dagrt.Verify.run_fuel (sortedDeps p) (kn p) (U := ids p) wf.nodup (fun n hn => kn_ids hn)
    · intro x hx; exact kn_ids (hk0 x hx)
    · simp [Dagrt.Verify.mu, topoFuel, s0, eraseDups_of_nodup wf.nodup]; omega
  unfold topoOrder
  cases hr : run (sortedDeps p) (kn p) (topoFuel p) s0 with
  | noCycle o =>
    rw [hr] at hspec heq; simp only at hspec heq
    exact ⟨o, heq, hspec.1, hspec.2.1, hspec.2.2⟩
  | cycle => rw [hr] at heq; exact absurd heq id
  | keyError => rw [hr] at heq; exact absurd heq id
  | outOfFuel => exact absurd hr hfuel

end Dagrt.Lower

namespace Dagrt.Lower
open Dagrt.Verify (Inv Topo Acyclic scan step run Cover Frames)
open Dagrt.Simplify

/-! ## everything in the order is a statement; every statement is in the order -/

theorem trun_known {p : Phase} (wf : LWF p) : ∀ (fuel : Nat) (s : St) (o : List Nat),
    (∀ x ∈ s.stack, kn p x = true) → (∀ x ∈ s.order, kn p x = true) → trun p fuel s = .ok o →
    ∀ x ∈ o, kn p x = true
  | 0, _, _, _, _, h => by simp [trun] at h
  | fuel+1, s, o, hs, ho, h => by
    obtain ⟨stack, visiting, visited, order⟩ := s
    unfold trun tstep at h
    simp only at h hs ho
    cases stack with
    | nil => simp at h; subst h; exact ho
    | cons top rest =>
      simp only at h
      by_cases hv : top ∈ visited
      · by_cases hg : top ∈ visiting
        · simp only [hv, hg, if_true] at h
          apply trun_known wf fuel _ o _ _ h
          · intro x hx; exact hs x (by simp at hx; simp [hx])
          · intro x hx; simp at hx; rcases hx with h' | h'
            · exact ho x h'
            · subst h'; exact hs x (by simp)
        · simp only [hv, hg, if_true, if_false] at h
          apply trun_known wf fuel _ o _ _ h
          · intro x hx; exact hs x (by simp at hx; simp [hx])
          · exact ho
      · simp only [hv, if_false] at h
        cases hl : lookup p top with
        | none => simp [hl] at h
        | some st =>
          simp only [hl] at h
          apply trun_known wf fuel _ o _ _ h
          · intro x hx; simp at hx
            rcases hx with h' | h' | h'
            · exact lookup_isSome_iff.mpr (wf.closed st (lookup_mem hl).1 x (mem_isort.mp h'))
            · subst h'; exact hs x (by simp)
            · exact hs x (by simp [h'])
          · exact ho

theorem mem_sinks {p : Phase} (wf : LWF p) {i : Nat} (hi : i ∈ ids p) (hd : i ∉ allDeps p) : i ∈ sinks p := by
  unfold sinks
  rw [mem_isort, eraseDups_of_nodup wf.nodup]
  simp [hi, hd]

theorem rank_bound (rank : Nat → Nat) : ∀ l : List Nat, ∃ B, ∀ i ∈ l, rank i < B
  | [] => ⟨0, by simp⟩
  | x :: xs => by
    obtain ⟨B, hB⟩ := rank_bound rank xs
    refine ⟨max B (rank x + 1), ?_⟩
    intro i hi; simp at hi
    rcases hi with e | hi
    · subst e; omega
    · have := hB i hi; omega

/-- the full specification of the topological sort of a well-formed phase -/
theorem topoOrder_full {p : Phase} (wf : LWF p) :
    ∃ o, topoOrder p = .ok o ∧ Topo (sortedDeps p) o ∧ o.Nodup ∧
      (∀ i, i ∈ o ↔ i ∈ ids p) := by
  obtain ⟨o, hok, htopo, hnd, hsinks⟩ := topoOrder_spec wf
  refine ⟨o, hok, htopo, hnd, fun i => ⟨?_, ?_⟩⟩
  · intro hi
    have := trun_known wf _ _ o (by intro x hx; simp at hx; exact ids_known (sinks_subset hx))
      (by simp) hok i hi
    exact kn_ids this
  · obtain ⟨rank, hr⟩ := wf.acyclic
    obtain ⟨B, hB⟩ := rank_bound rank (ids p)
    have hclosed : ∀ s ∈ p, s.id ∈ o → ∀ d ∈ s.deps, d ∈ o := by
      intro s hs hso d hd
      obtain ⟨pre, post, hsplit⟩ := List.append_of_mem hso
      have : d ∈ sortedDeps p s.id := by
        simp [sortedDeps, lookup_of_nodup wf.nodup s hs, mem_isort, hd]
      have := htopo pre s.id post hsplit d this
      rw [hsplit]; simp [this]
    have key : ∀ k i, i ∈ ids p → B - rank i ≤ k → i ∈ o := by
      intro k
      induction k with
      | zero => intro i hi hle; have := hB i hi; omega
      | succ k ih =>
        intro i hi hle
        by_cases hd : i ∈ allDeps p
        · simp [allDeps] at hd
          obtain ⟨s, hs, hds⟩ := hd
          have hr' := hr s hs i hds
          have hsid : s.id ∈ ids p := by simp [ids]; exact ⟨s, hs, rfl⟩
          have := hB s.id hsid
          exact hclosed s hs (ih s.id hsid (by omega)) i hds
        · exact hsinks i (mem_sinks wf hi hd)
    intro hi
    exact key B i hi (by omega)

/-! ## what the lowered program executes -/

/-- nested repetition: the trips of the declared loops, outermost first -/
def nestRep (it : Nat → Nat) : List Nat → List Nat → List Nat
  | [], t => t
  | l :: ls, t => (List.replicate (it l) (nestRep it ls t)).flatten

/-- the leaves one statement contributes: nothing for a no-op or a false guard; otherwise its id
    once per iteration vector of exactly its declared loops -/
def stmtTrace (v : Nat → Bool) (it : Nat → Nat) (s : LStmt) : List Nat :=
  bif s.isNop then []
  else match s.cond with
    | none => nestRep it s.loops [s.id]
    | some c => bif c.eval v then nestRep it s.loops [s.id] else []

theorem trace_wrapLoops (v : Nat → Bool) (it : Nat → Nat) (a : Ast) : ∀ ls : List Nat,
    trace v it (wrapLoops ls a) = nestRep it ls (trace v it a)
  | [] => rfl
  | l :: ls => by simp [wrapLoops, trace, nestRep, trace_wrapLoops v it a ls]

theorem trace_wrap (v : Nat → Bool) (it : Nat → Nat) (s : LStmt) (h : s.isNop = false) :
    trace v it (wrap s) = stmtTrace v it s := by
  unfold wrap stmtTrace
  rw [h]
  simp only [cond_false]
  cases s.cond with
  | none => simp [trace_wrapLoops, trace]
  | some c => simp [trace, trace_wrapLoops]

def orderTrace (p : Phase) (v : Nat → Bool) (it : Nat → Nat) (o : List Nat) : List Nat :=
  o.flatMap fun i => match lookup p i with
    | some s => stmtTrace v it s
    | none => []

theorem mainBlock_trace (p : Phase) (v : Nat → Bool) (it : Nat → Nat) : ∀ (o : List Nat) (blk : List Ast),
    mainBlock p o = .ok blk → traceList v it blk = orderTrace p v it o
  | [], blk, h => by simp [mainBlock] at h; subst h; simp [traceList, orderTrace]
  | i :: is, blk, h => by
    unfold mainBlock at h
    cases hl : lookup p i with
    | none => simp [hl] at h
    | some s =>
      simp only [hl, bind, Except.bind] at h
      cases hr : mainBlock p is with
      | error e => simp [hr] at h
      | ok r =>
        simp only [hr] at h
        have ih := mainBlock_trace p v it is r hr
        cases hn : s.isNop with
        | true =>
          simp [hn] at h; subst h
          simp [orderTrace, hl, stmtTrace, hn] at ih ⊢; exact ih
        | false =>
          simp [hn] at h; subst h
          simp only [traceList, ih, orderTrace, List.flatMap_cons, hl, trace_wrap v it s hn]

theorem mainBlock_total (p : Phase) : ∀ (o : List Nat), (∀ i ∈ o, kn p i = true) →
    ∃ blk, mainBlock p o = .ok blk
  | [], _ => ⟨[], rfl⟩
  | i :: is, h => by
    obtain ⟨r, hr⟩ := mainBlock_total p is (fun x hx => h x (by simp [hx]))
    have := h i (by simp)
    unfold kn at this
    cases hl : lookup p i with
    | none => simp [hl] at this
    | some s => unfold mainBlock; simp [hl, hr, bind, Except.bind]

/-! ## fuel does not matter once it suffices -/
theorem trun_mono (p : Phase) : ∀ (f : Nat) (s : St) (o : List Nat), trun p f s = .ok o →
    ∀ f', f ≤ f' → trun p f' s = .ok o
  | 0, _, _, h, _, _ => by simp [trun] at h
  | f+1, s, o, h, f', hle => by
    obtain ⟨g, hg⟩ : ∃ g, f' = g + 1 := ⟨f' - 1, by omega⟩
    subst hg
    unfold trun at h ⊢
    cases hst : tstep p s with
    | done o' => simpa [hst] using h
    | keyError => simp [hst] at h
    | running s' =>
      simp only [hst] at h ⊢
      exact trun_mono p f s' o h g (by omega)

end Dagrt.Lower
