/-! decimal rendering of naturals is injective (used by C13 and C18) -/
namespace Dagrt.Str

theorem toDigits_inj {a b : Nat} (h : Nat.toDigits 10 a = Nat.toDigits 10 b) : a = b := by
  have ha := Nat.ofDigitChars_toDigits (b := 10) (n := a) (by decide) (by decide)
  have hb := Nat.ofDigitChars_toDigits (b := 10) (n := b) (by decide) (by decide)
  rw [h] at ha; omega

theorem toString_toList (k : Nat) : (toString k).toList = Nat.toDigits 10 k := by
  simp [toString, Nat.toList_repr]

theorem toString_inj {a b : Nat} (h : toString a = toString b) : a = b := by
  apply toDigits_inj
  rw [← toString_toList, ← toString_toList, h]

end Dagrt.Str
