import Dagrt.Model.Builder
import Dagrt.Proofs.StmtProofs
set_option linter.unusedVariables false
set_option linter.unusedSimpArgs false
namespace Dagrt.Builder
open Dagrt Dagrt.Sem

inductive Reach (D : Nat → List Nat) : Nat → Nat → Prop where   -- Reach D i k : k depends* on i
  | refl (i) : Reach D i i
  | step {i d k} : d ∈ D k → Reach D i d → Reach D i k

theorem Reach.mono {D D' : Nat → List Nat} (h : ∀ k d, d ∈ D k → d ∈ D' k) {i k} (r : Reach D i k) : Reach D' i k := by
  induction r with
  | refl => exact .refl _
  | step hd _ ih => exact .step (h _ _ hd) ih

def Conflict (s : Core) (i k : Nat) : Prop :=
  (∃ v, v ∈ s.W i ∧ (v ∈ s.R k ∨ v ∈ s.W k)) ∨ (∃ v, v ∈ s.R i ∧ v ∈ s.W k)

structure Inv (s : Core) : Prop where
  unused : ∀ k, s.n ≤ k → s.D k = []
  wr : ∀ v i, i < s.n → v ∈ s.W i → ∃ w, s.writer v = some w ∧ Reach s.D i w
  rd : ∀ v i, i < s.n → v ∈ s.R i → i ∈ s.readers v ∨ ∃ w, s.writer v = some w ∧ Reach s.D i w
  bw : ∀ v w, s.writer v = some w → w < s.n
  br : ∀ v r, r ∈ s.readers v → r < s.n
  back : ∀ k d, d ∈ s.D k → d < k
  cr : ∀ i k, i < k → k < s.n → Conflict s i k → ∃ d, d ∈ s.D k ∧ Reach s.D i d

theorem inv_init : Inv Core.init := by
  refine ⟨?_, ?_, ?_, ?_, ?_, ?_, ?_⟩ <;> simp [Core.init]

theorem inv_add (s : Core) (r w : List Name) (h : Inv s) : Inv (s.add r w) := by
  have hDsub : ∀ k d, d ∈ s.D k → d ∈ (s.add r w).D k := by
    intro k d hd
    simp only [Core.add]
    split
    · rename_i hk; subst hk; rw [h.unused _ (Nat.le_refl _)] at hd; cases hd
    · exact hd
  have mono : ∀ {i k}, Reach s.D i k → Reach (s.add r w).D i k := fun r' => Reach.mono hDsub r'
  have hDj : (s.add r w).D s.n = depsOf s r w := by simp [Core.add]
  -- every earlier writer of a var accessed by j, and every earlier reader of a var written by j, is reached from deps_j
  have reachW : ∀ v i, i < s.n → v ∈ s.W i → (v ∈ r ∨ v ∈ w) → ∃ d, d ∈ depsOf s r w ∧ Reach s.D i d := by
    intro v i hi hv hacc
    obtain ⟨x, hx, hr⟩ := h.wr v i hi hv
    refine ⟨x, ?_, hr⟩
    simp only [depsOf, List.mem_append, List.mem_filterMap]
    exact Or.inl ⟨v, by simpa using hacc, hx⟩
  have reachR : ∀ v i, i < s.n → v ∈ s.R i → v ∈ w → ∃ d, d ∈ depsOf s r w ∧ Reach s.D i d := by
    intro v i hi hv hw
    rcases h.rd v i hi hv with hrd | ⟨x, hx, hr⟩
    · refine ⟨i, ?_, .refl _⟩
      simp only [depsOf, List.mem_append, List.mem_flatMap]
      exact Or.inr ⟨v, hw, hrd⟩
    · refine ⟨x, ?_, hr⟩
      simp only [depsOf, List.mem_append, List.mem_filterMap]
      exact Or.inl ⟨v, by simp [hw], hx⟩
  refine ⟨?_, ?_, ?_, ?_, ?_, ?_, ?_⟩
  · intro k hk
    simp only [Core.add] at hk ⊢
    have : k ≠ s.n := by omega
    simp [this]; exact h.unused k (by omega)
  · -- wr
    intro v i hi hv
    simp only [Core.add] at hi hv ⊢
    by_cases hvw : v ∈ w
    · simp only [hvw, if_true]
      refine ⟨s.n, rfl, ?_⟩
      by_cases hij : i = s.n
      · subst hij; exact .refl _
      · simp [hij] at hv
        obtain ⟨d, hd, hr⟩ := reachW v i (by omega) hv (Or.inr hvw)
        exact .step (by simpa using hd) (mono hr)
    · simp only [hvw, if_false]
      by_cases hij : i = s.n
      · subst hij; simp at hv; exact absurd hv hvw
      · simp [hij] at hv
        obtain ⟨x, hx, hr⟩ := h.wr v i (by omega) hv
        exact ⟨x, hx, mono hr⟩
  · -- rd
    intro v i hi hv
    simp only [Core.add] at hi hv ⊢
    by_cases hvw : v ∈ w
    · simp only [hvw, if_true]
      right
      refine ⟨s.n, rfl, ?_⟩
      by_cases hij : i = s.n
      · subst hij; exact .refl _
      · simp [hij] at hv
        obtain ⟨d, hd, hr⟩ := reachR v i (by omega) hv hvw
        exact .step (by simpa using hd) (mono hr)
    · simp only [hvw, if_false]
      by_cases hij : i = s.n
      · subst hij; simp at hv; simp [hv]
      · simp [hij] at hv
        rcases h.rd v i (by omega) hv with hrd | ⟨x, hx, hr⟩
        · left; split
          · exact List.mem_cons_of_mem _ hrd
          · exact hrd
        · exact Or.inr ⟨x, hx, mono hr⟩
  · intro v x hx
    simp only [Core.add] at hx ⊢
    split at hx
    · cases hx; omega
    · have := h.bw v x hx; omega
  · intro v x hx
    simp only [Core.add] at hx ⊢
    split at hx
    · cases hx
    · split at hx
      · simp at hx; rcases hx with hx | hx
        · omega
        · have := h.br v x hx; omega
      · have := h.br v x hx; omega
  · intro k d hd
    simp only [Core.add] at hd
    split at hd
    · rename_i hk; subst hk
      simp only [depsOf, List.mem_append, List.mem_filterMap, List.mem_flatMap] at hd
      rcases hd with ⟨v, _, hv⟩ | ⟨v, _, hv⟩
      · exact h.bw v d hv
      · exact h.br v d hv
    · exact h.back k d hd
  · -- cr
    intro i k hik hk hc
    simp only [Core.add] at hk
    by_cases hkj : k = s.n
    · subst hkj
      have hi : i ≠ s.n := by omega
      rw [hDj]
      simp only [Conflict, Core.add, hi, if_false, if_true] at hc
      rcases hc with ⟨v, hvW, hacc⟩ | ⟨v, hvR, hvw⟩
      · obtain ⟨d, hd, hr⟩ := reachW v i hik hvW hacc
        exact ⟨d, hd, mono hr⟩
      · obtain ⟨d, hd, hr⟩ := reachR v i hik hvR hvw
        exact ⟨d, hd, mono hr⟩
    · have hi : i ≠ s.n := by omega
      have hc' : Conflict s i k := by simpa [Conflict, Core.add, hi, hkj] using hc
      obtain ⟨d, hd, hr⟩ := h.cr i k hik (by omega) hc'
      exact ⟨d, hDsub k d hd, mono hr⟩


end Dagrt.Builder

namespace Dagrt.Builder
open Dagrt Dagrt.Sem

/-! ### the invariant holds after every sequence of builder calls -/

theorem freshVar_core (st : BState) (p : Name) : (freshVar st p).1.core = st.core ∧
    (freshVar st p).1.out = st.out := by
  unfold freshVar; split <;> simp

/-- the emitted list mirrors the bookkeeping: `depends_on`, effective write set, and the semantic
    read/write sets of the emitted statement are covered by the effective sets used -/
structure OutOK (st : BState) : Prop where
  len : st.out.length = st.core.n
  deps : ∀ k s d, st.out[k]? = some (s, d) → d = st.core.D k
  wset : ∀ k s d, st.out[k]? = some (s, d) → effW s = st.core.W k
  rset : ∀ k s d, st.out[k]? = some (s, d) → ∀ x ∈ effR s, x ∈ st.core.R k ∨ x ∈ st.core.W k

theorem outOK_init : OutOK BState.init := by
  refine ⟨rfl, ?_, ?_, ?_⟩ <;> simp [BState.init]

theorem effW_eq (c : Expr) (k : Kind) : effW ⟨c, k⟩ = effWrites k := by
  simp [effW, effWrites, declWrites]

theorem effR_sub (st : BState) (k : Kind) :
    ∀ x ∈ effR ⟨condOf st.condStack, k⟩, x ∈ effReads st k ∨ x ∈ effWrites k := by
  intro x hx
  simp only [effR, List.mem_cons, List.mem_append] at hx
  simp only [effReads, effWrites, kindReads, List.mem_append]
  rcases hx with h | h | h
  · left; left; left; right; simp [h]
  · -- declared reads: guard variables or the kind's own reads
    simp only [declReads, List.mem_append] at h
    rcases h with h | h
    · left; left; right; exact h
    · left; left; left; left
      simp only [declReads, depVars, List.nil_append]; exact h
  · right; left; simpa [declWrites] using h

theorem getElem?_snoc_cases {α} {l : List α} {a x : α} {j : Nat} (h : (l ++ [a])[j]? = some x) :
    (j < l.length ∧ l[j]? = some x) ∨ (j = l.length ∧ x = a) := by
  rw [List.getElem?_append] at h
  split at h
  · rename_i hl; exact Or.inl ⟨hl, h⟩
  · rename_i hl
    right
    have : j - l.length = 0 := by
      cases hk : j - l.length with
      | zero => rfl
      | succ k => rw [hk] at h; simp at h
    rw [this] at h; simp at h
    exact ⟨by omega, h.symm⟩

theorem addStatement_outOK (st : BState) (k : Kind) (h : OutOK st) : OutOK (addStatement st k) := by
  obtain ⟨hlen, hdeps, hw, hr⟩ := h
  refine ⟨?_, ?_, ?_, ?_⟩
  · simp [addStatement, Core.add, hlen]
  · intro j s d hj
    simp only [addStatement, Core.add] at hj ⊢
    rcases getElem?_snoc_cases hj with ⟨hjl, hj'⟩ | ⟨hjn, hx⟩
    · have : j ≠ st.core.n := by omega
      simp [this]; exact hdeps j s d hj'
    · rw [hlen] at hjn; subst hjn
      cases hx; simp
  · intro j s d hj
    simp only [addStatement, Core.add] at hj ⊢
    rcases getElem?_snoc_cases hj with ⟨hjl, hj'⟩ | ⟨hjn, hx⟩
    · have : j ≠ st.core.n := by omega
      simp [this]; exact hw j s d hj'
    · rw [hlen] at hjn; subst hjn
      cases hx; simp [effW_eq]
  · intro j s d hj
    simp only [addStatement, Core.add] at hj ⊢
    rcases getElem?_snoc_cases hj with ⟨hjl, hj'⟩ | ⟨hjn, hx⟩
    · have : j ≠ st.core.n := by omega
      simp [this]; exact hr j s d hj'
    · rw [hlen] at hjn; subst hjn
      cases hx
      intro x hx
      simpa using effR_sub st k x hx

theorem outOK_congr {st st' : BState} (hc : st'.core = st.core) (ho : st'.out = st.out) (h : OutOK st) : OutOK st' := by
  obtain ⟨a, b, c, d⟩ := h
  exact ⟨by rw [hc, ho]; exact a, by rw [hc, ho]; exact b, by rw [hc, ho]; exact c, by rw [hc, ho]; exact d⟩

theorem step_ok (st : BState) (op : BOp) (hi : Inv st.core) (ho : OutOK st) :
    Inv (step st op).core ∧ OutOK (step st op) := by
  cases op with
  | stmt k => exact ⟨inv_add _ _ _ hi, addStatement_outOK st k ho⟩
  | ifBegin e =>
    simp only [step]
    have hf := freshVar_core st "<cond>"
    have hi1 : Inv (freshVar st "<cond>").1.core := by rw [hf.1]; exact hi
    have ho1 : OutOK (freshVar st "<cond>").1 := outOK_congr hf.1 hf.2 ho
    constructor
    · exact inv_add _ _ _ hi1
    · exact outOK_congr (st := addStatement (freshVar st "<cond>").1 (.assign (freshVar st "<cond>").2 none e [])) rfl rfl (addStatement_outOK _ _ ho1)
  | ifEnd =>
    simp only [step]; split
    · exact ⟨hi, outOK_congr (st := st) rfl rfl ho⟩
    · exact ⟨hi, outOK_congr (st := st) rfl rfl ho⟩
  | elseBegin =>
    simp only [step]; split
    · exact ⟨hi, outOK_congr (st := st) rfl rfl ho⟩
    · exact ⟨hi, outOK_congr (st := st) rfl rfl ho⟩
  | elseEnd =>
    simp only [step]; split
    · exact ⟨hi, outOK_congr (st := st) rfl rfl ho⟩
    · exact ⟨hi, outOK_congr (st := st) rfl rfl ho⟩
  | fresh p =>
    simp only [step]
    have hf := freshVar_core st p
    exact ⟨by rw [hf.1]; exact hi, outOK_congr hf.1 hf.2 ho⟩

theorem run_ok (ops : List BOp) : Inv (run ops).core ∧ OutOK (run ops) := by
  unfold run
  suffices ∀ st, Inv st.core → OutOK st →
      Inv (ops.foldl (fun st op => if st.failed.isSome then st else step st op) st).core ∧
      OutOK (ops.foldl (fun st op => if st.failed.isSome then st else step st op) st) from
    this _ inv_init outOK_init
  induction ops with
  | nil => intro st h1 h2; exact ⟨h1, h2⟩
  | cons o os ih =>
    intro st h1 h2
    simp only [List.foldl]
    split
    · exact ih st h1 h2
    · have := step_ok st o h1 h2
      exact ih _ this.1 this.2

/-! ### non-conflicting statements commute -/

theorem exec_comm (F : Funs) (s t : Stmt)
    (h1 : ∀ x ∈ effW s, x ∉ effR t ∧ x ∉ effW t) (h2 : ∀ x ∈ effW t, x ∉ effR s ∧ x ∉ effW s) (σ : Store) :
    exec F s (exec F t σ) = exec F t (exec F s σ) := by
  have key : ∀ (s t : Stmt), (∀ x ∈ effW s, x ∉ effR t ∧ x ∉ effW t) → (∀ x ∈ effW t, x ∉ effR s ∧ x ∉ effW s) →
      ∀ x, x ∈ effW s → exec F s (exec F t σ) x = exec F t (exec F s σ) x := by
    intro s t h1 h2 x hx
    have hxt : x ∉ effW t := (h1 x hx).2
    have hr : exec F t (exec F s σ) x = exec F s σ x := (execI_spec F t).2.2.1 _ x hxt
    rw [hr]
    have hag : AgreeOn (effR s ++ effW s) (exec F t σ) σ := by
      intro y hy
      have : y ∉ effW t := by
        intro hyt
        have := h2 y hyt
        simp only [List.mem_append] at hy
        rcases hy with h | h
        · exact this.1 h
        · exact this.2 h
      exact (execI_spec F t).2.2.1 σ y this
    have := (execI_spec F s).2.2.2 (effR s ++ effW s) (exec F t σ) σ
      (fun y hy => by simp [hy]) (fun y hy => by simp [hy]) hag
    exact this x (by simp [hx])
  funext x
  by_cases hs : x ∈ effW s
  · exact key s t h1 h2 x hs
  · by_cases ht : x ∈ effW t
    · exact (key t s h2 h1 x ht).symm
    · have a1 : exec F s (exec F t σ) x = exec F t σ x := (execI_spec F s).2.2.1 _ x hs
      have a2 : exec F t σ x = σ x := (execI_spec F t).2.2.1 _ x ht
      have b1 : exec F t (exec F s σ) x = exec F s σ x := (execI_spec F t).2.2.1 _ x ht
      have b2 : exec F s σ x = σ x := (execI_spec F s).2.2.1 _ x hs
      rw [a1, a2, b1, b2]

/-! ### linear extensions -/

/-- `π` respects the dependency lists `D`: everything a statement depends on comes earlier -/
def LinExt (D : Nat → List Nat) (π : List Nat) : Prop :=
  ∀ pre j post, π = pre ++ j :: post → ∀ d ∈ D j, d ∈ pre

theorem reach_before {D : Nat → List Nat} {π : List Nat} (hl : LinExt D π) {i k : Nat} (hr : Reach D i k) :
    ∀ pre post, π = pre ++ k :: post → i = k ∨ i ∈ pre := by
  induction hr with
  | refl => intro _ _ _; exact Or.inl rfl
  | @step d k' hd _ ih =>
    intro pre post hsplit
    have hdpre := hl pre k' post hsplit d hd
    obtain ⟨p1, p2, hp⟩ := List.append_of_mem hdpre
    have := ih p1 (p2 ++ k' :: post) (by rw [hsplit, hp]; simp)
    right
    rcases this with e | h
    · subst e; exact hdpre
    · rw [hp]; simp [h]

end Dagrt.Builder
