import Dagrt.Model.StepLoop
import Dagrt.Proofs.StmtProofs
import Dagrt.Proofs.BuilderProofs
set_option linter.unusedVariables false
set_option linter.unusedSimpArgs false
/-!
C01: the flat guarded statements the builder emits, executed in program order, do what the builder
calls say block by block (`StepLoop.seqExec`) — helper lemmas.
-/
namespace Dagrt.Sem
open Dagrt

/-- what executing the body of a statement (its kind) does, guard aside -/
def kindT (F : Funs) (k : Kind) (a : Acc) : Acc :=
  match k with
  | .assign lhs sub rhs loops => runLoops F lhs sub rhs loops [] a
  | .callAssign lhs f args kw =>
    let (vs, r1) := evalArgs F [] a.σ args
    let (ks, r2) := evalKw F [] a.σ kw
    assignResults (a.read (r1 ++ r2)) lhs (F f vs ks)
  | .yield e t tid comp =>
    let (vt, r1) := evalI F [] a.σ t
    let (ve, r2) := evalI F [] a.σ e
    setExec (a.read (r1 ++ r2)) (a.σ.log ++ [.stateComputed vt tid comp ve]) .running
  | .raise err => setExec a a.σ.log (.raised err)
  | .fail => setExec a a.σ.log .failed
  | .switch p => setExec a a.σ.log (.switched p)
  | .nop => a

theorem execI_eq (F : Funs) (s : Stmt) (σ : Store) :
    execI F s σ =
      match σ.status with
      | .running =>
        bif (evalI F [] σ s.cond).1.truthy then
          kindT F s.kind (({ σ := σ, reads := [EXEC], writes := [] } : Acc).read (evalI F [] σ s.cond).2)
        else ({ σ := σ, reads := [EXEC], writes := [] } : Acc).read (evalI F [] σ s.cond).2
      | _ => { σ := σ, reads := [EXEC], writes := [] } := by
  unfold execI kindT
  cases σ.status <;> simp only
  cases (evalI F [] σ s.cond).1.truthy <;> simp only [cond_true, cond_false]
  cases s.kind <;> rfl

/-- pointwise equality from agreement on every finite set -/
theorem eq_of_agree_all {σ σ' : Store} (h : ∀ S : List Name, AgreeOn S σ σ') : σ = σ' := by
  funext x; exact h [x] x (by simp)

theorem agree_of_eq {σ σ' : Store} (h : σ = σ') (S : List Name) : AgreeOn S σ σ' := by
  intro x _; rw [h]

/-- the store a statement body leaves depends on the store it starts from only (not on the access
    logs accumulated so far) -/
theorem kindT_σ (F : Funs) (k : Kind) (a b : Acc) (h : a.σ = b.σ) : (kindT F k a).σ = (kindT F k b).σ := by
  cases k with
  | assign lhs sub rhs loops =>
    simp only [kindT]
    apply eq_of_agree_all
    intro S
    have hg := runLoops_good F lhs sub rhs loops []
    -- agreement on a set that contains everything the loops touch, and S
    let T := S ++ (depVars rhs ++ subVars sub ++ [lhs] ++ loopVars loops) ++ [lhs]
    have := hg.agree T a b (by intro x hx; exact List.mem_append_left _ (List.mem_append_right _ hx))
      (by intro x hx; exact List.mem_append_right _ hx) (agree_of_eq h T)
    exact this.mono (by intro x hx; exact List.mem_append_left _ (List.mem_append_left _ hx))
  | callAssign lhs f args kw =>
    simp only [kindT, h]
    apply eq_of_agree_all
    intro S
    apply assignResults_agree
    simp only [Acc.read]
    exact agree_of_eq h S
  | yield e t tid comp => simp [kindT, setExec, Acc.read, h]
  | raise err => simp [kindT, setExec, h]
  | fail => simp [kindT, setExec, h]
  | switch p => simp [kindT, setExec, h]
  | nop => simpa [kindT] using h

/-- a guarded statement: nothing unless the step is still running and the guard holds; then
    exactly what the unguarded statement does -/
theorem exec_guarded (F : Funs) (c : Expr) (k : Kind) (σ : Store) :
    exec F ⟨c, k⟩ σ =
      match σ.status with
      | .running => bif (eval F [] σ c).truthy then exec F ⟨.const (.bool true), k⟩ σ else σ
      | _ => σ := by
  unfold exec
  rw [execI_eq, execI_eq]
  cases hs : σ.status <;> simp only
  unfold eval
  cases (evalI F [] σ c).1.truthy <;> simp only [cond_true, cond_false]
  · simp [Acc.read]
  · have : (evalI F [] σ (Expr.const (Const.bool true))).1.truthy = true := by simp [evalI, Val.truthy]
    simp only [this, cond_true]
    exact kindT_σ F k _ _ (by simp [Acc.read])

end Dagrt.Sem

namespace Dagrt.StepLoop
open Dagrt Dagrt.Sem Dagrt.Builder

/-- the names `if_` allocates for its flags -/
def IsFlag (x : Name) : Prop := ∃ k, x = genName "<cond>" k

/-- what the program's own statements and conditions may mention: no flag names -/
def OpOK : BOp → Prop
  | .stmt k => ∀ x, IsFlag x → x ∉ effR ⟨.const (.bool true), k⟩ ∧ x ∉ effW ⟨.const (.bool true), k⟩
  | .ifBegin e => ∀ x, IsFlag x → x ∉ depVars e
  | _ => True

inductive All2 {α β : Type} (R : α → β → Prop) : List α → List β → Prop
  | nil : All2 R [] []
  | cons {a : α} {b : β} {as : List α} {bs : List β} : R a b → All2 R as bs → All2 R (a :: as) (b :: bs)

theorem All2.snoc {α β : Type} {R : α → β → Prop} {as : List α} {bs : List β} {a : α} {b : β}
    (h : All2 R as bs) (hab : R a b) : All2 R (as ++ [a]) (bs ++ [b]) := by
  induction h with
  | nil => exact All2.cons hab All2.nil
  | cons h1 _ ih => exact All2.cons h1 ih

theorem All2.reverse {α β : Type} {R : α → β → Prop} {as : List α} {bs : List β}
    (h : All2 R as bs) : All2 R as.reverse bs.reverse := by
  induction h with
  | nil => exact All2.nil
  | cons h1 _ ih => simp only [List.reverse_cons]; exact ih.snoc h1

theorem All2.imp {α β : Type} {R R' : α → β → Prop} {as : List α} {bs : List β}
    (h : All2 R as bs) (himp : ∀ a b, a ∈ as → R a b → R' a b) : All2 R' as bs := by
  induction h with
  | nil => exact All2.nil
  | cons h1 _ ih =>
    exact All2.cons (himp _ _ List.mem_cons_self h1) (ih (fun a b ha => himp a b (List.mem_cons_of_mem _ ha)))

theorem evalAll_truthy (F : Funs) (env : List (Name × Int)) (σ : Store) : ∀ cs : List Expr,
    (evalAll F env σ cs).1.truthy = cs.all (fun c => (evalI F env σ c).1.truthy)
  | [] => by simp [evalAll, Val.truthy]
  | c :: cs => by
    rw [evalAll]
    cases h : (evalI F env σ c).1.truthy
    · simp only [h, cond_false, List.all_cons, Bool.false_and]; rfl
    · simp only [h, cond_true, List.all_cons, Bool.true_and]; exact evalAll_truthy F env σ cs

theorem allTrue_eq_all : ∀ bs : List Bool, allTrue bs = bs.all id
  | [] => rfl
  | b :: bs => by simp [allTrue, allTrue_eq_all bs]

/-- the guard the builder attaches holds iff every open block was entered -/
theorem condOf_truthy (F : Funs) (σ : Store) {cs : List Expr} {bs : List Bool}
    (h : All2 (fun c b => (eval F [] σ c).truthy = b) cs bs) :
    (eval F [] σ (condOf cs)).truthy = allTrue bs := by
  have hall : cs.all (fun c => (evalI F [] σ c).1.truthy) = bs.all id := by
    induction h with
    | nil => rfl
    | cons h1 _ ih => simp only [List.all_cons, ih]; unfold eval at h1; rw [h1]; rfl
  rw [allTrue_eq_all, ← hall]
  cases h with
  | nil => simp [condOf, eval, evalI, Val.truthy]
  | cons h1 hr =>
    cases hr with
    | nil => simp [condOf, eval]
    | cons h2 hr' => simp only [condOf, eval, evalI, evalAll_truthy]

theorem exec_assign_plain (F : Funs) (x : Name) (e : Expr) (σ : Store) (hr : σ.status = .running) :
    exec F ⟨.const (.bool true), .assign x none e []⟩ σ = σ.set x (.val (eval F [] σ e)) := by
  unfold exec execI
  simp [hr, evalI, Val.truthy, runLoops, assignOnce, Acc.read, Acc.write, eval]

theorem exec_not_running (F : Funs) (s : Stmt) (σ : Store) (hr : σ.status ≠ .running) : exec F s σ = σ := by
  unfold exec execI
  cases h : σ.status <;> simp_all

theorem effW_kind (c c' : Expr) (k : Kind) : effW ⟨c, k⟩ = effW ⟨c', k⟩ := by
  simp [effW, declWrites]

/-- stores that agree off the flags still do after a statement that does not mention flags -/
theorem exec_agree_nonflag (F : Funs) (k : Kind) (σ σ' : Store)
    (hok : ∀ x, IsFlag x → x ∉ effR ⟨.const (.bool true), k⟩ ∧ x ∉ effW ⟨.const (.bool true), k⟩)
    (h : ∀ x, ¬ IsFlag x → σ x = σ' x) :
    ∀ x, ¬ IsFlag x → exec F ⟨.const (.bool true), k⟩ σ x = exec F ⟨.const (.bool true), k⟩ σ' x := by
  intro x hx
  let s : Stmt := ⟨.const (.bool true), k⟩
  obtain ⟨_, _, hframe, hagree⟩ := execI_spec F s
  by_cases hw : x ∈ effW s
  · let S := effR s ++ effW s
    have hS : AgreeOn S σ σ' := by
      intro y hy
      apply h
      intro hf
      simp only [S, List.mem_append] at hy
      rcases hy with hy | hy
      · exact (hok y hf).1 hy
      · exact (hok y hf).2 hy
    exact hagree S σ σ' (fun y hy => List.mem_append_left _ hy) (fun y hy => List.mem_append_right _ hy) hS x
      (List.mem_append_right _ hw)
  · show (execI F s σ).σ x = (execI F s σ').σ x
    rw [hframe σ x hw, hframe σ' x hw]; exact h x hx

/-! ### flag names -/

theorem exec_not_flag : ¬ IsFlag EXEC := by
  rintro ⟨k, hk⟩
  cases k with
  | zero => simp [genName, EXEC] at hk
  | succ k =>
    have := congrArg String.length hk
    have h7 : ("<cond>_" : String).length = 7 := by decide
    simp [genName, EXEC, String.length_append] at this
    have h6 : ("<exec>" : String).length = 6 := by decide
    omega

theorem freshSearch_spec (seen : List Name) (pfx : Name) : ∀ (fuel k0 : Nat) (nm : Name) (k : Nat),
    freshSearch seen pfx fuel k0 = some (nm, k) → (∃ j, nm = genName pfx j) ∧ nm ∉ seen
  | 0, _, _, _, h => by simp [freshSearch] at h
  | fuel + 1, k0, nm, k, h => by
    unfold freshSearch at h
    simp only at h
    split at h
    · exact freshSearch_spec seen pfx fuel (k0 + 1) nm k h
    · rename_i hn
      simp at h
      exact ⟨⟨k0, h.1.symm⟩, by rw [← h.1]; exact hn⟩

/-! ### the simulation -/

/-- flat world (`st`: the builder's state, `σf`: the store after executing what was emitted so far
    in program order) and block world (`s`) after the same builder calls -/
structure Sim (F : Funs) (σ0 : Store) (st : BState) (σf : Store) (s : SeqState) : Prop where
  nofail : st.failed = none
  sfail : s.failed = false
  agree : ∀ x, ¬ IsFlag x → σf x = s.σ x
  stack : All2 (fun c b => (eval F [] σf c).truthy = b) st.condStack s.stack
  last : (st.lastIf = none ∧ s.lastIf = none) ∨
    (∃ c b, st.lastIf = some c ∧ s.lastIf = some b ∧ (eval F [] σf c).truthy = b)
  flagsSeen : ∀ c, (c ∈ st.condStack ∨ st.lastIf = some c) → ∀ x ∈ depVars c, IsFlag x ∧ x ∈ st.seen
  unset : ∀ x, IsFlag x → x ∉ st.seen → σf x = .val .none
  flat : σf = (st.out.map (·.1)).foldl (fun σ s => exec F s σ) σ0

theorem All2.length_eq {α β : Type} {R : α → β → Prop} {as : List α} {bs : List β} (h : All2 R as bs) :
    as.length = bs.length := by
  induction h with
  | nil => rfl
  | cons _ _ ih => simp [ih]

/-- splitting off the last elements of two related lists -/
theorem All2.unsnoc {α β : Type} {R : α → β → Prop} {as : List α} {bs : List β} (h : All2 R as bs) :
    (as.reverse = [] ∧ bs.reverse = []) ∨
    (∃ a ar b br, as.reverse = a :: ar ∧ bs.reverse = b :: br ∧ R a b ∧ All2 R ar.reverse br.reverse) := by
  have hr := h.reverse
  generalize ha : as.reverse = ar' at hr
  generalize hb : bs.reverse = br' at hr
  cases hr with
  | nil => exact Or.inl ⟨rfl, rfl⟩
  | cons hab hrest => exact Or.inr ⟨_, _, _, _, rfl, rfl, hab, hrest.reverse⟩

/-- the truth value of a flag expression only depends on the flags it mentions -/
theorem eval_flag_stable (F : Funs) (σ σ' : Store) (c : Expr) (h : ∀ x ∈ depVars c, σ x = σ' x) :
    eval F [] σ c = eval F [] σ' c := by
  unfold eval; rw [evalI_agree F [] c h]

theorem sim_stmt (F : Funs) (σ0 : Store) (st : BState) (σf : Store) (s : SeqState) (k : Kind)
    (sim : Sim F σ0 st σf s) (hok : OpOK (.stmt k)) :
    Sim F σ0 (step st (.stmt k)) (exec F ⟨condOf st.condStack, k⟩ σf) (seqStep F s (.stmt k)) := by
  have hguard := condOf_truthy F σf sim.stack
  have hst : σf.status = s.σ.status := by
    have := sim.agree EXEC exec_not_flag
    simp [Store.status, this]
  -- the flags that are in use are not written by this statement
  have hflagframe : ∀ x, IsFlag x → exec F ⟨condOf st.condStack, k⟩ σf x = σf x := by
    intro x hx
    have hw : x ∉ effW ⟨condOf st.condStack, k⟩ := by
      rw [effW_kind _ (.const (.bool true))]; exact (hok x hx).2
    exact (execI_spec F ⟨condOf st.condStack, k⟩).2.2.1 σf x hw
  have hstable : ∀ c, (c ∈ st.condStack ∨ st.lastIf = some c) →
      eval F [] (exec F ⟨condOf st.condStack, k⟩ σf) c = eval F [] σf c := by
    intro c hc
    apply eval_flag_stable
    intro x hx
    exact hflagframe x (sim.flagsSeen c hc x hx).1
  -- the non-flag part
  have hagree : ∀ x, ¬ IsFlag x →
      exec F ⟨condOf st.condStack, k⟩ σf x = (seqStep F s (.stmt k)).σ x := by
    intro x hx
    rw [exec_guarded]
    simp only [seqStep]
    cases hrun : σf.status with
    | running =>
      simp only [hguard]
      cases hall : allTrue s.stack with
      | true =>
        simp only [cond_true]
        exact exec_agree_nonflag F k σf s.σ hok sim.agree x hx
      | false => simp only [cond_false]; exact sim.agree x hx
    | _ =>
      simp only
      cases hall : allTrue s.stack with
      | true =>
        simp only [cond_true]
        have : s.σ.status ≠ .running := by rw [← hst, hrun]; simp
        have h2 := exec_not_running F ⟨.const (.bool true), k⟩ s.σ this
        unfold exec at h2
        rw [h2]; exact sim.agree x hx
      | false => simp only [cond_false]; exact sim.agree x hx
  have hcs : (step st (.stmt k)).condStack = st.condStack := by simp [step, addStatement]
  have hli : (step st (.stmt k)).lastIf = st.lastIf := by simp [step, addStatement]
  have hsstack : (seqStep F s (.stmt k)).stack = s.stack := by
    simp only [seqStep]; cases allTrue s.stack <;> rfl
  have hslast : (seqStep F s (.stmt k)).lastIf = s.lastIf := by
    simp only [seqStep]; cases allTrue s.stack <;> rfl
  refine ⟨by simp [step, addStatement, sim.nofail], ?_, hagree, ?_, ?_, ?_, ?_, ?_⟩
  · simp only [seqStep]; cases allTrue s.stack <;> exact sim.sfail
  · rw [hcs, hsstack]
    exact sim.stack.imp (fun c b hc h => by rw [hstable c (Or.inl hc)]; exact h)
  · rw [hli, hslast]
    rcases sim.last with h | ⟨c, b, h1, h2, h3⟩
    · exact Or.inl h
    · exact Or.inr ⟨c, b, h1, h2, by rw [hstable c (Or.inr h1)]; exact h3⟩
  · intro c hc x hx
    rw [hcs, hli] at hc
    obtain ⟨h1, h2⟩ := sim.flagsSeen c hc x hx
    exact ⟨h1, by simp [step, addStatement, h2]⟩
  · intro x hx hns
    rw [hflagframe x hx]
    apply sim.unset x hx
    intro hmem; apply hns; simp [step, addStatement, hmem]
  · simp only [step, addStatement, List.map_append, List.foldl_append, List.map_cons, List.map_nil, List.foldl_cons,
      List.foldl_nil]
    rw [← sim.flat]

theorem eval_var (F : Funs) (σ : Store) (x : Name) : eval F [] σ (.var x) = σ.get x := by
  simp [eval, evalI, lookupEnv]

theorem sim_ifBegin (F : Funs) (σ0 : Store) (st : BState) (σf : Store) (s : SeqState) (e : Expr)
    (sim : Sim F σ0 st σf s) (hok : OpOK (.ifBegin e)) (hnf : (step st (.ifBegin e)).failed = none) :
    ∃ σf', Sim F σ0 (step st (.ifBegin e)) σf' (seqStep F s (.ifBegin e)) := by
  cases hfs : freshSearch st.seen "<cond>" (st.seen.length + 2) (genCount st.gens "<cond>") with
  | none => simp [step, freshVar, hfs, addStatement] at hnf
  | some r =>
    obtain ⟨nm, k⟩ := r
    obtain ⟨hflag, hnew⟩ := freshSearch_spec _ _ _ _ _ _ hfs
    have hflag : IsFlag nm := hflag
    have hnone : σf nm = .val .none := sim.unset nm hflag hnew
    refine ⟨exec F ⟨condOf st.condStack, .assign nm none e []⟩ σf, ?_⟩
    have hst : σf.status = s.σ.status := by
      have := sim.agree EXEC exec_not_flag
      simp [Store.status, this]
    have hguard := condOf_truthy F σf sim.stack
    have hee : eval F [] σf e = eval F [] s.σ e := by
      apply eval_flag_stable
      intro x hx
      exact sim.agree x (fun hf => hok x hf hx)
    -- what the flag assignment does
    have hσ : exec F ⟨condOf st.condStack, .assign nm none e []⟩ σf =
        (match σf.status with
         | .running => bif allTrue s.stack then σf.set nm (.val (eval F [] σf e)) else σf
         | _ => σf) := by
      rw [exec_guarded, hguard]
      cases hrun : σf.status <;> simp only
      cases allTrue s.stack <;> simp only [cond_true, cond_false]
      exact exec_assign_plain F nm e σf hrun
    have hother : ∀ x, x ≠ nm → exec F ⟨condOf st.condStack, .assign nm none e []⟩ σf x = σf x := by
      intro x hx
      rw [hσ]
      cases σf.status <;> simp only
      cases allTrue s.stack <;> simp only [cond_true, cond_false, Store.set, hx, if_false]
    have hstable : ∀ c, (c ∈ st.condStack ∨ st.lastIf = some c) →
        eval F [] (exec F ⟨condOf st.condStack, .assign nm none e []⟩ σf) c = eval F [] σf c := by
      intro c hc
      apply eval_flag_stable
      intro x hx
      apply hother
      intro hxn
      exact hnew (hxn ▸ (sim.flagsSeen c hc x hx).2)
    have hstep : step st (.ifBegin e) =
        { (addStatement { st with seen := st.seen ++ [nm], gens := setGen st.gens "<cond>" k }
            (.assign nm none e [])) with condStack := st.condStack ++ [.var nm] } := by
      simp [step, freshVar, hfs, addStatement]
    rw [hstep]
    refine ⟨by simp [addStatement, sim.nofail], by simp [seqStep, sim.sfail], ?_, ?_, ?_, ?_, ?_, ?_⟩
    · intro x hx
      rw [hother x (fun h => hx (h ▸ hflag))]
      simp only [seqStep]; exact sim.agree x hx
    · simp only [seqStep]
      apply All2.snoc
      · exact sim.stack.imp (fun c b hc h => by rw [hstable c (Or.inl hc)]; exact h)
      · rw [eval_var, hσ, ← hst]
        cases hrun : σf.status <;> simp only
        case running =>
          cases allTrue s.stack <;> simp only [cond_true, cond_false, Bool.true_and, Bool.false_and]
          · simp [Store.get, hnone, Val.truthy]
          · simp [Store.get, Store.set, hee]
        all_goals simp [Store.get, hnone, Val.truthy]
    · simp only [seqStep, addStatement]
      rcases sim.last with h | ⟨c, b, h1, h2, h3⟩
      · exact Or.inl h
      · exact Or.inr ⟨c, b, h1, h2, by rw [hstable c (Or.inr h1)]; exact h3⟩
    · intro c hc x hx
      simp only [addStatement, List.mem_append, List.mem_singleton] at hc
      rcases hc with (hc | hc) | hc
      · obtain ⟨h1, h2⟩ := sim.flagsSeen c (Or.inl hc) x hx
        exact ⟨h1, by simp [addStatement, h2]⟩
      · subst hc
        simp only [depVars, List.mem_singleton] at hx
        subst hx
        exact ⟨hflag, by simp [addStatement]⟩
      · obtain ⟨h1, h2⟩ := sim.flagsSeen c (Or.inr hc) x hx
        exact ⟨h1, by simp [addStatement, h2]⟩
    · intro x hx hns
      have hxn : x ≠ nm := by
        intro h; apply hns; simp [addStatement, h]
      rw [hother x hxn]
      apply sim.unset x hx
      intro hmem; apply hns; simp [addStatement, hmem]
    · simp only [addStatement, List.map_append, List.foldl_append, List.map_cons, List.map_nil, List.foldl_cons,
        List.foldl_nil]
      rw [← sim.flat]

theorem sim_ifEnd (F : Funs) (σ0 : Store) (st : BState) (σf : Store) (s : SeqState)
    (sim : Sim F σ0 st σf s) (hnf : (step st .ifEnd).failed = none) :
    Sim F σ0 (step st .ifEnd) σf (seqStep F s .ifEnd) := by
  rcases sim.stack.unsnoc with ⟨h1, h2⟩ | ⟨c, cr, b, br, h1, h2, hcb, hrest⟩
  · simp [step, h1] at hnf
  · have hmem : ∀ c', (c' = c ∨ c' ∈ cr.reverse) → c' ∈ st.condStack := by
      intro c' hc'
      have : c' ∈ st.condStack.reverse := by
        rw [h1]; rcases hc' with h | h
        · simp [h]
        · simp at h; simp [h]
      simpa using this
    simp only [step, seqStep, h1, h2]
    refine ⟨sim.nofail, sim.sfail, sim.agree, hrest, Or.inr ⟨c, b, rfl, rfl, hcb⟩, ?_, sim.unset, sim.flat⟩
    intro c' hc' x hx
    apply sim.flagsSeen c' (Or.inl _) x hx
    rcases hc' with h | h
    · exact hmem c' (Or.inr h)
    · simp only [Option.some.injEq] at h
      exact hmem c' (Or.inl h.symm)

theorem sim_elseEnd (F : Funs) (σ0 : Store) (st : BState) (σf : Store) (s : SeqState)
    (sim : Sim F σ0 st σf s) (hnf : (step st .elseEnd).failed = none) :
    Sim F σ0 (step st .elseEnd) σf (seqStep F s .elseEnd) := by
  rcases sim.stack.unsnoc with ⟨h1, h2⟩ | ⟨c, cr, b, br, h1, h2, hcb, hrest⟩
  · simp [step, h1] at hnf
  · have hmem : ∀ c', c' ∈ cr.reverse → c' ∈ st.condStack := by
      intro c' hc'
      have : c' ∈ st.condStack.reverse := by
        rw [h1]; simp at hc'; simp [hc']
      simpa using this
    simp only [step, seqStep, h1, h2]
    refine ⟨sim.nofail, sim.sfail, sim.agree, hrest, Or.inl ⟨rfl, rfl⟩, ?_, sim.unset, sim.flat⟩
    intro c' hc' x hx
    rcases hc' with h | h
    · exact sim.flagsSeen c' (Or.inl (hmem c' h)) x hx
    · simp at h

theorem sim_elseBegin (F : Funs) (σ0 : Store) (st : BState) (σf : Store) (s : SeqState)
    (sim : Sim F σ0 st σf s) (hnf : (step st .elseBegin).failed = none) :
    Sim F σ0 (step st .elseBegin) σf (seqStep F s .elseBegin) := by
  rcases sim.last with ⟨h1, h2⟩ | ⟨c, b, h1, h2, h3⟩
  · simp [step, h1] at hnf
  · simp only [step, seqStep, h1, h2]
    refine ⟨sim.nofail, sim.sfail, sim.agree, ?_, Or.inr ⟨c, b, rfl, rfl, h3⟩, ?_, sim.unset, sim.flat⟩
    · apply sim.stack.snoc
      unfold eval at h3
      show (Val.bool (!(evalI F [] σf c).1.truthy)).truthy = !b
      rw [h3]; rfl
    · intro c' hc' x hx
      simp only [List.mem_append, List.mem_singleton] at hc'
      rcases hc' with (h | h) | h
      · exact sim.flagsSeen c' (Or.inl h) x hx
      · subst h
        simp only [depVars] at hx
        exact sim.flagsSeen c (Or.inr h1) x hx
      · exact sim.flagsSeen c' (Or.inr (h1.trans h)) x hx

theorem sim_fresh (F : Funs) (σ0 : Store) (st : BState) (σf : Store) (s : SeqState) (pfx : Name)
    (sim : Sim F σ0 st σf s) (hnf : (step st (.fresh pfx)).failed = none) :
    Sim F σ0 (step st (.fresh pfx)) σf (seqStep F s (.fresh pfx)) := by
  cases hfs : freshSearch st.seen pfx (st.seen.length + 2) (genCount st.gens pfx) with
  | none => simp [step, freshVar, hfs] at hnf
  | some r =>
    obtain ⟨nm, k⟩ := r
    simp only [step, freshVar, hfs, seqStep]
    refine ⟨sim.nofail, sim.sfail, sim.agree, sim.stack, sim.last, ?_, ?_, sim.flat⟩
    · intro c hc x hx
      obtain ⟨a, b⟩ := sim.flagsSeen c hc x hx
      exact ⟨a, by simp [b]⟩
    · intro x hx hns
      apply sim.unset x hx
      intro hmem; apply hns; simp [hmem]

/-- one builder call keeps the two worlds in step -/
theorem sim_step (F : Funs) (σ0 : Store) (st : BState) (σf : Store) (s : SeqState) (op : BOp)
    (sim : Sim F σ0 st σf s) (hok : OpOK op) (hnf : (step st op).failed = none) :
    ∃ σf', Sim F σ0 (step st op) σf' (seqStep F s op) := by
  cases op with
  | stmt k => exact ⟨_, sim_stmt F σ0 st σf s k sim hok⟩
  | ifBegin e => exact sim_ifBegin F σ0 st σf s e sim hok hnf
  | ifEnd => exact ⟨_, sim_ifEnd F σ0 st σf s sim hnf⟩
  | elseBegin => exact ⟨_, sim_elseBegin F σ0 st σf s sim hnf⟩
  | elseEnd => exact ⟨_, sim_elseEnd F σ0 st σf s sim hnf⟩
  | fresh pfx => exact ⟨_, sim_fresh F σ0 st σf s pfx sim hnf⟩

def runFrom (st : BState) (ops : List BOp) : BState :=
  ops.foldl (fun st op => if st.failed.isSome then st else step st op) st

def seqFrom (F : Funs) (s : SeqState) (ops : List BOp) : SeqState :=
  ops.foldl (fun s op => bif s.failed then s else seqStep F s op) s

theorem runFrom_failed (st : BState) (h : st.failed.isSome) : ∀ ops, runFrom st ops = st
  | [] => rfl
  | op :: ops => by
    unfold runFrom
    simp only [List.foldl_cons, h, if_true]
    exact runFrom_failed st h ops

theorem sim_run (F : Funs) (σ0 : Store) : ∀ (ops : List BOp) (st : BState) (σf : Store) (s : SeqState),
    Sim F σ0 st σf s → (∀ op ∈ ops, OpOK op) → (runFrom st ops).failed = none →
    ∃ σf', Sim F σ0 (runFrom st ops) σf' (seqFrom F s ops)
  | [], st, σf, s, sim, _, _ => ⟨σf, sim⟩
  | op :: ops, st, σf, s, sim, hok, hnf => by
    have h1 : runFrom st (op :: ops) = runFrom (step st op) ops := by
      unfold runFrom; simp [sim.nofail]
    have h2 : seqFrom F s (op :: ops) = seqFrom F (seqStep F s op) ops := by
      unfold seqFrom; simp [sim.sfail]
    rw [h1] at hnf ⊢
    rw [h2]
    have hstep : (step st op).failed = none := by
      cases hf : (step st op).failed with
      | none => rfl
      | some m =>
        rw [runFrom_failed _ (by simp [hf])] at hnf
        rw [hf] at hnf; cases hnf
    obtain ⟨σf', sim'⟩ := sim_step F σ0 st σf s op sim (hok op List.mem_cons_self) hstep
    exact sim_run F σ0 ops _ σf' _ sim' (fun o ho => hok o (List.mem_cons_of_mem _ ho)) hnf

end Dagrt.StepLoop
