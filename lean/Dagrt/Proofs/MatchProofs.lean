import Dagrt.Model.Match
import Dagrt.Proofs.HoistProofs
set_option linter.unusedVariables false
set_option linter.unusedSimpArgs false
/-!
Soundness of the modelled matcher (`Model/Match.lean`) — helper lemmas for C17.
Semantics: `Dagrt.Hoist.evalZ` (integers, uninterpreted function symbols and non-arithmetic
operators, sums/products as folds).
-/
namespace Dagrt.Match
open Dagrt Dagrt.Hoist

/-! ### structural equality decides equality -/
mutual
theorem beq_eq : ∀ a b : Expr, Expr.beq a b = true → a = b
  | .const a, b, h => by cases b <;> simp_all [Expr.beq]
  | .var a, b, h => by cases b <;> simp_all [Expr.beq]
  | .sum a, b, h => by
    cases b <;> simp [Expr.beq] at h
    rw [beqL_eq _ _ h]
  | .prod a, b, h => by
    cases b <;> simp [Expr.beq] at h
    rw [beqL_eq _ _ h]
  | .quot a1 a2, b, h => by
    cases b <;> simp [Expr.beq] at h
    rw [beq_eq _ _ h.1, beq_eq _ _ h.2]
  | .pow a1 a2, b, h => by
    cases b <;> simp [Expr.beq] at h
    rw [beq_eq _ _ h.1, beq_eq _ _ h.2]
  | .call f a k, b, h => by
    cases b <;> simp [Expr.beq] at h
    rw [h.1.1, beqL_eq _ _ h.1.2, beqK_eq _ _ h.2]
  | .sub a1 a2, b, h => by
    cases b <;> simp [Expr.beq] at h
    rw [beq_eq _ _ h.1, beq_eq _ _ h.2]
  | .attr a n, b, h => by
    cases b <;> simp [Expr.beq] at h
    rw [h.1, beq_eq _ _ h.2]
  | .cmp o a1 a2, b, h => by
    cases b <;> simp [Expr.beq] at h
    rw [h.1.1, beq_eq _ _ h.1.2, beq_eq _ _ h.2]
  | .lnot a, b, h => by
    cases b <;> simp [Expr.beq] at h
    rw [beq_eq _ _ h]
  | .land a, b, h => by
    cases b <;> simp [Expr.beq] at h
    rw [beqL_eq _ _ h]
  | .lor a, b, h => by
    cases b <;> simp [Expr.beq] at h
    rw [beqL_eq _ _ h]
  | .ite a1 a2 a3, b, h => by
    cases b <;> simp [Expr.beq] at h
    rw [beq_eq _ _ h.1.1, beq_eq _ _ h.1.2, beq_eq _ _ h.2]
  | .min a, b, h => by
    cases b <;> simp [Expr.beq] at h
    rw [beqL_eq _ _ h]
  | .max a, b, h => by
    cases b <;> simp [Expr.beq] at h
    rw [beqL_eq _ _ h]
theorem beqL_eq : ∀ a b : List Expr, Expr.beqL a b = true → a = b
  | [], b, h => by cases b <;> simp_all [Expr.beqL]
  | a :: as, b, h => by
    cases b with
    | nil => simp [Expr.beqL] at h
    | cons b bs =>
      simp [Expr.beqL] at h
      rw [beq_eq _ _ h.1, beqL_eq _ _ h.2]
theorem beqK_eq : ∀ a b : List (Name × Expr), Expr.beqK a b = true → a = b
  | [], b, h => by cases b <;> simp_all [Expr.beqK]
  | (k, a) :: as, b, h => by
    cases b with
    | nil => simp [Expr.beqK] at h
    | cons b bs =>
      obtain ⟨l, b⟩ := b
      simp [Expr.beqK] at h
      rw [h.1.1, beq_eq _ _ h.1.2, beqK_eq _ _ h.2]
end

/-! ### records as partial maps -/

theorem lookupE_append (a b : List (Name × Expr)) (x : Name) :
    lookupE (a ++ b) x = match lookupE a x with | some v => some v | none => lookupE b x := by
  induction a with
  | nil => simp [lookupE]
  | cons p a ih =>
    obtain ⟨k, v⟩ := p
    simp only [List.cons_append, lookupE]
    split <;> simp_all

theorem lookupE_mem {m : List (Name × Expr)} {x : Name} {v : Expr} (h : lookupE m x = some v) : (x, v) ∈ m := by
  induction m with
  | nil => simp [lookupE] at h
  | cons p m ih =>
    obtain ⟨k, w⟩ := p
    simp only [lookupE] at h
    split at h
    · simp_all
    · exact List.mem_cons_of_mem _ (ih h)

/-- `b` agrees with `a` wherever `a` is defined -/
def Ext (a b : URec) : Prop := ∀ x v, lookupE a.lmap x = some v → lookupE b.lmap x = some v

theorem Ext.refl (a : URec) : Ext a a := fun _ _ h => h
theorem Ext.trans {a b c : URec} (h1 : Ext a b) (h2 : Ext b c) : Ext a c := fun x v h => h2 x v (h1 x v h)

/-- every bound name is a declared free variable -/
def KeysIn (C : List Name) (r : URec) : Prop := ∀ p ∈ r.lmap, C.contains p.1 = true

theorem addsE_spec (m1 : List (Name × Expr)) : ∀ (m2 l : List (Name × Expr)), addsE m1 m2 = some l →
    (∀ x v, lookupE m2 x = some v → lookupE (m1 ++ l) x = some v) ∧ (∀ p ∈ l, p ∈ m2) := by
  intro m2
  induction m2 with
  | nil => intro l h; simp [addsE] at h; subst h; simp [lookupE]
  | cons p m2 ih =>
    obtain ⟨n, v⟩ := p
    intro l h
    simp only [addsE] at h
    split at h
    · rename_i v1 hv1
      split at h
      · rename_i hb
        have hv : v1 = v := beq_eq _ _ hb
        obtain ⟨h1, h2⟩ := ih l h
        refine ⟨?_, fun p hp => List.mem_cons_of_mem _ (h2 p hp)⟩
        intro x w hx
        simp only [lookupE] at hx
        split at hx
        · rename_i hnx
          subst hnx
          simp at hx; subst hx
          rw [lookupE_append, hv1, hv]
        · exact h1 x w hx
      · simp at h
    · rename_i hnone
      split at h
      · rename_i a ha
        simp at h; subst h
        obtain ⟨h1, h2⟩ := ih a ha
        refine ⟨?_, ?_⟩
        · intro x w hx
          simp only [lookupE] at hx
          split at hx
          · rename_i hnx
            subst hnx
            simp at hx; subst hx
            rw [lookupE_append, hnone]; simp [lookupE]
          · rename_i hnx
            have := h1 x w hx
            rw [lookupE_append] at this ⊢
            cases hm : lookupE m1 x with
            | some v' => simp [hm] at this ⊢; exact this
            | none => simp [hm] at this ⊢; simp [lookupE, hnx, this]
        · intro p hp
          simp at hp
          rcases hp with hp | hp
          · simp [hp]
          · exact List.mem_cons_of_mem _ (h2 p hp)
      · simp at h

theorem unify_spec {C : List Name} {a b r : URec} (h : a.unify b = some r) :
    Ext a r ∧ Ext b r ∧ (KeysIn C a → KeysIn C b → KeysIn C r) := by
  unfold URec.unify at h
  split at h
  · simp at h
  · rename_i l hl
    split at h
    · simp at h
    · rename_i rr hr
      simp at h; subst h
      obtain ⟨h1, h2⟩ := addsE_spec a.lmap b.lmap l hl
      refine ⟨?_, ?_, ?_⟩
      · intro x v hx
        show lookupE (a.lmap ++ l) x = some v
        rw [lookupE_append, hx]
      · intro x v hx; exact h1 x v hx
      · intro ka kb p hp
        simp at hp
        rcases hp with hp | hp
        · exact ka p hp
        · exact kb p (h2 p hp)

theorem mem_unifyMany {us : List URec} {u r : URec} : r ∈ unifyMany us u ↔ ∃ u1 ∈ us, u1.unify u = some r := by
  unfold unifyMany; simp [List.mem_filterMap]

theorem KeysIn_ofEq {C : List Name} {x : Name} {e : Expr} (h : C.contains x = true) : KeysIn C (URec.ofEq x e) := by
  intro p hp; simp [URec.ofEq] at hp; subst hp; exact h

theorem lookup_ofEq (x : Name) (e : Expr) : lookupE (URec.ofEq x e).lmap x = some e := by
  simp [URec.ofEq, lookupE]

theorem KeysIn_empty (C : List Name) : KeysIn C URec.empty := by intro p hp; simp [URec.empty] at hp

/-! ### semantics of substitutions -/

abbrev Sub := Name → Option Expr
def Extends (r : URec) (σ : Sub) : Prop := ∀ x v, lookupE r.lmap x = some v → σ x = some v
def DomC (C : List Name) (σ : Sub) : Prop := ∀ x, C.contains x = false → σ x = none

/-- every substitution that extends the record (and binds declared free variables only) makes the
    template evaluate to the value of the target — for all valuations and interpretations -/
def Sat (C : List Name) (r : URec) (t o : Expr) : Prop :=
  ∀ σ, Extends r σ → DomC C σ → ∀ ρ F, evalZ ρ F (subst σ t) = evalZ ρ F o

theorem Extends.mono {a b : URec} {σ : Sub} (h : Ext a b) (hb : Extends b σ) : Extends a σ :=
  fun x v hx => hb x v (h x v hx)

theorem Sat.mono {C : List Name} {a b : URec} {t o : Expr} (h : Ext a b) (hs : Sat C a t o) : Sat C b t o :=
  fun σ he hd => hs σ (he.mono h) hd

/-! ### commutative-associative folds -/

def AC.op : AC → Int → Int → Int
  | .sum => fun a b => a + b
  | .prod => fun a b => a * b
def AC.unit : AC → Int
  | .sum => 0
  | .prod => 1
def AC.foldV (k : AC) (vs : List Int) : Int := vs.foldr k.op k.unit

theorem AC.op_comm (k : AC) (a b : Int) : k.op a b = k.op b a := by
  cases k <;> simp [AC.op, Int.add_comm, Int.mul_comm]
theorem AC.op_assoc (k : AC) (a b c : Int) : k.op (k.op a b) c = k.op a (k.op b c) := by
  cases k <;> simp [AC.op, Int.add_assoc, Int.mul_assoc]
theorem AC.unit_op (k : AC) (a : Int) : k.op k.unit a = a := by
  cases k <;> simp [AC.op, AC.unit]
theorem AC.op_unit (k : AC) (a : Int) : k.op a k.unit = a := by
  cases k <;> simp [AC.op, AC.unit]

@[simp] theorem AC.foldV_nil (k : AC) : k.foldV [] = k.unit := rfl
@[simp] theorem AC.foldV_cons (k : AC) (a : Int) (l : List Int) : k.foldV (a :: l) = k.op a (k.foldV l) := rfl

theorem AC.foldV_append (k : AC) (a b : List Int) : k.foldV (a ++ b) = k.op (k.foldV a) (k.foldV b) := by
  induction a with
  | nil => simp [k.unit_op]
  | cons x a ih => simp [ih, k.op_assoc]

theorem AC.foldV_perm (k : AC) {a b : List Int} (h : a.Perm b) : k.foldV a = k.foldV b := by
  induction h with
  | nil => rfl
  | cons x _ ih => simp [ih]
  | swap x y l => simp; rw [← k.op_assoc, ← k.op_assoc, k.op_comm y x]
  | trans _ _ ih1 ih2 => rw [ih1, ih2]

theorem sumZ_eq (ρ : Env) (F : FunI) (cs : List Expr) : sumZ ρ F cs = AC.foldV .sum (cs.map (evalZ ρ F)) := by
  induction cs with
  | nil => simp [sumZ, AC.unit]
  | cons c cs ih => simp [sumZ, ih, AC.op]
theorem prodZ_eq (ρ : Env) (F : FunI) (cs : List Expr) : prodZ ρ F cs = AC.foldV .prod (cs.map (evalZ ρ F)) := by
  induction cs with
  | nil => simp [prodZ, AC.unit]
  | cons c cs ih => simp [prodZ, ih, AC.op]

theorem evalZ_mk (k : AC) (ρ : Env) (F : FunI) (cs : List Expr) :
    evalZ ρ F (k.mk cs) = k.foldV (cs.map (evalZ ρ F)) := by
  cases k
  · simp [AC.mk, evalZ, sumZ_eq]
  · simp [AC.mk, evalZ, prodZ_eq]

theorem evalZ_ident (k : AC) (ρ : Env) (F : FunI) : evalZ ρ F k.ident = k.unit := by
  cases k <;> simp [AC.ident, evalZ, AC.unit]

theorem isZero_eq {e : Expr} (h : isZero e = true) : e = .const (.int 0) := by
  unfold isZero at h; split at h <;> simp_all
theorem isOne_eq {e : Expr} (h : isOne e = true) : e = .const (.int 1) := by
  unfold isOne at h; split at h <;> simp_all

mutual
theorem flatS_sum (ρ : Env) (F : FunI) : ∀ e : Expr, sumZ ρ F (flatS e) = evalZ ρ F e
  | .sum cs => by rw [flatS]; simp only [evalZ]; exact flatSL_sum ρ F cs
  | .const c => by
    rw [flatS]; split
    · rename_i h; rw [isZero_eq h]; simp [sumZ, evalZ]
    · simp [sumZ]
    all_goals (intros; simp_all)
  | .var _ => by rw [flatS] <;> simp [isZero, sumZ]
  | .prod _ => by rw [flatS] <;> simp [isZero, sumZ]
  | .quot _ _ => by rw [flatS] <;> simp [isZero, sumZ]
  | .pow _ _ => by rw [flatS] <;> simp [isZero, sumZ]
  | .call _ _ _ => by rw [flatS] <;> simp [isZero, sumZ]
  | .sub _ _ => by rw [flatS] <;> simp [isZero, sumZ]
  | .attr _ _ => by rw [flatS] <;> simp [isZero, sumZ]
  | .cmp _ _ _ => by rw [flatS] <;> simp [isZero, sumZ]
  | .lnot _ => by rw [flatS] <;> simp [isZero, sumZ]
  | .land _ => by rw [flatS] <;> simp [isZero, sumZ]
  | .lor _ => by rw [flatS] <;> simp [isZero, sumZ]
  | .ite _ _ _ => by rw [flatS] <;> simp [isZero, sumZ]
  | .min _ => by rw [flatS] <;> simp [isZero, sumZ]
  | .max _ => by rw [flatS] <;> simp [isZero, sumZ]
theorem flatSL_sum (ρ : Env) (F : FunI) : ∀ cs : List Expr, sumZ ρ F (flatSL cs) = sumZ ρ F cs
  | [] => by simp [flatSL]
  | c :: cs => by
    rw [flatSL, sumZ_eq, List.map_append, AC.foldV_append, ← sumZ_eq, ← sumZ_eq, flatS_sum ρ F c, flatSL_sum ρ F cs]
    simp [sumZ, AC.op]
end

mutual
theorem flatP_prod (ρ : Env) (F : FunI) : ∀ e : Expr,
    (flatP e = none → evalZ ρ F e = 0) ∧ (∀ xs, flatP e = some xs → prodZ ρ F xs = evalZ ρ F e)
  | .prod cs => by rw [flatP]; simp only [evalZ]; exact flatPL_prod ρ F cs
  | .const c => by
    rw [flatP]
    by_cases hz : isZero (.const c) = true
    · simp [hz]; rw [isZero_eq hz]; simp [evalZ]
    · by_cases ho : isOne (.const c) = true
      · simp [hz, ho]; rw [isOne_eq ho]; simp [evalZ, prodZ]
      · simp [hz, ho, prodZ]
    all_goals (intros; simp_all)
  | .var _ => by rw [flatP] <;> simp [isZero, isOne, prodZ]
  | .sum _ => by rw [flatP] <;> simp [isZero, isOne, prodZ]
  | .quot _ _ => by rw [flatP] <;> simp [isZero, isOne, prodZ]
  | .pow _ _ => by rw [flatP] <;> simp [isZero, isOne, prodZ]
  | .call _ _ _ => by rw [flatP] <;> simp [isZero, isOne, prodZ]
  | .sub _ _ => by rw [flatP] <;> simp [isZero, isOne, prodZ]
  | .attr _ _ => by rw [flatP] <;> simp [isZero, isOne, prodZ]
  | .cmp _ _ _ => by rw [flatP] <;> simp [isZero, isOne, prodZ]
  | .lnot _ => by rw [flatP] <;> simp [isZero, isOne, prodZ]
  | .land _ => by rw [flatP] <;> simp [isZero, isOne, prodZ]
  | .lor _ => by rw [flatP] <;> simp [isZero, isOne, prodZ]
  | .ite _ _ _ => by rw [flatP] <;> simp [isZero, isOne, prodZ]
  | .min _ => by rw [flatP] <;> simp [isZero, isOne, prodZ]
  | .max _ => by rw [flatP] <;> simp [isZero, isOne, prodZ]
theorem flatPL_prod (ρ : Env) (F : FunI) : ∀ cs : List Expr,
    (flatPL cs = none → prodZ ρ F cs = 0) ∧ (∀ xs, flatPL cs = some xs → prodZ ρ F xs = prodZ ρ F cs)
  | [] => by simp [flatPL, prodZ]
  | c :: cs => by
    obtain ⟨h1, h2⟩ := flatP_prod ρ F c
    obtain ⟨h3, h4⟩ := flatPL_prod ρ F cs
    rw [flatPL]
    cases hc : flatP c with
    | none => simp [prodZ, h1 hc]
    | some a =>
      cases hcs : flatPL cs with
      | none => simp [prodZ, h3 hcs]
      | some b =>
        simp
        rw [prodZ_eq, List.map_append, AC.foldV_append, ← prodZ_eq, ← prodZ_eq, h2 a hc, h4 b hcs]
        simp [prodZ, AC.op]
end

theorem evalZ_factory (k : AC) (ρ : Env) (F : FunI) (ts : List Expr) :
    evalZ ρ F (k.factory ts) = k.foldV (ts.map (evalZ ρ F)) := by
  cases k
  · simp only [AC.factory, flattenedSum]
    rw [← sumZ_eq, ← flatSL_sum ρ F ts]
    split
    · rename_i h; simp [h, evalZ, sumZ]
    · rename_i x h; simp [h, sumZ]
    · simp [evalZ]
  · simp only [AC.factory, flattenedProduct]
    rw [← prodZ_eq]
    obtain ⟨h1, h2⟩ := flatPL_prod ρ F ts
    split
    · rename_i h; simp [evalZ, h1 h]
    · rename_i h; rw [← h2 _ h]; simp [evalZ, prodZ]
    · rename_i x h; rw [← h2 _ h]; simp [prodZ]
    · rename_i xs _ _ h; rw [← h2 _ h]; simp [evalZ]

/-! ### enumeration of partitions -/

theorem splits_perm : ∀ (s : List Nat) (n : Nat) (p : List Nat × List Nat), p ∈ splits s n → (p.1 ++ p.2).Perm s
  | [], 0, p, h => by simp [splits] at h; subst h; simp
  | [], _ + 1, p, h => by simp [splits] at h
  | x :: xs, 0, p, h => by simp [splits] at h; subst h; simp
  | x :: xs, n + 1, p, h => by
    simp only [splits, List.mem_append, List.mem_map] at h
    rcases h with ⟨q, hq, rfl⟩ | ⟨q, hq, rfl⟩
    · have := splits_perm xs n q hq
      simpa using this
    · have := splits_perm xs (n + 1) q hq
      simp only
      exact (List.perm_middle).trans (List.Perm.cons x this)

theorem partitions_spec : ∀ (k : Nat) (s : List Nat) (p : List (List Nat)), p ∈ partitions s k →
    p.length = k ∧ p.flatten.Perm s := by
  intro k
  induction k with
  | zero => intro s p h; simp [partitions] at h
  | succ k ih =>
    intro s p h
    cases k with
    | zero => simp [partitions] at h; subst h; simp
    | succ k =>
      simp only [partitions, List.mem_flatMap, List.mem_map] at h
      obtain ⟨size, _, q, hq, g, hg, rfl⟩ := h
      obtain ⟨hl, hp⟩ := ih q.2 g hg
      refine ⟨by simp [hl], ?_⟩
      simp only [List.flatten_cons]
      exact (List.Perm.append_left q.1 hp).trans (splits_perm s size q hq)

/-! ### matching the plain-variable children against a partition of the left-over target children -/

inductive All2 {α β : Type} (R : α → β → Prop) : List α → List β → Prop
  | nil : All2 R [] []
  | cons {a : α} {b : β} {as : List α} {bs : List β} : R a b → All2 R as bs → All2 R (a :: as) (b :: bs)

theorem All2.nil_right {α β : Type} {R : α → β → Prop} {as : List α} (h : All2 R as []) : as = [] := by
  cases h; rfl

/-- value of the `j`-th child of the target -/
def V (ρ : Env) (F : FunI) (os : List Expr) (j : Nat) : Int := evalZ ρ F (pick os j)

def varVal (σ : Sub) (ρ : Env) (F : FunI) (x : Name) : Int := evalZ ρ F (subst σ (.var x))

theorem tryPartition_spec (C : List Name) (k : AC) (os : List Expr) :
    ∀ (gs : List (List Nat)) (xs : List Name) (r r' : URec), gs.length = xs.length →
      (∀ x ∈ xs, C.contains x = true) → tryPartition k os gs xs r = some r' →
      Ext r r' ∧ (KeysIn C r → KeysIn C r') ∧
        All2 (fun g x => lookupE r'.lmap x = some (k.factory (g.map (pick os)))) gs xs := by
  intro gs
  induction gs with
  | nil =>
    intro xs r r' hl _ h
    cases xs with
    | nil => simp [tryPartition] at h; subst h; exact ⟨Ext.refl _, id, All2.nil⟩
    | cons => simp at hl
  | cons g gs ih =>
    intro xs r r' hl hC h
    cases xs with
    | nil => simp at hl
    | cons x xs =>
      simp only [tryPartition] at h
      split at h
      · simp at h
      · rename_i r1 h1
        obtain ⟨e1, e2, e3⟩ := unify_spec (C := C) h1
        obtain ⟨f1, f2, f3⟩ := ih xs r1 r' (by simpa using hl) (fun y hy => hC y (List.mem_cons_of_mem _ hy)) h
        refine ⟨e1.trans f1, fun hk => f2 (e3 hk (KeysIn_ofEq (hC x (List.mem_cons_self)))), ?_⟩
        exact All2.cons (f1 _ _ (e2 _ _ (lookup_ofEq _ _))) f3

theorem plain_fold (k : AC) (os : List Expr) (σ : Sub) (ρ : Env) (F : FunI) (r : URec) (he : Extends r σ) :
    ∀ (gs : List (List Nat)) (xs : List Name),
      All2 (fun g x => lookupE r.lmap x = some (k.factory (g.map (pick os)))) gs xs →
      k.foldV (xs.map (varVal σ ρ F)) = k.foldV (gs.flatten.map (V ρ F os)) := by
  intro gs xs h
  induction h with
  | nil => simp
  | cons hx _ ih =>
    rename_i g x gs xs
    simp only [List.map_cons, AC.foldV_cons, List.flatten_cons, List.map_append, AC.foldV_append, ih]
    congr 1
    simp only [varVal, subst, he _ _ hx, Option.getD_some, evalZ_factory, List.map_map]
    rfl

theorem firstSome_mem {α β : Type} (f : α → Option β) : ∀ (l : List α) (b : β), firstSome f l = some b → ∃ a ∈ l, f a = some b
  | [], b, h => by simp [firstSome] at h
  | a :: as, b, h => by
    simp only [firstSome] at h
    split at h
    · rename_i b' hb; simp at h; subst h; exact ⟨a, List.mem_cons_self, hb⟩
    · obtain ⟨a', ha', hf⟩ := firstSome_mem f as b h
      exact ⟨a', List.mem_cons_of_mem _ ha', hf⟩

theorem matchPlain_spec (C : List Name) (k : AC) (os : List Expr) (plain : List Name) (hasNonVar : Bool)
    (us : List URec) (urec : URec) (left : List Nat) (r : URec)
    (hC : ∀ x ∈ plain, C.contains x = true) (hr : r ∈ matchPlain k os plain hasNonVar us urec left) :
    Ext urec r ∧ (KeysIn C urec → (∀ u ∈ us, KeysIn C u) → KeysIn C r) ∧
      (∀ σ, Extends r σ → ∀ ρ F, k.foldV (plain.map (varVal σ ρ F)) = k.foldV (left.map (V ρ F os))) ∧
      (hasNonVar = false → plain ≠ [] → ∃ u ∈ us, Ext u r) := by
  unfold matchPlain at hr
  split at hr
  · rename_i hemp
    simp at hemp
    simp at hr; subst hr
    obtain ⟨h1, h2⟩ := hemp
    subst h1; subst h2
    exact ⟨Ext.refl _, fun h _ => h, fun _ _ _ _ => rfl, fun _ h => absurd rfl h⟩
  · simp only at hr
    split at hr
    · -- only the first partition that unifies
      rename_i hnv
      split at hr
      · rename_i r0 h0
        simp at hr; subst hr
        obtain ⟨p, hp, hf⟩ := firstSome_mem _ _ _ h0
        obtain ⟨pl, pp⟩ := partitions_spec _ _ _ hp
        obtain ⟨e1, e2, e3⟩ := tryPartition_spec C k os p plain urec r pl hC hf
        refine ⟨e1, fun h _ => e2 h, ?_, fun h => by simp [hnv] at h⟩
        intro σ he ρ F
        rw [plain_fold k os σ ρ F r he p plain e3]
        exact k.foldV_perm (pp.map _)
      · simp at hr
    · rename_i hnv
      simp only [List.mem_flatMap] at hr
      obtain ⟨p, hp, hr⟩ := hr
      split at hr
      · rename_i r0 h0
        obtain ⟨pl, pp⟩ := partitions_spec _ _ _ hp
        obtain ⟨e1, e2, e3⟩ := tryPartition_spec C k os p plain urec r0 pl hC h0
        obtain ⟨u, hu, huu⟩ := mem_unifyMany.mp hr
        obtain ⟨g1, g2, g3⟩ := unify_spec (C := C) huu
        refine ⟨e1.trans g2, fun h hus => g3 (hus u hu) (e2 h), ?_, fun _ _ => ⟨u, hu, g1⟩⟩
        intro σ he ρ F
        have he0 : Extends r0 σ := he.mono g2
        rw [plain_fold k os σ ρ F r0 he0 p plain e3]
        exact k.foldV_perm (pp.map _)
      · simp at hr

/-! ### matching the non-variable children -/

/-- what the recursive calls establish for the rows of candidate matches -/
def RowsOK (C : List Name) (os : List Expr) (us : List URec) :
    List Expr → List (List (Nat × List URec)) → Prop :=
  All2 (fun c row => ∀ jp ∈ row, ∀ r1 ∈ jp.2,
    (∃ u ∈ us, Ext u r1) ∧ KeysIn C r1 ∧ Sat C r1 c (pick os jp.1))

theorem matchChildren_spec (C : List Name) (k : AC) (os : List Expr) (plain : List Name) (hasNonVar : Bool)
    (us : List URec) (hC : ∀ x ∈ plain, C.contains x = true) (hus : ∀ u ∈ us, KeysIn C u) :
    ∀ (rows : List (List (Nat × List URec))) (ncs : List Expr) (urec : URec) (left : List Nat) (r : URec),
      RowsOK C os us ncs rows → KeysIn C urec →
      r ∈ matchChildren k os plain hasNonVar us rows urec left →
      Ext urec r ∧ KeysIn C r ∧
      (∀ σ, Extends r σ → DomC C σ → ∀ ρ F,
        k.op (k.foldV (ncs.map fun c => evalZ ρ F (subst σ c))) (k.foldV (plain.map (varVal σ ρ F)))
          = k.foldV (left.map (V ρ F os))) ∧
      ((rows ≠ [] ∨ (∃ u ∈ us, Ext u urec) ∨ (hasNonVar = false ∧ plain ≠ [])) → ∃ u ∈ us, Ext u r) := by
  intro rows
  induction rows with
  | nil =>
    intro ncs urec left r hrows hk hr
    cases hrows
    simp only [matchChildren] at hr
    obtain ⟨e1, e2, e3, e4⟩ := matchPlain_spec C k os plain hasNonVar us urec left r hC hr
    refine ⟨e1, e2 hk hus, ?_, ?_⟩
    · intro σ he _ ρ F
      simp [k.unit_op, e3 σ he ρ F]
    · intro h
      rcases h with h | ⟨u, hu, huu⟩ | ⟨h1, h2⟩
      · exact absurd rfl h
      · exact ⟨u, hu, huu.trans e1⟩
      · exact e4 h1 h2
  | cons row rows ih =>
    intro ncs urec left r hrows hk hr
    cases hrows with
    | cons hrow hrest =>
      rename_i c ncs
      simp only [matchChildren, List.mem_flatMap] at hr
      obtain ⟨jp, hjp, hr⟩ := hr
      split at hr
      · rename_i hmem
        simp only [List.mem_flatMap] at hr
        obtain ⟨cand, hcand, hr⟩ := hr
        obtain ⟨r1, hr1, hun⟩ := mem_unifyMany.mp hcand
        obtain ⟨⟨u, hu, huu⟩, k1, s1⟩ := hrow jp hjp r1 hr1
        obtain ⟨g1, g2, g3⟩ := unify_spec (C := C) hun
        obtain ⟨e1, e2, e3, e4⟩ := ih ncs cand (left.erase jp.1) r hrest (g3 k1 hk) hr
        refine ⟨g2.trans e1, e2, ?_, fun _ => ⟨u, hu, huu.trans (g1.trans e1)⟩⟩
        intro σ he hd ρ F
        have hc : evalZ ρ F (subst σ c) = V ρ F os jp.1 := s1 σ (he.mono (g1.trans e1)) hd ρ F
        have hp : left.Perm (jp.1 :: left.erase jp.1) := List.perm_cons_erase (by simpa using hmem)
        rw [k.foldV_perm (hp.map _)]
        simp only [List.map_cons, AC.foldV_cons, k.op_assoc, e3 σ he hd ρ F, hc]
      · simp at hr

/-! ### splitting the children of a template sum/product -/

def nonVars (C : List Name) : List Expr → List Expr
  | [] => []
  | c :: cs => if isCandVar C c then nonVars C cs else c :: nonVars C cs

theorem op_swap (k : AC) (a n p : Int) : k.op a (k.op n p) = k.op n (k.op a p) := by
  rw [← k.op_assoc, k.op_comm a n, k.op_assoc]

theorem split_fold (C : List Name) (k : AC) (σ : Sub) (ρ : Env) (F : FunI) : ∀ cs : List Expr,
    k.foldV (cs.map fun c => evalZ ρ F (subst σ c)) =
      k.op (k.foldV ((nonVars C cs).map fun c => evalZ ρ F (subst σ c)))
           (k.foldV ((plainNames C cs).map (varVal σ ρ F))) := by
  intro cs
  induction cs with
  | nil => simp [nonVars, plainNames, k.unit_op]
  | cons c cs ih =>
    by_cases hc : isCandVar C c = true
    · -- a declared free variable
      cases c with
      | var x =>
        simp only [isCandVar] at hc
        simp only [List.map_cons, AC.foldV_cons, nonVars, isCandVar, hc, plainNames, if_true, ih]
        rw [op_swap]; rfl
      | _ => simp [isCandVar] at hc
    · have hp : plainNames C (c :: cs) = plainNames C cs := by
        cases c <;> simp_all [plainNames, isCandVar]
      simp only [List.map_cons, AC.foldV_cons, nonVars, hc, hp, ih, k.op_assoc]
      simp [k.op_assoc]

theorem plainNames_in (C : List Name) : ∀ cs : List Expr, ∀ x ∈ plainNames C cs, C.contains x = true := by
  intro cs
  induction cs with
  | nil => simp [plainNames]
  | cons c cs ih =>
    intro x hx
    cases c <;> simp only [plainNames] at hx <;> try exact ih x hx
    split at hx
    · simp at hx; rcases hx with rfl | hx
      · assumption
      · exact ih x hx
    · exact ih x hx

theorem nonVars_nil (C : List Name) : ∀ cs : List Expr, nonVars C cs = [] → cs ≠ [] → plainNames C cs ≠ [] := by
  intro cs
  induction cs with
  | nil => intro _ h; exact absurd rfl h
  | cons c cs ih =>
    intro h _
    by_cases hc : isCandVar C c = true
    · cases c with
      | var x => simp only [isCandVar] at hc; simp only [plainNames, hc, if_true]; simp
      | _ => simp [isCandVar] at hc
    · simp [nonVars, hc] at h

theorem pick_zipIdx {os : List Expr} {p : Expr × Nat} (h : p ∈ os.zipIdx) : pick os p.2 = p.1 := by
  have := List.mem_zipIdx_iff_getElem?.mp h
  simp [pick, List.getD, this]

theorem range_V (ρ : Env) (F : FunI) (os : List Expr) :
    (List.range os.length).map (V ρ F os) = os.map (evalZ ρ F) := by
  apply List.ext_getElem
  · simp
  · intro i h1 h2
    simp at h1
    simp [V, pick, List.getD, h1]

theorem substL_map (σ : Sub) : ∀ cs : List Expr, substL σ cs = cs.map (subst σ)
  | [] => rfl
  | c :: cs => by simp [substL, substL_map σ cs]

theorem evalL_map (ρ : Env) (F : FunI) : ∀ cs : List Expr, evalL ρ F cs = cs.map (evalZ ρ F)
  | [] => rfl
  | c :: cs => by simp [evalL, evalL_map ρ F cs]

/-! ### the main statement, per template -/

/-- what the unifier guarantees for one template `t`: every record it returns extends one of the
    records it was given, binds declared free variables only, and makes `t` evaluate to the target -/
def Sound (C : List Name) (vf : Name → Name → Bool) (t : Expr) : Prop :=
  ∀ (o : Expr) (us : List URec) (r : URec), (∀ u ∈ us, KeysIn C u) → r ∈ unif C vf t o us →
    (∃ u ∈ us, Ext u r) ∧ KeysIn C r ∧ Sat C r t o

theorem unifVar_spec (C : List Name) (x : Name) (o : Expr) (us : List URec) (r : URec)
    (hus : ∀ u ∈ us, KeysIn C u) (hr : r ∈ unifVar C x o us) :
    (∃ u ∈ us, Ext u r) ∧ KeysIn C r ∧
      ((C.contains x = true ∧ lookupE r.lmap x = some o) ∨ (C.contains x = false ∧ o = .var x)) := by
  unfold unifVar at hr
  split at hr
  · rename_i hc
    obtain ⟨u, hu, huu⟩ := mem_unifyMany.mp hr
    obtain ⟨g1, g2, g3⟩ := unify_spec (C := C) huu
    exact ⟨⟨u, hu, g1⟩, g3 (hus u hu) (KeysIn_ofEq hc), Or.inl ⟨hc, g2 _ _ (lookup_ofEq _ _)⟩⟩
  · rename_i hc
    split at hr
    · rename_i y
      split at hr
      · rename_i hxy
        exact ⟨⟨r, hr, Ext.refl _⟩, hus r hr, Or.inr ⟨by simpa using hc, by rw [hxy]⟩⟩
      · simp at hr
    · simp at hr

theorem unifRows_ok (C : List Name) (vf : Name → Name → Bool) (os : List Expr) (us : List URec)
    (hus : ∀ u ∈ us, KeysIn C u) : ∀ cs : List Expr, (∀ c ∈ cs, Sound C vf c) →
    RowsOK C os us (nonVars C cs) (unifRows C vf cs os us) := by
  intro cs
  induction cs with
  | nil => intro _; rw [unifRows]; exact All2.nil
  | cons c cs ih =>
    intro h
    rw [unifRows]
    by_cases hc : isCandVar C c = true
    · simp only [hc, if_true, nonVars]
      exact ih (fun c' hc' => h c' (List.mem_cons_of_mem _ hc'))
    · simp only [hc, nonVars]
      refine All2.cons ?_ (ih (fun c' hc' => h c' (List.mem_cons_of_mem _ hc')))
      intro jp hjp r1 hr1
      simp only [List.mem_filter, List.mem_map] at hjp
      obtain ⟨⟨oj, hoj, rfl⟩, _⟩ := hjp
      simp only at hr1 ⊢
      rw [pick_zipIdx hoj]
      exact h c List.mem_cons_self oj.1 us r1 hus hr1

theorem runAC_spec (C : List Name) (vf : Name → Name → Bool) (k : AC) (cs os : List Expr) (us : List URec)
    (hus : ∀ u ∈ us, KeysIn C u) (hcs : ∀ c ∈ cs, Sound C vf c) (hne : cs ≠ []) (r : URec)
    (hr : r ∈ runAC k os (plainNames C cs) us (unifRows C vf cs os us)) :
    (∃ u ∈ us, Ext u r) ∧ KeysIn C r ∧
      ∀ σ, Extends r σ → DomC C σ → ∀ ρ F,
        evalZ ρ F (subst σ (k.mk cs)) = k.foldV (os.map (evalZ ρ F)) := by
  unfold runAC at hr
  have hrows := unifRows_ok C vf os us hus cs hcs
  obtain ⟨e1, e2, e3, e4⟩ := matchChildren_spec C k os (plainNames C cs) _ us (plainNames_in C cs) hus
    _ _ URec.empty _ r hrows (KeysIn_empty C) hr
  refine ⟨e4 ?_, e2, ?_⟩
  · by_cases hr0 : unifRows C vf cs os us = []
    · right; right
      refine ⟨by simp [hr0], nonVars_nil C cs ?_ hne⟩
      rw [hr0] at hrows
      exact hrows.nil_right
    · exact Or.inl hr0
  · intro σ he hd ρ F
    have : subst σ (k.mk cs) = k.mk (substL σ cs) := by cases k <;> simp [AC.mk, subst]
    rw [this, evalZ_mk, substL_map, List.map_map]
    have := e3 σ he hd ρ F
    rw [range_V] at this
    rw [← this, ← split_fold]
    rfl

theorem identVars_in (C : List Name) (vf : Name → Name → Bool) (cs : List Expr) (x : Name)
    (hx : x ∈ identVars C vf cs) : C.contains x = true := by
  unfold identVars at hx
  split at hx
  · rename_i a b
    split at hx
    · rename_i x' y' h1 h2
      simp only [isCandVar] at h1 h2
      split at hx
      · simp at hx; subst hx; exact h1
      · split at hx <;> simp at hx <;> rcases hx with rfl | rfl <;> assumption
    · rename_i x' _ h1 h2
      simp only [isCandVar] at h1
      simp at hx; subst hx; exact h1
    · rename_i _ y' h1 h2
      simp only [isCandVar] at h2
      simp at hx; subst hx; exact h2
    · simp at hx
  · simp at hx

theorem unifAC_spec (C : List Name) (vf : Name → Name → Bool) (k : AC) (cs : List Expr) (o : Expr)
    (us : List URec) (hus : ∀ u ∈ us, KeysIn C u) (hcs : ∀ c ∈ cs, Sound C vf c) (hne : cs ≠ []) (r : URec)
    (hr : r ∈ unifAC C vf k cs o us) :
    (∃ u ∈ us, Ext u r) ∧ KeysIn C r ∧ Sat C r (k.mk cs) o := by
  rw [unifAC] at hr
  split at hr
  · split at hr
    · rename_i os hos
      obtain ⟨e1, e2, e3⟩ := runAC_spec C vf k cs os us hus hcs hne r hr
      refine ⟨e1, e2, ?_⟩
      intro σ he hd ρ F
      rw [e3 σ he hd ρ F]
      have : o = k.mk os := by
        unfold acTarget at hos
        split at hos <;> simp_all [AC.mk]
      rw [this, evalZ_mk]
    · simp at hr
  · -- unification modulo identity
    simp only [List.mem_flatMap] at hr
    obtain ⟨x, hx, hr⟩ := hr
    have hus' : ∀ u ∈ unifyMany us (URec.ofEq x k.ident), KeysIn C u := by
      intro u hu
      obtain ⟨u0, hu0, huu⟩ := mem_unifyMany.mp hu
      have hxC : C.contains x = true := identVars_in C vf cs x hx
      exact (unify_spec (C := C) huu).2.2 (hus u0 hu0) (KeysIn_ofEq hxC)
    obtain ⟨⟨u1, hu1, e1⟩, e2, e3⟩ := runAC_spec C vf k cs [k.ident, o] _ hus' hcs hne r hr
    obtain ⟨u0, hu0, huu⟩ := mem_unifyMany.mp hu1
    refine ⟨⟨u0, hu0, (unify_spec (C := C) huu).1.trans e1⟩, e2, ?_⟩
    intro σ he hd ρ F
    rw [e3 σ he hd ρ F]
    simp [evalZ_ident, k.unit_op, k.op_unit]

/-! ### lists of children, pairs -/

theorem unifL_spec (C : List Name) (vf : Name → Name → Bool) : ∀ (cs os : List Expr) (us : List URec) (r : URec),
    (∀ c ∈ cs, Sound C vf c) → cs.length = os.length → (∀ u ∈ us, KeysIn C u) → r ∈ unifL C vf cs os us →
    (∃ u ∈ us, Ext u r) ∧ KeysIn C r ∧
      ∀ σ, Extends r σ → DomC C σ → ∀ ρ F, evalL ρ F (substL σ cs) = evalL ρ F os := by
  intro cs
  induction cs with
  | nil =>
    intro os us r _ hl hus hr
    cases os with
    | nil =>
      rw [unifL] at hr
      · exact ⟨⟨r, hr, Ext.refl _⟩, hus r hr, fun _ _ _ _ _ => rfl⟩
      · intros; simp_all
    | cons => simp at hl
  | cons c cs ih =>
    intro os us r hcs hl hus hr
    cases os with
    | nil => simp at hl
    | cons o os =>
      rw [unifL] at hr
      have hc := hcs c List.mem_cons_self
      have hus' : ∀ u ∈ unif C vf c o us, KeysIn C u := fun u hu => (hc o us u hus hu).2.1
      obtain ⟨⟨u', hu', e1⟩, e2, e3⟩ := ih os _ r (fun c' h' => hcs c' (List.mem_cons_of_mem _ h')) (by simpa using hl) hus' hr
      obtain ⟨⟨u, hu, g1⟩, _, g3⟩ := hc o us u' hus hu'
      refine ⟨⟨u, hu, g1.trans e1⟩, e2, ?_⟩
      intro σ he hd ρ F
      simp only [substL, evalL, e3 σ he hd ρ F, (g3.mono e1) σ he hd ρ F]

theorem unifK_spec (C : List Name) (vf : Name → Name → Bool) : ∀ (cs os : List (Name × Expr)) (us : List URec) (r : URec),
    (∀ c ∈ cs, Sound C vf c.2) → cs.map (·.1) = os.map (·.1) → (∀ u ∈ us, KeysIn C u) → r ∈ unifK C vf cs os us →
    (∃ u ∈ us, Ext u r) ∧ KeysIn C r ∧
      ∀ σ, Extends r σ → DomC C σ → ∀ ρ F, evalK ρ F (substK σ cs) = evalK ρ F os := by
  intro cs
  induction cs with
  | nil =>
    intro os us r _ hl hus hr
    cases os with
    | nil =>
      rw [unifK] at hr
      · exact ⟨⟨r, hr, Ext.refl _⟩, hus r hr, fun _ _ _ _ _ => rfl⟩
      · intros; simp_all
    | cons => simp at hl
  | cons c cs ih =>
    intro os us r hcs hl hus hr
    cases os with
    | nil => simp at hl
    | cons o os =>
      obtain ⟨kc, c⟩ := c
      obtain ⟨ko, o⟩ := o
      rw [unifK] at hr
      simp at hl
      have hc := hcs (kc, c) List.mem_cons_self
      have hus' : ∀ u ∈ unif C vf c o us, KeysIn C u := fun u hu => (hc o us u hus hu).2.1
      obtain ⟨⟨u', hu', e1⟩, e2, e3⟩ := ih os _ r (fun c' h' => hcs c' (List.mem_cons_of_mem _ h')) (by simpa using hl.2) hus' hr
      obtain ⟨⟨u, hu, g1⟩, _, g3⟩ := hc o us u' hus hu'
      refine ⟨⟨u, hu, g1.trans e1⟩, e2, ?_⟩
      intro σ he hd ρ F
      simp only [substK, evalK, e3 σ he hd ρ F, (g3.mono e1) σ he hd ρ F, hl.1]

theorem bin_spec (C : List Name) (vf : Name → Name → Bool) {a b a' b' : Expr} (ha : Sound C vf a) (hb : Sound C vf b)
    {us : List URec} {r : URec} (hus : ∀ u ∈ us, KeysIn C u) (hr : r ∈ unif C vf a a' (unif C vf b b' us)) :
    (∃ u ∈ us, Ext u r) ∧ KeysIn C r ∧ Sat C r a a' ∧ Sat C r b b' := by
  have hus' : ∀ u ∈ unif C vf b b' us, KeysIn C u := fun u hu => (hb b' us u hus hu).2.1
  obtain ⟨⟨u', hu', e1⟩, e2, e3⟩ := ha a' _ r hus' hr
  obtain ⟨⟨u, hu, g1⟩, _, g3⟩ := hb b' us u' hus hu'
  exact ⟨⟨u, hu, g1.trans e1⟩, e2, e3, g3.mono e1⟩

theorem sizeL_mem {c : Expr} : ∀ {cs : List Expr}, c ∈ cs → c.size ≤ Expr.sizeL cs
  | [], h => by simp at h
  | d :: ds, h => by
    simp only [Expr.sizeL]
    rcases List.mem_cons.mp h with rfl | h
    · omega
    · have := sizeL_mem h; omega

theorem sizeK_mem {p : Name × Expr} : ∀ {cs : List (Name × Expr)}, p ∈ cs → p.2.size ≤ Expr.sizeK cs
  | [], h => by simp at h
  | (k, d) :: ds, h => by
    simp only [Expr.sizeK]
    rcases List.mem_cons.mp h with rfl | h
    · simp
    · have := sizeK_mem h; omega

theorem wfTL_mem {c : Expr} : ∀ {cs : List Expr}, wfTL cs = true → c ∈ cs → wfT c = true
  | [], _, h => by simp at h
  | d :: ds, hw, h => by
    simp only [wfTL, Bool.and_eq_true] at hw
    rcases List.mem_cons.mp h with rfl | h
    · exact hw.1
    · exact wfTL_mem hw.2 h

theorem wfTK_mem {p : Name × Expr} : ∀ {cs : List (Name × Expr)}, wfTK cs = true → p ∈ cs → wfT p.2 = true
  | [], _, h => by simp at h
  | (k, d) :: ds, hw, h => by
    simp only [wfTK, Bool.and_eq_true] at hw
    rcases List.mem_cons.mp h with rfl | h
    · exact hw.1
    · exact wfTK_mem hw.2 h

/-- **Soundness of the modelled unifier**, for every well-formed template -/
theorem sound_all (C : List Name) (vf : Name → Name → Bool) :
    ∀ (n : Nat) (t : Expr), t.size ≤ n → wfT t = true → Sound C vf t := by
  intro n
  induction n with
  | zero => intro t h; cases t <;> simp [Expr.size] at h
  | succ n ih =>
    intro t hs hw
    have ihL : ∀ cs : List Expr, Expr.sizeL cs ≤ n → wfTL cs = true → ∀ c ∈ cs, Sound C vf c :=
      fun cs h1 h2 c hc => ih c (Nat.le_trans (sizeL_mem hc) h1) (wfTL_mem h2 hc)
    have ihK : ∀ cs : List (Name × Expr), Expr.sizeK cs ≤ n → wfTK cs = true → ∀ p ∈ cs, Sound C vf p.2 :=
      fun cs h1 h2 p hp => ih p.2 (Nat.le_trans (sizeK_mem hp) h1) (wfTK_mem h2 hp)
    intro o us r hus hr
    cases t with
    | const c =>
      rw [unif] at hr
      split at hr
      · rename_i hb
        refine ⟨⟨r, hr, Ext.refl _⟩, hus r hr, ?_⟩
        intro σ _ _ ρ F
        rw [← beq_eq _ _ hb]; simp [subst]
      · simp at hr
    | var x =>
      rw [unif] at hr
      obtain ⟨e1, e2, e3⟩ := unifVar_spec C x o us r hus hr
      refine ⟨e1, e2, ?_⟩
      intro σ he hd ρ F
      rcases e3 with ⟨_, hl⟩ | ⟨hc, ho⟩
      · simp [subst, he _ _ hl]
      · simp [subst, hd x hc, ho]
    | sum cs =>
      rw [unif] at hr
      simp only [Expr.size] at hs
      simp only [wfT, Bool.and_eq_true] at hw
      exact unifAC_spec C vf .sum cs o us hus (ihL cs (by omega) hw.2) (by intro h; simp [h] at hw) r hr
    | prod cs =>
      rw [unif] at hr
      simp only [Expr.size] at hs
      simp only [wfT, Bool.and_eq_true] at hw
      exact unifAC_spec C vf .prod cs o us hus (ihL cs (by omega) hw.2) (by intro h; simp [h] at hw) r hr
    | quot a b =>
      simp only [Expr.size] at hs
      simp only [wfT, Bool.and_eq_true] at hw
      cases o with
      | quot a' b' =>
        rw [unif] at hr
        obtain ⟨e1, e2, e3, e4⟩ := bin_spec C vf (ih a (by omega) hw.1) (ih b (by omega) hw.2) hus hr
        refine ⟨e1, e2, ?_⟩
        intro σ he hd ρ F
        simp only [subst, evalZ, e3 σ he hd ρ F, e4 σ he hd ρ F]
      | _ => simp [unif] at hr
    | pow a b =>
      simp only [Expr.size] at hs
      simp only [wfT, Bool.and_eq_true] at hw
      cases o with
      | pow a' b' =>
        rw [unif] at hr
        obtain ⟨e1, e2, e3, e4⟩ := bin_spec C vf (ih a (by omega) hw.1) (ih b (by omega) hw.2) hus hr
        refine ⟨e1, e2, ?_⟩
        intro σ he hd ρ F
        simp only [subst, evalZ, e3 σ he hd ρ F, e4 σ he hd ρ F]
      | _ => simp [unif] at hr
    | sub a b =>
      simp only [Expr.size] at hs
      simp only [wfT, Bool.and_eq_true] at hw
      cases o with
      | sub a' b' =>
        rw [unif] at hr
        obtain ⟨e1, e2, e3, e4⟩ := bin_spec C vf (ih a (by omega) hw.1) (ih b (by omega) hw.2) hus hr
        refine ⟨e1, e2, ?_⟩
        intro σ he hd ρ F
        simp only [subst, evalZ, e3 σ he hd ρ F, e4 σ he hd ρ F]
      | _ => simp [unif] at hr
    | attr a nm =>
      simp only [Expr.size] at hs
      simp only [wfT] at hw
      cases o with
      | attr a' nm' =>
        rw [unif] at hr
        split at hr
        · rename_i hnm
          obtain ⟨e1, e2, e3⟩ := ih a (by omega) hw _ us r hus hr
          refine ⟨e1, e2, ?_⟩
          intro σ he hd ρ F
          simp only [subst, evalZ, e3 σ he hd ρ F, hnm]
        · simp at hr
      | _ => simp [unif] at hr
    | cmp op a b =>
      simp only [Expr.size] at hs
      simp only [wfT, Bool.and_eq_true] at hw
      cases o with
      | cmp op' a' b' =>
        rw [unif] at hr
        split at hr
        · rename_i hop
          obtain ⟨e1, e2, e3, e4⟩ := bin_spec C vf (ih a (by omega) hw.1) (ih b (by omega) hw.2) hus hr
          refine ⟨e1, e2, ?_⟩
          intro σ he hd ρ F
          simp only [subst, evalZ, e3 σ he hd ρ F, e4 σ he hd ρ F, hop]
        · simp at hr
      | _ => simp [unif] at hr
    | lnot a =>
      simp only [Expr.size] at hs
      simp only [wfT] at hw
      cases o with
      | lnot a' =>
        rw [unif] at hr
        obtain ⟨e1, e2, e3⟩ := ih a (by omega) hw _ us r hus hr
        refine ⟨e1, e2, ?_⟩
        intro σ he hd ρ F
        simp only [subst, evalZ, e3 σ he hd ρ F]
      | _ => simp [unif] at hr
    | ite c t e =>
      simp only [Expr.size] at hs
      simp only [wfT, Bool.and_eq_true] at hw
      cases o with
      | ite c' t' e' =>
        rw [unif] at hr
        have he' := ih e (by omega) hw.2
        have hus1 : ∀ u ∈ unif C vf e e' us, KeysIn C u := fun u hu => (he' e' us u hus hu).2.1
        obtain ⟨⟨u1, hu1, e1⟩, e2, e3, e4⟩ := bin_spec C vf (ih c (by omega) hw.1.1) (ih t (by omega) hw.1.2) hus1 hr
        obtain ⟨⟨u, hu, g1⟩, _, g3⟩ := he' e' us u1 hus hu1
        refine ⟨⟨u, hu, g1.trans e1⟩, e2, ?_⟩
        intro σ he hd ρ F
        simp only [subst, evalZ, e3 σ he hd ρ F, e4 σ he hd ρ F, (g3.mono e1) σ he hd ρ F]
      | _ => simp [unif] at hr
    | call f args kw =>
      simp only [Expr.size] at hs
      simp only [wfT, Bool.and_eq_true] at hw
      cases o with
      | call g args' kw' =>
        rw [unif] at hr
        split at hr
        · simp at hr
        · split at hr
          · simp at hr
          · rename_i hlen
            split at hr
            · simp at hr
            · rename_i hkeys
              simp only [keysEq, Bool.not_eq_true', Bool.not_eq_false, bne_iff_ne, ne_eq, Decidable.not_not, beq_iff_eq] at hkeys hlen
              have hA := ihL args (by omega) hw.1
              have hK := ihK kw (by omega) hw.2
              have hus1 : ∀ u ∈ unifL C vf args args' us, KeysIn C u :=
                fun u hu => (unifL_spec C vf args args' us u hA hlen hus hu).2.1
              have hus2 : ∀ u ∈ unifK C vf kw kw' (unifL C vf args args' us), KeysIn C u :=
                fun u hu => (unifK_spec C vf kw kw' _ u hK hkeys hus1 hu).2.1
              obtain ⟨⟨u2, hu2, e1⟩, e2, e3⟩ := unifVar_spec C f (.var g) _ r hus2 hr
              obtain ⟨⟨u1, hu1, g1⟩, _, g3⟩ := unifK_spec C vf kw kw' _ u2 hK hkeys hus1 hu2
              obtain ⟨⟨u, hu, f1⟩, _, f3⟩ := unifL_spec C vf args args' us u1 hA hlen hus hu1
              refine ⟨⟨u, hu, f1.trans (g1.trans e1)⟩, e2, ?_⟩
              intro σ he hd ρ F
              have hf : substF σ f = g := by
                unfold substF
                rcases e3 with ⟨_, hl⟩ | ⟨hc, ho⟩
                · simp [he _ _ hl]
                · simp at ho; simp [hd f hc, ho]
              simp only [subst, evalZ, hf, f3 σ (he.mono (g1.trans e1)) hd ρ F, g3 σ (he.mono e1) hd ρ F]
      | _ => simp [unif] at hr
    | land cs => rw [unif] at hr; simp at hr
    | lor cs => rw [unif] at hr; simp at hr
    | min cs => rw [unif] at hr; simp at hr
    | max cs => rw [unif] at hr; simp at hr

end Dagrt.Match
