import Dagrt.Model.Simplify
namespace Dagrt.Simplify
variable (v : Nat → Bool) (it : Nat → Nat)

theorem traceList_append : ∀ (a b : List Ast), traceList v it (a ++ b) = traceList v it a ++ traceList v it b
  | [], b => by simp [traceList]
  | x :: a, b => by simp [traceList, traceList_append a b]

theorem trace_of_isNull {a : Ast} (h : isNull a = true) : trace v it a = [] := by
  cases a <;> simp_all [isNull, trace]

mutual
theorem trace_pre : ∀ a : Ast, trace v it (pre a) = trace v it a
  | .leaf n => by simp [pre]
  | .null => by simp [pre]
  | .ifThen c t => by simp [pre, trace, trace_pre t]
  | .ite c t e => by simp [pre, trace, trace_pre t, trace_pre e]
  | .loop x b => by simp [pre, trace, trace_pre b]
  | .block cs => by simp [pre, trace, traceList_pre cs]
theorem traceList_pre : ∀ cs : List Ast, traceList v it (preList cs) = traceList v it cs
  | [] => by simp [preList]
  | a :: as => by simp [preList, traceList, trace_pre a, traceList_pre as]
end

theorem traceList_filter_nonnull : ∀ l : List Ast,
    traceList v it (l.filter (fun a => !isNull a)) = traceList v it l
  | [] => by simp
  | a :: as => by
    simp only [List.filter]
    cases h : isNull a
    · simp [traceList, traceList_filter_nonnull as]
    · simp [traceList, traceList_filter_nonnull as, trace_of_isNull v it h]

mutual
theorem trace_post : ∀ a : Ast, trace v it (post a) = trace v it a
  | .leaf n => by simp [post]
  | .null => by simp [post]
  | .ifThen c t => by simp [post, trace, trace_post t]
  | .loop x b => by
    have hb := trace_post b
    simp only [post]
    cases h : isNull (post b) <;> simp only [trace]
    · rw [hb]
    · rw [← hb, trace_of_isNull v it h]; simp
  | .ite c t e => by
    have ht := trace_post t
    have he := trace_post e
    simp only [post]
    cases h1 : isNull (post t) <;> cases h2 : isNull (post e) <;> simp only [trace, Cond.eval]
    · rw [ht, he]
    · rw [ht, ← he, trace_of_isNull v it h2]
    · rw [he, ← ht, trace_of_isNull v it h1]; cases c.eval v <;> simp
    · rw [← ht, ← he, trace_of_isNull v it h1, trace_of_isNull v it h2]; simp
  | .block cs => by
    have h := traceList_post cs
    have hf := traceList_filter_nonnull v it (postList cs)
    simp only [post, trace]
    rw [← h, ← hf]
    split
    · rename_i heq; rw [heq]; simp [trace, traceList]
    · rename_i c heq; rw [heq]; simp [traceList]
    · simp [trace]
theorem traceList_post : ∀ cs : List Ast, traceList v it (postList cs) = traceList v it cs
  | [] => by simp [postList]
  | a :: as => by simp [postList, traceList, trace_post a, traceList_post as]
end

theorem trace_postTop (a : Ast) : trace v it (postTop a) = trace v it a := by
  unfold postTop
  have h := trace_post v it a
  split
  · rename_i heq; rw [heq] at h; simp [trace, traceList] at *; exact h
  · exact h

theorem stripNot_sound : ∀ (c : Cond) (t e : Ast),
    (bif (stripNot c t e).1.eval v then trace v it (stripNot c t e).2.1 else trace v it (stripNot c t e).2.2)
      = (bif c.eval v then trace v it t else trace v it e)
  | .not c, t, e => by
    simp only [stripNot, Cond.eval]
    rw [stripNot_sound c e t]
    cases c.eval v <;> simp
  | .tt, t, e => by simp [stripNot]
  | .ff, t, e => by simp [stripNot]
  | .flag n, t, e => by simp [stripNot]

theorem trace_flatBlock2 (x y : Ast) : trace v it (flatBlock [x, y]) = trace v it x ++ trace v it y := by
  simp only [flatBlock, List.foldr, trace]
  cases x <;> cases y <;> simp [traceList, trace, traceList_append]

theorem size_pos : ∀ a : Ast, 0 < a.size := by
  intro a; cases a <;> simp [Ast.size] <;> omega

theorem sizeList_append : ∀ a b : List Ast, sizeList (a ++ b) = sizeList a + sizeList b
  | [], b => by simp [sizeList]
  | x :: a, b => by simp [sizeList, sizeList_append a b]; omega

theorem mergeLoop_trace : ∀ (fuel : Nat) (cur : Ast) (q acc : List Ast), sizeList q < fuel →
    traceList v it (mergeLoop fuel cur q acc)
      = traceList v it acc ++ trace v it cur ++ traceList v it q
  | 0, _, _, _, h => by omega
  | f+1, cur, [], acc, _ => by simp [mergeLoop, traceList_append, traceList]
  | f+1, cur, nxt :: q, acc, h => by
    have hp := size_pos nxt
    simp only [sizeList] at h
    have hq : sizeList q < f := by omega
    cases nxt with
    | null => simp [mergeLoop, mergeLoop_trace f cur q acc hq, traceList, trace]
    | block cs =>
      have : sizeList (cs ++ q) < f := by rw [sizeList_append]; simp [Ast.size] at h; omega
      simp [mergeLoop, mergeLoop_trace f cur (cs ++ q) acc this, traceList, trace, traceList_append]
    | leaf n => simp [mergeLoop, mergeLoop_trace f _ q _ hq, traceList, trace, traceList_append]
    | ifThen c t => simp [mergeLoop, mergeLoop_trace f _ q _ hq, traceList, trace, traceList_append]
    | loop x b => simp [mergeLoop, mergeLoop_trace f _ q _ hq, traceList, trace, traceList_append]
    | ite c2 t2 e2 =>
      cases cur with
      | ite c1 t1 e1 =>
        simp only [mergeLoop]
        split
        · rename_i heq; subst heq
          rw [mergeLoop_trace f _ q _ hq]
          simp only [trace, traceList, trace_flatBlock2]
          cases c1.eval v <;> simp
        · simp [mergeLoop_trace f _ q _ hq, traceList, trace, traceList_append]
      | leaf n => simp [mergeLoop, mergeLoop_trace f _ q _ hq, traceList, trace, traceList_append]
      | null => simp [mergeLoop, mergeLoop_trace f _ q _ hq, traceList, trace, traceList_append]
      | ifThen c t => simp [mergeLoop, mergeLoop_trace f _ q _ hq, traceList, trace, traceList_append]
      | loop x b => simp [mergeLoop, mergeLoop_trace f _ q _ hq, traceList, trace, traceList_append]
      | block cs => simp [mergeLoop, mergeLoop_trace f _ q _ hq, traceList, trace, traceList_append]



theorem traceList_dropWhile_null : ∀ l : List Ast, traceList v it (l.dropWhile isNull) = traceList v it l
  | [] => by simp
  | a :: as => by
    simp only [List.dropWhile]
    cases h : isNull a
    · simp
    · simp [traceList, trace_of_isNull v it h, traceList_dropWhile_null as]

theorem sizeList_dropWhile_le : ∀ l : List Ast, sizeList (l.dropWhile isNull) ≤ sizeList l
  | [] => by simp
  | a :: as => by
    simp only [List.dropWhile]
    cases h : isNull a
    · simp
    · simp [sizeList]; have := sizeList_dropWhile_le as; omega

theorem collapseThen (c : Cond) (t' : Ast) (x : List Nat) :
    (bif c.eval v then trace v it (collapseT c t') else x)
      = (bif c.eval v then trace v it t' else x) := by
  cases hc : c.eval v
  · simp
  · cases t' <;> simp [collapseT]
    rename_i ci ti ei
    split
    · rename_i h; subst h; simp [trace, hc]
    · rfl

theorem collapseElse (c : Cond) (e' : Ast) (x : List Nat) :
    (bif c.eval v then x else trace v it (collapseE c e'))
      = (bif c.eval v then x else trace v it e') := by
  cases hc : c.eval v
  · cases e' <;> simp [collapseE]
    rename_i ci ti ei
    split
    · rename_i h; subst h; simp [trace, hc]
    · rfl
  · simp

mutual
theorem trace_simp : ∀ (a a' : Ast), simp a = .ok a' → trace v it a' = trace v it a
  | .leaf n, a', h => by simp [simp] at h; subst h; rfl
  | .null, a', h => by simp [simp] at h; subst h; rfl
  | .ifThen c t, a', h => by
    simp only [simp, bind, Except.bind] at h
    split at h
    · cases h
    · rename_i t' ht; simp [pure, Except.pure] at h; subst h
      simp [trace, trace_simp t t' ht]
  | .loop x b, a', h => by
    simp only [simp, bind, Except.bind] at h
    split at h
    · cases h
    · rename_i b' hb; simp [pure, Except.pure] at h; subst h
      simp [trace, trace_simp b b' hb]
  | .ite c t e, a', h => by
    simp only [simp] at h
    split at h
    · rename_i hc; subst hc; simp [trace, Cond.eval, trace_simp t a' h]
    · split at h
      · rename_i hc; subst hc; simp [trace, Cond.eval, trace_simp e a' h]
      · simp only [bind, Except.bind] at h
        split at h
        · cases h
        · rename_i t' ht
          split at h
          · cases h
          · rename_i e' he
            simp [pure, Except.pure] at h; subst h
            have h1 := trace_simp t t' ht
            have h2 := trace_simp e e' he
            have hs := stripNot_sound v it c t' e'
            simp only [trace]
            rw [collapseElse, collapseThen, hs, h1, h2]
  | .block cs, a', h => by
    simp only [simp, bind, Except.bind] at h
    split at h
    · cases h
    · rename_i q hq
      have hql := traceList_simpList cs q hq
      simp only [trace]
      rw [← hql]
      split at h
      · simp [pure, Except.pure] at h; subst h; simp [trace]
      · rename_i hne
        have hd := traceList_dropWhile_null v it q
        split at h
        · rename_i hnil
          simp [pure, Except.pure] at h; subst h
          rw [← hd, hnil]; simp [trace, traceList]
        · rename_i cur rest hcr
          have hsz : sizeList rest < 2 * sizeList q + 2 := by
            have := sizeList_dropWhile_le q; rw [hcr] at this; simp [sizeList] at this; omega
          have hm := mergeLoop_trace v it (2 * sizeList q + 2) cur rest [] hsz
          rw [← hd, hcr]
          simp only [traceList] at hm ⊢
          split at h
          · rename_i c hc; simp [pure, Except.pure] at h; subst h
            rw [hc] at hm; simp [traceList] at hm; simpa using hm
          · simp [pure, Except.pure] at h; subst h
            simp [trace]; simpa using hm
theorem traceList_simpList : ∀ (cs q : List Ast), simpList cs = .ok q → traceList v it q = traceList v it cs
  | [], q, h => by simp [simpList] at h; subst h; rfl
  | a :: as, q, h => by
    simp only [simpList, bind, Except.bind] at h
    split at h
    · cases h
    · rename_i a' ha
      split at h
      · cases h
      · rename_i as' has
        simp [pure, Except.pure] at h; subst h
        simp [traceList, trace_simp a a' ha, traceList_simpList as as' has]
end

mutual
theorem simp_total : ∀ a : Ast, ∃ a', simp a = .ok a'
  | .leaf n => by simp [simp]
  | .null => by simp [simp]
  | .ifThen c t => by obtain ⟨t', ht⟩ := simp_total t; simp [simp, ht, bind, Except.bind, pure, Except.pure]
  | .loop x b => by obtain ⟨b', hb⟩ := simp_total b; simp [simp, hb, bind, Except.bind, pure, Except.pure]
  | .ite c t e => by
    obtain ⟨t', ht⟩ := simp_total t
    obtain ⟨e', he⟩ := simp_total e
    simp only [simp]
    split
    · exact ⟨_, ht⟩
    · split
      · exact ⟨_, he⟩
      · simp [ht, he, bind, Except.bind, pure, Except.pure]
  | .block cs => by
    obtain ⟨q, hq⟩ := simpList_total cs
    simp only [simp, hq, bind, Except.bind]
    split
    · simp [pure, Except.pure]
    · split
      · simp [pure, Except.pure]
      · split <;> simp [pure, Except.pure]
theorem simpList_total : ∀ cs : List Ast, ∃ q, simpList cs = .ok q
  | [] => by simp [simpList]
  | a :: as => by
    obtain ⟨a', ha⟩ := simp_total a
    obtain ⟨as', has⟩ := simpList_total as
    simp [simpList, ha, has, bind, Except.bind, pure, Except.pure]
end

end Dagrt.Simplify
