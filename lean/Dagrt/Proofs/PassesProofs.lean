import Dagrt.Model.Passes
import Dagrt.Props.C13
set_option linter.unusedVariables false
set_option linter.unusedSimpArgs false
/-! Helper lemmas for C07: what the expression mappers of the rewriting passes do to the pass state -/
namespace Dagrt.Passes
open Dagrt Dagrt.Sem Dagrt.Names Dagrt.Fuse

/-- the guard `c` is the guard `base`, possibly extended by flag literals (introduced by the
    conditional-expression expander) -/
inductive Carries (base : Expr) : Expr → Prop
  | same : Carries base base
  | pos {c : Expr} (f : Name) : Carries base c → Carries base (flatAnd c (.var f))
  | neg {c : Expr} (f : Name) : Carries base c → Carries base (flatAnd c (.lnot (.var f)))

theorem Carries.trans {a b c : Expr} (h1 : Carries a b) (h2 : Carries b c) : Carries a c := by
  induction h2 with
  | same => exact h1
  | pos f _ ih => exact Carries.pos f ih
  | neg f _ ih => exact Carries.neg f ih

/-- the id of the statement and the names it assigns were handed out by the generators of this pass -/
def Introduced (q : PS) (st : FStmt) : Prop :=
  st.id ∈ q.newIds ∧ ∀ w ∈ declWrites st.stmt, w.toList ∈ q.newVars

/-- the pass state only changes by asking a generator for a name or by emitting a statement whose
    guard carries the guard of the statement being rewritten -/
inductive Trace (base : Expr) : PS → PS → Prop
  | refl (p : PS) : Trace base p p
  | fv {p q : PS} (b : String) : Trace base p q → Trace base p (q.freshVar b).2
  | fi {p q : PS} (b : String) : Trace base p q → Trace base p (q.freshId b).2
  | emit {p q : PS} (st : FStmt) : Trace base p q → Carries base st.stmt.cond → Trace base p (q.emit st)

theorem Trace.trans {base : Expr} {p q r : PS} (h1 : Trace base p q) (h2 : Trace base q r) : Trace base p r := by
  induction h2 with
  | refl => exact h1
  | fv b _ ih => exact Trace.fv b ih
  | fi b _ ih => exact Trace.fi b ih
  | emit st _ hc ih => exact Trace.emit st ih hc

theorem Trace.weaken {a b : Expr} {p q : PS} (hab : Carries a b) (h : Trace b p q) : Trace a p q := by
  induction h with
  | refl => exact Trace.refl _
  | fv x _ ih => exact Trace.fv x ih
  | fi x _ ih => exact Trace.fi x ih
  | emit st _ hc ih => exact Trace.emit st ih (hab.trans hc)

@[simp] theorem emit_newIds (q : PS) (st : FStmt) : (q.emit st).newIds = q.newIds := rfl
@[simp] theorem emit_newVars (q : PS) (st : FStmt) : (q.emit st).newVars = q.newVars := rfl
@[simp] theorem freshVar_newIds (q : PS) (b : String) : (q.freshVar b).2.newIds = q.newIds := rfl
@[simp] theorem freshId_newVars (q : PS) (b : String) : (q.freshId b).2.newVars = q.newVars := rfl
theorem freshVar_mem (q : PS) (b : String) : (q.freshVar b).1.toList ∈ (q.freshVar b).2.newVars := by
  simp [PS.freshVar]
theorem freshId_mem (q : PS) (b : String) : (q.freshId b).1 ∈ (q.freshId b).2.newIds := by
  simp [PS.freshId]
theorem freshVar_sub (q : PS) (b : String) : ∀ x ∈ q.newVars, x ∈ (q.freshVar b).2.newVars := by
  intro x hx; simp [PS.freshVar, hx]
theorem freshId_sub (q : PS) (b : String) : ∀ x ∈ q.newIds, x ∈ (q.freshId b).2.newIds := by
  intro x hx; simp [PS.freshId, hx]

/-- nothing a generator has handed out is forgotten -/
theorem Trace.mono {base : Expr} {p q : PS} (h : Trace base p q) :
    (∀ x ∈ p.newIds, x ∈ q.newIds) ∧ (∀ x ∈ p.newVars, x ∈ q.newVars) := by
  induction h with
  | refl => exact ⟨fun _ h => h, fun _ h => h⟩
  | fv b _ ih => exact ⟨fun x hx => by simpa using ih.1 x hx, fun x hx => freshVar_sub _ b x (ih.2 x hx)⟩
  | fi b _ ih => exact ⟨fun x hx => freshId_sub _ b x (ih.1 x hx), fun x hx => by simpa using ih.2 x hx⟩
  | emit st _ _ ih => exact ih

theorem Trace.emit' {base : Expr} {p q : PS} (i : List Char) (d : List (List Char)) (c : Expr) (k : Kind)
    (h : Trace base p q) (hc : Carries base c) : Trace base p (q.emit { id := i, deps := d, stmt := ⟨c, k⟩ }) :=
  Trace.emit _ h hc

theorem normStmt_cond (s : Stmt) : (normStmt s).cond = s.cond := by
  unfold normStmt; split <;> rfl

mutual
theorem mapE_trace (m : Mode) (cond : Expr) (deps : List (List Char)) (e : Expr) (s : MS) :
    Trace cond s.ps (mapE m cond deps e s).2.ps :=
  match e, s with
  | .const c, s => by rw [mapE]; exact Trace.refl _
  | .var x, s => by rw [mapE]; exact Trace.refl _
  | .sum cs, s => by rw [mapE]; exact mapL_trace m cond deps cs s
  | .prod cs, s => by rw [mapE]; exact mapL_trace m cond deps cs s
  | .quot a b, s => by rw [mapE]; exact (mapE_trace m cond deps a s).trans (mapE_trace m cond deps b _)
  | .pow a b, s => by rw [mapE]; exact (mapE_trace m cond deps a s).trans (mapE_trace m cond deps b _)
  | .sub a b, s => by rw [mapE]; exact (mapE_trace m cond deps a s).trans (mapE_trace m cond deps b _)
  | .attr a n, s => by rw [mapE]; exact mapE_trace m cond deps a s
  | .cmp o a b, s => by rw [mapE]; exact (mapE_trace m cond deps a s).trans (mapE_trace m cond deps b _)
  | .lnot a, s => by rw [mapE]; exact mapE_trace m cond deps a s
  | .land cs, s => by rw [mapE]; exact mapL_trace m cond deps cs s
  | .lor cs, s => by rw [mapE]; exact mapL_trace m cond deps cs s
  | .min cs, s => by rw [mapE]; exact mapL_trace m cond deps cs s
  | .max cs, s => by rw [mapE]; exact mapL_trace m cond deps cs s
  | .call f args kw, s => by
    cases m with
    | fai => rw [mapE]; exact (isoL_trace cond deps args s).trans (isoK_trace cond deps kw _)
    | fci =>
      rw [mapE]
      simp only
      refine Trace.emit' _ _ _ _ ?_ Carries.same
      have h1 : Trace cond s.ps ((s.ps.freshVar "tmp").2.freshId "tmp").2 := Trace.fi _ (Trace.fv _ (Trace.refl _))
      exact (h1.trans (mapL_trace .fci cond deps args ⟨_, []⟩)).trans (mapK_trace .fci cond deps kw _)
    | ite => rw [mapE]; exact (mapL_trace .ite cond deps args s).trans (mapK_trace .ite cond deps kw _)
  | .ite c t e, s => by
    cases m with
    | ite =>
      rw [mapE]
      simp only
      have h0 : Trace cond s.ps (((((s.ps.freshVar "<cond>ifthenelse_cond").2.freshVar "ifthenelse_result").2.freshId
          "ifthenelse_cond").2.freshId "ifthenelse_then").2.freshId "ifthenelse_else").2 :=
        Trace.fi _ (Trace.fi _ (Trace.fi _ (Trace.fv _ (Trace.fv _ (Trace.refl _)))))
      have cT : Carries cond (flatAnd cond (.var (s.ps.freshVar "<cond>ifthenelse_cond").1)) := Carries.pos _ Carries.same
      have cE : Carries cond (flatAnd cond (.lnot (.var (s.ps.freshVar "<cond>ifthenelse_cond").1))) := Carries.neg _ Carries.same
      refine Trace.emit' _ _ _ _ ?_ cE
      refine Trace.trans ?_ (Trace.weaken cE (mapE_trace .ite _ _ e ⟨_, []⟩))
      refine Trace.emit' _ _ _ _ ?_ cT
      refine Trace.trans ?_ (Trace.weaken cT (mapE_trace .ite _ _ t ⟨_, []⟩))
      refine Trace.emit' _ _ _ _ ?_ Carries.same
      exact h0.trans (mapE_trace .ite cond deps c ⟨_, []⟩)
    | fai =>
      rw [mapE]
      · exact ((mapE_trace .fai cond deps c s).trans (mapE_trace .fai cond deps t _)).trans (mapE_trace .fai cond deps e _)
      · intro h; cases h
    | fci =>
      rw [mapE]
      · exact ((mapE_trace .fci cond deps c s).trans (mapE_trace .fci cond deps t _)).trans (mapE_trace .fci cond deps e _)
      · intro h; cases h
termination_by structural e
theorem mapL_trace (m : Mode) (cond : Expr) (deps : List (List Char)) (l : List Expr) (s : MS) :
    Trace cond s.ps (mapL m cond deps l s).2.ps :=
  match l, s with
  | [], s => by rw [mapL]; exact Trace.refl _
  | c :: cs, s => by rw [mapL]; exact (mapE_trace m cond deps c s).trans (mapL_trace m cond deps cs _)
termination_by structural l
theorem mapK_trace (m : Mode) (cond : Expr) (deps : List (List Char)) (l : List (Name × Expr)) (s : MS) :
    Trace cond s.ps (mapK m cond deps l s).2.ps :=
  match l, s with
  | [], s => by rw [mapK]; exact Trace.refl _
  | (k, c) :: cs, s => by rw [mapK]; exact (mapE_trace m cond deps c s).trans (mapK_trace m cond deps cs _)
termination_by structural l
theorem isoL_trace (cond : Expr) (deps : List (List Char)) (l : List Expr) (s : MS) :
    Trace cond s.ps (isoL cond deps l s).2.ps :=
  match l, s with
  | [], s => by rw [isoL]; exact Trace.refl _
  | c :: cs, s => by
    rw [isoL]
    cases isVar c with
    | true => exact isoL_trace cond deps cs s
    | false =>
      simp only [cond_false]
      have h1 : Trace cond s.ps ((s.ps.freshVar "tmp").2.freshId "tmp").2 := Trace.fi _ (Trace.fv _ (Trace.refl _))
      refine Trace.trans ?_ (isoL_trace cond deps cs ⟨_, _⟩)
      refine Trace.emit' _ _ _ _ ?_ Carries.same
      exact h1.trans (mapE_trace .fai cond deps c ⟨_, []⟩)
termination_by structural l
theorem isoK_trace (cond : Expr) (deps : List (List Char)) (l : List (Name × Expr)) (s : MS) :
    Trace cond s.ps (isoK cond deps l s).2.ps :=
  match l, s with
  | [], s => by rw [isoK]; exact Trace.refl _
  | (k, c) :: cs, s => by
    rw [isoK]
    cases isVar c with
    | true => exact isoK_trace cond deps cs s
    | false =>
      simp only [cond_false]
      have h1 : Trace cond s.ps ((s.ps.freshVar "tmp").2.freshId "tmp").2 := Trace.fi _ (Trace.fv _ (Trace.refl _))
      refine Trace.trans ?_ (isoK_trace cond deps cs ⟨_, _⟩)
      refine Trace.emit' _ _ _ _ ?_ Carries.same
      exact h1.trans (mapE_trace .fai cond deps c ⟨_, []⟩)
termination_by structural l
end

end Dagrt.Passes
