import Dagrt.Model.Stmt
set_option linter.unusedVariables false
set_option linter.unusedSimpArgs false
namespace Dagrt.Sem
open Dagrt

/-- the two stores hold the same cell for every name of `S` -/
def AgreeOn (S : List Name) (σ σ' : Store) : Prop := ∀ x ∈ S, σ x = σ' x

theorem AgreeOn.mono {S T : List Name} {σ σ' : Store} (h : AgreeOn T σ σ') (hs : ∀ x ∈ S, x ∈ T) :
    AgreeOn S σ σ' := fun x hx => h x (hs x hx)

theorem AgreeOn.get {S : List Name} {σ σ' : Store} (h : AgreeOn S σ σ') {x : Name} (hx : x ∈ S) :
    σ.get x = σ'.get x := by simp [Store.get, h x hx]

theorem agree_app_left {A B : List Name} {σ σ' : Store} (h : AgreeOn (A ++ B) σ σ') : AgreeOn A σ σ' :=
  h.mono (by intro x hx; simp [hx])
theorem agree_app_right {A B : List Name} {σ σ' : Store} (h : AgreeOn (A ++ B) σ σ') : AgreeOn B σ σ' :=
  h.mono (by intro x hx; simp [hx])

/-! ### every store read of the evaluator is a variable of the expression -/
mutual
theorem evalI_reads (F : Funs) (env : List (Name × Int)) (σ : Store) :
    ∀ e : Expr, ∀ x ∈ (evalI F env σ e).2, x ∈ depVars e
  | .const c, x, h => by cases c <;> simp [evalI] at h
  | .var y, x, h => by
    simp only [evalI] at h
    split at h <;> simp_all [depVars]
  | .sum cs, x, h => by simp only [evalI] at h; simp only [depVars]; exact evalFold_reads F env σ _ _ cs x h
  | .prod cs, x, h => by simp only [evalI] at h; simp only [depVars]; exact evalFold_reads F env σ _ _ cs x h
  | .quot a b, x, h => by
    simp only [evalI, List.mem_append] at h; simp only [depVars, List.mem_append]
    rcases h with h | h
    · exact Or.inl (evalI_reads F env σ a x h)
    · exact Or.inr (evalI_reads F env σ b x h)
  | .pow a b, x, h => by
    simp only [evalI, List.mem_append] at h; simp only [depVars, List.mem_append]
    rcases h with h | h
    · exact Or.inl (evalI_reads F env σ a x h)
    · exact Or.inr (evalI_reads F env σ b x h)
  | .call f args kw, x, h => by
    simp only [evalI, List.mem_append] at h; simp only [depVars, List.mem_append]
    rcases h with h | h
    · exact Or.inl (evalArgs_reads F env σ args x h)
    · exact Or.inr (evalKw_reads F env σ kw x h)
  | .sub a b, x, h => by
    simp only [evalI, List.mem_append] at h; simp only [depVars, List.mem_append]
    rcases h with h | h
    · exact Or.inl (evalI_reads F env σ a x h)
    · exact Or.inr (evalI_reads F env σ b x h)
  | .cmp op a b, x, h => by
    simp only [evalI, List.mem_append] at h; simp only [depVars, List.mem_append]
    rcases h with h | h
    · exact Or.inl (evalI_reads F env σ a x h)
    · exact Or.inr (evalI_reads F env σ b x h)
  | .lnot a, x, h => by
    simp only [evalI] at h; simp only [depVars]; exact evalI_reads F env σ a x h
  | .attr a n, x, h => by
    simp only [evalI] at h; simp only [depVars]; exact evalI_reads F env σ a x h
  | .land cs, x, h => by simp only [evalI] at h; simp only [depVars]; exact evalAll_reads F env σ cs x h
  | .lor cs, x, h => by simp only [evalI] at h; simp only [depVars]; exact evalAny_reads F env σ cs x h
  | .ite c t e, x, h => by
    simp only [evalI] at h; simp only [depVars, List.mem_append]
    cases hc : (evalI F env σ c).1.truthy <;> simp only [hc, cond_true, cond_false, List.mem_append] at h
    · rcases h with h | h
      · exact Or.inl (Or.inl (evalI_reads F env σ c x h))
      · exact Or.inr (evalI_reads F env σ e x h)
    · rcases h with h | h
      · exact Or.inl (Or.inl (evalI_reads F env σ c x h))
      · exact Or.inl (Or.inr (evalI_reads F env σ t x h))
  | .min cs, x, h => by simp only [evalI] at h; simp only [depVars]; exact evalFold1_reads F env σ _ cs x h
  | .max cs, x, h => by simp only [evalI] at h; simp only [depVars]; exact evalFold1_reads F env σ _ cs x h
theorem evalFold_reads (F : Funs) (env : List (Name × Int)) (σ : Store) (op : Val → Val → Val) :
    ∀ (acc : Val) (cs : List Expr), ∀ x ∈ (evalFold F env σ op acc cs).2, x ∈ depVarsL cs
  | _, [], x, h => by simp [evalFold] at h
  | acc, c :: cs, x, h => by
    simp only [evalFold, List.mem_append] at h; simp only [depVarsL, List.mem_append]
    rcases h with h | h
    · exact Or.inl (evalI_reads F env σ c x h)
    · exact Or.inr (evalFold_reads F env σ op _ cs x h)
theorem evalFold1_reads (F : Funs) (env : List (Name × Int)) (σ : Store) (op : Val → Val → Val) :
    ∀ (cs : List Expr), ∀ x ∈ (evalFold1 F env σ op cs).2, x ∈ depVarsL cs
  | [], x, h => by simp [evalFold1] at h
  | [c], x, h => by
    simp only [evalFold1] at h; simp only [depVarsL, List.mem_append]
    exact Or.inl (evalI_reads F env σ c x h)
  | c :: d :: cs, x, h => by
    simp only [evalFold1, List.mem_append] at h; simp only [depVarsL, List.mem_append]
    rcases h with h | h
    · exact Or.inl (evalI_reads F env σ c x h)
    · have := evalFold1_reads F env σ op (d :: cs) x h
      simp only [depVarsL, List.mem_append] at this; exact Or.inr this
theorem evalAll_reads (F : Funs) (env : List (Name × Int)) (σ : Store) :
    ∀ (cs : List Expr), ∀ x ∈ (evalAll F env σ cs).2, x ∈ depVarsL cs
  | [], x, h => by simp [evalAll] at h
  | c :: cs, x, h => by
    simp only [evalAll] at h; simp only [depVarsL, List.mem_append]
    cases hc : (evalI F env σ c).1.truthy <;> simp only [hc, cond_true, cond_false, List.mem_append] at h
    · exact Or.inl (evalI_reads F env σ c x h)
    · rcases h with h | h
      · exact Or.inl (evalI_reads F env σ c x h)
      · exact Or.inr (evalAll_reads F env σ cs x h)
theorem evalAny_reads (F : Funs) (env : List (Name × Int)) (σ : Store) :
    ∀ (cs : List Expr), ∀ x ∈ (evalAny F env σ cs).2, x ∈ depVarsL cs
  | [], x, h => by simp [evalAny] at h
  | c :: cs, x, h => by
    simp only [evalAny] at h; simp only [depVarsL, List.mem_append]
    cases hc : (evalI F env σ c).1.truthy <;> simp only [hc, cond_true, cond_false, List.mem_append] at h
    · rcases h with h | h
      · exact Or.inl (evalI_reads F env σ c x h)
      · exact Or.inr (evalAny_reads F env σ cs x h)
    · exact Or.inl (evalI_reads F env σ c x h)
theorem evalArgs_reads (F : Funs) (env : List (Name × Int)) (σ : Store) :
    ∀ (cs : List Expr), ∀ x ∈ (evalArgs F env σ cs).2, x ∈ depVarsL cs
  | [], x, h => by simp [evalArgs] at h
  | c :: cs, x, h => by
    simp only [evalArgs, List.mem_append] at h; simp only [depVarsL, List.mem_append]
    rcases h with h | h
    · exact Or.inl (evalI_reads F env σ c x h)
    · exact Or.inr (evalArgs_reads F env σ cs x h)
theorem evalKw_reads (F : Funs) (env : List (Name × Int)) (σ : Store) :
    ∀ (cs : List (Name × Expr)), ∀ x ∈ (evalKw F env σ cs).2, x ∈ depVarsK cs
  | [], x, h => by simp [evalKw] at h
  | (k, c) :: cs, x, h => by
    simp only [evalKw, List.mem_append] at h; simp only [depVarsK, List.mem_append]
    rcases h with h | h
    · exact Or.inl (evalI_reads F env σ c x h)
    · exact Or.inr (evalKw_reads F env σ cs x h)
end

end Dagrt.Sem

namespace Dagrt.Sem
open Dagrt

/-! ### stores that agree on the variables of an expression give the same value and reads -/
mutual
theorem evalI_agree (F : Funs) (env : List (Name × Int)) {σ σ' : Store} :
    ∀ e : Expr, AgreeOn (depVars e) σ σ' → evalI F env σ e = evalI F env σ' e
  | .const c, _ => by cases c <;> simp [evalI]
  | .var y, h => by
    simp only [evalI]
    split
    · rfl
    · rw [h.get (by simp [depVars])]
  | .sum cs, h => by simp only [evalI]; exact evalFold_agree F env _ _ cs h
  | .prod cs, h => by simp only [evalI]; exact evalFold_agree F env _ _ cs h
  | .quot a b, h => by
    simp only [depVars] at h
    simp only [evalI, evalI_agree F env a (agree_app_left h), evalI_agree F env b (agree_app_right h)]
  | .pow a b, h => by
    simp only [depVars] at h
    simp only [evalI, evalI_agree F env a (agree_app_left h), evalI_agree F env b (agree_app_right h)]
  | .call f args kw, h => by
    simp only [depVars] at h
    simp only [evalI, evalArgs_agree F env args (agree_app_left h), evalKw_agree F env kw (agree_app_right h)]
  | .sub a b, h => by
    simp only [depVars] at h
    simp only [evalI, evalI_agree F env a (agree_app_left h), evalI_agree F env b (agree_app_right h)]
  | .cmp op a b, h => by
    simp only [depVars] at h
    simp only [evalI, evalI_agree F env a (agree_app_left h), evalI_agree F env b (agree_app_right h)]
  | .lnot a, h => by
    simp only [depVars] at h
    simp only [evalI, evalI_agree F env a h]
  | .attr a n, h => by
    simp only [depVars] at h
    simp only [evalI, evalI_agree F env a h]
  | .land cs, h => by simp only [evalI]; exact evalAll_agree F env cs h
  | .lor cs, h => by simp only [evalI]; exact evalAny_agree F env cs h
  | .ite c t e, h => by
    simp only [depVars] at h
    simp only [evalI, evalI_agree F env c (agree_app_left (agree_app_left h)),
      evalI_agree F env t (agree_app_right (agree_app_left h)), evalI_agree F env e (agree_app_right h)]
  | .min cs, h => by simp only [evalI]; exact evalFold1_agree F env _ cs h
  | .max cs, h => by simp only [evalI]; exact evalFold1_agree F env _ cs h
theorem evalFold_agree (F : Funs) (env : List (Name × Int)) {σ σ' : Store} (op : Val → Val → Val) :
    ∀ (acc : Val) (cs : List Expr), AgreeOn (depVarsL cs) σ σ' →
      evalFold F env σ op acc cs = evalFold F env σ' op acc cs
  | _, [], _ => by simp [evalFold]
  | acc, c :: cs, h => by
    simp only [depVarsL] at h
    simp only [evalFold, evalI_agree F env c (agree_app_left h), evalFold_agree F env op _ cs (agree_app_right h)]
theorem evalFold1_agree (F : Funs) (env : List (Name × Int)) {σ σ' : Store} (op : Val → Val → Val) :
    ∀ (cs : List Expr), AgreeOn (depVarsL cs) σ σ' → evalFold1 F env σ op cs = evalFold1 F env σ' op cs
  | [], _ => by simp [evalFold1]
  | [c], h => by
    simp only [depVarsL] at h
    simp only [evalFold1, evalI_agree F env c (agree_app_left h)]
  | c :: d :: cs, h => by
    simp only [depVarsL] at h
    have h2 : AgreeOn (depVarsL (d :: cs)) σ σ' := by simp only [depVarsL]; exact agree_app_right h
    simp only [evalFold1, evalI_agree F env c (agree_app_left h), evalFold1_agree F env op (d :: cs) h2]
theorem evalAll_agree (F : Funs) (env : List (Name × Int)) {σ σ' : Store} :
    ∀ (cs : List Expr), AgreeOn (depVarsL cs) σ σ' → evalAll F env σ cs = evalAll F env σ' cs
  | [], _ => by simp [evalAll]
  | c :: cs, h => by
    simp only [depVarsL] at h
    simp only [evalAll, evalI_agree F env c (agree_app_left h), evalAll_agree F env cs (agree_app_right h)]
theorem evalAny_agree (F : Funs) (env : List (Name × Int)) {σ σ' : Store} :
    ∀ (cs : List Expr), AgreeOn (depVarsL cs) σ σ' → evalAny F env σ cs = evalAny F env σ' cs
  | [], _ => by simp [evalAny]
  | c :: cs, h => by
    simp only [depVarsL] at h
    simp only [evalAny, evalI_agree F env c (agree_app_left h), evalAny_agree F env cs (agree_app_right h)]
theorem evalArgs_agree (F : Funs) (env : List (Name × Int)) {σ σ' : Store} :
    ∀ (cs : List Expr), AgreeOn (depVarsL cs) σ σ' → evalArgs F env σ cs = evalArgs F env σ' cs
  | [], _ => by simp [evalArgs]
  | c :: cs, h => by
    simp only [depVarsL] at h
    simp only [evalArgs, evalI_agree F env c (agree_app_left h), evalArgs_agree F env cs (agree_app_right h)]
theorem evalKw_agree (F : Funs) (env : List (Name × Int)) {σ σ' : Store} :
    ∀ (cs : List (Name × Expr)), AgreeOn (depVarsK cs) σ σ' → evalKw F env σ cs = evalKw F env σ' cs
  | [], _ => by simp [evalKw]
  | (k, c) :: cs, h => by
    simp only [depVarsK] at h
    simp only [evalKw, evalI_agree F env c (agree_app_left h), evalKw_agree F env cs (agree_app_right h)]
end

end Dagrt.Sem
