import Dagrt.Model.Hoist
import Dagrt.Proofs.StrLemmas
set_option linter.unusedVariables false
set_option linter.unusedSimpArgs false
namespace Dagrt.Hoist
open Dagrt

/-! ### semantics: integers, uninterpreted function symbols (and uninterpreted non-arithmetic
    operators), sums and products as folds -/
abbrev Env := Name → Int
abbrev FunI := Name → List Int → List (Name × Int) → Int

mutual
def evalZ (ρ : Env) (F : FunI) : Expr → Int
  | .const (.int n) => n
  | .const _ => 0
  | .var x => ρ x
  | .sum cs => sumZ ρ F cs
  | .prod cs => prodZ ρ F cs
  | .quot a b => evalZ ρ F a / evalZ ρ F b
  | .pow a b => evalZ ρ F a ^ (evalZ ρ F b).toNat
  | .call f args kw => F f (evalL ρ F args) (evalK ρ F kw)
  | .sub a i => F "<sub>" [evalZ ρ F a, evalZ ρ F i] []
  | .attr a n => F ("<attr>" ++ n) [evalZ ρ F a] []
  | .cmp o a b => F ("<cmp>" ++ o) [evalZ ρ F a, evalZ ρ F b] []
  | .lnot a => F "<not>" [evalZ ρ F a] []
  | .land cs => F "<and>" (evalL ρ F cs) []
  | .lor cs => F "<or>" (evalL ρ F cs) []
  | .ite c t e => F "<if>" [evalZ ρ F c, evalZ ρ F t, evalZ ρ F e] []
  | .min cs => F "<min>" (evalL ρ F cs) []
  | .max cs => F "<max>" (evalL ρ F cs) []
def sumZ (ρ : Env) (F : FunI) : List Expr → Int
  | [] => 0
  | c :: cs => evalZ ρ F c + sumZ ρ F cs
def prodZ (ρ : Env) (F : FunI) : List Expr → Int
  | [] => 1
  | c :: cs => evalZ ρ F c * prodZ ρ F cs
def evalL (ρ : Env) (F : FunI) : List Expr → List Int
  | [] => []
  | c :: cs => evalZ ρ F c :: evalL ρ F cs
def evalK (ρ : Env) (F : FunI) : List (Name × Expr) → List (Name × Int)
  | [] => []
  | (k, c) :: cs => (k, evalZ ρ F c) :: evalK ρ F cs
end

/-! variables (not function symbols) of an expression -/
mutual
def vars : Expr → List Name
  | .const _ => []
  | .var x => [x]
  | .sum cs => varsL cs
  | .prod cs => varsL cs
  | .quot a b => vars a ++ vars b
  | .pow a b => vars a ++ vars b
  | .call _ args kw => varsL args ++ varsK kw
  | .sub a i => vars a ++ vars i
  | .attr a _ => vars a
  | .cmp _ a b => vars a ++ vars b
  | .lnot a => vars a
  | .land cs => varsL cs
  | .lor cs => varsL cs
  | .ite c t e => vars c ++ vars t ++ vars e
  | .min cs => varsL cs
  | .max cs => varsL cs
def varsL : List Expr → List Name
  | [] => []
  | c :: cs => vars c ++ varsL cs
def varsK : List (Name × Expr) → List Name
  | [] => []
  | (_, c) :: cs => vars c ++ varsK cs
end

/-! the value depends only on the variables that occur -/
mutual
theorem evalZ_congr (ρ ρ' : Env) (F : FunI) : ∀ e : Expr, (∀ x ∈ vars e, ρ' x = ρ x) → evalZ ρ' F e = evalZ ρ F e
  | .const c, _ => by cases c <;> simp [evalZ]
  | .var x, h => by simp [evalZ, h x (by simp [vars])]
  | .sum cs, h => by simp only [evalZ]; exact sumZ_congr ρ ρ' F cs h
  | .prod cs, h => by simp only [evalZ]; exact prodZ_congr ρ ρ' F cs h
  | .quot a b, h => by
    simp only [vars, List.mem_append] at h
    simp only [evalZ, evalZ_congr ρ ρ' F a (fun x hx => h x (Or.inl hx)), evalZ_congr ρ ρ' F b (fun x hx => h x (Or.inr hx))]
  | .pow a b, h => by
    simp only [vars, List.mem_append] at h
    simp only [evalZ, evalZ_congr ρ ρ' F a (fun x hx => h x (Or.inl hx)), evalZ_congr ρ ρ' F b (fun x hx => h x (Or.inr hx))]
  | .call f args kw, h => by
    simp only [vars, List.mem_append] at h
    simp only [evalZ, evalL_congr ρ ρ' F args (fun x hx => h x (Or.inl hx)), evalK_congr ρ ρ' F kw (fun x hx => h x (Or.inr hx))]
  | .sub a b, h => by
    simp only [vars, List.mem_append] at h
    simp only [evalZ, evalZ_congr ρ ρ' F a (fun x hx => h x (Or.inl hx)), evalZ_congr ρ ρ' F b (fun x hx => h x (Or.inr hx))]
  | .attr a n, h => by
    simp only [vars] at h
    simp only [evalZ, evalZ_congr ρ ρ' F a h]
  | .cmp o a b, h => by
    simp only [vars, List.mem_append] at h
    simp only [evalZ, evalZ_congr ρ ρ' F a (fun x hx => h x (Or.inl hx)), evalZ_congr ρ ρ' F b (fun x hx => h x (Or.inr hx))]
  | .lnot a, h => by
    simp only [vars] at h
    simp only [evalZ, evalZ_congr ρ ρ' F a h]
  | .land cs, h => by simp only [evalZ, evalL_congr ρ ρ' F cs h]
  | .lor cs, h => by simp only [evalZ, evalL_congr ρ ρ' F cs h]
  | .ite c t e, h => by
    simp only [vars, List.mem_append] at h
    simp only [evalZ, evalZ_congr ρ ρ' F c (fun x hx => h x (Or.inl (Or.inl hx))),
      evalZ_congr ρ ρ' F t (fun x hx => h x (Or.inl (Or.inr hx))), evalZ_congr ρ ρ' F e (fun x hx => h x (Or.inr hx))]
  | .min cs, h => by simp only [evalZ, evalL_congr ρ ρ' F cs h]
  | .max cs, h => by simp only [evalZ, evalL_congr ρ ρ' F cs h]
theorem sumZ_congr (ρ ρ' : Env) (F : FunI) : ∀ cs : List Expr, (∀ x ∈ varsL cs, ρ' x = ρ x) → sumZ ρ' F cs = sumZ ρ F cs
  | [], _ => rfl
  | c :: cs, h => by
    simp only [varsL, List.mem_append] at h
    simp only [sumZ, evalZ_congr ρ ρ' F c (fun x hx => h x (Or.inl hx)), sumZ_congr ρ ρ' F cs (fun x hx => h x (Or.inr hx))]
theorem prodZ_congr (ρ ρ' : Env) (F : FunI) : ∀ cs : List Expr, (∀ x ∈ varsL cs, ρ' x = ρ x) → prodZ ρ' F cs = prodZ ρ F cs
  | [], _ => rfl
  | c :: cs, h => by
    simp only [varsL, List.mem_append] at h
    simp only [prodZ, evalZ_congr ρ ρ' F c (fun x hx => h x (Or.inl hx)), prodZ_congr ρ ρ' F cs (fun x hx => h x (Or.inr hx))]
theorem evalL_congr (ρ ρ' : Env) (F : FunI) : ∀ cs : List Expr, (∀ x ∈ varsL cs, ρ' x = ρ x) → evalL ρ' F cs = evalL ρ F cs
  | [], _ => rfl
  | c :: cs, h => by
    simp only [varsL, List.mem_append] at h
    simp only [evalL, evalZ_congr ρ ρ' F c (fun x hx => h x (Or.inl hx)), evalL_congr ρ ρ' F cs (fun x hx => h x (Or.inr hx))]
theorem evalK_congr (ρ ρ' : Env) (F : FunI) : ∀ cs : List (Name × Expr), (∀ x ∈ varsK cs, ρ' x = ρ x) → evalK ρ' F cs = evalK ρ F cs
  | [], _ => rfl
  | (k, c) :: cs, h => by
    simp only [varsK, List.mem_append] at h
    simp only [evalK, evalZ_congr ρ ρ' F c (fun x hx => h x (Or.inl hx)), evalK_congr ρ ρ' F cs (fun x hx => h x (Or.inr hx))]
end

end Dagrt.Hoist

namespace Dagrt.Hoist
open Dagrt

def NotH (x : Name) : Prop := ∀ k, x ≠ hname k
def NoH (e : Expr) : Prop := ∀ x ∈ vars e, NotH x
def NoHL (cs : List Expr) : Prop := ∀ x ∈ varsL cs, NotH x
def NoHK (cs : List (Name × Expr)) : Prop := ∀ x ∈ varsK cs, NotH x

theorem hname_inj {a b : Nat} (h : hname a = hname b) : a = b := by
  unfold hname at h
  have : toString a = toString b := by
    have := congrArg String.toList h
    simp only [String.toList_append] at this
    have := List.append_cancel_left this
    exact String.toList_inj.mp this
  exact Dagrt.Str.toString_inj this

/-- a transformation of the hoisting state from `s` to `s'`: it appends assignments whose
    left-hand sides are exactly `h_{s.next} … h_{s'.next-1}` and whose right-hand sides are closed
    (`isConst`) original expressions; `claim ρ₂` holds for every environment `ρ₂` that equals `ρ`
    off the `h` names and gives each new variable the value of its right-hand side -/
def Good (free : List Name) (ρ : Env) (F : FunI) (s s' : HS) (claim : Env → Prop) : Prop :=
  ∃ new, s'.assigns = s.assigns ++ new ∧ s.next ≤ s'.next ∧
    new.map (·.1) = (List.range' s.next (s'.next - s.next)).map hname ∧
    (∀ p ∈ new, isConst free p.2 = true ∧ NoH p.2) ∧
    (∀ ρ₂ : Env, (∀ x, NotH x → ρ₂ x = ρ x) → (∀ p ∈ new, ρ₂ p.1 = evalZ ρ F p.2) → claim ρ₂)

theorem Good.refl (free : List Name) (ρ : Env) (F : FunI) (s : HS) (claim : Env → Prop)
    (h : ∀ ρ₂ : Env, (∀ x, NotH x → ρ₂ x = ρ x) → claim ρ₂) : Good free ρ F s s claim :=
  ⟨[], by simp, Nat.le_refl _, by simp, by simp, fun ρ₂ h1 _ => h ρ₂ h1⟩

theorem Good.weaken {free : List Name} {ρ : Env} {F : FunI} {s s' : HS} {c c' : Env → Prop}
    (h : Good free ρ F s s' c) (hw : ∀ ρ₂ : Env, (∀ x, NotH x → ρ₂ x = ρ x) → c ρ₂ → c' ρ₂) :
    Good free ρ F s s' c' := by
  obtain ⟨new, h1, h2, h3, h4, h5⟩ := h
  exact ⟨new, h1, h2, h3, h4, fun ρ₂ a b => hw ρ₂ a (h5 ρ₂ a b)⟩

theorem Good.comp {free : List Name} {ρ : Env} {F : FunI} {s s1 s2 : HS} {c1 c2 : Env → Prop}
    (h1 : Good free ρ F s s1 c1) (h2 : Good free ρ F s1 s2 c2) :
    Good free ρ F s s2 (fun ρ₂ => c1 ρ₂ ∧ c2 ρ₂) := by
  obtain ⟨n1, a1, a2, a3, a4, a5⟩ := h1
  obtain ⟨n2, b1, b2, b3, b4, b5⟩ := h2
  refine ⟨n1 ++ n2, by rw [b1, a1]; simp, by omega, ?_, ?_, ?_⟩
  · rw [List.map_append, a3, b3, ← List.map_append]
    congr 1
    have : s2.next - s.next = (s1.next - s.next) + (s2.next - s1.next) := by omega
    rw [this, ← List.range'_append_1]
    congr 2; omega
  · intro p hp; simp at hp; rcases hp with h | h
    · exact a4 p h
    · exact b4 p h
  · intro ρ₂ hag hdef
    exact ⟨a5 ρ₂ hag (fun p hp => hdef p (by simp [hp])), b5 ρ₂ hag (fun p hp => hdef p (by simp [hp]))⟩

theorem Good.hoist (free : List Name) (ρ : Env) (F : FunI) (s : HS) (e : Expr)
    (hc : isConst free e = true) (hn : NoH e) :
    Good free ρ F s (s.hoist e).2 (fun ρ₂ => evalZ ρ₂ F (s.hoist e).1 = evalZ ρ F e) := by
  refine ⟨[(hname s.next, e)], by simp [HS.hoist], by simp [HS.hoist], ?_, ?_, ?_⟩
  · simp [HS.hoist]
  · intro p hp; simp at hp; subst hp; exact ⟨hc, hn⟩
  · intro ρ₂ _ hdef
    simp only [HS.hoist, evalZ]
    exact hdef (hname s.next, e) (by simp)

/-- an original (h-free) expression has the same value in `ρ₂` -/
theorem evalZ_orig {ρ ρ₂ : Env} {F : FunI} {e : Expr} (hn : NoH e) (hag : ∀ x, NotH x → ρ₂ x = ρ x) :
    evalZ ρ₂ F e = evalZ ρ F e := evalZ_congr ρ ρ₂ F e (fun x hx => hag x (hn x hx))

end Dagrt.Hoist

namespace Dagrt.Hoist
open Dagrt

theorem allConst_iff {free : List Name} {cs : List Expr} : allConst free cs = true ↔ ∀ c ∈ cs, isConst free c = true := by
  induction cs with
  | nil => simp [allConst]
  | cons x xs ih => simp [allConst, ih]

theorem NoHL_iff {cs : List Expr} : NoHL cs ↔ ∀ c ∈ cs, NoH c := by
  induction cs with
  | nil => simp [NoHL, varsL]
  | cons x xs ih =>
    simp only [NoHL, varsL, List.mem_append, List.mem_cons, forall_eq_or_imp] at ih ⊢
    constructor
    · intro h; exact ⟨fun y hy => h y (Or.inl hy), ih.mp (fun y hy => h y (Or.inr hy))⟩
    · rintro ⟨h1, h2⟩ y (hy | hy)
      · exact h1 y hy
      · exact ih.mpr h2 y hy

/-- the tail of `map_commut_assoc` for sums -/
theorem finishCA_sum (free : List Name) (ρ : Env) (F : FunI) (ks ns : List Expr) (s : HS)
    (hk : ∀ k ∈ ks, isConst free k = true ∧ NoH k) :
    Good free ρ F s (finishCA .sum ks ns s).2
      (fun ρ₂ => evalZ ρ₂ F (finishCA .sum ks ns s).1 = sumZ ρ F ks + sumZ ρ₂ F ns) := by
  cases ks with
  | nil =>
    cases ns with
    | nil => exact Good.refl _ _ _ _ _ (fun ρ₂ _ => by simp [finishCA, evalZ, sumZ])
    | cons n ns' =>
      cases ns' with
      | nil => exact Good.refl _ _ _ _ _ (fun ρ₂ _ => by simp [finishCA, sumZ])
      | cons m ms => exact Good.refl _ _ _ _ _ (fun ρ₂ _ => by simp [finishCA, evalZ, sumZ])
  | cons k ks' =>
    cases ks' with
    | nil =>
      have hk1 := hk k (by simp)
      cases ha : atomic k with
      | true =>
        cases ns with
        | nil =>
          simp only [finishCA, ha, cond_true]
          exact Good.refl _ _ _ _ _ (fun ρ₂ hag => by
            simp [sumZ]; exact evalZ_orig hk1.2 hag)
        | cons n ns' =>
          simp only [finishCA, ha, cond_true]
          exact Good.refl _ _ _ _ _ (fun ρ₂ hag => by
            simp [evalZ, sumZ]; rw [evalZ_orig hk1.2 hag])
      | false =>
        have hg := Good.hoist free ρ F s k hk1.1 hk1.2
        cases ns with
        | nil =>
          simp only [finishCA, ha, cond_false]
          exact hg.weaken (fun ρ₂ _ h => by simp [sumZ]; exact h)
        | cons n ns' =>
          simp only [finishCA, ha, cond_false]
          exact hg.weaken (fun ρ₂ _ h => by simp only [evalZ, sumZ] at h ⊢; rw [h]; omega)
    | cons k2 ks'' =>
      have hc : isConst free (.sum (k :: k2 :: ks'')) = true := by
        simp only [isConst]; exact allConst_iff.mpr (fun c hc => (hk c hc).1)
      have hn : NoH (.sum (k :: k2 :: ks'')) := by
        show NoHL (k :: k2 :: ks''); exact NoHL_iff.mpr (fun c hc => (hk c hc).2)
      have hg := Good.hoist free ρ F s _ hc hn
      cases ns with
      | nil =>
        simp only [finishCA]
        exact hg.weaken (fun ρ₂ _ h => by simp only [evalZ, sumZ] at h ⊢; rw [h]; omega)
      | cons n ns' =>
        simp only [finishCA]
        exact hg.weaken (fun ρ₂ _ h => by simp only [evalZ, sumZ] at h ⊢; rw [h])

/-- the tail of `map_commut_assoc` for products -/
theorem finishCA_prod (free : List Name) (ρ : Env) (F : FunI) (ks ns : List Expr) (s : HS)
    (hk : ∀ k ∈ ks, isConst free k = true ∧ NoH k) :
    Good free ρ F s (finishCA .prod ks ns s).2
      (fun ρ₂ => evalZ ρ₂ F (finishCA .prod ks ns s).1 = prodZ ρ F ks * prodZ ρ₂ F ns) := by
  cases ks with
  | nil =>
    cases ns with
    | nil => exact Good.refl _ _ _ _ _ (fun ρ₂ _ => by simp [finishCA, evalZ, prodZ])
    | cons n ns' =>
      cases ns' with
      | nil => exact Good.refl _ _ _ _ _ (fun ρ₂ _ => by simp [finishCA, prodZ])
      | cons m ms => exact Good.refl _ _ _ _ _ (fun ρ₂ _ => by simp [finishCA, evalZ, prodZ])
  | cons k ks' =>
    cases ks' with
    | nil =>
      have hk1 := hk k (by simp)
      cases ha : atomic k with
      | true =>
        cases ns with
        | nil =>
          simp only [finishCA, ha, cond_true]
          exact Good.refl _ _ _ _ _ (fun ρ₂ hag => by
            simp [prodZ]; exact evalZ_orig hk1.2 hag)
        | cons n ns' =>
          simp only [finishCA, ha, cond_true]
          exact Good.refl _ _ _ _ _ (fun ρ₂ hag => by
            simp [evalZ, prodZ]; rw [evalZ_orig hk1.2 hag])
      | false =>
        have hg := Good.hoist free ρ F s k hk1.1 hk1.2
        cases ns with
        | nil =>
          simp only [finishCA, ha, cond_false]
          exact hg.weaken (fun ρ₂ _ h => by simp [prodZ]; exact h)
        | cons n ns' =>
          simp only [finishCA, ha, cond_false]
          exact hg.weaken (fun ρ₂ _ h => by simp only [evalZ, prodZ] at h ⊢; rw [h]; simp)
    | cons k2 ks'' =>
      have hc : isConst free (.prod (k :: k2 :: ks'')) = true := by
        simp only [isConst]; exact allConst_iff.mpr (fun c hc => (hk c hc).1)
      have hn : NoH (.prod (k :: k2 :: ks'')) := by
        show NoHL (k :: k2 :: ks''); exact NoHL_iff.mpr (fun c hc => (hk c hc).2)
      have hg := Good.hoist free ρ F s _ hc hn
      cases ns with
      | nil =>
        simp only [finishCA]
        exact hg.weaken (fun ρ₂ _ h => by simp only [evalZ, prodZ] at h ⊢; rw [h]; simp)
      | cons n ns' =>
        simp only [finishCA]
        exact hg.weaken (fun ρ₂ _ h => by simp only [evalZ, prodZ] at h ⊢; rw [h])

end Dagrt.Hoist

namespace Dagrt.Hoist
open Dagrt

theorem NoH_sub2 {a b : Expr} (h : ∀ x ∈ vars a ++ vars b, NotH x) : NoH a ∧ NoH b :=
  ⟨fun x hx => h x (by simp [hx]), fun x hx => h x (by simp [hx])⟩

/-- shared by every node kind: if the node is (not the root and) constant, it is hoisted whole -/
theorem hoist_branch (free : List Name) (ρ : Env) (F : FunI) (e : Expr) (s : HS)
    (hc : isConst free e = true) (hn : NoH e) :
    Good free ρ F s (s.hoist e).2 (fun ρ₂ => evalZ ρ₂ F (s.hoist e).1 = evalZ ρ F e) :=
  Good.hoist free ρ F s e hc hn

mutual
theorem collapseG_good (free : List Name) (ρ : Env) (F : FunI) : ∀ (top : Bool) (e : Expr) (s : HS), NoH e →
    Good free ρ F s (collapseG free top e s).2 (fun ρ₂ => evalZ ρ₂ F (collapseG free top e s).1 = evalZ ρ F e)
  | top, .const c, s, hn => by
    simp only [collapseG]; exact Good.refl _ _ _ _ _ (fun ρ₂ hag => evalZ_orig hn hag)
  | top, .var x, s, hn => by
    simp only [collapseG]; exact Good.refl _ _ _ _ _ (fun ρ₂ hag => evalZ_orig hn hag)
  | top, .sum cs, s, hn => by
    simp only [collapseG]
    cases hb : (!top && isConst free (.sum cs)) with
    | true => simp only [cond_true]; exact hoist_branch free ρ F _ s (by simpa using (Bool.and_eq_true_iff.mp hb).2) hn
    | false =>
      simp only [cond_false]
      have hp := partitionC_good free ρ F cs s hn
      obtain ⟨hks, hgp⟩ := hp
      have hf := finishCA_sum free ρ F (partitionC free cs s).1 (partitionC free cs s).2.1 (partitionC free cs s).2.2 hks
      exact (hgp.comp hf).weaken (fun ρ₂ _ ⟨h1, h2⟩ => by simp only [evalZ]; rw [h2]; omega)
  | top, .prod cs, s, hn => by
    simp only [collapseG]
    cases hb : (!top && isConst free (.prod cs)) with
    | true => simp only [cond_true]; exact hoist_branch free ρ F _ s (by simpa using (Bool.and_eq_true_iff.mp hb).2) hn
    | false =>
      simp only [cond_false]
      have hp := partitionC_good free ρ F cs s hn
      obtain ⟨hks, hgp⟩ := hp
      have hf := finishCA_prod free ρ F (partitionC free cs s).1 (partitionC free cs s).2.1 (partitionC free cs s).2.2 hks
      exact (hgp.comp hf).weaken (fun ρ₂ _ ⟨h1, h2⟩ => by
        simp only [evalZ]; rw [h2, ← h1.2])
  | top, .quot a b, s, hn => by
    simp only [collapseG]
    cases hb : (!top && isConst free (.quot a b)) with
    | true => simp only [cond_true]; exact hoist_branch free ρ F _ s (by simpa using (Bool.and_eq_true_iff.mp hb).2) hn
    | false =>
      simp only [cond_false]
      have hs := NoH_sub2 (a := a) (b := b) hn
      have h1 := collapseG_good free ρ F false a s hs.1
      have h2 := collapseG_good free ρ F false b (collapseG free false a s).2 hs.2
      exact (h1.comp h2).weaken (fun ρ₂ _ ⟨e1, e2⟩ => by simp only [evalZ, e1, e2])
  | top, .pow a b, s, hn => by
    simp only [collapseG]
    cases hb : (!top && isConst free (.pow a b)) with
    | true => simp only [cond_true]; exact hoist_branch free ρ F _ s (by simpa using (Bool.and_eq_true_iff.mp hb).2) hn
    | false =>
      simp only [cond_false]
      have hs := NoH_sub2 (a := a) (b := b) hn
      have h1 := collapseG_good free ρ F false a s hs.1
      have h2 := collapseG_good free ρ F false b (collapseG free false a s).2 hs.2
      exact (h1.comp h2).weaken (fun ρ₂ _ ⟨e1, e2⟩ => by simp only [evalZ, e1, e2])
  | top, .call f args kw, s, hn => by
    simp only [collapseG]
    cases hb : (!top && isConst free (.call f args kw)) with
    | true => simp only [cond_true]; exact hoist_branch free ρ F _ s (by simpa using (Bool.and_eq_true_iff.mp hb).2) hn
    | false =>
      simp only [cond_false]
      have hn1 : NoHL args := fun x hx => hn x (by simp [vars, hx])
      have hn2 : NoHK kw := fun x hx => hn x (by simp [vars, hx])
      have h1 := collapseL_good free ρ F args s hn1
      have h2 := collapseK_good free ρ F kw (collapseL free args s).2 hn2
      exact (h1.comp h2).weaken (fun ρ₂ _ ⟨e1, e2⟩ => by simp only [evalZ, e1, e2])
  | top, .sub a b, s, hn => by
    simp only [collapseG]
    cases hb : (!top && isConst free (.sub a b)) with
    | true => simp only [cond_true]; exact hoist_branch free ρ F _ s (by simpa using (Bool.and_eq_true_iff.mp hb).2) hn
    | false =>
      simp only [cond_false]
      have hs := NoH_sub2 (a := a) (b := b) hn
      have h1 := collapseG_good free ρ F false a s hs.1
      have h2 := collapseG_good free ρ F false b (collapseG free false a s).2 hs.2
      exact (h1.comp h2).weaken (fun ρ₂ _ ⟨e1, e2⟩ => by simp only [evalZ, e1, e2])
  | top, .attr a n, s, hn => by
    simp only [collapseG]
    cases hb : (!top && isConst free (.attr a n)) with
    | true => simp only [cond_true]; exact hoist_branch free ρ F _ s (by simpa using (Bool.and_eq_true_iff.mp hb).2) hn
    | false =>
      simp only [cond_false]
      have h1 := collapseG_good free ρ F false a s (fun x hx => hn x (by simpa [vars] using hx))
      exact h1.weaken (fun ρ₂ _ e1 => by simp only [evalZ, e1])
  | top, .cmp o a b, s, hn => by
    simp only [collapseG]
    cases hb : (!top && isConst free (.cmp o a b)) with
    | true => simp only [cond_true]; exact hoist_branch free ρ F _ s (by simpa using (Bool.and_eq_true_iff.mp hb).2) hn
    | false =>
      simp only [cond_false]
      have hs := NoH_sub2 (a := a) (b := b) hn
      have h1 := collapseG_good free ρ F false a s hs.1
      have h2 := collapseG_good free ρ F false b (collapseG free false a s).2 hs.2
      exact (h1.comp h2).weaken (fun ρ₂ _ ⟨e1, e2⟩ => by simp only [evalZ, e1, e2])
  | top, .lnot a, s, hn => by
    simp only [collapseG]
    cases hb : (!top && isConst free (.lnot a)) with
    | true => simp only [cond_true]; exact hoist_branch free ρ F _ s (by simpa using (Bool.and_eq_true_iff.mp hb).2) hn
    | false =>
      simp only [cond_false]
      have h1 := collapseG_good free ρ F false a s (fun x hx => hn x (by simpa [vars] using hx))
      exact h1.weaken (fun ρ₂ _ e1 => by simp only [evalZ, e1])
  | top, .land cs, s, hn => by
    simp only [collapseG]
    cases hb : (!top && isConst free (.land cs)) with
    | true => simp only [cond_true]; exact hoist_branch free ρ F _ s (by simpa using (Bool.and_eq_true_iff.mp hb).2) hn
    | false =>
      simp only [cond_false]
      exact (collapseL_good free ρ F cs s hn).weaken (fun ρ₂ _ e1 => by simp only [evalZ, e1])
  | top, .lor cs, s, hn => by
    simp only [collapseG]
    cases hb : (!top && isConst free (.lor cs)) with
    | true => simp only [cond_true]; exact hoist_branch free ρ F _ s (by simpa using (Bool.and_eq_true_iff.mp hb).2) hn
    | false =>
      simp only [cond_false]
      exact (collapseL_good free ρ F cs s hn).weaken (fun ρ₂ _ e1 => by simp only [evalZ, e1])
  | top, .ite c t f, s, hn => by
    simp only [collapseG]
    cases hb : (!top && isConst free (.ite c t f)) with
    | true => simp only [cond_true]; exact hoist_branch free ρ F _ s (by simpa using (Bool.and_eq_true_iff.mp hb).2) hn
    | false =>
      simp only [cond_false]
      have h1 := collapseG_good free ρ F false c s (fun x hx => hn x (by simp [vars, hx]))
      have h2 := collapseG_good free ρ F false t (collapseG free false c s).2 (fun x hx => hn x (by simp [vars, hx]))
      have h3 := collapseG_good free ρ F false f (collapseG free false t (collapseG free false c s).2).2
        (fun x hx => hn x (by simp [vars, hx]))
      exact ((h1.comp h2).comp h3).weaken (fun ρ₂ _ ⟨⟨e1, e2⟩, e3⟩ => by simp only [evalZ, e1, e2, e3])
  | top, .min cs, s, hn => by
    simp only [collapseG]
    cases hb : (!top && isConst free (.min cs)) with
    | true => simp only [cond_true]; exact hoist_branch free ρ F _ s (by simpa using (Bool.and_eq_true_iff.mp hb).2) hn
    | false =>
      simp only [cond_false]
      exact (collapseL_good free ρ F cs s hn).weaken (fun ρ₂ _ e1 => by simp only [evalZ, e1])
  | top, .max cs, s, hn => by
    simp only [collapseG]
    cases hb : (!top && isConst free (.max cs)) with
    | true => simp only [cond_true]; exact hoist_branch free ρ F _ s (by simpa using (Bool.and_eq_true_iff.mp hb).2) hn
    | false =>
      simp only [cond_false]
      exact (collapseL_good free ρ F cs s hn).weaken (fun ρ₂ _ e1 => by simp only [evalZ, e1])
theorem collapseL_good (free : List Name) (ρ : Env) (F : FunI) : ∀ (cs : List Expr) (s : HS), NoHL cs →
    Good free ρ F s (collapseL free cs s).2 (fun ρ₂ => evalL ρ₂ F (collapseL free cs s).1 = evalL ρ F cs)
  | [], s, _ => by simp only [collapseL]; exact Good.refl _ _ _ _ _ (fun _ _ => rfl)
  | c :: cs, s, hn => by
    simp only [collapseL]
    have h1 := collapseG_good free ρ F false c s (fun x hx => hn x (by simp [varsL, hx]))
    have h2 := collapseL_good free ρ F cs (collapseG free false c s).2 (fun x hx => hn x (by simp [varsL, hx]))
    exact (h1.comp h2).weaken (fun ρ₂ _ ⟨e1, e2⟩ => by simp only [evalL, e1, e2])
theorem collapseK_good (free : List Name) (ρ : Env) (F : FunI) : ∀ (cs : List (Name × Expr)) (s : HS), NoHK cs →
    Good free ρ F s (collapseK free cs s).2 (fun ρ₂ => evalK ρ₂ F (collapseK free cs s).1 = evalK ρ F cs)
  | [], s, _ => by simp only [collapseK]; exact Good.refl _ _ _ _ _ (fun _ _ => rfl)
  | (k, c) :: cs, s, hn => by
    simp only [collapseK]
    have h1 := collapseG_good free ρ F false c s (fun x hx => hn x (by simp [varsK, hx]))
    have h2 := collapseK_good free ρ F cs (collapseG free false c s).2 (fun x hx => hn x (by simp [varsK, hx]))
    exact (h1.comp h2).weaken (fun ρ₂ _ ⟨e1, e2⟩ => by simp only [evalK, e1, e2])
theorem partitionC_good (free : List Name) (ρ : Env) (F : FunI) : ∀ (cs : List Expr) (s : HS), NoHL cs →
    (∀ k ∈ (partitionC free cs s).1, isConst free k = true ∧ NoH k) ∧
    Good free ρ F s (partitionC free cs s).2.2 (fun ρ₂ =>
      sumZ ρ F (partitionC free cs s).1 + sumZ ρ₂ F (partitionC free cs s).2.1 = sumZ ρ F cs ∧
      prodZ ρ F (partitionC free cs s).1 * prodZ ρ₂ F (partitionC free cs s).2.1 = prodZ ρ F cs)
  | [], s, _ => by
    simp only [partitionC]
    exact ⟨by simp, Good.refl _ _ _ _ _ (fun _ _ => by simp [sumZ, prodZ])⟩
  | c :: cs, s, hn => by
    have hnc : NoH c := fun x hx => hn x (by simp [varsL, hx])
    have hncs : NoHL cs := fun x hx => hn x (by simp [varsL, hx])
    simp only [partitionC]
    cases hc : isConst free c with
    | true =>
      simp only [cond_true]
      obtain ⟨hks, hg⟩ := partitionC_good free ρ F cs s hncs
      refine ⟨?_, hg.weaken (fun ρ₂ _ ⟨e1, e2⟩ => ?_)⟩
      · intro k hk; simp at hk
        rcases hk with e | hk
        · subst e; exact ⟨hc, hnc⟩
        · exact hks k hk
      · simp only [sumZ, prodZ]
        constructor
        · rw [← e1, Int.add_assoc]
        · rw [← e2, Int.mul_assoc]
    | false =>
      simp only [cond_false]
      have h1 := collapseG_good free ρ F false c s hnc
      obtain ⟨hks, hg⟩ := partitionC_good free ρ F cs (collapseG free false c s).2 hncs
      refine ⟨hks, (h1.comp hg).weaken (fun ρ₂ _ ⟨e0, e1, e2⟩ => ?_)⟩
      simp only [sumZ, prodZ, e0]
      constructor
      · rw [← e1, Int.add_left_comm]
      · rw [← e2]
        rw [← Int.mul_assoc, ← Int.mul_assoc, Int.mul_comm (prodZ ρ F _) (evalZ ρ F c)]
end

end Dagrt.Hoist
