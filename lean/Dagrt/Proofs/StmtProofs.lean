import Dagrt.Proofs.SemProofs
set_option linter.unusedVariables false
set_option linter.unusedSimpArgs false
namespace Dagrt.Sem
open Dagrt

/-- a transformation of the instrumented state that reads at most `R`, writes at most `W`,
    leaves every other cell alone and preserves agreement on any set containing `R` and `W` -/
structure Good (R W : List Name) (T : Acc → Acc) : Prop where
  reads : ∀ a, ∀ x ∈ (T a).reads, x ∈ a.reads ∨ x ∈ R
  writes : ∀ a, ∀ x ∈ (T a).writes, x ∈ a.writes ∨ x ∈ W
  frame : ∀ a x, x ∉ W → (T a).σ x = a.σ x
  agree : ∀ S a b, (∀ x ∈ R, x ∈ S) → (∀ x ∈ W, x ∈ S) → AgreeOn S a.σ b.σ → AgreeOn S (T a).σ (T b).σ

theorem Good.id (R W : List Name) : Good R W (fun a => a) :=
  ⟨fun a x h => Or.inl h, fun a x h => Or.inl h, fun _ _ _ => rfl, fun _ _ _ _ _ h => h⟩

theorem Good.comp {R W : List Name} {T1 T2 : Acc → Acc} (h1 : Good R W T1) (h2 : Good R W T2) :
    Good R W (fun a => T2 (T1 a)) := by
  refine ⟨?_, ?_, ?_, ?_⟩
  · intro a x hx
    rcases h2.reads (T1 a) x hx with h | h
    · exact h1.reads a x h
    · exact Or.inr h
  · intro a x hx
    rcases h2.writes (T1 a) x hx with h | h
    · exact h1.writes a x h
    · exact Or.inr h
  · intro a x hx; rw [h2.frame _ x hx, h1.frame _ x hx]
  · intro S a b hR hW h; exact h2.agree S _ _ hR hW (h1.agree S a b hR hW h)

theorem Good.mono {R W R' W' : List Name} {T : Acc → Acc} (h : Good R W T)
    (hR : ∀ x ∈ R, x ∈ R') (hW : ∀ x ∈ W, x ∈ W') : Good R' W' T := by
  refine ⟨?_, ?_, ?_, ?_⟩
  · intro a x hx; rcases h.reads a x hx with h' | h'
    · exact Or.inl h'
    · exact Or.inr (hR x h')
  · intro a x hx; rcases h.writes a x hx with h' | h'
    · exact Or.inl h'
    · exact Or.inr (hW x h')
  · intro a x hx; exact h.frame a x (fun h' => hx (hW x h'))
  · intro S a b h1 h2 hag
    exact h.agree S a b (fun x hx => h1 x (hR x hx)) (fun x hx => h2 x (hW x hx)) hag

theorem set_agree {S : List Name} {σ σ' : Store} (h : AgreeOn S σ σ') (x : Name) (c : Cell) :
    AgreeOn S (σ.set x c) (σ'.set x c) := by
  intro y hy; simp only [Store.set]; split
  · rfl
  · exact h y hy

def subVars : Option Expr → List Name
  | some i => depVars i
  | none => []

theorem assignOnce_good (F : Funs) (env : List (Name × Int)) (lhs : Name) (sub : Option Expr) (rhs : Expr) :
    Good (depVars rhs ++ subVars sub ++ [lhs]) [lhs] (assignOnce F env lhs sub rhs) := by
  cases sub with
  | none =>
    refine ⟨?_, ?_, ?_, ?_⟩
    · intro a x hx
      simp only [assignOnce, Acc.write, Acc.read, List.mem_append] at hx
      rcases hx with h | h
      · exact Or.inl h
      · right; simp [evalI_reads F env a.σ rhs x h]
    · intro a x hx
      simp only [assignOnce, Acc.write, Acc.read, List.mem_append] at hx
      rcases hx with h | h
      · exact Or.inl h
      · exact Or.inr h
    · intro a x hx
      simp only [assignOnce, Acc.write, Acc.read, Store.set]
      simp at hx; simp [hx]
    · intro S a b hR hW h
      simp only [assignOnce, Acc.write, Acc.read]
      have : evalI F env a.σ rhs = evalI F env b.σ rhs :=
        evalI_agree F env rhs (h.mono (fun x hx => hR x (by simp [hx])))
      rw [this]; exact set_agree h _ _
  | some i =>
    refine ⟨?_, ?_, ?_, ?_⟩
    · intro a x hx
      simp only [assignOnce, Acc.write, Acc.read, List.mem_append] at hx
      rcases hx with h | (h | h) | h
      · exact Or.inl h
      · right; simp [evalI_reads F env a.σ rhs x h]
      · right; simp at h; simp [h]
      · right; simp [subVars, evalI_reads F env a.σ i x h]
    · intro a x hx
      simp only [assignOnce, Acc.write, Acc.read, List.mem_append] at hx
      rcases hx with h | h
      · exact Or.inl h
      · exact Or.inr h
    · intro a x hx
      simp only [assignOnce, Acc.write, Acc.read, Store.set]
      simp at hx; simp [hx]
    · intro S a b hR hW h
      simp only [assignOnce, Acc.write, Acc.read]
      have h1 : evalI F env a.σ rhs = evalI F env b.σ rhs :=
        evalI_agree F env rhs (h.mono (fun x hx => hR x (by simp [hx])))
      have h2 : evalI F env a.σ i = evalI F env b.σ i :=
        evalI_agree F env i (h.mono (fun x hx => hR x (by simp [subVars, hx])))
      have h3 : a.σ.get lhs = b.σ.get lhs := h.get (hW lhs (by simp))
      rw [h1, h2, h3]; exact set_agree h _ _

theorem read_good (R W : List Name) (f : Acc → List Name) (hf : ∀ a, ∀ x ∈ f a, x ∈ R) :
    Good R W (fun a => a.read (f a)) := by
  refine ⟨?_, ?_, ?_, ?_⟩
  · intro a x hx; simp only [Acc.read, List.mem_append] at hx
    rcases hx with h | h
    · exact Or.inl h
    · exact Or.inr (hf a x h)
  · intro a x hx; exact Or.inl hx
  · intro a x _; rfl
  · intro S a b _ _ h; exact h

mutual
theorem runLoops_good (F : Funs) (lhs : Name) (sub : Option Expr) (rhs : Expr) :
    ∀ (loops : List (Name × Expr × Expr)) (env : List (Name × Int)),
      Good (depVars rhs ++ subVars sub ++ [lhs] ++ loopVars loops) [lhs] (runLoops F lhs sub rhs loops env)
  | [], env => by
    have := assignOnce_good F env lhs sub rhs
    have h2 : runLoops F lhs sub rhs [] env = assignOnce F env lhs sub rhs := by funext a; simp [runLoops]
    rw [h2]; exact this.mono (by intro x hx; simp at hx ⊢; rcases hx with h | h | h <;> simp [h]) (fun x hx => hx)
  | (i, lo, hi) :: rest, env => by
    let R := depVars rhs ++ subVars sub ++ [lhs] ++ loopVars ((i, lo, hi) :: rest)
    have hlo : ∀ x ∈ depVars lo, x ∈ R := by intro x hx; simp [R, loopVars, hx]
    have hhi : ∀ x ∈ depVars hi, x ∈ R := by intro x hx; simp [R, loopVars, hx]
    have hit : ∀ (k : Int) (n : Nat), Good R [lhs] (iterate F lhs sub rhs rest env i k n) :=
      fun k n => (iterate_good F lhs sub rhs rest env i n k).mono
        (by intro x hx; simp [R, loopVars] at hx ⊢; rcases hx with h | h | h | h <;> simp [h]) (fun x hx => hx)
    refine ⟨?_, ?_, ?_, ?_⟩
    · intro a x hx
      simp only [runLoops] at hx
      rcases (hit _ _).reads _ x hx with h | h
      · simp only [Acc.read, List.mem_append] at h
        rcases h with h | h | h
        · exact Or.inl h
        · exact Or.inr (hlo x (evalI_reads F env a.σ lo x h))
        · exact Or.inr (hhi x (evalI_reads F env a.σ hi x h))
      · exact Or.inr h
    · intro a x hx
      simp only [runLoops] at hx
      rcases (hit _ _).writes _ x hx with h | h
      · exact Or.inl h
      · exact Or.inr h
    · intro a x hx
      simp only [runLoops]
      rw [(hit _ _).frame _ x hx]; rfl
    · intro S a b hR hW h
      simp only [runLoops]
      have h1 : evalI F env a.σ lo = evalI F env b.σ lo :=
        evalI_agree F env lo (h.mono (fun x hx => hR x (hlo x hx)))
      have h2 : evalI F env a.σ hi = evalI F env b.σ hi :=
        evalI_agree F env hi (h.mono (fun x hx => hR x (hhi x hx)))
      rw [h1, h2]
      exact (hit _ _).agree S _ _ hR hW h
theorem iterate_good (F : Funs) (lhs : Name) (sub : Option Expr) (rhs : Expr)
    (rest : List (Name × Expr × Expr)) (env : List (Name × Int)) (i : Name) :
    ∀ (n : Nat) (k : Int),
      Good (depVars rhs ++ subVars sub ++ [lhs] ++ loopVars rest) [lhs] (iterate F lhs sub rhs rest env i k n)
  | 0, k => by
    have : iterate F lhs sub rhs rest env i k 0 = fun a => a := by funext a; simp [iterate]
    rw [this]; exact Good.id _ _
  | n+1, k => by
    have h1 := runLoops_good F lhs sub rhs rest ((i, k) :: env)
    have h2 := iterate_good F lhs sub rhs rest env i n (k + 1)
    have : iterate F lhs sub rhs rest env i k (n + 1) =
        fun a => iterate F lhs sub rhs rest env i (k + 1) n (runLoops F lhs sub rhs rest ((i, k) :: env) a) := by
      funext a; simp [iterate]
    rw [this]; exact Good.comp h1 h2
end

end Dagrt.Sem

namespace Dagrt.Sem
open Dagrt

/-- effective read set of a statement: what it declares, the aggregate of a subscripted
    assignment (declared as written), and the execution-state token -/
def effR (s : Stmt) : List Name := EXEC :: (declReads s ++ declWrites s)
/-- effective write set: what it declares; non-assignments also write the execution state -/
def effW (s : Stmt) : List Name := declWrites s ++ (bif s.kind.isAssignment then [] else [EXEC])

theorem assignResults_good : ∀ (lhs : List Name) (vs : Acc → List Val) (hv : ∀ S a b, AgreeOn S a.σ b.σ → vs a = vs b → True),
    True := fun _ _ _ => trivial

theorem assignResults_spec : ∀ (lhs : List Name) (vs : List Val) (a : Acc),
    (∀ x ∈ (assignResults a lhs vs).reads, x ∈ a.reads) ∧
    (∀ x ∈ (assignResults a lhs vs).writes, x ∈ a.writes ∨ x ∈ lhs) ∧
    (∀ x, x ∉ lhs → (assignResults a lhs vs).σ x = a.σ x)
  | [], vs, a => by simp [assignResults]
  | x :: xs, [], a => by simp [assignResults]; intro y hy; exact Or.inl hy
  | x :: xs, v :: vs, a => by
    have ih := assignResults_spec xs vs (a.write x v)
    simp only [assignResults]
    refine ⟨?_, ?_, ?_⟩
    · intro y hy; have := ih.1 y hy; simpa [Acc.write] using this
    · intro y hy
      rcases ih.2.1 y hy with h | h
      · simp only [Acc.write, List.mem_append] at h
        rcases h with h | h
        · exact Or.inl h
        · right; simp at h; simp [h]
      · right; simp [h]
    · intro y hy
      simp at hy
      rw [ih.2.2 y hy.2]
      simp [Acc.write, Store.set, hy.1]

theorem assignResults_agree {S : List Name} : ∀ (lhs : List Name) (vs : List Val) (a b : Acc),
    AgreeOn S a.σ b.σ → AgreeOn S (assignResults a lhs vs).σ (assignResults b lhs vs).σ
  | [], vs, a, b, h => by simpa [assignResults] using h
  | x :: xs, [], a, b, h => by simpa [assignResults] using h
  | x :: xs, v :: vs, a, b, h => by
    simp only [assignResults]
    apply assignResults_agree xs vs
    simp only [Acc.write]; exact set_agree h _ _

theorem status_agree {S : List Name} {σ σ' : Store} (h : AgreeOn S σ σ') (he : EXEC ∈ S) :
    σ.status = σ'.status ∧ σ.log = σ'.log := by
  simp [Store.status, Store.log, h EXEC he]

/-- C08 + the frame conditions C02 needs, for one statement -/
theorem execI_spec (F : Funs) (s : Stmt) :
    (∀ σ, ∀ x ∈ (execI F s σ).reads, x ∈ effR s) ∧
    (∀ σ, ∀ x ∈ (execI F s σ).writes, x ∈ effW s) ∧
    (∀ σ x, x ∉ effW s → (execI F s σ).σ x = σ x) ∧
    (∀ S σ σ', (∀ x ∈ effR s, x ∈ S) → (∀ x ∈ effW s, x ∈ S) → AgreeOn S σ σ' →
      AgreeOn S (execI F s σ).σ (execI F s σ').σ) := by
  obtain ⟨cond, kind⟩ := s
  have hcondR : ∀ x ∈ depVars cond, x ∈ effR ⟨cond, kind⟩ := by
    intro x hx; simp [effR, declReads, hx]
  refine ⟨?_, ?_, ?_, ?_⟩
  -- reads
  · intro σ x hx
    unfold execI at hx
    simp only at hx
    split at hx
    · -- running
      cases hg : (evalI F [] σ cond).1.truthy
      · simp only [hg, cond_false, Acc.read, List.mem_append] at hx
        rcases hx with h | h
        · simp at h; simp [effR, h]
        · exact hcondR x (evalI_reads F [] σ cond x h)
      · simp only [hg, cond_true] at hx
        have hbase : ∀ y ∈ ({ σ := σ, reads := [EXEC], writes := [] } : Acc).reads ++ (evalI F [] σ cond).2,
            y ∈ effR ⟨cond, kind⟩ := by
          intro y hy; simp only [List.mem_append] at hy
          rcases hy with h | h
          · simp at h; simp [effR, h]
          · exact hcondR y (evalI_reads F [] σ cond y h)
        cases kind with
        | assign lhs sub rhs loops =>
          simp only at hx
          rcases (runLoops_good F lhs sub rhs loops []).reads _ x hx with h | h
          · exact hbase x (by simpa [Acc.read] using h)
          · simp only [List.mem_append] at h
            simp only [effR, declReads, declWrites, List.mem_cons, List.mem_append]
            rcases h with ((h | h) | h) | h
            · right; left; right; left; left; exact h
            · right; left; right; left; right; cases sub <;> simp_all [subVars]
            · right; right; simpa using h
            · right; left; right; right; exact h
        | callAssign lhs f args kw =>
          simp only at hx
          have := (assignResults_spec lhs _ _).1 x hx
          simp only [Acc.read, List.mem_append] at this
          rcases this with h | h | h
          · exact hbase x (by simp only [List.mem_append]; exact h)
          · simp [effR, declReads, evalArgs_reads F [] σ args x h]
          · simp [effR, declReads, evalKw_reads F [] σ kw x h]
        | yield e t tid comp =>
          simp only [setExec, Acc.read, List.mem_append] at hx
          rcases hx with h | h | h
          · exact hbase x (by simp only [List.mem_append]; exact h)
          · simp [effR, declReads, evalI_reads F [] σ t x h]
          · simp [effR, declReads, evalI_reads F [] σ e x h]
        | raise err => simp only [setExec] at hx; exact hbase x (by simpa [Acc.read] using hx)
        | fail => simp only [setExec] at hx; exact hbase x (by simpa [Acc.read] using hx)
        | switch p => simp only [setExec] at hx; exact hbase x (by simpa [Acc.read] using hx)
        | nop => exact hbase x (by simpa [Acc.read] using hx)
    · simp at hx; simp [effR, hx]
  -- writes
  · intro σ x hx
    unfold execI at hx
    simp only at hx
    split at hx
    · cases hg : (evalI F [] σ cond).1.truthy
      · simp [hg, Acc.read] at hx
      · simp only [hg, cond_true] at hx
        cases kind with
        | assign lhs sub rhs loops =>
          simp only at hx
          rcases (runLoops_good F lhs sub rhs loops []).writes _ x hx with h | h
          · simp [Acc.read] at h
          · simp [effW, declWrites] at h ⊢; exact Or.inl h
        | callAssign lhs f args kw =>
          simp only at hx
          rcases (assignResults_spec lhs _ _).2.1 x hx with h | h
          · simp [Acc.read] at h
          · simp [effW, declWrites, Kind.isAssignment, h]
        | yield e t tid comp => simp [setExec, Acc.read] at hx; simp [effW, Kind.isAssignment, hx]
        | raise err => simp [setExec, Acc.read] at hx; simp [effW, Kind.isAssignment, hx]
        | fail => simp [setExec, Acc.read] at hx; simp [effW, Kind.isAssignment, hx]
        | switch p => simp [setExec, Acc.read] at hx; simp [effW, Kind.isAssignment, hx]
        | nop => simp [Acc.read] at hx
    · simp at hx
  -- frame
  · intro σ x hx
    unfold execI
    simp only
    split
    · cases hg : (evalI F [] σ cond).1.truthy
      · simp [Acc.read]
      · simp only [cond_true]
        cases kind with
        | assign lhs sub rhs loops =>
          simp only
          rw [(runLoops_good F lhs sub rhs loops []).frame _ x (by simpa [effW, declWrites, Kind.isAssignment] using hx)]
          simp [Acc.read]
        | callAssign lhs f args kw =>
          simp only
          rw [(assignResults_spec lhs _ _).2.2 x (by simpa [effW, declWrites, Kind.isAssignment] using hx)]
          simp [Acc.read]
        | yield e t tid comp =>
          simp [effW, declWrites, Kind.isAssignment] at hx
          simp [setExec, Acc.read, Store.set, hx]
        | raise err =>
          simp [effW, declWrites, Kind.isAssignment] at hx
          simp [setExec, Acc.read, Store.set, hx]
        | fail =>
          simp [effW, declWrites, Kind.isAssignment] at hx
          simp [setExec, Acc.read, Store.set, hx]
        | switch p =>
          simp [effW, declWrites, Kind.isAssignment] at hx
          simp [setExec, Acc.read, Store.set, hx]
        | nop => simp [Acc.read]
    · rfl
  -- agreement
  · intro S σ σ' hR hW h
    have hE : EXEC ∈ S := hR EXEC (by simp [effR])
    obtain ⟨hst, hlog⟩ := status_agree h hE
    have hc : evalI F [] σ cond = evalI F [] σ' cond :=
      evalI_agree F [] cond (h.mono (fun x hx => hR x (hcondR x hx)))
    unfold execI
    simp only
    rw [← hst, ← hc]
    split
    · cases hg : (evalI F [] σ cond).1.truthy
      · simpa [Acc.read] using h
      · simp only [cond_true]
        cases kind with
        | assign lhs sub rhs loops =>
          simp only
          apply (runLoops_good F lhs sub rhs loops []).agree S
          · intro x hx
            apply hR
            simp only [List.mem_append] at hx
            simp only [effR, declReads, declWrites, List.mem_cons, List.mem_append]
            rcases hx with ((hx | hx) | hx) | hx
            · right; left; right; left; left; exact hx
            · right; left; right; left; right; cases sub <;> simp_all [subVars]
            · right; right; simpa using hx
            · right; left; right; right; exact hx
          · intro x hx; apply hW; simp [effW, declWrites] at hx ⊢; exact Or.inl hx
          · simpa [Acc.read] using h
        | callAssign lhs f args kw =>
          simp only
          have h1 : evalArgs F [] σ args = evalArgs F [] σ' args :=
            evalArgs_agree F [] args (h.mono (fun x hx => hR x (by simp [effR, declReads, hx])))
          have h2 : evalKw F [] σ kw = evalKw F [] σ' kw :=
            evalKw_agree F [] kw (h.mono (fun x hx => hR x (by simp [effR, declReads, hx])))
          simp only [Acc.read]
          rw [h1, h2]
          apply assignResults_agree
          exact h
        | yield e t tid comp =>
          have h1 : evalI F [] σ t = evalI F [] σ' t :=
            evalI_agree F [] t (h.mono (fun x hx => hR x (by simp [effR, declReads, hx])))
          have h2 : evalI F [] σ e = evalI F [] σ' e :=
            evalI_agree F [] e (h.mono (fun x hx => hR x (by simp [effR, declReads, hx])))
          simp only [setExec, Acc.read]
          rw [h1, h2, hlog]
          exact set_agree h _ _
        | raise err => simp only [setExec, Acc.read]; rw [hlog]; exact set_agree h _ _
        | fail => simp only [setExec, Acc.read]; rw [hlog]; exact set_agree h _ _
        | switch p => simp only [setExec, Acc.read]; rw [hlog]; exact set_agree h _ _
        | nop => simpa [Acc.read] using h
    · exact h

end Dagrt.Sem
