import Dagrt.Model.Controller
set_option linter.unusedVariables false
set_option linter.unusedSimpArgs false
namespace Dagrt.Controller

def depsOf (g : Graph) (i : Nat) : List Nat := (g i).getD []

/-- every element of the list has its dependencies executed or earlier in the list -/
def DepsFirst (g : Graph) (executed : List Nat) (l : List Nat) : Prop :=
  ∀ pre x post, l = pre ++ x :: post → ∀ d ∈ depsOf g x, d ∈ executed ∨ d ∈ pre

/-- well-formed phase: dependencies resolve, and a rank function bounded by `n` exists
    (`C10.accept_implies_consumers_safe` provides exactly this for accepted methods) -/
structure WF (g : Graph) (n : Nat) (r : Nat → Nat) : Prop where
  closed : ∀ i, (g i).isSome → ∀ d ∈ depsOf g i, (g d).isSome
  decr : ∀ i, ∀ d ∈ depsOf g i, r d < r i
  bound : ∀ i, (g i).isSome → r i < n

structure Inv (g : Graph) (s : St) : Prop where
  nodup : s.plan.Nodup
  disj : ∀ x ∈ s.plan, x ∉ s.executed
  depsFirst : DepsFirst g s.executed s.plan
  known : ∀ x ∈ s.plan, (g x).isSome

theorem depsFirst_append_singleton {g : Graph} {ex l : List Nat} {x : Nat}
    (h : DepsFirst g ex l) (hx : ∀ d ∈ depsOf g x, d ∈ ex ∨ d ∈ l) : DepsFirst g ex (l ++ [x]) := by
  intro pre y post heq d hd
  rcases List.eq_nil_or_concat post with hp | ⟨post', w, hp⟩
  · subst hp
    have := List.append_inj' heq rfl
    obtain ⟨h1, h2⟩ := this
    simp at h2; subst h1; subst h2
    exact hx d hd
  · subst hp
    have h' : l ++ [x] = (pre ++ y :: post') ++ [w] := by simp [heq]
    have := List.append_inj' h' rfl
    exact h pre y post' this.1 d hd

/-- what one `add_with_deps` / one dependency loop does to the pair (old plan, early plan) -/
structure Spec (g : Graph) (ex : List Nat) (r : Nat → Nat) (u u' : UP) (bound : Nat) (targets : List Nat) : Prop where
  ext : ∃ e, u'.early = u.early ++ e ∧ u'.plan = u.plan.filter (fun x => decide (x ∉ e)) ∧
        (∀ x ∈ e, r x ≤ bound) ∧ (∀ x ∈ e, x ∉ ex) ∧ (∀ x ∈ e, x ∉ u.early) ∧ e.Nodup ∧ (∀ x ∈ e, (g x).isSome)
  reached : ∀ t ∈ targets, t ∈ ex ∨ t ∈ u'.early
  earlyOK : DepsFirst g ex u.early → DepsFirst g ex u'.early

theorem erase_eq_filter {l : List Nat} (h : l.Nodup) (a : Nat) : l.erase a = l.filter (fun x => decide (x ∉ [a])) := by
  rw [List.Nodup.erase_eq_filter h]
  apply List.filter_congr
  intro x _; simp

theorem filter_not_mem_self {l : List Nat} {a : Nat} (h : a ∉ l) :
    l = l.filter (fun x => decide (x ∉ [a])) := by
  symm; rw [List.filter_eq_self]; intro x hx; simp; intro e; subst e; exact h hx

mutual
theorem addWithDeps_spec {g : Graph} {ex : List Nat} {r : Nat → Nat} {n : Nat} (wf : WF g n r) :
    ∀ (fuel : Nat) (u : UP) (id : Nat), u.plan.Nodup → (g id).isSome → r id < fuel →
      ∃ u', addWithDeps g ex fuel u id = .ok u' ∧ Spec g ex r u u' (r id) [id]
  | 0, _, _, _, _, h => by omega
  | fuel+1, u, id, hnd, hk, hr => by
    unfold addWithDeps
    cases hg : g id with
    | none => simp [hg] at hk
    | some deps =>
      simp only
      have hdeps : depsOf g id = deps := by simp [depsOf, hg]
      by_cases hex : id ∈ ex
      · simp only [hex, if_true]
        exact ⟨u, rfl, ⟨[], by simp, by simp, by simp, by simp, by simp, by simp, by simp⟩, by simp [hex], id⟩
      · simp only [hex, if_false]
        by_cases hea : id ∈ u.early
        · simp only [hea, if_true]
          exact ⟨u, rfl, ⟨[], by simp, by simp, by simp, by simp, by simp, by simp, by simp⟩, by simp [hea], id⟩
        · simp only [hea, if_false]
          -- the plan with `id` removed, as a filter
          have hu1 : ∃ u1 : UP, (if id ∈ u.plan then { u with plan := u.plan.erase id } else u) = u1 ∧
              u1.early = u.early ∧ u1.plan = u.plan.filter (fun x => decide (x ∉ [id])) := by
            by_cases hp : id ∈ u.plan
            · exact ⟨_, rfl, by simp [hp], by simp [hp, erase_eq_filter hnd]⟩
            · refine ⟨_, rfl, by simp [hp], ?_⟩
              simp only [hp, if_false]; exact filter_not_mem_self hp
          obtain ⟨u1, hu1e, hu1early, hu1plan⟩ := hu1
          rw [hu1e]
          have hnd1 : u1.plan.Nodup := by rw [hu1plan]; exact List.Nodup.filter _ hnd
          have hdk : ∀ d ∈ deps, (g d).isSome ∧ r d < fuel := by
            intro d hd
            have h1 := wf.closed id hk d (by rw [hdeps]; exact hd)
            have h2 := wf.decr id d (by rw [hdeps]; exact hd)
            exact ⟨h1, by omega⟩
          obtain ⟨u2, h2ok, h2spec⟩ := addList_spec wf fuel u1 deps hnd1 hdk
          rw [h2ok]
          refine ⟨_, rfl, ?_⟩
          obtain ⟨e, he1, he2, he3, he4, he5, he6, he7⟩ := h2spec.ext
          have hlt : ∀ x ∈ e, r x < r id := by
            intro x hx
            have := he3 x hx
            simp at this
            sorry
          sorry
theorem addList_spec {g : Graph} {ex : List Nat} {r : Nat → Nat} {n : Nat} (wf : WF g n r) :
    ∀ (fuel : Nat) (u : UP) (ds : List Nat), u.plan.Nodup → (∀ d ∈ ds, (g d).isSome ∧ r d < fuel) →
      ∃ u', addList g ex fuel u ds = .ok u' ∧ Spec g ex r u u' ((ds.map r).foldl max 0) ds
  | fuel, u, [], hnd, _ => by
    unfold addList
    exact ⟨u, rfl, ⟨[], by simp, by simp, by simp, by simp, by simp, by simp, by simp⟩, by simp, id⟩
  | fuel, u, d :: ds, hnd, hk => by
    sorry
end

end Dagrt.Controller
