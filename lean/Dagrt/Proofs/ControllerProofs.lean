import Dagrt.Model.Controller
set_option linter.unusedVariables false
set_option linter.unusedSimpArgs false
namespace Dagrt.Controller

def depsOf (g : Graph) (i : Nat) : List Nat := (g i).getD []

/-- every element of the list has its dependencies executed or earlier in the list -/
def DepsFirst (g : Graph) (executed : List Nat) (l : List Nat) : Prop :=
  ∀ pre x post, l = pre ++ x :: post → ∀ d ∈ depsOf g x, d ∈ executed ∨ d ∈ pre

/-- well-formed phase: dependencies resolve, and a rank function bounded by `n` exists
    (`C10.accept_implies_consumers_safe` provides exactly this for accepted methods) -/
structure WF (g : Graph) (n : Nat) (r : Nat → Nat) : Prop where
  closed : ∀ i, (g i).isSome → ∀ d ∈ depsOf g i, (g d).isSome
  decr : ∀ i, ∀ d ∈ depsOf g i, r d < r i
  bound : ∀ i, (g i).isSome → r i < n

structure Inv (g : Graph) (s : St) : Prop where
  nodup : s.plan.Nodup
  disj : ∀ x ∈ s.plan, x ∉ s.executed
  depsFirst : DepsFirst g s.executed s.plan
  known : ∀ x ∈ s.plan, (g x).isSome

theorem depsFirst_append_singleton {g : Graph} {ex l : List Nat} {x : Nat}
    (h : DepsFirst g ex l) (hx : ∀ d ∈ depsOf g x, d ∈ ex ∨ d ∈ l) : DepsFirst g ex (l ++ [x]) := by
  intro pre y post heq d hd
  rcases List.eq_nil_or_concat post with hp | ⟨post', w, hp⟩
  · subst hp
    have := List.append_inj' heq rfl
    obtain ⟨h1, h2⟩ := this
    simp at h2; subst h1; subst h2
    exact hx d hd
  · subst hp
    have h' : l ++ [x] = (pre ++ y :: post') ++ [w] := by simp [heq]
    have := List.append_inj' h' rfl
    exact h pre y post' this.1 d hd

theorem erase_eq_filter {l : List Nat} (h : l.Nodup) (a : Nat) :
    l.erase a = l.filter (fun x => decide (x ∉ [a])) := by
  rw [List.Nodup.erase_eq_filter h]
  apply List.filter_congr
  intro x _; simp [bne]; cases h : (x == a) <;> simp_all

theorem filter_not_mem_self {l : List Nat} {a : Nat} (h : a ∉ l) :
    l = l.filter (fun x => decide (x ∉ [a])) := by
  symm; rw [List.filter_eq_self]; intro x hx; simp; intro e; subst e; exact h hx

theorem nodup_filter {l : List Nat} (p : Nat → Bool) (h : l.Nodup) : (l.filter p).Nodup :=
  List.Nodup.sublist List.filter_sublist h

theorem filter_nil_id (l : List Nat) : l = l.filter (fun x => decide (x ∉ ([] : List Nat))) := by
  symm; rw [List.filter_eq_self]; intro x _; simp

theorem filter_filter_app (l e f : List Nat) :
    (l.filter (fun x => decide (x ∉ e))).filter (fun x => decide (x ∉ f)) =
      l.filter (fun x => decide (x ∉ e ++ f)) := by
  rw [List.filter_filter]; apply List.filter_congr; intro x _; simp [Bool.and_comm]

/-- what one `add_with_deps` / one dependency loop does to the pair (old plan, early plan):
    `e` = the statements appended to the early plan -/
structure Spec (g : Graph) (ex : List Nat) (r : Nat → Nat) (u u' : UP) (rankBound : Nat → Prop)
    (targets : List Nat) : Prop where
  ext : ∃ e, u'.early = u.early ++ e ∧ u'.plan = u.plan.filter (fun x => decide (x ∉ e)) ∧
        (∀ x ∈ e, rankBound (r x)) ∧ (∀ x ∈ e, x ∉ ex) ∧ (∀ x ∈ e, x ∉ u.early) ∧ e.Nodup ∧
        (∀ x ∈ e, (g x).isSome)
  reached : ∀ t ∈ targets, t ∈ ex ∨ t ∈ u'.early
  earlyOK : DepsFirst g ex u.early → DepsFirst g ex u'.early

theorem Spec.refl {g : Graph} {ex : List Nat} {r : Nat → Nat} {u : UP} {rb : Nat → Prop}
    {targets : List Nat} (h : ∀ t ∈ targets, t ∈ ex ∨ t ∈ u.early) : Spec g ex r u u rb targets :=
  ⟨⟨[], by simp, filter_nil_id _, by simp, by simp, by simp, by simp, by simp⟩, h, fun h => h⟩

/-- the dependency loop, given the specification of the function it iterates -/
theorem foldE_spec {g : Graph} {ex : List Nat} {r : Nat → Nat} (fuel : Nat)
    (H : ∀ (u : UP) (i : Nat), u.plan.Nodup → (g i).isSome → r i < fuel →
      ∃ u', addWithDeps g ex fuel u i = .ok u' ∧ Spec g ex r u u' (fun k => k ≤ r i) [i]) :
    ∀ (u : UP) (ds : List Nat) (b : Nat), u.plan.Nodup →
      (∀ d ∈ ds, (g d).isSome ∧ r d < fuel ∧ r d < b) →
      ∃ u', foldE (addWithDeps g ex fuel) u ds = .ok u' ∧ Spec g ex r u u' (fun k => k < b) ds
  | u, [], b, hnd, _ => by
    unfold foldE
    exact ⟨u, rfl, Spec.refl (by simp)⟩
  | u, d :: ds, b, hnd, hk => by
    unfold foldE
    obtain ⟨hd1, hd2, hd3⟩ := hk d (by simp)
    obtain ⟨u1, h1ok, h1spec⟩ := H u d hnd hd1 hd2
    rw [h1ok]
    simp only
    obtain ⟨e1, ha1, ha2, ha3, ha4, ha5, ha6, ha7⟩ := h1spec.ext
    have hnd1 : u1.plan.Nodup := by rw [ha2]; exact nodup_filter _ hnd
    obtain ⟨u2, h2ok, h2spec⟩ := foldE_spec fuel H u1 ds b hnd1 (fun x hx => hk x (by simp [hx]))
    rw [h2ok]
    refine ⟨u2, rfl, ?_⟩
    obtain ⟨e2, hb1, hb2, hb3, hb4, hb5, hb6, hb7⟩ := h2spec.ext
    refine ⟨⟨e1 ++ e2, ?_, ?_, ?_, ?_, ?_, ?_, ?_⟩, ?_, ?_⟩
    · simp [hb1, ha1]
    · rw [hb2, ha2, filter_filter_app]
    · intro x hx; simp at hx; rcases hx with h | h
      · have := ha3 x h; omega
      · exact hb3 x h
    · intro x hx; simp at hx; rcases hx with h | h
      · exact ha4 x h
      · exact hb4 x h
    · intro x hx; simp at hx; rcases hx with h | h
      · exact ha5 x h
      · have := hb5 x h; rw [ha1] at this; simp at this; exact this.1
    · rw [List.nodup_append]; refine ⟨ha6, hb6, ?_⟩
      intro a ha b' hb' e'; subst e'
      have := hb5 a hb'; rw [ha1] at this; simp at this; exact this.2 ha
    · intro x hx; simp at hx; rcases hx with h | h
      · exact ha7 x h
      · exact hb7 x h
    · intro t ht; simp at ht; rcases ht with h | h
      · subst h
        rcases h1spec.reached t (by simp) with h' | h'
        · exact Or.inl h'
        · right; rw [hb1]; simp [h']
      · exact h2spec.reached t h
    · intro hE; exact h2spec.earlyOK (h1spec.earlyOK hE)

theorem addWithDeps_spec {g : Graph} {ex : List Nat} {r : Nat → Nat} {n : Nat} (wf : WF g n r) :
    ∀ (fuel : Nat) (u : UP) (i : Nat), u.plan.Nodup → (g i).isSome → r i < fuel →
      ∃ u', addWithDeps g ex fuel u i = .ok u' ∧ Spec g ex r u u' (fun k => k ≤ r i) [i]
  | 0, _, _, _, _, h => by omega
  | fuel+1, u, i, hnd, hk, hr => by
    unfold addWithDeps
    cases hg : g i with
    | none => simp [hg] at hk
    | some deps =>
      simp only
      have hdeps : depsOf g i = deps := by simp [depsOf, hg]
      by_cases hex : i ∈ ex
      · simp only [hex, if_true]
        exact ⟨u, rfl, Spec.refl (by simp [hex])⟩
      · simp only [hex, if_false]
        by_cases hea : i ∈ u.early
        · simp only [hea, if_true]
          exact ⟨u, rfl, Spec.refl (by simp [hea])⟩
        · simp only [hea, if_false]
          -- the plan with `i` removed, as a filter
          have hu1 : ∃ u1 : UP, (if i ∈ u.plan then { u with plan := u.plan.erase i } else u) = u1 ∧
              u1.early = u.early ∧ u1.plan = u.plan.filter (fun x => decide (x ∉ [i])) := by
            by_cases hp : i ∈ u.plan
            · exact ⟨_, rfl, by simp [hp], by simp [hp, erase_eq_filter hnd]⟩
            · refine ⟨_, rfl, by simp [hp], ?_⟩
              simp only [hp, if_false]; exact filter_not_mem_self hp
          obtain ⟨u1, hu1e, hu1early, hu1plan⟩ := hu1
          rw [hu1e]
          have hnd1 : u1.plan.Nodup := by rw [hu1plan]; exact nodup_filter _ hnd
          have hdk : ∀ d ∈ deps, (g d).isSome ∧ r d < fuel ∧ r d < r i := by
            intro d hd
            have h1 := wf.closed i hk d (by rw [hdeps]; exact hd)
            have h2 := wf.decr i d (by rw [hdeps]; exact hd)
            exact ⟨h1, by omega, h2⟩
          obtain ⟨u2, h2ok, h2spec⟩ :=
            foldE_spec fuel (addWithDeps_spec wf fuel) u1 deps (r i) hnd1 hdk
          rw [h2ok]
          refine ⟨_, rfl, ?_⟩
          obtain ⟨e, he1, he2, he3, he4, he5, he6, he7⟩ := h2spec.ext
          have hie : i ∉ e := fun h => by have := he3 i h; omega
          refine ⟨⟨e ++ [i], ?_, ?_, ?_, ?_, ?_, ?_, ?_⟩, ?_, ?_⟩
          · simp [he1, hu1early]
          · simp only [he2, hu1plan]
            rw [filter_filter_app]
            apply List.filter_congr; intro x _; simp [Bool.and_comm]
          · intro x hx; simp at hx; rcases hx with h | h
            · have := he3 x h; omega
            · subst h; exact Nat.le_refl _
          · intro x hx; simp at hx; rcases hx with h | h
            · exact he4 x h
            · subst h; exact hex
          · intro x hx; simp at hx; rcases hx with h | h
            · rw [← hu1early]; exact he5 x h
            · subst h; exact hea
          · rw [List.nodup_append]; refine ⟨he6, by simp, ?_⟩
            intro a ha b hb; simp at hb; subst hb; intro e'; subst e'; exact hie ha
          · intro x hx; simp at hx; rcases hx with h | h
            · exact he7 x h
            · subst h; exact hk
          · intro t ht; simp at ht; subst ht; right; simp
          · intro hE
            have hE2 := h2spec.earlyOK (by rw [hu1early]; exact hE)
            apply depsFirst_append_singleton hE2
            intro d hd
            rw [hdeps] at hd
            exact h2spec.reached d hd

theorem addList_spec {g : Graph} {ex : List Nat} {r : Nat → Nat} {n : Nat} (wf : WF g n r)
    (fuel : Nat) (u : UP) (ds : List Nat) (b : Nat) (hnd : u.plan.Nodup)
    (hk : ∀ d ∈ ds, (g d).isSome ∧ r d < fuel ∧ r d < b) :
    ∃ u', addList g ex fuel u ds = .ok u' ∧ Spec g ex r u u' (fun k => k < b) ds :=
  foldE_spec fuel (addWithDeps_spec wf fuel) u ds b hnd hk

end Dagrt.Controller

namespace Dagrt.Controller

theorem depsFirst_nil (g : Graph) (ex : List Nat) : DepsFirst g ex [] := by
  intro pre x post h; simp at h

/-- concatenation: the second part may also rely on the whole first part -/
theorem depsFirst_append {g : Graph} {ex a b : List Nat} (ha : DepsFirst g ex a)
    (hb : ∀ pre x post, b = pre ++ x :: post → ∀ d ∈ depsOf g x, d ∈ ex ∨ d ∈ a ∨ d ∈ pre) :
    DepsFirst g ex (a ++ b) := by
  intro pre x post heq d hd
  rcases List.append_eq_append_iff.mp heq with ⟨a', h1, h2⟩ | ⟨c', h1, h2⟩
  · -- pre = a ++ a', b = a' ++ x :: post
    subst h1
    rcases hb a' x post h2 d hd with h | h | h
    · exact Or.inl h
    · right; simp [h]
    · right; simp [h]
  · -- a = pre ++ c', x :: post = c' ++ b
    cases c' with
    | nil =>
      simp at h1 h2; subst h1
      rcases hb [] x post (by simp [h2]) d hd with h | h | h
      · exact Or.inl h
      · exact Or.inr h
      · simp at h
    | cons y c'' =>
      simp at h2
      obtain ⟨hy, _⟩ := h2
      subst hy
      exact ha pre x c'' h1 d hd

theorem updatePlan_inv {g : Graph} {r : Nat → Nat} {n : Nat} (wf : WF g n r) {s : St} (hi : Inv g s)
    (ids : List Nat) (hids : ∀ i ∈ ids, (g i).isSome) :
    ∃ s' e, updatePlan g n s ids = .ok s' ∧ Inv g s' ∧ s'.executed = s.executed ∧
      s'.plan = e ++ s.plan.filter (fun x => decide (x ∉ e)) ∧
      (∀ i ∈ ids, i ∈ s.executed ∨ i ∈ e) := by
  unfold updatePlan
  obtain ⟨u', hok, hspec⟩ := addList_spec (ex := s.executed) wf (n + 1) { plan := s.plan, early := [] } ids n
    hi.nodup (fun d hd => ⟨hids d hd, by have := wf.bound d (hids d hd); omega, wf.bound d (hids d hd)⟩)
  rw [hok]
  obtain ⟨e, he1, he2, he3, he4, he5, he6, he7⟩ := hspec.ext
  simp at he1 he2
  refine ⟨_, e, rfl, ?_, rfl, by simp [he1, he2], ?_⟩
  · have hE : DepsFirst g s.executed e := by
      have := hspec.earlyOK (depsFirst_nil g s.executed); rwa [he1] at this
    refine ⟨?_, ?_, ?_, ?_⟩
    · simp only [he1, he2]
      rw [List.nodup_append]
      refine ⟨he6, nodup_filter _ hi.nodup, ?_⟩
      intro a ha b hb e'; subst e'
      simp at hb; exact hb.2 ha
    · intro x hx; simp only [he1, he2] at hx; simp at hx
      rcases hx with h | h
      · exact he4 x h
      · exact hi.disj x h.1
    · simp only [he1, he2]
      apply depsFirst_append hE
      intro pre x post hsplit d hd
      -- x comes from the old plan
      obtain ⟨l1, l2, hl, hf1, hf2⟩ := List.filter_eq_append_iff.mp hsplit
      obtain ⟨m1, m2, hm, hm1, hm2, hm3⟩ := List.filter_eq_cons_iff.mp hf2
      subst hm
      have hold := hi.depsFirst (l1 ++ m1) x m2 (by simp [hl]) d hd
      rcases hold with h | h
      · exact Or.inl h
      · by_cases hde : d ∈ e
        · exact Or.inr (Or.inl hde)
        · right; right
          rw [← hf1]
          simp at h
          rcases h with h | h
          · simp [h, hde]
          · exact absurd (by simp [hde]) (hm1 d h)
    · intro x hx; simp only [he1, he2] at hx; simp at hx
      rcases hx with h | h
      · exact he7 x h
      · exact hi.known x h.1
  · intro i hi'
    have := hspec.reached i hi'
    rwa [he1] at this

/-- popping the head of the plan: its dependencies have all been executed -/
theorem pop_inv {g : Graph} {x : Nat} {rest ex : List Nat} (hi : Inv g { plan := x :: rest, executed := ex }) :
    Inv g { plan := rest, executed := x :: ex } ∧ (∀ d ∈ depsOf g x, d ∈ ex) ∧ x ∉ ex := by
  obtain ⟨hnd, hdisj, hdf, hk⟩ := hi
  simp only at hnd hdisj hdf hk
  have ⟨hx, hnd'⟩ := List.nodup_cons.mp hnd
  refine ⟨⟨hnd', ?_, ?_, fun y hy => hk y (by simp [hy])⟩, ?_, hdisj x (by simp)⟩
  · intro y hy; simp; exact ⟨fun e => hx (e ▸ hy), hdisj y (by simp [hy])⟩
  · intro pre y post heq d hd
    have heq' : rest = pre ++ y :: post := heq
    rcases hdf (x :: pre) y post (by simp [heq']) d hd with h | h
    · left; simp [h]
    · simp at h; rcases h with h | h
      · left; simp [h]
      · exact Or.inr h
  · intro d hd
    rcases hdf [] x rest (by simp) d hd with h | h
    · exact h
    · simp at h

/-- the visit log: no statement twice, each after all its dependencies -/
def LogOK (g : Graph) (log : List Nat) : Prop := log.Nodup ∧ DepsFirst g [] log

structure LoopInv (g : Graph) (n : Nat) (cov : List Nat) (s : St) (log : List Nat) : Prop where
  inv : Inv g s
  exec_eq : ∀ x, x ∈ s.executed ↔ x ∈ log
  logOK : LogOK g log
  logKnown : ∀ x ∈ log, (g x).isSome
  cover : ∀ i ∈ cov, i ∈ s.plan ∨ i ∈ log

theorem loop_pop {g : Graph} {n : Nat} {cov : List Nat} {x : Nat} {rest ex log : List Nat}
    (h : LoopInv g n cov { plan := x :: rest, executed := ex } log) :
    LoopInv g n cov { plan := rest, executed := x :: ex } (log ++ [x]) := by
  obtain ⟨hi, he, ⟨hlnd, hldf⟩, hlk, hcov⟩ := h
  obtain ⟨hi', hdeps, hx⟩ := pop_inv hi
  refine ⟨hi', ?_, ⟨?_, ?_⟩, ?_, ?_⟩
  · intro y; simp; rw [← he y]; simp; exact Or.comm
  · rw [List.nodup_append]; refine ⟨hlnd, by simp, ?_⟩
    intro a ha b hb; simp at hb; subst hb; intro e; subst e
    exact hx ((he a).mpr ha)
  · apply depsFirst_append_singleton hldf
    intro d hd; right; exact (he d).mp (hdeps d hd)
  · intro y hy; simp at hy; rcases hy with h | h
    · exact hlk y h
    · subst h; exact hi.known y (by simp)
  · intro i hi''
    rcases hcov i hi'' with h | h
    · simp at h; rcases h with h | h
      · right; simp [h]
      · left; exact h
    · right; simp [h]

theorem runLoop_spec {g : Graph} {r : Nat → Nat} {n : Nat} (wf : WF g n r) (target : Nat → Action)
    (htarget : ∀ x req, target x = .run req → ∀ i ∈ req, (g i).isSome)
    (cov : List Nat) :
    ∀ (fuel : Nat) (s : St) (log : List Nat), LoopInv g n cov s log →
      ∃ log' s', runLoop g n target fuel s log = .ok (log', s') ∧ LoopInv g n cov s' log' ∧
        (∃ ext, log' = log ++ ext) ∧
        ((∀ x, target x ≠ .abort) → n < fuel + log.length → (∀ i, (g i).isSome → i < n) → s'.plan = [])
  | 0, s, log, h => by
    refine ⟨log, s, rfl, h, ⟨[], by simp⟩, ?_⟩
    intro _ hf hb
    -- the log has no duplicates and only known ids, so it cannot be longer than n
    have hsub : log ⊆ List.range n := by
      intro x hx; simp; exact hb x (h.logKnown x hx)
    have := List.Nodup.length_le_of_subset h.logOK.1 hsub
    simp at this; omega
  | fuel+1, s, log, h => by
    obtain ⟨plan, ex⟩ := s
    unfold runLoop
    cases plan with
    | nil => exact ⟨log, _, rfl, h, ⟨[], by simp⟩, fun _ _ _ => rfl⟩
    | cons x rest =>
      simp only
      have h1 := loop_pop h
      cases ht : target x with
      | skip =>
        simp only
        obtain ⟨log', s', hok, hinv, ⟨ext, hext⟩, hfin⟩ := runLoop_spec wf target htarget cov fuel _ _ h1
        refine ⟨log', s', hok, hinv, ⟨[x] ++ ext, by simp [hext]⟩, ?_⟩
        intro ha hf hb; exact hfin ha (by simp; omega) hb
      | abort =>
        simp only
        refine ⟨_, _, rfl, h1, ⟨[x], rfl⟩, ?_⟩
        intro ha; exact absurd ht (ha x)
      | run req =>
        cases req with
        | nil =>
          simp only
          obtain ⟨log', s', hok, hinv, ⟨ext, hext⟩, hfin⟩ := runLoop_spec wf target htarget cov fuel _ _ h1
          refine ⟨log', s', hok, hinv, ⟨[x] ++ ext, by simp [hext]⟩, ?_⟩
          intro ha hf hb; exact hfin ha (by simp; omega) hb
        | cons q qs =>
          simp only
          obtain ⟨s2, e, hup, hinv2, hex2, hplan2, hreach2⟩ :=
            updatePlan_inv wf h1.inv (q :: qs) (htarget x (q :: qs) ht)
          rw [hup]
          simp only
          have h2 : LoopInv g n cov s2 (log ++ [x]) := by
            refine ⟨hinv2, by intro y; rw [hex2]; exact h1.exec_eq y, h1.logOK, h1.logKnown, ?_⟩
            intro i hi''
            rcases h1.cover i hi'' with h' | h'
            · left; rw [hplan2]
              by_cases hie : i ∈ e
              · simp [hie]
              · simp at h'; simp [hie, h']
            · exact Or.inr h'
          obtain ⟨log', s', hok, hinv, ⟨ext, hext⟩, hfin⟩ := runLoop_spec wf target htarget cov fuel _ _ h2
          refine ⟨log', s', hok, hinv, ⟨[x] ++ ext, by simp [hext]⟩, ?_⟩
          intro ha hf hb; exact hfin ha (by simp; omega) hb

end Dagrt.Controller

namespace Dagrt.Controller

theorem reset_inv (g : Graph) : Inv g reset :=
  ⟨by simp [reset], by simp [reset], depsFirst_nil _ _, by simp [reset]⟩

/-- the initial plan: when the roots include every sink, every statement is planned
    (in a finite acyclic graph every node lies below a sink) -/
theorem initial_plan {g : Graph} {r : Nat → Nat} {n : Nat} (wf : WF g n r) (roots : List Nat)
    (hk : ∀ i ∈ roots, (g i).isSome)
    (hsinks : ∀ i, (g i).isSome → (∀ j, i ∉ depsOf g j) → i ∈ roots) :
    ∃ s0, updatePlan g n reset roots = .ok s0 ∧ Inv g s0 ∧ s0.executed = [] ∧
      ∀ i, (g i).isSome → i ∈ s0.plan := by
  obtain ⟨s0, e, hok, hinv, hex, hplan, hreach⟩ := updatePlan_inv wf (reset_inv g) roots hk
  have hpe : s0.plan = e := by simp [hplan, reset]
  have hex' : s0.executed = [] := by simp [hex, reset]
  refine ⟨s0, hok, hinv, hex', ?_⟩
  have hclosed : ∀ j ∈ s0.plan, ∀ d ∈ depsOf g j, d ∈ s0.plan := by
    intro j hj d hd
    obtain ⟨pre, post, hsplit⟩ := List.append_of_mem hj
    rcases hinv.depsFirst pre j post hsplit d hd with h | h
    · rw [hex'] at h; simp at h
    · rw [hsplit]; simp [h]
  have key : ∀ k i, (g i).isSome → n - r i ≤ k → i ∈ s0.plan := by
    intro k
    induction k with
    | zero => intro i hi hle; have := wf.bound i hi; omega
    | succ k ih =>
      intro i hi hle
      by_cases hs : ∀ j, i ∉ depsOf g j
      · have := hreach i (hsinks i hi hs)
        simp [reset] at this; rw [hpe]; exact this
      · have hs' : ∃ j, i ∈ depsOf g j := Classical.byContradiction (fun hne => hs (fun j hj => hne ⟨j, hj⟩))
        obtain ⟨j, hj⟩ := hs'
        have hjk : (g j).isSome := by
          cases hgj : g j with
          | none => simp [depsOf, hgj] at hj
          | some _ => simp
        have hr := wf.decr j i hj
        have hb := wf.bound j hjk
        exact hclosed j (ih j hjk (by omega)) i hj
  intro i hi
  exact key n i hi (by omega)

end Dagrt.Controller
