import Dagrt.Model.Verify
set_option linter.unusedVariables false
set_option linter.unusedSimpArgs false
namespace Dagrt.Verify

variable (nbrs : Nat → List Nat) (knownF : Nat → Bool)

theorem scan_ok {vis : List Nat} : ∀ {l : List Nat}, scan knownF vis l = .ok →
    ∀ n ∈ l, n ∉ vis ∧ knownF n = true
  | [], _, n, hn => by simp at hn
  | x :: xs, h, n, hn => by
    unfold scan at h
    split at h
    · cases h
    · rename_i hx
      split at h
      · rename_i hk
        simp at hn
        rcases hn with e | hn
        · subst e; exact ⟨hx, hk⟩
        · exact scan_ok h n hn
      · cases h

theorem scan_cycle {vis : List Nat} : ∀ {l : List Nat}, scan knownF vis l = .cycle →
    ∃ n ∈ l, n ∈ vis
  | [], h => by simp [scan] at h
  | x :: xs, h => by
    unfold scan at h
    split at h
    · rename_i hx; exact ⟨x, by simp, hx⟩
    · split at h
      · obtain ⟨n, hn, hv⟩ := scan_cycle h; exact ⟨n, by simp [hn], hv⟩
      · cases h

theorem scan_keyError {vis : List Nat} : ∀ {l : List Nat}, scan knownF vis l = .keyError →
    ∃ n ∈ l, knownF n = false
  | [], h => by simp [scan] at h
  | x :: xs, h => by
    unfold scan at h
    split at h
    · cases h
    · split at h
      · obtain ⟨n, hn, hv⟩ := scan_keyError h; exact ⟨n, by simp [hn], hv⟩
      · rename_i hk; exact ⟨x, by simp, by simpa using hk⟩

/-- stack = seg_k ++ v_k :: … :: seg_1 ++ v_1 :: seg_0, visiting = [v_k … v_1] -/
inductive Frames : (Nat → Prop) → List Nat → List Nat → Prop where
  | nil (avail stack) : Frames avail stack []
  | cons (avail : Nat → Prop) (seg : List Nat) (v : Nat) (below vs : List Nat) :
      (∀ x ∈ seg, x ∈ nbrs v) →
      (∀ x ∈ seg, x ∉ v :: vs) →
      (∀ n ∈ nbrs v, avail n ∨ n ∈ seg) →
      (∀ v', vs.head? = some v' → v ∈ nbrs v') →
      Frames (fun n => avail n ∨ n ∈ seg ∨ n = v) below vs →
      Frames avail (seg ++ v :: below) (v :: vs)

theorem Frames.mono {a a' : Nat → Prop} {s vis : List Nat} (h : Frames nbrs a s vis)
    (himp : ∀ n, a n → a' n) : Frames nbrs a' s vis := by
  induction h generalizing a' with
  | nil => exact .nil _ _
  | cons avail seg v below vs h1 h2 h3 h4 _ ih =>
    refine .cons a' seg v below vs h1 h2 ?_ h4 (ih ?_)
    · intro n hn; rcases h3 n hn with h | h
      · exact Or.inl (himp n h)
      · exact Or.inr h
    · intro n hn; rcases hn with h | h
      · exact Or.inl (himp n h)
      · exact Or.inr h

theorem Frames.inv {a : Nat → Prop} {st vis : List Nat} (h : Frames nbrs a st vis) :
    vis = [] ∨ ∃ seg v below vs, st = seg ++ v :: below ∧ vis = v :: vs ∧
      (∀ x ∈ seg, x ∈ nbrs v) ∧ (∀ x ∈ seg, x ∉ v :: vs) ∧ (∀ n ∈ nbrs v, a n ∨ n ∈ seg) ∧
      (∀ v', vs.head? = some v' → v ∈ nbrs v') ∧
      Frames nbrs (fun n => a n ∨ n ∈ seg ∨ n = v) below vs := by
  cases h with
  | nil => exact Or.inl rfl
  | cons _ seg v below vs h1 h2 h3 h4 h5 => exact Or.inr ⟨seg, v, below, vs, rfl, rfl, h1, h2, h3, h4, h5⟩

def Topo (order : List Nat) : Prop :=
  ∀ pre u post, order = pre ++ u :: post → ∀ n ∈ nbrs u, n ∈ pre

structure Inv (s : St) : Prop where
  nodupV : s.visiting.Nodup
  nodupO : s.order.Nodup
  disj : ∀ x ∈ s.visiting, x ∉ s.order
  visited_iff : ∀ x, x ∈ s.visited ↔ x ∈ s.visiting ∨ x ∈ s.order
  frames : Frames nbrs (fun n => n ∈ s.order) s.stack s.visiting
  topo : Topo nbrs s.order

theorem topo_snoc {order : List Nat} {v : Nat} (ht : Topo nbrs order)
    (hv : ∀ n ∈ nbrs v, n ∈ order) (hnot : v ∉ order) : Topo nbrs (order ++ [v]) := by
  intro pre u post heq n hn
  rcases List.eq_nil_or_concat post with hp | ⟨post', w, hp⟩
  · subst hp
    have : pre ++ [u] = order ++ [v] := heq.symm
    have h1 := List.append_inj' this rfl
    obtain ⟨h1, h2⟩ := h1
    simp at h2; subst h1; subst h2; exact hv n hn
  · subst hp
    have : order ++ [v] = (pre ++ u :: post') ++ [w] := by simp [heq]
    have h1 := List.append_inj' this rfl
    exact ht pre u post' h1.1 n hn

theorem inv_step {s s' : St} (h : Inv nbrs s) (hs : step nbrs knownF s = .running s') : Inv nbrs s' := by
  obtain ⟨stack, visiting, visited, order⟩ := s
  obtain ⟨hndV, hndO, hdisj, hvi, hfr, htopo⟩ := h
  simp only at hndV hndO hdisj hvi hfr htopo
  unfold step at hs
  simp only at hs
  split at hs
  · cases hs
  · rename_i _ top rest
    split at hs
    · rename_i hvis
      split at hs
      · -- case B: top visiting → finish
        rename_i hving
        cases hs
        rcases Frames.inv nbrs hfr with hnil | ⟨seg, v, below, vs, heq, hveq, h1, h2, h3, h4, h5⟩
        · subst hnil; simp at hving
        · subst hveq
          cases seg with
          | cons x seg' =>
            simp at heq
            obtain ⟨hx, _⟩ := heq
            subst hx
            exact absurd hving (h2 top (by simp))
          | nil =>
            simp at heq
            obtain ⟨htv, hrb⟩ := heq
            subst htv; subst hrb
            simp at hndV
            have hto : top ∉ order := hdisj top (by simp)
            refine ⟨?_, ?_, ?_, ?_, ?_, ?_⟩
            · simpa using hndV.2
            · simp [List.nodup_append, hndO]
              intro a ha e; subst e; exact hto ha
            · intro x hx; simp at hx
              simp; exact ⟨hdisj x (by simp [hx]), fun e => hndV.1 (e ▸ hx)⟩
            · intro x; simp
              rw [hvi x]; simp
              constructor
              · rintro ((h | h) | h)
                · exact Or.inr (Or.inr h)
                · exact Or.inl h
                · exact Or.inr (Or.inl h)
              · rintro (h | h | h)
                · exact Or.inl (Or.inr h)
                · exact Or.inr h
                · exact Or.inl (Or.inl h)
            · simp
              exact Frames.mono nbrs h5 (by
                intro n hn; rcases hn with h | h | h
                · exact Or.inl h
                · simp at h
                · exact Or.inr h)
            · apply topo_snoc nbrs htopo _ hto
              intro n hn; rcases h3 n hn with h | h
              · exact h
              · simp at h
      · -- case C: visited, not visiting → pop
        rename_i hving
        cases hs
        have htopO : top ∈ order := by
          rcases (hvi top).mp hvis with h' | h'
          · exact absurd h' hving
          · exact h'
        refine ⟨hndV, hndO, hdisj, hvi, ?_, htopo⟩
        rcases Frames.inv nbrs hfr with hnil | ⟨seg, v, below, vs, heq, hveq, h1, h2, h3, h4, h5⟩
        · subst hnil; exact .nil _ _
        · subst hveq
          cases seg with
          | nil =>
            simp at heq; obtain ⟨htv, _⟩ := heq; subst htv
            simp at hving
          | cons x seg' =>
            simp at heq
            obtain ⟨hx, hr⟩ := heq
            subst hx; subst hr
            refine .cons _ seg' v below vs (fun y hy => h1 y (by simp [hy])) (fun y hy => h2 y (by simp [hy])) ?_ h4 ?_
            · intro n hn; rcases h3 n hn with h' | h'
              · exact Or.inl h'
              · simp at h'; rcases h' with h' | h'
                · subst h'; exact Or.inl htopO
                · exact Or.inr h'
            · apply Frames.mono nbrs h5
              intro n hn; rcases hn with h' | h' | h'
              · exact Or.inl h'
              · simp at h'; rcases h' with h' | h'
                · subst h'; exact Or.inl htopO
                · exact Or.inr (Or.inl h')
              · exact Or.inr (Or.inr h')
    · -- case A: first visit
      rename_i hvis
      split at hs
      · cases hs
      · cases hs
      · rename_i hscan
        cases hs
        have hcyc := scan_ok knownF hscan
        have hnotving : top ∉ visiting := fun h' => hvis ((hvi top).mpr (Or.inl h'))
        have hnotord : top ∉ order := fun h' => hvis ((hvi top).mpr (Or.inr h'))
        have hsegdisj : ∀ x ∈ (nbrs top).reverse, x ∉ top :: visiting := by
          intro x hx; simp at hx; exact (hcyc x hx).1
        refine ⟨?_, hndO, ?_, ?_, ?_, htopo⟩
        · simp [hndV, hnotving]
        · intro x hx; simp at hx; rcases hx with h' | h'
          · subst h'; exact hnotord
          · exact hdisj x h'
        · intro x; simp; rw [hvi x]
          constructor
          · rintro (h' | h' | h')
            · exact Or.inl (Or.inl h')
            · exact Or.inl (Or.inr h')
            · exact Or.inr h'
          · rintro ((h' | h') | h')
            · exact Or.inl h'
            · exact Or.inr (Or.inl h')
            · exact Or.inr (Or.inr h')
        · rcases Frames.inv nbrs hfr with hnil | ⟨seg, v, below, vs, heq, hveq, h1, h2, h3, h4, h5⟩
          · subst hnil
            exact .cons _ _ top rest [] (by simp) hsegdisj (by intro n hn; exact Or.inr (by simp [hn]))
              (by simp) (.nil _ _)
          · subst hveq
            cases seg with
            | nil =>
              simp at heq; obtain ⟨htv, _⟩ := heq; subst htv
              simp at hnotving
            | cons x seg' =>
              simp at heq
              obtain ⟨hx, hr⟩ := heq
              subst hx; subst hr
              refine .cons _ _ top (seg' ++ v :: below) (v :: vs) (by simp) hsegdisj
                (by intro n hn; exact Or.inr (by simp [hn])) (by intro v' hv'; simp at hv'; subst hv'; exact h1 top (by simp)) ?_
              refine .cons _ seg' v below vs (fun y hy => h1 y (by simp [hy])) (fun y hy => h2 y (by simp [hy])) ?_ h4 ?_
              · intro n hn; rcases h3 n hn with h' | h'
                · exact Or.inl (Or.inl h')
                · simp at h'; rcases h' with h' | h'
                  · subst h'; exact Or.inl (Or.inr (Or.inr rfl))
                  · exact Or.inr h'
              · apply Frames.mono nbrs h5
                intro n hn; rcases hn with h' | h' | h'
                · exact Or.inl (Or.inl h')
                · simp at h'; rcases h' with h' | h'
                  · subst h'; exact Or.inl (Or.inr (Or.inr rfl))
                  · exact Or.inr (Or.inl h')
                · exact Or.inr (Or.inr h')


end Dagrt.Verify

namespace Dagrt.Verify
variable (nbrs : Nat → List Nat) (knownF : Nat → Bool)

/-- acyclicity of the dependency relation, as a rank function -/
def Acyclic : Prop := ∃ rank : Nat → Nat, ∀ u, ∀ d ∈ nbrs u, rank d < rank u

theorem frames_rank_sorted {a : Nat → Prop} {st vis : List Nat} (h : Frames nbrs a st vis)
    (rank : Nat → Nat) (hr : ∀ u, ∀ d ∈ nbrs u, rank d < rank u) :
    vis.Pairwise (fun x y => rank x < rank y) := by
  induction h with
  | nil => exact List.Pairwise.nil
  | cons avail seg v below vs h1 h2 h3 h4 _ ih =>
    refine List.Pairwise.cons ?_ ih
    intro w hw
    cases vs with
    | nil => simp at hw
    | cons v' vs' =>
      have hv : rank v < rank v' := hr v' v (h4 v' rfl)
      simp at hw
      rcases hw with e | hw
      · subst e; exact hv
      · have := (List.pairwise_cons.mp ih).1 w hw
        omega

/-- soundness of the cycle report: if the step reports a cycle, no rank function exists -/
theorem step_cycle_sound {s : St} (h : Inv nbrs s) (hs : step nbrs knownF s = .cycle) :
    ¬ Acyclic nbrs := by
  rintro ⟨rank, hr⟩
  obtain ⟨stack, visiting, visited, order⟩ := s
  obtain ⟨hndV, hndO, hdisj, hvi, hfr, htopo⟩ := h
  simp only at hndV hndO hdisj hvi hfr htopo
  unfold step at hs
  simp only at hs
  split at hs
  · cases hs
  · rename_i _ top rest
    split at hs
    · split at hs <;> cases hs
    · rename_i hvis
      split at hs
      · rename_i hscan
        obtain ⟨n, hn, hnv⟩ := scan_cycle knownF hscan
        have hlt : rank n < rank top := hr top n hn
        simp at hnv
        rcases hnv with e | hnv
        · subst e; omega
        · -- n is visiting; top is a neighbour of the head of visiting
          have hsorted := frames_rank_sorted nbrs hfr rank hr
          rcases Frames.inv nbrs hfr with hnil | ⟨seg, v, below, vs, heq, hveq, h1, h2, h3, h4, h5⟩
          · subst hnil; simp at hnv
          · subst hveq
            have hnotving : top ∉ v :: vs := fun h' => hvis ((hvi top).mpr (Or.inl h'))
            cases seg with
            | nil =>
              simp at heq; obtain ⟨htv, _⟩ := heq; subst htv
              simp at hnotving
            | cons x seg' =>
              simp at heq
              obtain ⟨hx, _⟩ := heq
              subst hx
              have htv : rank top < rank v := hr v top (h1 top (by simp))
              simp at hnv
              rcases hnv with e | hnv
              · subst e; omega
              · have := (List.pairwise_cons.mp hsorted).1 n hnv
                omega
      · cases hs
      · cases hs

theorem step_keyError {s : St} (hs : step nbrs knownF s = .keyError) :
    ∃ u, ∃ d ∈ nbrs u, knownF d = false := by
  obtain ⟨stack, visiting, visited, order⟩ := s
  unfold step at hs
  simp only at hs
  split at hs
  · cases hs
  · rename_i _ top rest
    split at hs
    · split at hs <;> cases hs
    · split at hs
      · cases hs
      · rename_i hscan
        obtain ⟨n, hn, hk⟩ := scan_keyError knownF hscan
        exact ⟨top, n, hn, hk⟩
      · cases hs

/-- every initial entry is still on the stack or has been visited -/
def Cover (init : List Nat) (s : St) : Prop := ∀ x ∈ init, x ∈ s.stack ∨ x ∈ s.visited

theorem cover_step {init : List Nat} {s s' : St} (h : Cover init s)
    (hs : step nbrs knownF s = .running s') : Cover init s' := by
  obtain ⟨stack, visiting, visited, order⟩ := s
  unfold step at hs
  simp only at hs
  split at hs
  · cases hs
  · rename_i _ top rest
    split at hs
    · rename_i hvis
      split at hs <;> cases hs <;> intro x hx <;> rcases h x hx with h' | h' <;> simp_all <;>
        (rcases h' with h' | h' <;> simp_all)
    · split at hs
      · cases hs
      · cases hs
      · cases hs
        intro x hx
        rcases h x hx with h' | h'
        · simp at h'
          rcases h' with h' | h'
          · subst h'; right; simp
          · left; simp [h']
        · right; simp [h']

theorem step_done {s : St} {o : List Nat} (h : Inv nbrs s) (hs : step nbrs knownF s = .done o) :
    s.stack = [] ∧ o = s.order ∧ s.visiting = [] := by
  obtain ⟨stack, visiting, visited, order⟩ := s
  unfold step at hs
  simp only at hs
  split at hs
  · cases hs
    refine ⟨rfl, rfl, ?_⟩
    have := h.frames
    simp only at this
    rcases Frames.inv nbrs this with h' | ⟨seg, v, below, vs, heq, _⟩
    · exact h'
    · simp at heq
  · split at hs
    · split at hs <;> cases hs
    · split at hs <;> cases hs

/-- what a finished run establishes -/
theorem run_spec (init : List Nat) : ∀ (fuel : Nat) (s : St), Inv nbrs s → Cover init s →
    match run nbrs knownF fuel s with
    | .noCycle o => Topo nbrs o ∧ o.Nodup ∧ ∀ x ∈ init, x ∈ o
    | .cycle => ¬ Acyclic nbrs
    | .keyError => ∃ u, ∃ d ∈ nbrs u, knownF d = false
    | .outOfFuel => True
  | 0, s, _, _ => by simp [run]
  | fuel+1, s, hi, hc => by
    unfold run
    cases hst : step nbrs knownF s with
    | cycle => simp; exact step_cycle_sound nbrs knownF hi hst
    | keyError => simp; exact step_keyError nbrs knownF hst
    | done o =>
      simp
      obtain ⟨h1, h2, h3⟩ := step_done nbrs knownF hi hst
      subst h2
      refine ⟨hi.topo, hi.nodupO, ?_⟩
      intro x hx
      rcases hc x hx with h' | h'
      · rw [h1] at h'; simp at h'
      · rcases (hi.visited_iff x).mp h' with h'' | h''
        · rw [h3] at h''; simp at h''
        · exact h''
    | running s' =>
      simp
      exact run_spec init fuel s' (inv_step nbrs knownF hi hst) (cover_step nbrs knownF hc hst)

/-- a topological finish order that contains every node with outgoing edges is a rank function -/
theorem topo_acyclic {o : List Nat} (ht : Topo nbrs o) (hnd : o.Nodup)
    (hall : ∀ u, nbrs u ≠ [] → u ∈ o) : Acyclic nbrs := by
  refine ⟨fun u => o.idxOf u, ?_⟩
  intro u d hd
  have hu : u ∈ o := hall u (by intro h; rw [h] at hd; simp at hd)
  obtain ⟨pre, post, heq, hnot⟩ := List.eq_append_cons_of_mem hu
  have hdpre : d ∈ pre := ht pre u post heq d hd
  subst heq
  have h1 : List.idxOf u (pre ++ u :: post) = pre.length := by
    rw [List.idxOf_append]; simp [hnot, List.idxOf_cons]
  have h2 : List.idxOf d (pre ++ u :: post) < pre.length := by
    rw [List.idxOf_append]; simp [hdpre]; exact List.idxOf_lt_length_of_mem hdpre
  simp only
  omega

end Dagrt.Verify
