import Dagrt.Proofs.Simplify
set_option linter.unusedVariables false
set_option linter.unusedSimpArgs false
namespace Dagrt.Simplify

mutual
theorem pre_noIfThen : ∀ a : Ast, noIfThen (pre a) = true
  | .leaf _ => by simp [pre, noIfThen]
  | .null => by simp [pre, noIfThen]
  | .ifThen c t => by simp [pre, noIfThen, pre_noIfThen t]
  | .ite c t e => by simp [pre, noIfThen, pre_noIfThen t, pre_noIfThen e]
  | .loop v b => by simp [pre, noIfThen, pre_noIfThen b]
  | .block cs => by simp [pre, noIfThen, preList_noIfThen cs]
theorem preList_noIfThen : ∀ cs : List Ast, noIfThenList (preList cs) = true
  | [] => by simp [preList, noIfThenList]
  | a :: as => by simp [preList, noIfThenList, pre_noIfThen a, preList_noIfThen as]
end

theorem noIfThenList_append : ∀ (a b : List Ast),
    noIfThenList (a ++ b) = (noIfThenList a && noIfThenList b)
  | [], b => by simp [noIfThenList]
  | x :: a, b => by simp [noIfThenList, noIfThenList_append a b, Bool.and_assoc]

theorem noIfThenList_iff {l : List Ast} : noIfThenList l = true ↔ ∀ a ∈ l, noIfThen a = true := by
  induction l with
  | nil => simp [noIfThenList]
  | cons x xs ih => simp [noIfThenList, ih]

theorem stripNot_noIfThen : ∀ (c : Cond) (t e : Ast), noIfThen t = true → noIfThen e = true →
    noIfThen (stripNot c t e).2.1 = true ∧ noIfThen (stripNot c t e).2.2 = true
  | .not c, t, e, ht, he => by simp only [stripNot]; exact stripNot_noIfThen c e t he ht
  | .tt, t, e, ht, he => by simp [stripNot, ht, he]
  | .ff, t, e, ht, he => by simp [stripNot, ht, he]
  | .flag n, t, e, ht, he => by simp [stripNot, ht, he]

theorem collapseT_noIfThen (c : Cond) (t : Ast) (h : noIfThen t = true) : noIfThen (collapseT c t) = true := by
  cases t <;> simp_all [collapseT, noIfThen]
  split <;> simp_all [noIfThen]
theorem collapseE_noIfThen (c : Cond) (t : Ast) (h : noIfThen t = true) : noIfThen (collapseE c t) = true := by
  cases t <;> simp_all [collapseE, noIfThen]
  split <;> simp_all [noIfThen]

theorem flatBlock2_noIfThen (x y : Ast) (hx : noIfThen x = true) (hy : noIfThen y = true) :
    noIfThen (flatBlock [x, y]) = true := by
  simp only [flatBlock, List.foldr, noIfThen]
  cases x <;> cases y <;> simp_all [noIfThenList, noIfThen, noIfThenList_append]

theorem mergeLoop_noIfThen : ∀ (fuel : Nat) (cur : Ast) (q acc : List Ast),
    noIfThen cur = true → noIfThenList q = true → noIfThenList acc = true →
    noIfThenList (mergeLoop fuel cur q acc) = true
  | 0, cur, q, acc, hc, hq, ha => by simp [mergeLoop, noIfThenList_append, noIfThenList, ha, hc]
  | f+1, cur, [], acc, hc, hq, ha => by simp [mergeLoop, noIfThenList_append, noIfThenList, ha, hc]
  | f+1, cur, nxt :: q, acc, hc, hq, ha => by
    simp only [noIfThenList, Bool.and_eq_true] at hq
    obtain ⟨hn, hq⟩ := hq
    cases nxt with
    | null => simp only [mergeLoop]; exact mergeLoop_noIfThen f cur q acc hc hq ha
    | block cs =>
      simp only [mergeLoop]
      apply mergeLoop_noIfThen f cur (cs ++ q) acc hc _ ha
      simp [noIfThenList_append, hq]; simpa [noIfThen] using hn
    | leaf n =>
      simp only [mergeLoop]
      exact mergeLoop_noIfThen f _ q _ (by simp [noIfThen]) hq (by simp [noIfThenList_append, noIfThenList, ha, hc])
    | ifThen c t => simp [noIfThen] at hn
    | loop x b =>
      simp only [mergeLoop]
      exact mergeLoop_noIfThen f _ q _ hn hq (by simp [noIfThenList_append, noIfThenList, ha, hc])
    | ite c2 t2 e2 =>
      have hn' := hn
      simp only [noIfThen, Bool.and_eq_true] at hn'
      cases cur with
      | ite c1 t1 e1 =>
        simp only [mergeLoop]
        simp only [noIfThen, Bool.and_eq_true] at hc
        split
        · apply mergeLoop_noIfThen f _ q acc _ hq ha
          simp [noIfThen, flatBlock2_noIfThen, hc.1, hc.2, hn'.1, hn'.2]
        · exact mergeLoop_noIfThen f _ q _ hn hq (by simp [noIfThenList_append, noIfThenList, ha, noIfThen, hc.1, hc.2])
      | leaf n => simp only [mergeLoop]; exact mergeLoop_noIfThen f _ q _ hn hq (by simp [noIfThenList_append, noIfThenList, ha, hc])
      | null => simp only [mergeLoop]; exact mergeLoop_noIfThen f _ q _ hn hq (by simp [noIfThenList_append, noIfThenList, ha, hc])
      | ifThen c t => simp [noIfThen] at hc
      | loop x b => simp only [mergeLoop]; exact mergeLoop_noIfThen f _ q _ hn hq (by simp [noIfThenList_append, noIfThenList, ha, hc])
      | block cs => simp only [mergeLoop]; exact mergeLoop_noIfThen f _ q _ hn hq (by simp [noIfThenList_append, noIfThenList, ha, hc])

theorem noIfThenList_dropWhile (l : List Ast) (h : noIfThenList l = true) :
    noIfThenList (l.dropWhile isNull) = true := by
  rw [noIfThenList_iff] at h ⊢
  intro a ha
  exact h a (List.dropWhile_sublist isNull |>.subset ha)

mutual
theorem simp_noIfThen : ∀ (a a' : Ast), noIfThen a = true → simp a = .ok a' → noIfThen a' = true
  | .leaf n, a', _, h => by simp [simp] at h; subst h; rfl
  | .null, a', _, h => by simp [simp] at h; subst h; rfl
  | .ifThen c t, a', hn, _ => by simp [noIfThen] at hn
  | .loop x b, a', hn, h => by
    simp only [simp, bind, Except.bind] at h
    split at h
    · cases h
    · rename_i b' hb; simp [pure, Except.pure] at h; subst h
      simp only [noIfThen] at hn ⊢
      exact simp_noIfThen b b' hn hb
  | .ite c t e, a', hn, h => by
    simp only [noIfThen, Bool.and_eq_true] at hn
    simp only [simp] at h
    split at h
    · exact simp_noIfThen t a' hn.1 h
    · split at h
      · exact simp_noIfThen e a' hn.2 h
      · simp only [bind, Except.bind] at h
        split at h
        · cases h
        · rename_i t' ht
          split at h
          · cases h
          · rename_i e' he
            simp [pure, Except.pure] at h; subst h
            have h1 := simp_noIfThen t t' hn.1 ht
            have h2 := simp_noIfThen e e' hn.2 he
            have hs := stripNot_noIfThen c t' e' h1 h2
            simp only [noIfThen, Bool.and_eq_true]
            exact ⟨collapseT_noIfThen _ _ hs.1, collapseE_noIfThen _ _ hs.2⟩
  | .block cs, a', hn, h => by
    simp only [noIfThen] at hn
    simp only [simp, bind, Except.bind] at h
    split at h
    · cases h
    · rename_i q hq
      have hql := simpList_noIfThen cs q hn hq
      split at h
      · simp [pure, Except.pure] at h; subst h; simp [noIfThen, noIfThenList]
      · split at h
        · simp [pure, Except.pure] at h; subst h; simp [noIfThen]
        · rename_i cur rest hcr
          have hd := noIfThenList_dropWhile q hql
          rw [hcr] at hd
          simp only [noIfThenList, Bool.and_eq_true] at hd
          have hm := mergeLoop_noIfThen (2 * sizeList q + 2) cur rest [] hd.1 hd.2 (by simp [noIfThenList])
          split at h
          · rename_i c hc; simp [pure, Except.pure] at h; subst h
            rw [hc] at hm; simpa [noIfThenList] using hm
          · simp [pure, Except.pure] at h; subst h
            simpa [noIfThen] using hm
theorem simpList_noIfThen : ∀ (cs q : List Ast), noIfThenList cs = true → simpList cs = .ok q →
    noIfThenList q = true
  | [], q, _, h => by simp [simpList] at h; subst h; rfl
  | a :: as, q, hn, h => by
    simp only [noIfThenList, Bool.and_eq_true] at hn
    simp only [simpList, bind, Except.bind] at h
    split at h
    · cases h
    · rename_i a' ha
      split at h
      · cases h
      · rename_i as' has
        simp [pure, Except.pure] at h; subst h
        simp [noIfThenList, simp_noIfThen a a' hn.1 ha, simpList_noIfThen as as' hn.2 has]
end

theorem noNullList_iff {l : List Ast} : noNullList l = true ↔ ∀ a ∈ l, noNull a = true := by
  induction l with
  | nil => simp [noNullList]
  | cons x xs ih => simp [noNullList, ih]

/-! pass 3 on an `if`-without-`else`-free tree returns null or a tree without any null -/
mutual
theorem post_shape : ∀ a : Ast, noIfThen a = true → isNull (post a) = true ∨ noNull (post a) = true
  | .leaf n, _ => by simp [post, noNull]
  | .null, _ => by simp [post, isNull]
  | .ifThen c t, h => by simp [noIfThen] at h
  | .loop x b, h => by
    simp only [noIfThen] at h
    simp only [post]
    cases hb : isNull (post b) with
    | true => simp [isNull]
    | false =>
      right; simp only [noNull]
      rcases post_shape b h with h' | h'
      · rw [hb] at h'; cases h'
      · exact h'
  | .ite c t e, h => by
    simp only [noIfThen, Bool.and_eq_true] at h
    have ht := post_shape t h.1
    have he := post_shape e h.2
    simp only [post]
    cases h1 : isNull (post t) <;> cases h2 : isNull (post e) <;> simp only [isNull, noNull] <;>
      simp_all
  | .block cs, h => by
    simp only [noIfThen] at h
    have hl := postList_shape cs h
    simp only [post]
    have hf : ∀ a ∈ (postList cs).filter (fun a => !isNull a), noNull a = true := by
      intro a ha; simp at ha
      rcases hl a ha.1 with h' | h'
      · rw [h'] at ha; simp at ha
      · exact h'
    split
    · simp [isNull]
    · rename_i c heq; right; exact hf c (by rw [heq]; simp)
    · right; simp only [noNull]; exact noNullList_iff.mpr hf
theorem postList_shape : ∀ cs : List Ast, noIfThenList cs = true →
    ∀ a ∈ postList cs, isNull a = true ∨ noNull a = true
  | [], _, a, ha => by simp [postList] at ha
  | x :: xs, h, a, ha => by
    simp only [noIfThenList, Bool.and_eq_true] at h
    simp only [postList, List.mem_cons] at ha
    rcases ha with e | ha
    · subst e; exact post_shape x h.1
    · exact postList_shape xs h.2 a ha
end

/-! the walker succeeds on every tree without null -/
mutual
theorem walk_total : ∀ a : Ast, noNull a = true → ∃ evs, walk a = some evs
  | .leaf n, _ => by simp [walk]
  | .null, h => by simp [noNull] at h
  | .ifThen c t, h => by
    simp only [noNull] at h
    obtain ⟨e, he⟩ := walk_total t h; simp [walk, he]
  | .ite c t e, h => by
    simp only [noNull, Bool.and_eq_true] at h
    obtain ⟨x, hx⟩ := walk_total t h.1
    obtain ⟨y, hy⟩ := walk_total e h.2
    simp [walk, hx, hy]
  | .loop v b, h => by
    simp only [noNull] at h
    obtain ⟨e, he⟩ := walk_total b h; simp [walk, he]
  | .block cs, h => by
    simp only [noNull] at h
    simp only [walk]; exact walkList_total cs h
theorem walkList_total : ∀ cs : List Ast, noNullList cs = true → ∃ evs, walkList cs = some evs
  | [], _ => by simp [walkList]
  | a :: as, h => by
    simp only [noNullList, Bool.and_eq_true] at h
    obtain ⟨x, hx⟩ := walk_total a h.1
    obtain ⟨y, hy⟩ := walkList_total as h.2
    simp [walkList, hx, hy]
end

end Dagrt.Simplify
