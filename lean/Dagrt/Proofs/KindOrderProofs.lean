import Dagrt.Proofs.Unify
import Dagrt.Proofs.KindLoopProofs
set_option linter.unusedVariables false
set_option linter.unusedSimpArgs false
/-!
C14: the table kind inference returns is the LEAST post-fix-point of the statements' rules, hence
does not depend on the order in which the statements are presented.

* `infer_mono` (mutual, six functions): in the mode the work-list loop uses (`check = False`), the
  rules are monotone in the table w.r.t. the information order `le` induced by `unify` — a larger
  table gives a larger kind if it gives one at all, and never turns an inferable expression into
  "unable to infer".
* `sweep_below` / `outer_below`: every table the loop goes through stays below ANY post-fix-point
  (without ignored unification failures) of the same statements.
-/
namespace Dagrt.Kinds
open Dagrt

/-! ### the order on kinds, tables, argument lists -/

theorem le_some_none (k : Kind) : ¬ le (some k) none := by
  intro h
  rcases h with h | h
  · cases h
  · simp at h

theorem unify_mono {a a' b b' c c' : Option Kind} (ha : le a a') (hb : le b b')
    (h : unify a b = .ok c) (h' : unify a' b' = .ok c') : le c c' :=
  unify_least a b c c' h (le_trans _ _ _ ha (unify_upper_left a' b' c' h'))
    (le_trans _ _ _ hb (unify_upper_right a' b' c' h'))

theorem unify_not_unable (a b : Option Kind) : unify a b ≠ .error .unable := by
  cases a with
  | none => simp
  | some ka =>
    cases b with
    | none => simp
    | some kb => cases ka <;> cases kb <;> simp only [unify] <;> (try split) <;> simp

theorem unifyK_ok (ka kb k : Kind) : unifyK ka kb = .ok k ↔ unify (some ka) (some kb) = .ok (some k) := by
  unfold unifyK
  cases h : unify (some ka) (some kb) with
  | error e => simp
  | ok r =>
    cases r with
    | none => simp
    | some k' => simp

theorem unifyK_not_unable (ka kb : Kind) : unifyK ka kb ≠ .error .unable := by
  unfold unifyK
  have := unify_not_unable (some ka) (some kb)
  cases h : unify (some ka) (some kb) with
  | error e => simp only; intro he; cases he; exact this h
  | ok r => cases r <;> simp

theorem unifyK_mono {ka ka' kb kb' k k' : Kind} (ha : le (some ka) (some ka')) (hb : le (some kb) (some kb'))
    (h : unifyK ka kb = .ok k) (h' : unifyK ka' kb' = .ok k') : le (some k) (some k') :=
  unify_mono ha hb ((unifyK_ok _ _ _).mp h) ((unifyK_ok _ _ _).mp h')

/-- `t ⊑ T`: every entry of `t` is an entry of `T` with a kind at least as high -/
def TLe (t T : Table) : Prop :=
  ∀ key k, lookupE t.entries key = some k → ∃ k', lookupE T.entries key = some k' ∧ le (some k) (some k')

theorem TLe.refl (t : Table) : TLe t t := fun _ k h => ⟨k, h, le_refl _⟩

theorem TLe.trans {a b c : Table} (h1 : TLe a b) (h2 : TLe b c) : TLe a c := by
  intro key k hk
  obtain ⟨k1, hk1, l1⟩ := h1 key k hk
  obtain ⟨k2, hk2, l2⟩ := h2 key k1 hk1
  exact ⟨k2, hk2, le_trans _ _ _ l1 l2⟩

theorem lookupVar_mono {t T : Table} {ph n : Name} {k : Kind} (hph : ph ≠ "") (hw : WellScoped t) (hW : WellScoped T)
    (h : TLe t T) (hk : lookupVar t ph n = some k) : ∃ k', lookupVar T ph n = some k' ∧ le (some k) (some k') := by
  rw [lookupVar_eq_get t ph n hph hw] at hk
  rw [lookupVar_eq_get T ph n hph hW]
  exact h _ k hk

inductive ArgsLe : List (Option Kind) → List (Option Kind) → Prop
  | nil : ArgsLe [] []
  | cons {a b : Option Kind} {as bs : List (Option Kind)} : le a b → ArgsLe as bs → ArgsLe (a :: as) (b :: bs)

inductive KwLe : List (Name × Option Kind) → List (Name × Option Kind) → Prop
  | nil : KwLe [] []
  | cons {n : Name} {a b : Option Kind} {as bs : List (Name × Option Kind)} :
      le a b → KwLe as bs → KwLe ((n, a) :: as) ((n, b) :: bs)

inductive KsLe : List Kind → List Kind → Prop
  | nil : KsLe [] []
  | cons {a b : Kind} {as bs : List Kind} : le (some a) (some b) → KsLe as bs → KsLe (a :: as) (b :: bs)

/-- what the work-list loop needs of the registered functions (in its mode, `check = False`): more
    information about the arguments gives more information about the results, and does not make the
    result kinds unavailable -/
def RegMono (reg : Registry) : Prop :=
  ∀ f fn, reg f = some fn → ∀ ak ak' kk kk' ks, ArgsLe ak ak' → KwLe kk kk' → fn false ak kk = .ok ks →
    ∃ ks', fn false ak' kk' = .ok ks' ∧ KsLe ks ks'

/-- `y` is above `x`: if `x` succeeds, `y` does not answer "unable", and if it succeeds too its
    answer is above -/
def Up {α : Type} (R : α → α → Prop) (x y : Except KErr α) : Prop :=
  ∀ a, x = .ok a → (∀ b, y = .ok b → R a b) ∧ y ≠ .error .unable

theorem up_err {α : Type} {P : α → Prop} {e : KErr} (he : e ≠ .unable) :
    (∀ b, (Except.error e : Except KErr α) = .ok b → P b) ∧ (Except.error e : Except KErr α) ≠ .error .unable :=
  ⟨fun b hb => (by cases hb), fun h => (by cases h; exact he rfl)⟩

theorem up_ok {α : Type} {P : α → Prop} {x : α} (h : P x) :
    (∀ b, (Except.ok x : Except KErr α) = .ok b → P b) ∧ (Except.ok x : Except KErr α) ≠ .error .unable :=
  ⟨fun b hb => (by cases hb; exact h), fun h => (by cases h)⟩

theorem ne_unable_of {α : Type} {x : Except KErr α} {e : KErr} (h2 : x ≠ .error .unable) (hx : x = .error e) :
    e ≠ .unable := by
  intro he; subst he; exact h2 hx

theorem isReal_mono (ka ka' : Kind) (r : Bool) (l : le (some ka) (some ka')) (h : isRealValued ka = .ok r) :
    (∀ r', isRealValued ka' = .ok r' → le (some (.scalar r)) (some (.scalar r'))) ∧
      isRealValued ka' ≠ .error .unable := by
  cases ka <;> cases ka' <;> simp [isRealValued, le, unify] at * <;> grind

/-! ### the rules are monotone -/

section
variable (reg : Registry) (t T : Table) (ph : Name) (hph : ph ≠ "") (hw : WellScoped t) (hW : WellScoped T)
  (hle : TLe t T) (hreg : RegMono reg)
include hph hw hW hle hreg

mutual
theorem infer_mono : ∀ e : Expr,
    Up (fun k k' => le (some k) (some k')) (infer false reg t ph e) (infer false reg T ph e)
  | .const c => by
    intro k h
    cases c <;> simp only [infer] at h ⊢ <;> cases h <;> exact up_ok (le_refl _)
  | .var n => by
    intro k h
    simp only [infer] at h ⊢
    cases hl : lookupVar t ph n with
    | none => simp [hl] at h
    | some k0 =>
      simp only [hl] at h
      cases h
      obtain ⟨k', hk', l⟩ := lookupVar_mono hph hw hW hle hl
      simp only [hk']
      exact up_ok l
  | .sum cs => by
    intro k h
    simp only [infer] at h ⊢
    cases hs : inferSum false reg t ph cs none with
    | error e => simp [hs] at h
    | ok r =>
      cases r with
      | none => simp [hs] at h
      | some k0 =>
        simp only [hs] at h
        cases h
        obtain ⟨h1, h2⟩ := inferSum_mono cs none none (le_refl _) (some k) hs
        cases hS : inferSum false reg T ph cs none with
        | error e =>
          simp only
          exact up_err (ne_unable_of h2 hS)
        | ok r' =>
          have l := h1 r' hS
          cases r' with
          | none => exact absurd l (le_some_none k)
          | some k' => exact up_ok l
  | .prod cs => by
    intro k h
    simp only [infer] at h ⊢
    cases hs : inferProd false reg t ph cs none with
    | error e => simp [hs] at h
    | ok r =>
      cases r with
      | none => simp [hs] at h
      | some k0 =>
        simp only [hs] at h
        cases h
        obtain ⟨h1, h2⟩ := inferProd_mono cs none none (le_refl _) (some k) hs
        cases hS : inferProd false reg T ph cs none with
        | error e =>
          simp only
          exact up_err (ne_unable_of h2 hS)
        | ok r' =>
          have l := h1 r' hS
          cases r' with
          | none => exact absurd l (le_some_none k)
          | some k' => exact up_ok l
  | .quot a b => by
    intro k h
    simp only [infer, bind, Except.bind] at h ⊢
    cases ha : infer false reg t ph a with
    | error e => simp [ha] at h
    | ok ka =>
      cases hb : infer false reg t ph b with
      | error e => simp [ha, hb] at h
      | ok kb =>
        simp only [ha, hb] at h
        obtain ⟨a1, a2⟩ := infer_mono a ka ha
        obtain ⟨b1, b2⟩ := infer_mono b kb hb
        cases hA : infer false reg T ph a with
        | error e => exact up_err (ne_unable_of a2 hA)
        | ok ka' =>
          cases hB : infer false reg T ph b with
          | error e => exact up_err (ne_unable_of b2 hB)
          | ok kb' =>
            simp only
            exact ⟨fun k' hk' => unifyK_mono (a1 ka' hA) (b1 kb' hB) h hk', unifyK_not_unable _ _⟩
  | .pow a b => by
    intro k h
    simp only [infer, bind, Except.bind, Bool.false_eq_true, if_false, pure, Except.pure] at h ⊢
    cases ha : infer false reg t ph a with
    | error e => simp [ha] at h
    | ok ka =>
      cases hb : infer false reg t ph b with
      | error e => simp [ha, hb] at h
      | ok kb =>
        simp only [ha, hb] at h
        obtain ⟨a1, a2⟩ := infer_mono a ka ha
        obtain ⟨b1, b2⟩ := infer_mono b kb hb
        cases hA : infer false reg T ph a with
        | error e => exact up_err (ne_unable_of a2 hA)
        | ok ka' =>
          cases hB : infer false reg T ph b with
          | error e => exact up_err (ne_unable_of b2 hB)
          | ok kb' =>
            simp only
            exact ⟨fun k' hk' => unifyK_mono (a1 ka' hA) (b1 kb' hB) h hk', unifyK_not_unable _ _⟩
  | .call f args kw => by
    intro k h
    simp only [infer] at h ⊢
    cases hf : reg f with
    | none => simp [hf] at h
    | some fn =>
      simp only [hf, bind, Except.bind] at h ⊢
      cases ha : inferArgs false reg t ph args with
      | error e => simp [ha] at h
      | ok ak =>
        cases hk : inferKw false reg t ph kw with
        | error e => simp [ha, hk] at h
        | ok kk =>
          simp only [ha, hk] at h
          obtain ⟨a1, a2⟩ := inferArgs_mono args ak ha
          obtain ⟨k1, k2⟩ := inferKw_mono kw kk hk
          cases hA : inferArgs false reg T ph args with
          | error e => exact up_err (ne_unable_of a2 hA)
          | ok ak' =>
            cases hK : inferKw false reg T ph kw with
            | error e => exact up_err (ne_unable_of k2 hK)
            | ok kk' =>
              simp only
              cases hfn : fn false ak kk with
              | error e => simp [hfn] at h
              | ok ks =>
                obtain ⟨ks', hks', lks⟩ := hreg f fn hf ak ak' kk kk' ks (a1 ak' hA) (k1 kk' hK) hfn
                simp only [hfn] at h
                simp only [hks']
                cases lks with
                | nil => simp at h
                | cons l0 lrest =>
                  cases lrest with
                  | nil =>
                    simp only [Except.ok.injEq] at h
                    subst h
                    exact up_ok l0
                  | cons _ _ => simp at h
  | .sub a i => by
    intro k h
    simp only [infer, bind, Except.bind, Bool.false_eq_true, if_false, pure, Except.pure] at h ⊢
    cases ha : infer false reg t ph a with
    | error e => simp [ha] at h
    | ok ka =>
      simp only [ha] at h
      obtain ⟨a1, a2⟩ := infer_mono a ka ha
      cases hA : infer false reg T ph a with
      | error e => exact up_err (ne_unable_of a2 hA)
      | ok ka' =>
        simp only
        have l := a1 ka' hA
        cases hr : isRealValued ka with
        | error e => simp [hr] at h
        | ok r =>
          simp only [hr, Except.ok.injEq] at h
          subst h
          obtain ⟨m1, m2⟩ := isReal_mono ka ka' r l hr
          cases hR : isRealValued ka' with
          | error e => exact up_err (ne_unable_of m2 hR)
          | ok r' => exact up_ok (m1 r' hR)
  | .cmp _ _ _ => by
    intro k h
    simp only [infer] at h ⊢
    cases h
    exact up_ok (le_refl _)
  | .lnot a => by
    intro k h
    simp only [infer, bind, Except.bind, Bool.false_and, Bool.false_eq_true, if_false, pure, Except.pure] at h ⊢
    cases ha : infer false reg t ph a with
    | error e => simp [ha] at h
    | ok ka =>
      simp only [ha] at h
      cases h
      obtain ⟨a1, a2⟩ := infer_mono a ka ha
      cases hA : infer false reg T ph a with
      | error e => exact up_err (ne_unable_of a2 hA)
      | ok ka' => exact up_ok (le_refl _)
  | .land cs => by
    intro k h
    simp only [infer, bind, Except.bind] at h ⊢
    cases hs : inferAllOk false reg t ph cs with
    | error e => simp [hs] at h
    | ok u =>
      simp only [hs] at h
      cases h
      obtain ⟨_, a2⟩ := inferAllOk_mono cs u hs
      cases hS : inferAllOk false reg T ph cs with
      | error e => exact up_err (ne_unable_of a2 hS)
      | ok u' => exact up_ok (le_refl _)
  | .lor cs => by
    intro k h
    simp only [infer, bind, Except.bind] at h ⊢
    cases hs : inferAllOk false reg t ph cs with
    | error e => simp [hs] at h
    | ok u =>
      simp only [hs] at h
      cases h
      obtain ⟨_, a2⟩ := inferAllOk_mono cs u hs
      cases hS : inferAllOk false reg T ph cs with
      | error e => exact up_err (ne_unable_of a2 hS)
      | ok u' => exact up_ok (le_refl _)
  | .ite _ _ _ => by intro k h; simp [infer] at h
  | .attr _ _ => by intro k h; simp [infer] at h
  | .min _ => by
    intro k h
    simp only [infer] at h ⊢
    cases h
    exact up_ok (le_refl _)
  | .max _ => by
    intro k h
    simp only [infer] at h ⊢
    cases h
    exact up_ok (le_refl _)
theorem inferSum_mono : ∀ (cs : List Expr) (acc acc' : Option Kind), le acc acc' →
    Up le (inferSum false reg t ph cs acc) (inferSum false reg T ph cs acc')
  | [], acc, acc', hacc => by
    intro r h
    simp only [inferSum] at h ⊢
    cases h
    exact up_ok hacc
  | c :: cs, acc, acc', hacc => by
    intro r h
    simp only [inferSum, cond_false] at h ⊢
    cases hc : infer false reg t ph c with
    | error e =>
      -- skipped under `t` (it must have been "unable": any other error ends the sum)
      have he : e = .unable := by
        cases e <;> simp [hc] at h
        rfl
      subst he
      simp only [hc] at h
      cases hC : infer false reg T ph c with
      | error e' =>
        by_cases he' : e' = .unable
        · subst he'
          simp only
          exact inferSum_mono cs acc acc' hacc r h
        · cases e' <;> first | exact absurd rfl he' | exact up_err (by simp)
      | ok k' =>
        simp only
        cases hu : unify acc' (some k') with
        | error e => exact up_err (ne_unable_of (unify_not_unable _ _) hu)
        | ok acc'' =>
          simp only
          exact inferSum_mono cs acc acc'' (le_trans _ _ _ hacc (unify_upper_left _ _ _ hu)) r h
    | ok k =>
      simp only [hc] at h
      obtain ⟨c1, c2⟩ := infer_mono c k hc
      cases hu0 : unify acc (some k) with
      | error e => simp [hu0] at h
      | ok acc1 =>
        simp only [hu0] at h
        cases hC : infer false reg T ph c with
        | error e' =>
          have he' : e' ≠ .unable := by intro he; subst he; exact c2 hC
          cases e' <;> first | exact absurd rfl he' | exact up_err (by simp)
        | ok k' =>
          simp only
          cases hu : unify acc' (some k') with
          | error e => exact up_err (ne_unable_of (unify_not_unable _ _) hu)
          | ok acc'' =>
            simp only
            exact inferSum_mono cs acc1 acc'' (unify_mono hacc (c1 k' hC) hu0 hu) r h
theorem inferProd_mono : ∀ (cs : List Expr) (acc acc' : Option Kind), le acc acc' →
    Up le (inferProd false reg t ph cs acc) (inferProd false reg T ph cs acc')
  | [], acc, acc', hacc => by
    intro r h
    simp only [inferProd] at h ⊢
    cases h
    exact up_ok hacc
  | c :: cs, acc, acc', hacc => by
    intro r h
    simp only [inferProd] at h ⊢
    cases hc : infer false reg t ph c with
    | error e => simp [hc] at h
    | ok k =>
      simp only [hc] at h
      obtain ⟨c1, c2⟩ := infer_mono c k hc
      cases hu0 : unify acc (some k) with
      | error e => simp [hu0] at h
      | ok acc1 =>
        simp only [hu0] at h
        cases hC : infer false reg T ph c with
        | error e' => exact up_err (ne_unable_of c2 hC)
        | ok k' =>
          simp only
          cases hu : unify acc' (some k') with
          | error e => exact up_err (ne_unable_of (unify_not_unable _ _) hu)
          | ok acc'' =>
            simp only
            exact inferProd_mono cs acc1 acc'' (unify_mono hacc (c1 k' hC) hu0 hu) r h
theorem inferAllOk_mono : ∀ cs : List Expr,
    Up (fun _ _ => True) (inferAllOk false reg t ph cs) (inferAllOk false reg T ph cs)
  | [] => by
    intro u h
    simp only [inferAllOk]
    exact ⟨fun _ _ => trivial, fun h => (by cases h)⟩
  | c :: cs => by
    intro u h
    simp only [inferAllOk, Bool.false_and, Bool.false_eq_true, if_false] at h ⊢
    cases hc : infer false reg t ph c with
    | error e => simp [hc] at h
    | ok k =>
      simp only [hc] at h
      obtain ⟨_, c2⟩ := infer_mono c k hc
      cases hC : infer false reg T ph c with
      | error e' => exact up_err (ne_unable_of c2 hC)
      | ok k' =>
        simp only
        exact ⟨fun _ _ => trivial, (inferAllOk_mono cs u h).2⟩
theorem inferArgs_mono : ∀ cs : List Expr,
    Up ArgsLe (inferArgs false reg t ph cs) (inferArgs false reg T ph cs)
  | [] => by
    intro r h
    simp only [inferArgs] at h ⊢
    cases h
    exact up_ok ArgsLe.nil
  | c :: cs => by
    intro r h
    simp only [inferArgs, bind, Except.bind] at h ⊢
    -- the rest of the list first
    cases hr : inferArgs false reg t ph cs with
    | error e => cases hc : infer false reg t ph c with
      | error e0 => cases e0 <;> simp [hc, hr] at h
      | ok k => simp [hc, hr] at h
    | ok rest =>
      obtain ⟨r1, r2⟩ := inferArgs_mono cs rest hr
      -- the head under `t`: a kind, or "unable" (recorded as `none`)
      have head : ∃ a, r = a :: rest ∧
          ((a = none) ∨ ∃ k, a = some k ∧ infer false reg t ph c = .ok k) := by
        cases hc : infer false reg t ph c with
        | error e0 => cases e0 <;> simp [hc, hr] at h; exact ⟨none, h.symm, Or.inl rfl⟩
        | ok k => simp [hc, hr] at h; exact ⟨some k, h.symm, Or.inr ⟨k, rfl, rfl⟩⟩
      obtain ⟨a, hra, hhead⟩ := head
      subst hra
      cases hC : infer false reg T ph c with
      | error e' =>
        by_cases he' : e' = .unable
        · subst he'
          simp only
          -- "unable" above: only possible if it was "unable" below
          rcases hhead with rfl | ⟨k, rfl, hk⟩
          · cases hR : inferArgs false reg T ph cs with
            | error e => exact up_err (ne_unable_of r2 hR)
            | ok rest' =>
              exact up_ok (ArgsLe.cons (le_refl _) (r1 rest' hR))
          · exact absurd hC (infer_mono c k hk).2
        · cases e' <;> first | exact absurd rfl he' | exact up_err (by simp)
      | ok k' =>
        simp only
        cases hR : inferArgs false reg T ph cs with
        | error e => exact up_err (ne_unable_of r2 hR)
        | ok rest' =>
          apply up_ok
          refine ArgsLe.cons ?_ (r1 rest' hR)
          rcases hhead with rfl | ⟨k, rfl, hk⟩
          · exact le_none _
          · exact (infer_mono c k hk).1 k' hC
theorem inferKw_mono : ∀ cs : List (Name × Expr),
    Up KwLe (inferKw false reg t ph cs) (inferKw false reg T ph cs)
  | [] => by
    intro r h
    simp only [inferKw] at h ⊢
    cases h
    exact up_ok KwLe.nil
  | (n, c) :: cs => by
    intro r h
    simp only [inferKw, bind, Except.bind] at h ⊢
    cases hr : inferKw false reg t ph cs with
    | error e => cases hc : infer false reg t ph c with
      | error e0 => cases e0 <;> simp [hc, hr] at h
      | ok k => simp [hc, hr] at h
    | ok rest =>
      obtain ⟨r1, r2⟩ := inferKw_mono cs rest hr
      have head : ∃ a, r = (n, a) :: rest ∧
          ((a = none) ∨ ∃ k, a = some k ∧ infer false reg t ph c = .ok k) := by
        cases hc : infer false reg t ph c with
        | error e0 => cases e0 <;> simp [hc, hr] at h; exact ⟨none, h.symm, Or.inl rfl⟩
        | ok k => simp [hc, hr] at h; exact ⟨some k, h.symm, Or.inr ⟨k, rfl, rfl⟩⟩
      obtain ⟨a, hra, hhead⟩ := head
      subst hra
      cases hC : infer false reg T ph c with
      | error e' =>
        by_cases he' : e' = .unable
        · subst he'
          simp only
          rcases hhead with rfl | ⟨k, rfl, hk⟩
          · cases hR : inferKw false reg T ph cs with
            | error e => exact up_err (ne_unable_of r2 hR)
            | ok rest' =>
              exact up_ok (KwLe.cons (le_refl _) (r1 rest' hR))
          · exact absurd hC (infer_mono c k hk).2
        · cases e' <;> first | exact absurd rfl he' | exact up_err (by simp)
      | ok k' =>
        simp only
        cases hR : inferKw false reg T ph cs with
        | error e => exact up_err (ne_unable_of r2 hR)
        | ok rest' =>
          apply up_ok
          refine KwLe.cons ?_ (r1 rest' hR)
          rcases hhead with rfl | ⟨k, rfl, hk⟩
          · exact le_none _
          · exact (infer_mono c k hk).1 k' hC
end

end

/-! ### every table of the loop stays below every strict post-fix-point -/

theorem le_of_absorbed {k old : Kind} (h : old = k ∨ unifyK k old = .ok old) : le (some k) (some old) := by
  rcases h with h | h
  · subst h; exact le_refl _
  · exact Or.inr ((unifyK_ok _ _ _).mp h)

/-- the entry for `n` exists and is at least `k` -/
def Above (T : Table) (ph n : Name) (k : Kind) : Prop := ∃ old, T.get ph n = some old ∧ le (some k) (some old)

theorem set_below {t T : Table} {ph n : Name} {k : Kind} (h : TLe t T) (ha : Above T ph n k) :
    TLe (t.set ph n k) T := by
  obtain ⟨old, hold, lk⟩ := ha
  have hupd : ∀ v, le (some v) (some old) →
      TLe { entries := updateE t.entries (scope ph n, n) v, changed := true } T := by
    intro v lv key kk hl
    simp only [lookupE_updateE] at hl
    split at hl
    · rename_i heq
      cases hl
      exact ⟨old, heq ▸ hold, lv⟩
    · exact h key kk hl
  unfold Table.set
  simp only
  cases ho : lookupE t.entries (scope ph n, n) with
  | none => simp only; exact hupd k lk
  | some o =>
    simp only
    split
    · exact h
    · cases hu : unifyK k o with
      | error e => simp only; exact h
      | ok k' =>
        simp only
        split
        · exact h
        · apply hupd
          obtain ⟨o', ho', lo⟩ := h _ o ho
          have : o' = old := by
            have : lookupE T.entries (scope ph n, n) = some old := hold
            rw [ho'] at this; cases this; rfl
          subst this
          exact unify_least _ _ _ _ ((unifyK_ok _ _ _).mp hu) lk lo

theorem set_above (t : Table) (ph n : Name) (k : Kind) : TLe t (t.set ph n k) := by
  have hupd : ∀ v, (∀ o, lookupE t.entries (scope ph n, n) = some o → le (some o) (some v)) →
      TLe t { entries := updateE t.entries (scope ph n, n) v, changed := true } := by
    intro v hv key kk hl
    simp only [lookupE_updateE]
    split
    · rename_i heq
      subst heq
      exact ⟨v, rfl, hv kk hl⟩
    · exact ⟨kk, hl, le_refl _⟩
  unfold Table.set
  simp only
  cases ho : lookupE t.entries (scope ph n, n) with
  | none => simp only; exact hupd k (fun o h => by rw [ho] at h; cases h)
  | some o =>
    simp only
    split
    · exact TLe.refl t
    · cases hu : unifyK k o with
      | error e => simp only; exact TLe.refl t
      | ok k' =>
        simp only
        split
        · exact TLe.refl t
        · apply hupd
          intro o' ho'
          rw [ho] at ho'
          cases ho'
          exact unify_upper_right _ _ _ ((unifyK_ok _ _ _).mp hu)

theorem setLoops_below {T : Table} {ph : Name} : ∀ (is : List Name) (t : Table), TLe t T →
    (∀ i ∈ is, Above T ph i .integer) → TLe (setLoops t ph is) T
  | [], t, h, _ => h
  | i :: is, t, h, ha =>
    setLoops_below is _ (set_below h (ha i List.mem_cons_self)) (fun j hj => ha j (List.mem_cons_of_mem _ hj))

theorem setLoops_above (ph : Name) : ∀ (is : List Name) (t : Table), TLe t (setLoops t ph is)
  | [], t => TLe.refl t
  | i :: is, t => (set_above t ph i .integer).trans (setLoops_above ph is _)

theorem setZip_below {T : Table} {ph : Name} : ∀ (ns : List Name) (ks ks' : List Kind) (t : Table), TLe t T →
    KsLe ks ks' → (∀ p ∈ zipNK ns ks', Above T ph p.1 p.2) → TLe (setZip t ph ns ks) T
  | [], ks, _, t, h, _, _ => by simpa [setZip] using h
  | n :: ns, [], _, t, h, _, _ => by simpa [setZip] using h
  | n :: ns, k :: ks, ks', t, h, hks, ha => by
    cases hks with
    | cons l0 lrest =>
      rename_i k' ks''
      simp only [setZip]
      apply setZip_below ns ks ks'' _ _ lrest (fun p hp => ha p (by simp [zipNK, hp]))
      apply set_below h
      obtain ⟨old, hold, l⟩ := ha (n, k') (by simp [zipNK])
      exact ⟨old, hold, le_trans _ _ _ l0 l⟩

theorem setZip_above (ph : Name) : ∀ (ns : List Name) (ks : List Kind) (t : Table), TLe t (setZip t ph ns ks)
  | [], _, t => by simpa [setZip] using TLe.refl t
  | _ :: _, [], t => by simpa [setZip] using TLe.refl t
  | n :: ns, k :: ks, t => by
    simp only [setZip]; exact (set_above t ph n k).trans (setZip_above ph ns ks _)

/-- strict post-fix-point of the rule of one statement (no unification failure swallowed) -/
def StmtFixS (reg : Registry) (T : Table) (ph : Name) : KStmt → Prop
  | .assign lhs hasSub _ flat loops =>
    (∀ i ∈ loops, Above T ph i .integer) ∧
    (hasSub = false → ∃ k, infer false reg T ph flat = .ok k ∧ Above T ph lhs k)
  | .callAssign lhs f args kw =>
    ∃ ks, inferCall false reg T ph f args kw = .ok ks ∧ ∀ p ∈ zipNK lhs ks, Above T ph p.1 p.2
  | .other => True

theorem inferCall_mono (reg : Registry) (t T : Table) (ph : Name) (hph : ph ≠ "") (hw : WellScoped t)
    (hW : WellScoped T) (hle : TLe t T) (hreg : RegMono reg) (f : Name) (args : List Expr) (kw : List (Name × Expr))
    (ks ks' : List Kind) (h : inferCall false reg t ph f args kw = .ok ks)
    (h' : inferCall false reg T ph f args kw = .ok ks') : KsLe ks ks' := by
  unfold inferCall at h h'
  cases hf : reg f with
  | none => simp [hf] at h
  | some fn =>
    simp only [hf, bind, Except.bind] at h h'
    cases ha : inferArgs false reg t ph args with
    | error e => simp [ha] at h
    | ok ak =>
      cases hk : inferKw false reg t ph kw with
      | error e => simp [ha, hk] at h
      | ok kk =>
        cases hA : inferArgs false reg T ph args with
        | error e => simp [hA] at h'
        | ok ak' =>
          cases hK : inferKw false reg T ph kw with
          | error e => simp [hA, hK] at h'
          | ok kk' =>
            simp only [ha, hk] at h
            simp only [hA, hK] at h'
            have la := (inferArgs_mono reg t T ph hph hw hW hle hreg args ak ha).1 ak' hA
            have lk := (inferKw_mono reg t T ph hph hw hW hle hreg kw kk hk).1 kk' hK
            cases hfn : fn false ak kk with
            | error e => simp [hfn] at h
            | ok r =>
              obtain ⟨r', hr', lr⟩ := hreg f fn hf ak ak' kk kk' r la lk hfn
              simp only [hfn, Except.ok.injEq] at h
              simp only [hr', Except.ok.injEq] at h'
              subst h; subst h'
              exact lr

theorem processStmt_below (reg : Registry) (hreg : RegMono reg) (t T : Table) (ph : Name) (hph : ph ≠ "")
    (hw : WellScoped t) (hW : WellScoped T) (hle : TLe t T) (s : KStmt) (hfix : StmtFixS reg T ph s) (t' : Table)
    (h : (processStmt reg t ph s).table? = some t') : TLe t' T := by
  cases s with
  | assign lhs hasSub rhs flat loops =>
    obtain ⟨hl, ha⟩ := hfix
    have h1 : TLe (setLoops t ph loops) T := setLoops_below loops t hle hl
    have hw1 : WellScoped (setLoops t ph loops) := setLoops_wellScoped ph hph loops t hw
    simp only [processStmt] at h
    cases hasSub with
    | true => simp [Outcome.table?] at h; rw [← h]; exact h1
    | false =>
      simp only [cond_false] at h
      obtain ⟨k', hk', hab⟩ := ha rfl
      cases hi : infer false reg (setLoops t ph loops) ph flat with
      | error e =>
        simp only [hi] at h
        cases e <;> simp [Outcome.table?] at h
        rw [← h]; exact h1
      | ok k =>
        simp only [hi, Outcome.table?, Option.some.injEq] at h
        rw [← h]
        apply set_below h1
        obtain ⟨old, hold, l⟩ := hab
        have lk := (infer_mono reg _ T ph hph hw1 hW h1 hreg flat k hi).1 k' hk'
        exact ⟨old, hold, le_trans _ _ _ lk l⟩
  | callAssign lhs f args kw =>
    obtain ⟨ks', hks', hab⟩ := hfix
    simp only [processStmt] at h
    cases hi : inferCall false reg t ph f args kw with
    | error e =>
      simp only [hi] at h
      cases e <;> simp [Outcome.table?] at h
      rw [← h]; exact hle
    | ok ks =>
      simp only [hi, Outcome.table?, Option.some.injEq] at h
      rw [← h]
      exact setZip_below lhs ks ks' t hle (inferCall_mono reg t T ph hph hw hW hle hreg f args kw ks ks' hi hks') hab
  | other =>
    simp only [processStmt, Outcome.table?, Option.some.injEq] at h
    rw [← h]; exact hle

theorem processStmt_above (reg : Registry) (t : Table) (ph : Name) (s : KStmt) (t' : Table)
    (h : (processStmt reg t ph s).table? = some t') : TLe t t' := by
  cases s with
  | assign lhs hasSub rhs flat loops =>
    simp only [processStmt] at h
    have h1 := setLoops_above ph loops t
    cases hasSub with
    | true => simp [Outcome.table?] at h; rw [← h]; exact h1
    | false =>
      simp only [cond_false] at h
      cases hi : infer false reg (setLoops t ph loops) ph flat with
      | error e =>
        simp only [hi] at h
        cases e <;> simp [Outcome.table?] at h
        rw [← h]; exact h1
      | ok k =>
        simp only [hi, Outcome.table?, Option.some.injEq] at h
        rw [← h]
        exact h1.trans (set_above _ ph lhs k)
  | callAssign lhs f args kw =>
    simp only [processStmt] at h
    cases hi : inferCall false reg t ph f args kw with
    | error e =>
      simp only [hi] at h
      cases e <;> simp [Outcome.table?] at h
      rw [← h]; exact TLe.refl t
    | ok ks =>
      simp only [hi, Outcome.table?, Option.some.injEq] at h
      rw [← h]
      exact setZip_above ph lhs ks t
  | other =>
    simp only [processStmt, Outcome.table?, Option.some.injEq] at h
    rw [← h]; exact TLe.refl t

/-- what a sweep needs of its work: phases are named, and `T` is a strict post-fix-point -/
def WorkOK (reg : Registry) (T : Table) (l : List (Name × KStmt)) : Prop :=
  ∀ p ∈ l, p.1 ≠ "" ∧ StmtFixS reg T p.1 p.2

theorem sweep_below (reg : Registry) (hreg : RegMono reg) (T : Table) (hW : WellScoped T) :
    ∀ (fuel : Nat) (t : Table) (queue buffer : List (Name × KStmt)) (progress : Bool) (tf : Table),
    WorkOK reg T (queue ++ buffer) → WellScoped t → TLe t T →
    sweep reg fuel t queue buffer progress = .ok tf → TLe tf T ∧ TLe t tf
  | 0, _, _, _, _, _, _, _, _, h => by simp [sweep] at h
  | fuel + 1, t, queue, buffer, progress, tf, hwork, hw, hle, h => by
    unfold sweep at h
    cases hq : queue.reverse with
    | nil =>
      have hqe : queue = [] := by simpa using hq
      simp only [hq] at h
      cases buffer with
      | nil => simp only at h; cases h; exact ⟨hle, TLe.refl _⟩
      | cons b bs =>
        simp only at h
        cases progress with
        | false => simp at h
        | true =>
          simp only [cond_true] at h
          exact sweep_below reg hreg T hW fuel t (b :: bs) [] false tf (by simpa [hqe] using hwork) hw hle h
    | cons last restRev =>
      obtain ⟨ph, s⟩ := last
      have hqe : queue = restRev.reverse ++ [(ph, s)] := by
        have := congrArg List.reverse hq
        simpa using this
      obtain ⟨hph1, hfix1⟩ := hwork (ph, s) (by rw [hqe]; simp)
      have hrest : WorkOK reg T (restRev.reverse ++ (buffer ++ [(ph, s)])) := by
        intro p hp
        simp only [List.mem_append, List.mem_singleton] at hp
        rcases hp with hp | hp | rfl
        · exact hwork p (by rw [hqe]; simp [List.mem_append, hp])
        · exact hwork p (by simp [List.mem_append, hp])
        · exact ⟨hph1, hfix1⟩
      have hrest' : WorkOK reg T (restRev.reverse ++ buffer) := by
        intro p hp
        apply hrest p
        simp only [List.mem_append] at hp ⊢
        rcases hp with hp | hp
        · exact Or.inl hp
        · exact Or.inr (Or.inl hp)
      simp only [hq] at h
      cases ho : processStmt reg t ph s with
      | fail e => simp [ho] at h
      | done t' =>
        simp only [ho] at h
        have ht : (processStmt reg t ph s).table? = some t' := by simp [ho, Outcome.table?]
        obtain ⟨r1, r2⟩ := sweep_below reg hreg T hW fuel t' _ _ _ tf hrest'
          (processStmt_wellScoped reg t ph hph1 s t' ht hw)
          (processStmt_below reg hreg t T ph hph1 hw hW hle s hfix1 t' ht) h
        exact ⟨r1, (processStmt_above reg t ph s t' ht).trans r2⟩
      | skipped t' =>
        simp only [ho] at h
        have ht : (processStmt reg t ph s).table? = some t' := by simp [ho, Outcome.table?]
        obtain ⟨r1, r2⟩ := sweep_below reg hreg T hW fuel t' _ _ _ tf hrest'
          (processStmt_wellScoped reg t ph hph1 s t' ht hw)
          (processStmt_below reg hreg t T ph hph1 hw hW hle s hfix1 t' ht) h
        exact ⟨r1, (processStmt_above reg t ph s t' ht).trans r2⟩
      | retry t' =>
        simp only [ho] at h
        have ht : (processStmt reg t ph s).table? = some t' := by simp [ho, Outcome.table?]
        obtain ⟨r1, r2⟩ := sweep_below reg hreg T hW fuel t' _ _ _ tf (by simpa [List.append_assoc] using hrest)
          (processStmt_wellScoped reg t ph hph1 s t' ht hw)
          (processStmt_below reg hreg t T ph hph1 hw hW hle s hfix1 t' ht) h
        exact ⟨r1, (processStmt_above reg t ph s t' ht).trans r2⟩

theorem outer_below (reg : Registry) (hreg : RegMono reg) (T : Table) (hW : WellScoped T)
    (prog : List (Name × KStmt)) (hwork : WorkOK reg T prog) :
    ∀ (fuel : Nat) (t tf : Table), WellScoped t → TLe t T → outer reg prog fuel t = .ok tf → TLe tf T ∧ TLe t tf
  | 0, _, _, _, _, h => by simp [outer] at h
  | fuel + 1, t, tf, hw, hle, h => by
    unfold outer at h
    cases hs : sweep reg (sweepFuel prog.length) { t with changed := false } prog [] false with
    | error e => simp [hs] at h
    | ok t' =>
      have hph : ∀ p ∈ prog ++ [], p.1 ≠ "" := by intro p hp; exact (hwork p (by simpa using hp)).1
      obtain ⟨b1, b2⟩ := sweep_below reg hreg T hW _ { t with changed := false } prog [] false t'
        (by simpa using hwork) hw hle hs
      have hw' : WellScoped t' := sweep_wellScoped reg _ { t with changed := false } prog [] false t' hph hw hs
      simp only [hs] at h
      cases hc : t'.changed with
      | true =>
        simp only [hc, cond_true] at h
        obtain ⟨r1, r2⟩ := outer_below reg hreg T hW prog hwork fuel t' tf hw' b1 h
        exact ⟨r1, TLe.trans b2 r2⟩
      | false =>
        simp only [hc, cond_false] at h
        have htf : t' = tf := by simpa using h
        subst htf
        exact ⟨b1, b2⟩

/-- **the returned table is below every strict post-fix-point above the initial table, and above
    the initial table itself** -/
theorem inferAll_least (reg : Registry) (hreg : RegMono reg) (prog : List (Name × KStmt)) (t : Table)
    (h : inferAll reg prog = .ok t) (T : Table) (hW : WellScoped T) (hwork : WorkOK reg T prog)
    (hinit : TLe Table.init T) : TLe t T ∧ TLe Table.init t := by
  unfold inferAll at h
  cases ho : outer reg prog (4 * countNames prog + 4) Table.init with
  | error e => simp [ho, bind, Except.bind] at h
  | ok t' =>
    simp only [ho, bind, Except.bind] at h
    cases hf : finalCheck reg t' prog with
    | error e => simp [hf] at h
    | ok _ =>
      simp only [hf] at h
      have htf : t' = t := by simpa using h
      subst htf
      exact outer_below reg hreg T hW prog hwork _ _ _ wellScoped_init hinit ho

theorem sweep_above (reg : Registry) :
    ∀ (fuel : Nat) (t : Table) (queue buffer : List (Name × KStmt)) (progress : Bool) (tf : Table),
    sweep reg fuel t queue buffer progress = .ok tf → TLe t tf
  | 0, _, _, _, _, _, h => by simp [sweep] at h
  | fuel + 1, t, queue, buffer, progress, tf, h => by
    unfold sweep at h
    cases hq : queue.reverse with
    | nil =>
      simp only [hq] at h
      cases buffer with
      | nil => simp only at h; cases h; exact TLe.refl _
      | cons b bs =>
        simp only at h
        cases progress with
        | false => simp at h
        | true =>
          simp only [cond_true] at h
          exact sweep_above reg fuel t (b :: bs) [] false tf h
    | cons last restRev =>
      obtain ⟨ph, s⟩ := last
      simp only [hq] at h
      cases ho : processStmt reg t ph s with
      | fail e => simp [ho] at h
      | done t' =>
        simp only [ho] at h
        exact (processStmt_above reg t ph s t' (by simp [ho, Outcome.table?])).trans
          (sweep_above reg fuel t' _ _ _ tf h)
      | skipped t' =>
        simp only [ho] at h
        exact (processStmt_above reg t ph s t' (by simp [ho, Outcome.table?])).trans
          (sweep_above reg fuel t' _ _ _ tf h)
      | retry t' =>
        simp only [ho] at h
        exact (processStmt_above reg t ph s t' (by simp [ho, Outcome.table?])).trans
          (sweep_above reg fuel t' _ _ _ tf h)

theorem outer_above (reg : Registry) (prog : List (Name × KStmt)) :
    ∀ (fuel : Nat) (t tf : Table), outer reg prog fuel t = .ok tf → TLe t tf
  | 0, _, _, h => by simp [outer] at h
  | fuel + 1, t, tf, h => by
    unfold outer at h
    cases hs : sweep reg (sweepFuel prog.length) { t with changed := false } prog [] false with
    | error e => simp [hs] at h
    | ok t' =>
      have b2 : TLe t t' := sweep_above reg _ { t with changed := false } prog [] false t' hs
      simp only [hs] at h
      cases hc : t'.changed with
      | true =>
        simp only [hc, cond_true] at h
        exact TLe.trans b2 (outer_above reg prog fuel t' tf h)
      | false =>
        simp only [hc, cond_false] at h
        have htf : t' = tf := by simpa using h
        subst htf
        exact b2

/-- the table the loop returns contains the initial entries, at least as high -/
theorem outer_above_init (reg : Registry) (prog : List (Name × KStmt)) (t : Table)
    (h : inferAll reg prog = .ok t) : TLe Table.init t := by
  unfold inferAll at h
  cases ho : outer reg prog (4 * countNames prog + 4) Table.init with
  | error e => simp [ho, bind, Except.bind] at h
  | ok t' =>
    simp only [ho, bind, Except.bind] at h
    cases hf : finalCheck reg t' prog with
    | error e => simp [hf] at h
    | ok _ =>
      simp only [hf] at h
      have htf : t' = t := by simpa using h
      subst htf
      exact outer_above reg prog _ _ _ ho

theorem tle_antisymm {t t' : Table} (h1 : TLe t t') (h2 : TLe t' t) :
    ∀ key, lookupE t.entries key = lookupE t'.entries key := by
  intro key
  cases hk : lookupE t.entries key with
  | none =>
    cases hk' : lookupE t'.entries key with
    | none => rfl
    | some k' =>
      obtain ⟨k, hk2, _⟩ := h2 key k' hk'
      rw [hk] at hk2; cases hk2
  | some k =>
    obtain ⟨k', hk', l1⟩ := h1 key k hk
    obtain ⟨k'', hk'', l2⟩ := h2 key k' hk'
    rw [hk] at hk''
    cases hk''
    have := le_antisymm _ _ l1 l2
    cases this
    exact hk'.symm

end Dagrt.Kinds
