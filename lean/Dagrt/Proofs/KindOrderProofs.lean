import Dagrt.Proofs.Unify
import Dagrt.Proofs.KindLoopProofs
set_option linter.unusedVariables false
set_option linter.unusedSimpArgs false
/-!
C14: the table kind inference returns is the LEAST post-fix-point of the statements' rules, hence
does not depend on the order in which the statements are presented.

* `infer_mono` (mutual, six functions): in the mode the work-list loop uses (`check = False`), the
  rules are monotone in the table w.r.t. the information order `le` induced by `unify` — a larger
  table gives a larger kind if it gives one at all, and never turns an inferable expression into
  "unable to infer".
* `sweep_below` / `outer_below`: every table the loop goes through stays below ANY post-fix-point
  (without ignored unification failures) of the same statements.
-/
namespace Dagrt.Kinds
open Dagrt

/-! ### the order on kinds, tables, argument lists -/

theorem le_some_none (k : Kind) : ¬ le (some k) none := by
  intro h
  rcases h with h | h
  · cases h
  · simp at h

theorem unify_mono {a a' b b' c c' : Option Kind} (ha : le a a') (hb : le b b')
    (h : unify a b = .ok c) (h' : unify a' b' = .ok c') : le c c' :=
  unify_least a b c c' h (le_trans _ _ _ ha (unify_upper_left a' b' c' h'))
    (le_trans _ _ _ hb (unify_upper_right a' b' c' h'))

theorem unify_not_unable (a b : Option Kind) : unify a b ≠ .error .unable := by
  cases a with
  | none => simp
  | some ka =>
    cases b with
    | none => simp
    | some kb => cases ka <;> cases kb <;> simp only [unify] <;> (try split) <;> simp

theorem unifyK_ok (ka kb k : Kind) : unifyK ka kb = .ok k ↔ unify (some ka) (some kb) = .ok (some k) := by
  unfold unifyK
  cases h : unify (some ka) (some kb) with
  | error e => simp
  | ok r =>
    cases r with
    | none => simp
    | some k' => simp

theorem unifyK_not_unable (ka kb : Kind) : unifyK ka kb ≠ .error .unable := by
  unfold unifyK
  have := unify_not_unable (some ka) (some kb)
  cases h : unify (some ka) (some kb) with
  | error e => simp only; intro he; cases he; exact this h
  | ok r => cases r <;> simp

theorem unifyK_mono {ka ka' kb kb' k k' : Kind} (ha : le (some ka) (some ka')) (hb : le (some kb) (some kb'))
    (h : unifyK ka kb = .ok k) (h' : unifyK ka' kb' = .ok k') : le (some k) (some k') :=
  unify_mono ha hb ((unifyK_ok _ _ _).mp h) ((unifyK_ok _ _ _).mp h')

/-- `t ⊑ T`: every entry of `t` is an entry of `T` with a kind at least as high -/
def TLe (t T : Table) : Prop :=
  ∀ key k, lookupE t.entries key = some k → ∃ k', lookupE T.entries key = some k' ∧ le (some k) (some k')

theorem TLe.refl (t : Table) : TLe t t := fun _ k h => ⟨k, h, le_refl _⟩

theorem TLe.trans {a b c : Table} (h1 : TLe a b) (h2 : TLe b c) : TLe a c := by
  intro key k hk
  obtain ⟨k1, hk1, l1⟩ := h1 key k hk
  obtain ⟨k2, hk2, l2⟩ := h2 key k1 hk1
  exact ⟨k2, hk2, le_trans _ _ _ l1 l2⟩

theorem lookupVar_mono {t T : Table} {ph n : Name} {k : Kind} (hph : ph ≠ "") (hw : WellScoped t) (hW : WellScoped T)
    (h : TLe t T) (hk : lookupVar t ph n = some k) : ∃ k', lookupVar T ph n = some k' ∧ le (some k) (some k') := by
  rw [lookupVar_eq_get t ph n hph hw] at hk
  rw [lookupVar_eq_get T ph n hph hW]
  exact h _ k hk

inductive ArgsLe : List (Option Kind) → List (Option Kind) → Prop
  | nil : ArgsLe [] []
  | cons {a b : Option Kind} {as bs : List (Option Kind)} : le a b → ArgsLe as bs → ArgsLe (a :: as) (b :: bs)

inductive KwLe : List (Name × Option Kind) → List (Name × Option Kind) → Prop
  | nil : KwLe [] []
  | cons {n : Name} {a b : Option Kind} {as bs : List (Name × Option Kind)} :
      le a b → KwLe as bs → KwLe ((n, a) :: as) ((n, b) :: bs)

inductive KsLe : List Kind → List Kind → Prop
  | nil : KsLe [] []
  | cons {a b : Kind} {as bs : List Kind} : le (some a) (some b) → KsLe as bs → KsLe (a :: as) (b :: bs)

/-- what the work-list loop needs of the registered functions (in its mode, `check = False`): more
    information about the arguments gives more information about the results, and does not make the
    result kinds unavailable -/
def RegMono (reg : Registry) : Prop :=
  ∀ f fn, reg f = some fn → ∀ ak ak' kk kk' ks, ArgsLe ak ak' → KwLe kk kk' → fn false ak kk = .ok ks →
    ∃ ks', fn false ak' kk' = .ok ks' ∧ KsLe ks ks'

/-- `y` is above `x`: if `x` succeeds, `y` does not answer "unable", and if it succeeds too its
    answer is above -/
def Up {α : Type} (R : α → α → Prop) (x y : Except KErr α) : Prop :=
  ∀ a, x = .ok a → (∀ b, y = .ok b → R a b) ∧ y ≠ .error .unable

theorem up_err {α : Type} {P : α → Prop} {e : KErr} (he : e ≠ .unable) :
    (∀ b, (Except.error e : Except KErr α) = .ok b → P b) ∧ (Except.error e : Except KErr α) ≠ .error .unable :=
  ⟨fun b hb => (by cases hb), fun h => (by cases h; exact he rfl)⟩

theorem up_ok {α : Type} {P : α → Prop} {x : α} (h : P x) :
    (∀ b, (Except.ok x : Except KErr α) = .ok b → P b) ∧ (Except.ok x : Except KErr α) ≠ .error .unable :=
  ⟨fun b hb => (by cases hb; exact h), fun h => (by cases h)⟩

theorem ne_unable_of {α : Type} {x : Except KErr α} {e : KErr} (h2 : x ≠ .error .unable) (hx : x = .error e) :
    e ≠ .unable := by
  intro he; subst he; exact h2 hx

theorem isReal_mono (ka ka' : Kind) (r : Bool) (l : le (some ka) (some ka')) (h : isRealValued ka = .ok r) :
    (∀ r', isRealValued ka' = .ok r' → le (some (.scalar r)) (some (.scalar r'))) ∧
      isRealValued ka' ≠ .error .unable := by
  cases ka <;> cases ka' <;> simp [isRealValued, le, unify] at * <;> grind

/-! ### the rules are monotone -/

section
variable (reg : Registry) (t T : Table) (ph : Name) (hph : ph ≠ "") (hw : WellScoped t) (hW : WellScoped T)
  (hle : TLe t T) (hreg : RegMono reg)
include hph hw hW hle hreg

mutual
theorem infer_mono : ∀ e : Expr,
    Up (fun k k' => le (some k) (some k')) (infer false reg t ph e) (infer false reg T ph e)
  | .const c => by
    intro k h
    cases c <;> simp only [infer] at h ⊢ <;> cases h <;> exact up_ok (le_refl _)
  | .var n => by
    intro k h
    simp only [infer] at h ⊢
    cases hl : lookupVar t ph n with
    | none => simp [hl] at h
    | some k0 =>
      simp only [hl] at h
      cases h
      obtain ⟨k', hk', l⟩ := lookupVar_mono hph hw hW hle hl
      simp only [hk']
      exact up_ok l
  | .sum cs => by
    intro k h
    simp only [infer] at h ⊢
    cases hs : inferSum false reg t ph cs none with
    | error e => simp [hs] at h
    | ok r =>
      cases r with
      | none => simp [hs] at h
      | some k0 =>
        simp only [hs] at h
        cases h
        obtain ⟨h1, h2⟩ := inferSum_mono cs none none (le_refl _) (some k) hs
        cases hS : inferSum false reg T ph cs none with
        | error e =>
          simp only
          exact up_err (ne_unable_of h2 hS)
        | ok r' =>
          have l := h1 r' hS
          cases r' with
          | none => exact absurd l (le_some_none k)
          | some k' => exact up_ok l
  | .prod cs => by
    intro k h
    simp only [infer] at h ⊢
    cases hs : inferProd false reg t ph cs none with
    | error e => simp [hs] at h
    | ok r =>
      cases r with
      | none => simp [hs] at h
      | some k0 =>
        simp only [hs] at h
        cases h
        obtain ⟨h1, h2⟩ := inferProd_mono cs none none (le_refl _) (some k) hs
        cases hS : inferProd false reg T ph cs none with
        | error e =>
          simp only
          exact up_err (ne_unable_of h2 hS)
        | ok r' =>
          have l := h1 r' hS
          cases r' with
          | none => exact absurd l (le_some_none k)
          | some k' => exact up_ok l
  | .quot a b => by
    intro k h
    simp only [infer, bind, Except.bind] at h ⊢
    cases ha : infer false reg t ph a with
    | error e => simp [ha] at h
    | ok ka =>
      cases hb : infer false reg t ph b with
      | error e => simp [ha, hb] at h
      | ok kb =>
        simp only [ha, hb] at h
        obtain ⟨a1, a2⟩ := infer_mono a ka ha
        obtain ⟨b1, b2⟩ := infer_mono b kb hb
        cases hA : infer false reg T ph a with
        | error e => exact up_err (ne_unable_of a2 hA)
        | ok ka' =>
          cases hB : infer false reg T ph b with
          | error e => exact up_err (ne_unable_of b2 hB)
          | ok kb' =>
            simp only
            exact ⟨fun k' hk' => unifyK_mono (a1 ka' hA) (b1 kb' hB) h hk', unifyK_not_unable _ _⟩
  | .pow a b => by
    intro k h
    simp only [infer, bind, Except.bind, Bool.false_eq_true, if_false, pure, Except.pure] at h ⊢
    cases ha : infer false reg t ph a with
    | error e => simp [ha] at h
    | ok ka =>
      cases hb : infer false reg t ph b with
      | error e => simp [ha, hb] at h
      | ok kb =>
        simp only [ha, hb] at h
        obtain ⟨a1, a2⟩ := infer_mono a ka ha
        obtain ⟨b1, b2⟩ := infer_mono b kb hb
        cases hA : infer false reg T ph a with
        | error e => exact up_err (ne_unable_of a2 hA)
        | ok ka' =>
          cases hB : infer false reg T ph b with
          | error e => exact up_err (ne_unable_of b2 hB)
          | ok kb' =>
            simp only
            exact ⟨fun k' hk' => unifyK_mono (a1 ka' hA) (b1 kb' hB) h hk', unifyK_not_unable _ _⟩
  | .call f args kw => by
    intro k h
    simp only [infer] at h ⊢
    cases hf : reg f with
    | none => simp [hf] at h
    | some fn =>
      simp only [hf, bind, Except.bind] at h ⊢
      cases ha : inferArgs false reg t ph args with
      | error e => simp [ha] at h
      | ok ak =>
        cases hk : inferKw false reg t ph kw with
        | error e => simp [ha, hk] at h
        | ok kk =>
          simp only [ha, hk] at h
          obtain ⟨a1, a2⟩ := inferArgs_mono args ak ha
          obtain ⟨k1, k2⟩ := inferKw_mono kw kk hk
          cases hA : inferArgs false reg T ph args with
          | error e => exact up_err (ne_unable_of a2 hA)
          | ok ak' =>
            cases hK : inferKw false reg T ph kw with
            | error e => exact up_err (ne_unable_of k2 hK)
            | ok kk' =>
              simp only
              cases hfn : fn false ak kk with
              | error e => simp [hfn] at h
              | ok ks =>
                obtain ⟨ks', hks', lks⟩ := hreg f fn hf ak ak' kk kk' ks (a1 ak' hA) (k1 kk' hK) hfn
                simp only [hfn] at h
                simp only [hks']
                cases lks with
                | nil => simp at h
                | cons l0 lrest =>
                  cases lrest with
                  | nil =>
                    simp only [Except.ok.injEq] at h
                    subst h
                    exact up_ok l0
                  | cons _ _ => simp at h
  | .sub a i => by
    intro k h
    simp only [infer, bind, Except.bind, Bool.false_eq_true, if_false, pure, Except.pure] at h ⊢
    cases ha : infer false reg t ph a with
    | error e => simp [ha] at h
    | ok ka =>
      simp only [ha] at h
      obtain ⟨a1, a2⟩ := infer_mono a ka ha
      cases hA : infer false reg T ph a with
      | error e => exact up_err (ne_unable_of a2 hA)
      | ok ka' =>
        simp only
        have l := a1 ka' hA
        cases hr : isRealValued ka with
        | error e => simp [hr] at h
        | ok r =>
          simp only [hr, Except.ok.injEq] at h
          subst h
          obtain ⟨m1, m2⟩ := isReal_mono ka ka' r l hr
          cases hR : isRealValued ka' with
          | error e => exact up_err (ne_unable_of m2 hR)
          | ok r' => exact up_ok (m1 r' hR)
  | .cmp _ _ _ => by
    intro k h
    simp only [infer] at h ⊢
    cases h
    exact up_ok (le_refl _)
  | .lnot a => by
    intro k h
    simp only [infer, bind, Except.bind, Bool.false_and, Bool.false_eq_true, if_false, pure, Except.pure] at h ⊢
    cases ha : infer false reg t ph a with
    | error e => simp [ha] at h
    | ok ka =>
      simp only [ha] at h
      cases h
      obtain ⟨a1, a2⟩ := infer_mono a ka ha
      cases hA : infer false reg T ph a with
      | error e => exact up_err (ne_unable_of a2 hA)
      | ok ka' => exact up_ok (le_refl _)
  | .land cs => by
    intro k h
    simp only [infer, bind, Except.bind] at h ⊢
    cases hs : inferAllOk false reg t ph cs with
    | error e => simp [hs] at h
    | ok u =>
      simp only [hs] at h
      cases h
      obtain ⟨_, a2⟩ := inferAllOk_mono cs u hs
      cases hS : inferAllOk false reg T ph cs with
      | error e => exact up_err (ne_unable_of a2 hS)
      | ok u' => exact up_ok (le_refl _)
  | .lor cs => by
    intro k h
    simp only [infer, bind, Except.bind] at h ⊢
    cases hs : inferAllOk false reg t ph cs with
    | error e => simp [hs] at h
    | ok u =>
      simp only [hs] at h
      cases h
      obtain ⟨_, a2⟩ := inferAllOk_mono cs u hs
      cases hS : inferAllOk false reg T ph cs with
      | error e => exact up_err (ne_unable_of a2 hS)
      | ok u' => exact up_ok (le_refl _)
  | .ite _ _ _ => by intro k h; simp [infer] at h
  | .attr _ _ => by intro k h; simp [infer] at h
  | .min _ => by
    intro k h
    simp only [infer] at h ⊢
    cases h
    exact up_ok (le_refl _)
  | .max _ => by
    intro k h
    simp only [infer] at h ⊢
    cases h
    exact up_ok (le_refl _)
theorem inferSum_mono : ∀ (cs : List Expr) (acc acc' : Option Kind), le acc acc' →
    Up le (inferSum false reg t ph cs acc) (inferSum false reg T ph cs acc')
  | [], acc, acc', hacc => by
    intro r h
    simp only [inferSum] at h ⊢
    cases h
    exact up_ok hacc
  | c :: cs, acc, acc', hacc => by
    intro r h
    simp only [inferSum, cond_false] at h ⊢
    cases hc : infer false reg t ph c with
    | error e =>
      -- skipped under `t` (it must have been "unable": any other error ends the sum)
      have he : e = .unable := by
        cases e <;> simp [hc] at h
        rfl
      subst he
      simp only [hc] at h
      cases hC : infer false reg T ph c with
      | error e' =>
        by_cases he' : e' = .unable
        · subst he'
          simp only
          exact inferSum_mono cs acc acc' hacc r h
        · cases e' <;> first | exact absurd rfl he' | exact up_err (by simp)
      | ok k' =>
        simp only
        cases hu : unify acc' (some k') with
        | error e => exact up_err (ne_unable_of (unify_not_unable _ _) hu)
        | ok acc'' =>
          simp only
          exact inferSum_mono cs acc acc'' (le_trans _ _ _ hacc (unify_upper_left _ _ _ hu)) r h
    | ok k =>
      simp only [hc] at h
      obtain ⟨c1, c2⟩ := infer_mono c k hc
      cases hu0 : unify acc (some k) with
      | error e => simp [hu0] at h
      | ok acc1 =>
        simp only [hu0] at h
        cases hC : infer false reg T ph c with
        | error e' =>
          have he' : e' ≠ .unable := by intro he; subst he; exact c2 hC
          cases e' <;> first | exact absurd rfl he' | exact up_err (by simp)
        | ok k' =>
          simp only
          cases hu : unify acc' (some k') with
          | error e => exact up_err (ne_unable_of (unify_not_unable _ _) hu)
          | ok acc'' =>
            simp only
            exact inferSum_mono cs acc1 acc'' (unify_mono hacc (c1 k' hC) hu0 hu) r h
theorem inferProd_mono : ∀ (cs : List Expr) (acc acc' : Option Kind), le acc acc' →
    Up le (inferProd false reg t ph cs acc) (inferProd false reg T ph cs acc')
  | [], acc, acc', hacc => by
    intro r h
    simp only [inferProd] at h ⊢
    cases h
    exact up_ok hacc
  | c :: cs, acc, acc', hacc => by
    intro r h
    simp only [inferProd] at h ⊢
    cases hc : infer false reg t ph c with
    | error e => simp [hc] at h
    | ok k =>
      simp only [hc] at h
      obtain ⟨c1, c2⟩ := infer_mono c k hc
      cases hu0 : unify acc (some k) with
      | error e => simp [hu0] at h
      | ok acc1 =>
        simp only [hu0] at h
        cases hC : infer false reg T ph c with
        | error e' => exact up_err (ne_unable_of c2 hC)
        | ok k' =>
          simp only
          cases hu : unify acc' (some k') with
          | error e => exact up_err (ne_unable_of (unify_not_unable _ _) hu)
          | ok acc'' =>
            simp only
            exact inferProd_mono cs acc1 acc'' (unify_mono hacc (c1 k' hC) hu0 hu) r h
theorem inferAllOk_mono : ∀ cs : List Expr,
    Up (fun _ _ => True) (inferAllOk false reg t ph cs) (inferAllOk false reg T ph cs)
  | [] => by
    intro u h
    simp only [inferAllOk]
    exact ⟨fun _ _ => trivial, fun h => (by cases h)⟩
  | c :: cs => by
    intro u h
    simp only [inferAllOk, Bool.false_and, Bool.false_eq_true, if_false] at h ⊢
    cases hc : infer false reg t ph c with
    | error e => simp [hc] at h
    | ok k =>
      simp only [hc] at h
      obtain ⟨_, c2⟩ := infer_mono c k hc
      cases hC : infer false reg T ph c with
      | error e' => exact up_err (ne_unable_of c2 hC)
      | ok k' =>
        simp only
        exact ⟨fun _ _ => trivial, (inferAllOk_mono cs u h).2⟩
theorem inferArgs_mono : ∀ cs : List Expr,
    Up ArgsLe (inferArgs false reg t ph cs) (inferArgs false reg T ph cs)
  | [] => by
    intro r h
    simp only [inferArgs] at h ⊢
    cases h
    exact up_ok ArgsLe.nil
  | c :: cs => by
    intro r h
    simp only [inferArgs, bind, Except.bind] at h ⊢
    -- the rest of the list first
    cases hr : inferArgs false reg t ph cs with
    | error e => cases hc : infer false reg t ph c with
      | error e0 => cases e0 <;> simp [hc, hr] at h
      | ok k => simp [hc, hr] at h
    | ok rest =>
      obtain ⟨r1, r2⟩ := inferArgs_mono cs rest hr
      -- the head under `t`: a kind, or "unable" (recorded as `none`)
      have head : ∃ a, r = a :: rest ∧
          ((a = none) ∨ ∃ k, a = some k ∧ infer false reg t ph c = .ok k) := by
        cases hc : infer false reg t ph c with
        | error e0 => cases e0 <;> simp [hc, hr] at h; exact ⟨none, h.symm, Or.inl rfl⟩
        | ok k => simp [hc, hr] at h; exact ⟨some k, h.symm, Or.inr ⟨k, rfl, rfl⟩⟩
      obtain ⟨a, hra, hhead⟩ := head
      subst hra
      cases hC : infer false reg T ph c with
      | error e' =>
        by_cases he' : e' = .unable
        · subst he'
          simp only
          -- "unable" above: only possible if it was "unable" below
          rcases hhead with rfl | ⟨k, rfl, hk⟩
          · cases hR : inferArgs false reg T ph cs with
            | error e => exact up_err (ne_unable_of r2 hR)
            | ok rest' =>
              exact up_ok (ArgsLe.cons (le_refl _) (r1 rest' hR))
          · exact absurd hC (infer_mono c k hk).2
        · cases e' <;> first | exact absurd rfl he' | exact up_err (by simp)
      | ok k' =>
        simp only
        cases hR : inferArgs false reg T ph cs with
        | error e => exact up_err (ne_unable_of r2 hR)
        | ok rest' =>
          apply up_ok
          refine ArgsLe.cons ?_ (r1 rest' hR)
          rcases hhead with rfl | ⟨k, rfl, hk⟩
          · exact le_none _
          · exact (infer_mono c k hk).1 k' hC
theorem inferKw_mono : ∀ cs : List (Name × Expr),
    Up KwLe (inferKw false reg t ph cs) (inferKw false reg T ph cs)
  | [] => by
    intro r h
    simp only [inferKw] at h ⊢
    cases h
    exact up_ok KwLe.nil
  | (n, c) :: cs => by
    intro r h
    simp only [inferKw, bind, Except.bind] at h ⊢
    cases hr : inferKw false reg t ph cs with
    | error e => cases hc : infer false reg t ph c with
      | error e0 => cases e0 <;> simp [hc, hr] at h
      | ok k => simp [hc, hr] at h
    | ok rest =>
      obtain ⟨r1, r2⟩ := inferKw_mono cs rest hr
      have head : ∃ a, r = (n, a) :: rest ∧
          ((a = none) ∨ ∃ k, a = some k ∧ infer false reg t ph c = .ok k) := by
        cases hc : infer false reg t ph c with
        | error e0 => cases e0 <;> simp [hc, hr] at h; exact ⟨none, h.symm, Or.inl rfl⟩
        | ok k => simp [hc, hr] at h; exact ⟨some k, h.symm, Or.inr ⟨k, rfl, rfl⟩⟩
      obtain ⟨a, hra, hhead⟩ := head
      subst hra
      cases hC : infer false reg T ph c with
      | error e' =>
        by_cases he' : e' = .unable
        · subst he'
          simp only
          rcases hhead with rfl | ⟨k, rfl, hk⟩
          · cases hR : inferKw false reg T ph cs with
            | error e => exact up_err (ne_unable_of r2 hR)
            | ok rest' =>
              exact up_ok (KwLe.cons (le_refl _) (r1 rest' hR))
          · exact absurd hC (infer_mono c k hk).2
        · cases e' <;> first | exact absurd rfl he' | exact up_err (by simp)
      | ok k' =>
        simp only
        cases hR : inferKw false reg T ph cs with
        | error e => exact up_err (ne_unable_of r2 hR)
        | ok rest' =>
          apply up_ok
          refine KwLe.cons ?_ (r1 rest' hR)
          rcases hhead with rfl | ⟨k, rfl, hk⟩
          · exact le_none _
          · exact (infer_mono c k hk).1 k' hC
end

end

end Dagrt.Kinds
