import Dagrt.Proofs.Dfs
set_option linter.unusedVariables false
set_option linter.unusedSimpArgs false
namespace Dagrt.Verify

/-! ## termination: the potential `|stack| + cost` decreases with every step -/
section fuel
variable (nbrs : Nat → List Nat) (knownF : Nat → Bool)

theorem cost_irrelevant {x : Nat} : ∀ {U : List Nat} {vis : List Nat}, x ∉ U →
    cost nbrs U (x :: vis) = cost nbrs U vis
  | [], _, _ => rfl
  | y :: ys, vis, h => by
    simp at h
    have ih := cost_irrelevant (U := ys) (vis := vis) h.2
    unfold cost at ih ⊢
    simp only [List.filter]
    by_cases hy : y ∈ vis
    · have : y ∈ x :: vis := by simp [hy]
      simp [hy, this]; simpa using ih
    · have : y ∉ x :: vis := by simp [hy]; exact fun e => h.1 e.symm
      simp [hy, this]; simpa using ih

theorem cost_visit {x : Nat} : ∀ {U : List Nat} {vis : List Nat}, U.Nodup → x ∈ U → x ∉ vis →
    cost nbrs U (x :: vis) + ((nbrs x).length + 1) = cost nbrs U vis
  | [], _, _, hx, _ => by simp at hx
  | y :: ys, vis, hnd, hx, hv => by
    have ⟨hy, hnd'⟩ := List.nodup_cons.mp hnd
    by_cases e : y = x
    · subst e
      have h1 := cost_irrelevant nbrs (x := y) (U := ys) (vis := vis) hy
      unfold cost at h1 ⊢
      simp only [List.filter]
      simp [hv]
      have : (List.filter (fun u => decide (u ∉ y :: vis)) ys) = (List.filter (fun u => decide (u ∉ vis)) ys) := by
        apply List.filter_congr; intro u hu; simp; intro _ e; subst e; exact absurd hu hy
      simp at this
      rw [this]; omega
    · have hx' : x ∈ ys := by simp at hx; rcases hx with h | h; exact absurd h.symm e; exact h
      have ih := cost_visit (U := ys) (vis := vis) hnd' hx' hv
      unfold cost at ih ⊢
      simp only [List.filter]
      by_cases hyv : y ∈ vis
      · have : y ∈ x :: vis := by simp [hyv]
        simp [hyv, this]; simpa using ih
      · have : y ∉ x :: vis := by simp [hyv]; exact e
        simp [hyv, this]; simp at ih; omega

def mu (U : List Nat) (s : St) : Nat := s.stack.length + cost nbrs U s.visited

theorem step_mu {U : List Nat} (hnd : U.Nodup) (hk : ∀ n, knownF n = true → n ∈ U)
    {s s' : St} (hin : ∀ x ∈ s.stack, x ∈ U) (hs : step nbrs knownF s = .running s') :
    mu nbrs U s' < mu nbrs U s ∧ ∀ x ∈ s'.stack, x ∈ U := by
  obtain ⟨stack, visiting, visited, order⟩ := s
  unfold step at hs
  simp only at hs
  split at hs
  · cases hs
  · rename_i _ top rest
    split at hs
    · split at hs <;> cases hs <;> simp [mu] <;> intro x hx <;> exact hin x (by simp [hx])
    · rename_i hvis
      split at hs
      · cases hs
      · cases hs
      · rename_i hscan
        cases hs
        have hok := scan_ok knownF hscan
        have htop : top ∈ U := hin top (by simp)
        have hc := cost_visit nbrs (x := top) (U := U) (vis := visited) hnd htop hvis
        constructor
        · simp [mu]; omega
        · intro x hx
          simp at hx
          rcases hx with h | h | h
          · exact hk x (hok x h).2
          · subst h; exact htop
          · exact hin x (by simp [h])

theorem run_fuel {U : List Nat} (hnd : U.Nodup) (hk : ∀ n, knownF n = true → n ∈ U) :
    ∀ (fuel : Nat) (s : St), (∀ x ∈ s.stack, x ∈ U) → mu nbrs U s < fuel →
      run nbrs knownF fuel s ≠ .outOfFuel
  | 0, _, _, h => by omega
  | fuel+1, s, hin, h => by
    unfold run
    cases hst : step nbrs knownF s with
    | cycle => simp
    | keyError => simp
    | done o => simp
    | running s' =>
      simp
      obtain ⟨h1, h2⟩ := step_mu nbrs knownF hnd hk hin hst
      exact run_fuel hnd hk fuel s' h2 (by omega)
end fuel

/-! ## look-ups -/

theorem lookup_mem : ∀ {p : Phase} {i : Nat} {s : VStmt}, lookup p i = some s → s ∈ p ∧ s.id = i
  | [], _, _, h => by simp [lookup] at h
  | t :: r, i, s, h => by
    unfold lookup at h
    split at h
    · rename_i u hu
      cases h
      have := lookup_mem hu
      exact ⟨by simp [this.1], this.2⟩
    · split at h
      · cases h; rename_i he; exact ⟨by simp, he⟩
      · cases h

theorem lookup_none : ∀ {p : Phase} {i : Nat}, lookup p i = none → ∀ t ∈ p, t.id ≠ i
  | [], _, _, t, ht => by simp at ht
  | s :: r, i, h, t, ht => by
    unfold lookup at h
    split at h
    · cases h
    · rename_i hn
      split at h
      · cases h
      · rename_i hne
        simp at ht
        rcases ht with e | ht
        · subst e; exact hne
        · exact lookup_none hn t ht

theorem known_iff {p : Phase} {i : Nat} : known p i = true ↔ ∃ t ∈ p, t.id = i := by
  unfold known
  constructor
  · intro h
    cases hl : lookup p i with
    | none => simp [hl] at h
    | some s => exact ⟨s, lookup_mem hl⟩
  · rintro ⟨t, ht, he⟩
    cases hl : lookup p i with
    | none => exact absurd he (lookup_none hl t ht)
    | some s => simp

theorem lookup_of_nodup : ∀ {p : Phase}, (ids p).Nodup → ∀ s ∈ p, lookup p s.id = some s
  | [], _, s, hs => by simp at hs
  | t :: r, hnd, s, hs => by
    have hnd0 : (t.id :: ids r).Nodup := by simpa [ids] using hnd
    have ⟨ht, hnd'⟩ := List.nodup_cons.mp hnd0
    simp [ids] at ht
    simp at hs
    unfold lookup
    rcases hs with e | hs
    · subst e
      have : lookup r s.id = none := by
        cases hl : lookup r s.id with
        | none => rfl
        | some u =>
          have := lookup_mem hl
          exact absurd this.2 (ht u this.1)
      simp [this]
    · have := lookup_of_nodup (p := r) hnd' s hs
      simp [this]

theorem nbrs_of_nodup {p : Phase} (hnd : (ids p).Nodup) {s : VStmt} (hs : s ∈ p) : nbrs p s.id = s.deps := by
  simp [nbrs, lookup_of_nodup hnd s hs]

theorem nbrs_mem {p : Phase} {u d : Nat} (h : d ∈ nbrs p u) : ∃ s ∈ p, s.id = u ∧ d ∈ s.deps := by
  unfold nbrs at h
  split at h
  · rename_i s hs; exact ⟨s, (lookup_mem hs).1, (lookup_mem hs).2, h⟩
  · simp at h

/-! ## specification -/

def DepsClosed (p : Phase) : Prop := ∀ s ∈ p, ∀ d ∈ s.deps, ∃ t ∈ p, t.id = d
def PhaseAcyclic (p : Phase) : Prop := ∃ rank : Nat → Nat, ∀ s ∈ p, ∀ d ∈ s.deps, rank d < rank s.id
def SwitchOk (n : Nat) (p : Phase) : Prop := ∀ s ∈ p, ∀ t, s.switchTo = some t → t < n
def CondSingle (p : Phase) : Prop := ∀ s ∈ p, ∀ c ∈ s.condWrites, condWriters p c ≤ 1

theorem depsMissing_false {p : Phase} : depsMissing p = false ↔ DepsClosed p := by
  unfold depsMissing DepsClosed
  simp [List.any_eq_true]

theorem switchBad_false {n : Nat} {p : Phase} : switchBad n p = false ↔ SwitchOk n p := by
  unfold switchBad SwitchOk
  rw [Bool.eq_false_iff]
  simp only [ne_eq, List.any_eq_true, not_exists, not_and]
  constructor
  · intro h s hs t ht
    have := h s hs
    simp [ht] at this; exact this
  · intro h s hs
    cases ht : s.switchTo with
    | none => simp
    | some t => simp; exact h s hs t ht

theorem condBad_false {p : Phase} : condBad p = false ↔ CondSingle p := by
  unfold condBad CondSingle
  rw [Bool.eq_false_iff]
  simp only [ne_eq, List.any_eq_true, not_exists, not_and, decide_eq_true_eq]
  constructor
  · intro h s hs c hc; have := h s hs c hc; omega
  · intro h s hs c hc; have := h s hs c hc; omega

/-! ## the cycle pass on one phase -/

theorem init_inv (p : Phase) :
    Inv (nbrs p) { stack := (ids p).reverse, visiting := [], visited := [], order := [] } := by
  refine ⟨by simp, by simp, by simp, by simp, Frames.nil _ _, ?_⟩
  intro pre u post h; simp at h

theorem cycleCheck_terminates (p : Phase) (hnd : (ids p).Nodup) : cycleCheck p ≠ .outOfFuel := by
  unfold cycleCheck
  apply run_fuel (nbrs p) (known p) (U := ids p) hnd
  · intro n hn
    obtain ⟨t, ht, he⟩ := known_iff.mp hn
    subst he; simp [ids]; exact ⟨t, ht, rfl⟩
  · intro x hx; simpa using hx
  · simp [mu, cycleFuel]

theorem acyclic_phase_iff {p : Phase} (hnd : (ids p).Nodup) : Acyclic (nbrs p) ↔ PhaseAcyclic p := by
  constructor
  · rintro ⟨rank, hr⟩
    exact ⟨rank, fun s hs d hd => hr s.id d (by rw [nbrs_of_nodup hnd hs]; exact hd)⟩
  · rintro ⟨rank, hr⟩
    refine ⟨rank, fun u d hd => ?_⟩
    obtain ⟨s, hs, he, hd'⟩ := nbrs_mem hd
    subst he; exact hr s hs d hd'

theorem cycleCheck_spec (p : Phase) (hnd : (ids p).Nodup) :
    match cycleCheck p with
    | .noCycle _ => PhaseAcyclic p
    | .cycle => ¬ PhaseAcyclic p
    | .keyError => ¬ DepsClosed p
    | .outOfFuel => False := by
  have hspec := run_spec (nbrs p) (known p) (ids p) (cycleFuel p) _ (init_inv p)
    (by intro x hx; left; simpa using hx)
  have hterm := cycleCheck_terminates p hnd
  unfold cycleCheck at hterm ⊢
  split <;> rename_i heq <;> rw [heq] at hspec <;> simp only at hspec
  · rename_i o
    obtain ⟨ht, hndo, hall⟩ := hspec
    apply (acyclic_phase_iff hnd).mp
    apply topo_acyclic (nbrs p) ht hndo
    intro u hu
    cases hl : lookup p u with
    | none => simp [nbrs, hl] at hu
    | some s =>
      apply hall
      have := lookup_mem hl
      simp [ids]; exact ⟨s, this.1, this.2⟩
  · exact fun h => hspec ((acyclic_phase_iff hnd).mpr h)
  · obtain ⟨u, d, hd, hk⟩ := hspec
    intro hc
    obtain ⟨s, hs, he, hd'⟩ := nbrs_mem hd
    obtain ⟨t, ht, hte⟩ := hc s hs d hd'
    have : known p d = true := known_iff.mpr ⟨t, ht, hte⟩
    rw [this] at hk; cases hk
  · exact hterm heq

end Dagrt.Verify
