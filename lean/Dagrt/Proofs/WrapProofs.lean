import Dagrt.Model.Wrap
set_option linter.unusedVariables false
set_option linter.unusedSimpArgs false
namespace Dagrt.Wrap

/-! ### the chunking loop keeps every token, in order -/

theorem chunkLoop_flatten (width il cl : Nat) : ∀ (ws cur : List Tok) (curLen : Nat) (acc : List (List Tok)),
    (chunkLoop width il cl ws cur curLen acc).flatten = acc.flatten ++ cur ++ ws
  | [], cur, _, acc => by simp [chunkLoop]
  | w :: ws, cur, curLen, acc => by
    unfold chunkLoop
    simp only
    split
    · rw [chunkLoop_flatten]; simp
    · rw [chunkLoop_flatten]; simp

theorem chunkLoop_nonempty (width il cl : Nat) : ∀ (ws cur : List Tok) (curLen : Nat) (acc : List (List Tok)),
    cur ≠ [] → (∀ c ∈ acc, c ≠ []) → ∀ c ∈ chunkLoop width il cl ws cur curLen acc, c ≠ []
  | [], cur, _, acc, hc, ha => by
    intro c hmem; simp [chunkLoop] at hmem
    rcases hmem with h | h
    · exact ha c h
    · subst h; exact hc
  | w :: ws, cur, curLen, acc, hc, ha => by
    unfold chunkLoop
    simp only
    split
    · exact chunkLoop_nonempty width il cl ws _ _ acc (by simp) ha
    · apply chunkLoop_nonempty width il cl ws _ _ _ (by simp)
      intro c hmem; simp at hmem
      rcases hmem with h | h
      · exact ha c h
      · subst h; exact hc

/-! ### widths -/

theorem joinWords_length_snoc : ∀ (c : List Tok) (w : Tok), c ≠ [] →
    (joinWords (c ++ [w])).length = (joinWords c).length + 1 + w.length
  | [], _, h => absurd rfl h
  | [a], w, _ => by simp [joinWords]; omega
  | a :: b :: r, w, _ => by
    have ih := joinWords_length_snoc (b :: r) w (by simp)
    simp only [List.cons_append, joinWords, List.length_append, List.length_cons] at ih ⊢
    omega

/-- a finished line is "good" if, when it holds ≥ 2 tokens, it leaves room for the marker -/
def GoodInner (il pre : Nat) (width : Nat) (c : List Tok) : Prop :=
  2 ≤ c.length → il + pre + (joinWords c).length < width

/-- state invariant of the loop: `curLen` is the length of current_line; a line with ≥ 2 tokens
    is strictly inside the width, or exactly at the width with no token left -/
theorem chunkLoop_width (width il cl : Nat) : ∀ (ws cur : List Tok) (curLen pre : Nat) (acc : List (List Tok)),
    cur ≠ [] → curLen = pre + (joinWords cur).length →
    (2 ≤ cur.length → il + curLen < width ∨ (ws = [] ∧ il + curLen = width)) →
    ∀ res, chunkLoop width il cl ws cur curLen acc = res →
      ∃ last more, res = acc ++ more ++ [last] ∧
        (∀ c ∈ more, 2 ≤ c.length → ∃ p, (p = pre ∨ p = cl) ∧ il + p + (joinWords c).length < width) ∧
        (2 ≤ last.length → ∃ p, (p = pre ∨ p = cl) ∧ il + p + (joinWords last).length ≤ width)
  | [], cur, curLen, pre, acc, hne, hlen, hinv, res, hres => by
    simp [chunkLoop] at hres
    refine ⟨cur, [], by simp [hres], by simp, ?_⟩
    intro h2
    refine ⟨pre, Or.inl rfl, ?_⟩
    rcases hinv h2 with h | ⟨_, h⟩ <;> omega
  | w :: ws, cur, curLen, pre, acc, hne, hlen, hinv, res, hres => by
    unfold chunkLoop at hres
    simp only at hres
    split at hres
    · rename_i hfit
      have hl : curLen + 1 + w.length = pre + (joinWords (cur ++ [w])).length := by
        rw [joinWords_length_snoc cur w hne]; omega
      obtain ⟨last, more, h1, h2, h3⟩ := chunkLoop_width width il cl ws (cur ++ [w]) _ pre acc (by simp) hl
        (by intro _; rcases hfit with h | ⟨h, h'⟩
            · left; omega
            · right; exact ⟨h, by omega⟩) res hres
      exact ⟨last, more, h1, h2, h3⟩
    · rename_i hfit
      have hl : cl + w.length = cl + (joinWords [w]).length := by simp [joinWords]
      obtain ⟨last, more, h1, h2, h3⟩ := chunkLoop_width width il cl ws [w] _ cl (acc ++ [cur]) (by simp) hl
        (by intro h; simp at h) res hres
      refine ⟨last, cur :: more, by simp [h1], ?_, ?_⟩
      · intro c hc h2c
        simp at hc
        rcases hc with e | hc
        · subst e
          refine ⟨pre, Or.inl rfl, ?_⟩
          rcases hinv h2c with h | ⟨h, _⟩
          · omega
          · cases h
        · obtain ⟨p, hp, hlt⟩ := h2 c hc h2c
          exact ⟨p, by rcases hp with h | h <;> simp [h], hlt⟩
      · intro h2l
        obtain ⟨p, hp, hle⟩ := h3 h2l
        exact ⟨p, by rcases hp with h | h <;> simp [h], hle⟩

theorem pad_length (marker : Char) (line : List Char) (w : Nat) :
    (pad marker line w).length = max line.length (w - 1) + 1 := by
  simp [pad]; omega

end Dagrt.Wrap

namespace Dagrt.Wrap

/-! ### the splitter -/

def clean (acc : List Tok) : LS := ⟨acc, [], none, false⟩

/-- a well-formed token: processed on its own from a clean state it is still pending as one
    token, with no quote open -/
def TokOK (esc : Option Char) (t : Tok) : Prop :=
  t ≠ [] ∧ lexRun esc (clean []) t = ⟨[], t, none, false⟩

theorem lexStep_acc (esc : Option Char) (acc : List Tok) (s : LS) (c : Char) :
    lexStep esc { s with toks := acc ++ s.toks } c =
      { lexStep esc s c with toks := acc ++ (lexStep esc s c).toks } := by
  obtain ⟨toks, tok, quote, escaped⟩ := s
  unfold lexStep
  cases quote with
  | some q =>
    simp only
    split
    · rfl
    · split
      · rfl
      · split <;> rfl
  | none =>
    simp only
    split
    · rfl
    · split
      · split
        · rfl
        · simp
      · rfl

theorem lexRun_acc (esc : Option Char) (acc : List Tok) : ∀ (l : List Char) (s : LS),
    lexRun esc { s with toks := acc ++ s.toks } l =
      { lexRun esc s l with toks := acc ++ (lexRun esc s l).toks }
  | [], s => rfl
  | c :: cs, s => by
    simp only [lexRun, List.foldl]
    have := lexStep_acc esc acc s c
    rw [this]
    exact lexRun_acc esc acc cs (lexStep esc s c)

theorem lexRun_append (esc : Option Char) (s : LS) (a b : List Char) :
    lexRun esc s (a ++ b) = lexRun esc (lexRun esc s a) b := by simp [lexRun]

theorem lexRun_tok (esc : Option Char) (acc : List Tok) {t : Tok} (h : TokOK esc t) :
    lexRun esc (clean acc) t = ⟨acc, t, none, false⟩ := by
  have := lexRun_acc esc acc t (clean [])
  simp only [clean, List.append_nil] at this
  rw [clean, this]
  have h2 := h.2
  simp only [clean] at h2
  rw [h2]; simp

def AllSpace (ws : List Char) : Prop := ∀ c ∈ ws, isSpace c = true

theorem space_not_quote {c : Char} (h : isSpace c = true) : isQuote c = false := by
  simp only [isSpace, isQuote, Bool.or_eq_true, beq_iff_eq] at h ⊢
  rcases h with ((h | h) | h) | h <;> subst h <;> decide

theorem lexRun_spaces (esc : Option Char) : ∀ (ws : List Char) (acc : List Tok), AllSpace ws →
    lexRun esc (clean acc) ws = clean acc
  | [], acc, _ => rfl
  | c :: cs, acc, h => by
    have hc := h c (by simp)
    simp only [lexRun, List.foldl]
    have : lexStep esc (clean acc) c = clean acc := by
      simp [lexStep, clean, space_not_quote hc, hc]
    rw [this]
    exact lexRun_spaces esc cs acc (fun x hx => h x (by simp [hx]))

/-- a pending token followed by a non-empty run of white space is emitted -/
theorem lexRun_sep (esc : Option Char) (acc : List Tok) (t : Tok) (ht : t ≠ []) :
    ∀ (ws : List Char), ws ≠ [] → AllSpace ws →
    lexRun esc ⟨acc, t, none, false⟩ ws = clean (acc ++ [t])
  | [], h, _ => absurd rfl h
  | c :: cs, _, h => by
    have hc := h c (by simp)
    simp only [lexRun, List.foldl]
    have : lexStep esc ⟨acc, t, none, false⟩ c = clean (acc ++ [t]) := by
      simp [lexStep, clean, space_not_quote hc, hc, ht]
    rw [this]
    exact lexRun_spaces esc cs _ (fun x hx => h x (by simp [hx]))

/-- text made of well-formed tokens separated by non-empty white space -/
def interleave (t0 : Tok) (rest : List (List Char × Tok)) : List Char :=
  t0 ++ rest.flatMap (fun p => p.1 ++ p.2)

theorem lexRun_interleave (esc : Option Char) : ∀ (rest : List (List Char × Tok)) (acc : List Tok) (t0 : Tok),
    TokOK esc t0 → (∀ p ∈ rest, p.1 ≠ [] ∧ AllSpace p.1 ∧ TokOK esc p.2) →
    ∃ pre last, acc ++ t0 :: rest.map (·.2) = pre ++ [last] ∧
      lexRun esc (clean acc) (interleave t0 rest) = ⟨pre, last, none, false⟩
  | [], acc, t0, h0, _ => by
    refine ⟨acc, t0, by simp, ?_⟩
    simp [interleave, lexRun_tok esc acc h0]
  | (s, t) :: rest, acc, t0, h0, hr => by
    obtain ⟨hs1, hs2, ht⟩ := hr (s, t) (by simp)
    obtain ⟨pre, last, heq, hrun⟩ := lexRun_interleave esc rest (acc ++ [t0]) t ht
      (fun p hp => hr p (by simp [hp]))
    refine ⟨pre, last, by simpa using heq, ?_⟩
    have : interleave t0 ((s, t) :: rest) = t0 ++ (s ++ interleave t rest) := by
      simp [interleave]
    rw [this, lexRun_append, lexRun_tok esc acc h0, lexRun_append, lexRun_sep esc acc t0 h0.1 s hs1 hs2]
    exact hrun

/-- re-tokenising such a text gives back exactly the tokens -/
theorem split_interleave (esc : Option Char) (t0 : Tok) (rest : List (List Char × Tok))
    (h0 : TokOK esc t0) (hr : ∀ p ∈ rest, p.1 ≠ [] ∧ AllSpace p.1 ∧ TokOK esc p.2) :
    split esc (interleave t0 rest) = .ok (t0 :: rest.map (·.2)) := by
  obtain ⟨pre, last, heq, hrun⟩ := lexRun_interleave esc rest [] t0 h0 hr
  unfold split
  have : LS.init = clean [] := rfl
  rw [this, hrun]
  simp only
  have hl : last ≠ [] := by
    -- the last token is one of the well-formed tokens
    have hmem : last ∈ t0 :: rest.map (·.2) := by
      have : last ∈ pre ++ [last] := by simp
      rw [← heq] at this; simpa using this
    simp at hmem
    rcases hmem with e | ⟨s, hp⟩
    · subst e; exact h0.1
    · exact (hr (s, last) hp).2.2.1
  simp [hl]
  simpa using heq.symm

/-! ### tokens produced by the splitter are well-formed -/

structure LexInv (esc : Option Char) (s : LS) : Prop where
  done : ∀ t ∈ s.toks, TokOK esc t
  cur : lexRun esc (clean []) s.tok = ⟨[], s.tok, s.quote, s.escaped⟩
  esc_in_quote : s.quote = none → s.escaped = false

theorem lexRun_snoc (esc : Option Char) (s : LS) (l : List Char) (c : Char) :
    lexRun esc s (l ++ [c]) = lexStep esc (lexRun esc s l) c := by simp [lexRun]

theorem lexInv_step (esc : Option Char) (s : LS) (c : Char) (h : LexInv esc s) : LexInv esc (lexStep esc s c) := by
  obtain ⟨toks, tok, quote, escaped⟩ := s
  obtain ⟨hd, hc, he⟩ := h
  simp only at hd hc he
  unfold lexStep
  cases quote with
  | some q =>
    simp only
    split
    · rename_i hesc
      refine ⟨hd, ?_, by simp⟩
      simp only
      rw [lexRun_snoc, hc]; simp [lexStep, hesc]
    · rename_i hesc
      split
      · rename_i hce
        refine ⟨hd, ?_, by simp⟩
        simp only
        rw [lexRun_snoc, hc]; simp [lexStep, hesc, hce]
      · rename_i hce
        split
        · rename_i hcq
          refine ⟨hd, ?_, by simp; simpa using hesc⟩
          simp only
          rw [lexRun_snoc, hc]; subst hcq; simp [lexStep, hesc, hce]
        · rename_i hcq
          refine ⟨hd, ?_, by simp⟩
          simp only
          rw [lexRun_snoc, hc]; simp [lexStep, hesc, hce, hcq]
  | none =>
    have he' : escaped = false := he rfl
    subst he'
    simp only
    split
    · rename_i hq
      refine ⟨hd, ?_, by simp⟩
      simp only
      rw [lexRun_snoc, hc]; simp [lexStep, hq]
    · rename_i hq
      split
      · rename_i hsp
        split
        · exact ⟨hd, hc, he⟩
        · rename_i hne
          refine ⟨?_, by simp [lexRun, clean], by simp⟩
          intro t ht; simp at ht
          rcases ht with h | h
          · exact hd t h
          · subst h; exact ⟨hne, hc⟩
      · rename_i hsp
        refine ⟨hd, ?_, by simp⟩
        simp only
        rw [lexRun_snoc, hc]; simp [lexStep, hq, hsp]

theorem lexInv_run (esc : Option Char) : ∀ (l : List Char) (s : LS), LexInv esc s → LexInv esc (lexRun esc s l)
  | [], s, h => h
  | c :: cs, s, h => by
    simp only [lexRun, List.foldl]
    exact lexInv_run esc cs _ (lexInv_step esc s c h)

theorem split_tokens_ok (esc : Option Char) (line : List Char) (toks : List Tok)
    (h : split esc line = .ok toks) : ∀ t ∈ toks, TokOK esc t := by
  unfold split at h
  have hinv := lexInv_run esc line LS.init ⟨by simp [LS.init], by simp [LS.init, lexRun, clean], by simp [LS.init]⟩
  simp only at h
  split at h
  · cases h
  · rename_i hq
    simp at h
    have hcur := hinv.cur
    rw [hq, hinv.esc_in_quote hq] at hcur
    intro t ht
    rw [← h] at ht
    split at ht
    · exact hinv.done t ht
    · rename_i hne
      simp at ht
      rcases ht with h' | h'
      · exact hinv.done t h'
      · subst h'; exact ⟨hne, hcur⟩

end Dagrt.Wrap

namespace Dagrt.Wrap

/-! ### un-wrapping the rendered lines and tokenising again -/

/-- joining the physical lines: every line but the last loses its continuation marker
    (Python's backslash-newline, Fortran's trailing `&`) -/
def unwrap : List (List Char) → List Char
  | [] => []
  | [l] => l
  | l :: ls => l.dropLast ++ unwrap ls

theorem joinWords_interleave (t : Tok) : ∀ ts : List Tok,
    joinWords (t :: ts) = interleave t (ts.map (fun u => ([' '], u)))
  | [] => by simp [joinWords, interleave]
  | u :: us => by
    have ih := joinWords_interleave u us
    simp only [joinWords, ih, interleave, List.map_cons, List.flatMap_cons]
    simp

theorem map_snd_pairs (s : List Char) : ∀ l : List Tok, (l.map (fun u => (s, u))).map (·.2) = l
  | [] => rfl
  | a :: as => by simp [map_snd_pairs s as]

theorem unwrap_cons_ne (l : List Char) : ∀ (ls : List (List Char)), ls ≠ [] →
    unwrap (l :: ls) = l.dropLast ++ unwrap ls
  | [], h => absurd rfl h
  | _ :: _, _ => rfl

theorem renderLines_ne (marker : Char) (padw : Nat) (indent : List Char) (first : Bool) :
    ∀ cs : List (List Tok), cs ≠ [] → renderLines marker padw indent first cs ≠ []
  | [], h => absurd rfl h
  | [c], _ => by simp [renderLines]
  | c :: c' :: cs, _ => by simp [renderLines]

theorem lexRun_joinWords (esc : Option Char) (acc : List Tok) (c : List Tok) (hne : c ≠ [])
    (hok : ∀ t ∈ c, TokOK esc t) :
    ∃ pre last, acc ++ c = pre ++ [last] ∧ lexRun esc (clean acc) (joinWords c) = ⟨pre, last, none, false⟩ := by
  cases c with
  | nil => exact absurd rfl hne
  | cons t ts =>
    rw [joinWords_interleave]
    obtain ⟨pre, last, heq, hrun⟩ := lexRun_interleave esc (ts.map (fun u => ([' '], u))) acc t (hok t (by simp))
      (by intro p hp
          simp at hp
          obtain ⟨u, hu, he⟩ := hp
          subst he
          exact ⟨by simp, by intro x hx; simp at hx; subst hx; decide, hok u (by simp [hu])⟩)
    refine ⟨pre, last, ?_, hrun⟩
    rw [map_snd_pairs] at heq; exact heq

/-- the text of the lines after un-wrapping, without the first line's (absent) indentation;
    `pads` = number of padding blanks after each non-final line (any numbers will do) -/
def wtext (indent : List Char) : List (List Tok) → List Nat → List Char
  | [], _ => []
  | [c], _ => joinWords c
  | c :: cs, [] => joinWords c ++ indent ++ wtext indent cs []
  | c :: cs, p :: ps => joinWords c ++ List.replicate p ' ' ++ indent ++ wtext indent cs ps

theorem pad_dropLast (marker : Char) (line : List Char) (w : Nat) :
    (pad marker line w).dropLast = line ++ List.replicate (w - 1 - line.length) ' ' := by
  simp [pad, List.dropLast_concat]

theorem AllSpace_replicate (n : Nat) : AllSpace (List.replicate n ' ') := by
  intro c hc; simp at hc; rw [hc.2]; decide

theorem wtext_cons2 (indent : List Char) (c c' : List Tok) (cs : List (List Tok)) (pads : List Nat) :
    ∃ k, wtext indent (c :: c' :: cs) pads =
      joinWords c ++ ((List.replicate k ' ' ++ indent) ++ wtext indent (c' :: cs) pads.tail) := by
  cases pads with
  | nil => exact ⟨0, by simp [wtext]⟩
  | cons p ps => exact ⟨p, by simp [wtext]⟩

theorem lexRun_wtext (esc : Option Char) (indent : List Char)
    (hi1 : indent ≠ []) (hi2 : AllSpace indent) :
    ∀ (cs : List (List Tok)) (pads : List Nat) (acc : List Tok), cs ≠ [] →
      (∀ c ∈ cs, c ≠ [] ∧ ∀ t ∈ c, TokOK esc t) →
      ∃ pre last, acc ++ cs.flatten = pre ++ [last] ∧
        lexRun esc (clean acc) (wtext indent cs pads) = ⟨pre, last, none, false⟩
  | [], _, _, h, _ => absurd rfl h
  | [c], pads, acc, _, hok => by
    have : wtext indent [c] pads = joinWords c := by cases pads <;> simp [wtext]
    rw [this]
    simpa using lexRun_joinWords esc acc c (hok c (by simp)).1 (hok c (by simp)).2
  | c :: c' :: cs, pads, acc, _, hok => by
    obtain ⟨p1, l1, h1, hrun1⟩ := lexRun_joinWords esc acc c (hok c (by simp)).1 (hok c (by simp)).2
    have hl1 : l1 ≠ [] := by
      have hc := (hok c (by simp)).1
      obtain ⟨c0, cl, hcl⟩ : ∃ c0 cl, c = c0 ++ [cl] := by
        rcases List.eq_nil_or_concat c with h | ⟨c0, cl, h⟩
        · exact absurd h hc
        · exact ⟨c0, cl, by rw [h, List.concat_eq_append]⟩
      have : acc ++ c0 ++ [cl] = p1 ++ [l1] := by rw [← h1, hcl]; simp
      have := List.append_inj' this rfl
      simp at this
      rw [← this.2]
      exact ((hok c (by simp)).2 cl (by rw [hcl]; simp)).1
    obtain ⟨pre, last, h2, hrun2⟩ := lexRun_wtext esc indent hi1 hi2 (c' :: cs) pads.tail (acc ++ c) (by simp)
      (fun x hx => hok x (by simp at hx ⊢; right; exact hx))
    refine ⟨pre, last, by simpa using h2, ?_⟩
    obtain ⟨k, htxt⟩ := wtext_cons2 indent c c' cs pads
    rw [htxt, lexRun_append, lexRun_append, hrun1,
      lexRun_sep esc p1 l1 hl1 _ (by simp [hi1]) (by
        intro x hx; simp at hx
        rcases hx with h | h
        · rw [h.2]; decide
        · exact hi2 x h)]
    rw [← h1]; exact hrun2

theorem unwrap_render (marker : Char) (padw : Nat) (indent : List Char) :
    ∀ (cs : List (List Tok)) (first : Bool), cs ≠ [] →
      ∃ pads, unwrap (renderLines marker padw indent first cs) =
        (bif first then [] else indent) ++ wtext indent cs pads
  | [], _, h => absurd rfl h
  | [c], first, _ => ⟨[], by simp [renderLines, unwrap, lineText, wtext]⟩
  | c :: c' :: cs, first, _ => by
    obtain ⟨pads, ih⟩ := unwrap_render marker padw indent (c' :: cs) false (by simp)
    refine ⟨(padw - 1 - (lineText indent first c).length) :: pads, ?_⟩
    simp only [renderLines]
    rw [unwrap_cons_ne _ _ (renderLines_ne marker padw indent false (c' :: cs) (by simp)), pad_dropLast, ih]
    simp [lineText, wtext]

end Dagrt.Wrap
