import Dagrt.Proofs.FuseProofs
set_option linter.unusedVariables false
/-!
C16: the renaming fusion computes (`applySubst sub`, `sub` from `disambiguate`) is injective on the
names in use: replacements are fresh (used by neither method) and pairwise different (each is new
to a generator that knows all earlier ones).
-/
namespace Dagrt.Fuse
open Dagrt Dagrt.Sem Dagrt.Names

/-- targets handed out so far are known to the generator and pairwise different -/
structure TgtInv (g : Gen) (sub : List (Name × Name)) : Prop where
  taken : ∀ p ∈ sub, g.conflicting p.2.toList = true
  nodup : (sub.map Prod.snd).Nodup

theorem disambiguate_targets (pred : Name → Bool) :
    ∀ (clash : List Name) (g : Gen) (acc res : List (Name × Name)), TgtInv g acc →
      disambiguate pred clash g acc = some res → (res.map Prod.snd).Nodup
  | [], g, acc, res, hi, h => by simp [disambiguate] at h; subst h; exact hi.nodup
  | c :: cs, g, acc, res, hi, h => by
    unfold disambiguate at h
    split at h
    · split at h
      · rename_i g' n hc
        obtain ⟨hfree, htaken, hmono⟩ := gen_fresh g g' _ n hc
        apply disambiguate_targets pred cs g' _ res _ h
        refine ⟨?_, ?_⟩
        · intro p hp
          simp at hp
          rcases hp with hp | hp
          · exact hmono _ (hi.taken p hp)
          · subst hp; simpa using htaken
        · simp only [List.map_append, List.map_cons, List.map_nil]
          rw [List.nodup_append]
          refine ⟨hi.nodup, by simp, ?_⟩
          intro a ha b hb
          simp only [List.mem_singleton] at hb
          subst hb
          obtain ⟨p, hp, rfl⟩ := List.mem_map.mp ha
          intro he
          have := hi.taken p hp
          rw [he] at this
          simp only [String.toList_ofList] at this
          rw [hfree] at this; cases this
      · cases h
    · exact disambiguate_targets pred cs g acc res hi h

theorem targets_nodup (pred : Name → Bool) (clash : List Name) (g0 : Gen) (sub : List (Name × Name))
    (h : disambiguate pred clash g0 [] = some sub) : (sub.map Prod.snd).Nodup :=
  disambiguate_targets pred clash g0 [] sub ⟨by simp, by simp⟩ h

theorem eq_of_snd_eq {sub : List (Name × Name)} (hn : (sub.map Prod.snd).Nodup) {p q : Name × Name}
    (hp : p ∈ sub) (hq : q ∈ sub) (h : p.2 = q.2) : p = q := by
  induction sub with
  | nil => cases hp
  | cons a r ih =>
    simp only [List.map_cons, List.nodup_cons] at hn
    simp only [List.mem_cons] at hp hq
    rcases hp with rfl | hp <;> rcases hq with rfl | hq
    · rfl
    · exact absurd (List.mem_map.mpr ⟨q, hq, h.symm⟩) hn.1
    · exact absurd (List.mem_map.mpr ⟨p, hp, h⟩) hn.1
    · exact ih hn.2 hp hq

/-- **the renaming is injective on every set of names none of which is a replacement** -/
theorem applySubst_injOn (sub : List (Name × Name)) (hn : (sub.map Prod.snd).Nodup) (S : List Name)
    (hfresh : ∀ p ∈ sub, p.2 ∉ S) :
    ∀ x ∈ S, ∀ y ∈ S, applySubst sub x = applySubst sub y → x = y := by
  intro x hx y hy h
  rcases applySubst_mem sub x with hx' | ⟨p, hp, hp1, hp2⟩ <;> rcases applySubst_mem sub y with hy' | ⟨q, hq, hq1, hq2⟩
  · rw [hx', hy'] at h; exact h
  · rw [hx', hq2] at h; exact absurd (h ▸ hx) (hfresh q hq)
  · rw [hp2, hy'] at h; exact absurd (h ▸ hy) (hfresh p hp)
  · rw [hp2, hq2] at h
    have := eq_of_snd_eq hn hp hq h
    rw [← hp1, ← hq1, this]

end Dagrt.Fuse
