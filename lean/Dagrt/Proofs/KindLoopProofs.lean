import Dagrt.Model.Kinds
set_option linter.unusedVariables false
set_option linter.unusedSimpArgs false
/-!
C09 / C14: what the work-list loop of `SymbolKindFinder.__call__` (`sweep` / `outer`) returns is a
post-fix-point of every statement's rule — except where `SymbolKindTable.set` printed and ignored a
failed unification (the recorded known finding).

The argument: the `changed` flag is only ever raised inside a sweep; the loop returns the table of
a sweep that left it down; so in that sweep every `set` was a no-op, every statement was processed
(retried until it could be inferred) on the very table that is returned, and each no-op `set`
means: the entry exists and the new kind is equal to it, unifies into it, or fails to unify.
-/
namespace Dagrt.Kinds
open Dagrt

/-- `set` was a no-op because the kind was already accounted for -/
def Absorbed (t : Table) (ph n : Name) (k : Kind) : Prop :=
  ∃ old, t.get ph n = some old ∧ (old = k ∨ unifyK k old = .ok old ∨ ∃ e, unifyK k old = .error e)

theorem set_changed_mono (t : Table) (ph n : Name) (k : Kind) (h : t.changed = true) :
    (t.set ph n k).changed = true := by
  unfold Table.set
  simp only
  split
  · rfl
  · split
    · exact h
    · split
      · exact h
      · split
        · exact h
        · rfl

theorem set_unchanged (t : Table) (ph n : Name) (k : Kind) (h : (t.set ph n k).changed = false) :
    t.set ph n k = t ∧ Absorbed t ph n k := by
  unfold Table.set at h ⊢
  simp only at h ⊢
  cases hold : lookupE t.entries (scope ph n, n) with
  | none => simp [hold] at h
  | some old =>
    simp only [hold] at h ⊢
    by_cases heq : old = k
    · simp only [heq, if_true]
      exact ⟨trivial, old, hold, Or.inl heq⟩
    · simp only [heq, if_false] at h ⊢
      cases hu : unifyK k old with
      | error e =>
        simp only [hu]
        exact ⟨trivial, old, hold, Or.inr (Or.inr ⟨e, hu⟩)⟩
      | ok k' =>
        simp only [hu] at h ⊢
        by_cases heq' : old = k'
        · simp only [heq', if_true]
          exact ⟨trivial, old, hold, Or.inr (Or.inl (by rw [hu, heq']))⟩
        · simp [heq'] at h

theorem setLoops_changed_mono (ph : Name) : ∀ (is : List Name) (t : Table), t.changed = true →
    (setLoops t ph is).changed = true
  | [], t, h => h
  | i :: is, t, h => setLoops_changed_mono ph is _ (set_changed_mono t ph i .integer h)

theorem setLoops_unchanged (ph : Name) : ∀ (is : List Name) (t : Table), (setLoops t ph is).changed = false →
    setLoops t ph is = t ∧ ∀ i ∈ is, Absorbed t ph i .integer
  | [], t, h => ⟨rfl, by simp⟩
  | i :: is, t, h => by
    simp only [setLoops] at h ⊢
    have h1 : (t.set ph i .integer).changed = false := by
      cases hc : (t.set ph i .integer).changed with
      | false => rfl
      | true => rw [setLoops_changed_mono ph is _ hc] at h; cases h
    obtain ⟨e1, a1⟩ := set_unchanged t ph i .integer h1
    rw [e1] at h ⊢
    obtain ⟨e2, a2⟩ := setLoops_unchanged ph is t h
    refine ⟨e2, ?_⟩
    intro j hj
    simp only [List.mem_cons] at hj
    rcases hj with rfl | hj
    · exact a1
    · exact a2 j hj

/-- the names and kinds `setZip` pairs up -/
def zipNK : List Name → List Kind → List (Name × Kind)
  | n :: ns, k :: ks => (n, k) :: zipNK ns ks
  | _, _ => []

theorem setZip_changed_mono (ph : Name) : ∀ (ns : List Name) (ks : List Kind) (t : Table), t.changed = true →
    (setZip t ph ns ks).changed = true
  | [], _, t, h => by simpa [setZip] using h
  | _ :: _, [], t, h => by simpa [setZip] using h
  | n :: ns, k :: ks, t, h => by
    simp only [setZip]
    exact setZip_changed_mono ph ns ks _ (set_changed_mono t ph n k h)

theorem setZip_unchanged (ph : Name) : ∀ (ns : List Name) (ks : List Kind) (t : Table),
    (setZip t ph ns ks).changed = false →
    setZip t ph ns ks = t ∧ ∀ p ∈ zipNK ns ks, Absorbed t ph p.1 p.2
  | [], _, t, h => ⟨by simp [setZip], by simp [zipNK]⟩
  | _ :: _, [], t, h => ⟨by simp [setZip], by simp [zipNK]⟩
  | n :: ns, k :: ks, t, h => by
    simp only [setZip] at h ⊢
    have h1 : (t.set ph n k).changed = false := by
      cases hc : (t.set ph n k).changed with
      | false => rfl
      | true => rw [setZip_changed_mono ph ns ks _ hc] at h; cases h
    obtain ⟨e1, a1⟩ := set_unchanged t ph n k h1
    rw [e1] at h ⊢
    obtain ⟨e2, a2⟩ := setZip_unchanged ph ns ks t h
    refine ⟨e2, ?_⟩
    intro p hp
    simp only [zipNK, List.mem_cons] at hp
    rcases hp with rfl | hp
    · exact a1
    · exact a2 p hp

/-- the table is a post-fix-point of the rule of statement `s` (in phase `ph`), up to ignored
    unification failures -/
def StmtFix (reg : Registry) (t : Table) (ph : Name) : KStmt → Prop
  | .assign lhs hasSub _ flat loops =>
    (∀ i ∈ loops, Absorbed t ph i .integer) ∧
    (hasSub = false → ∃ k, infer false reg t ph flat = .ok k ∧ Absorbed t ph lhs k)
  | .callAssign lhs f args kw =>
    ∃ ks, inferCall false reg t ph f args kw = .ok ks ∧ ∀ p ∈ zipNK lhs ks, Absorbed t ph p.1 p.2
  | .other => True

/-- the table in an outcome -/
def Outcome.table? : Outcome → Option Table
  | .done t => some t
  | .skipped t => some t
  | .retry t => some t
  | .fail _ => none

theorem processStmt_changed_mono (reg : Registry) (t : Table) (ph : Name) (s : KStmt) (t' : Table)
    (h : (processStmt reg t ph s).table? = some t') (hc : t.changed = true) : t'.changed = true := by
  cases s with
  | assign lhs hasSub rhs flat loops =>
    simp only [processStmt] at h
    have hl := setLoops_changed_mono ph loops t hc
    cases hasSub with
    | true => simp [Outcome.table?] at h; rw [← h]; exact hl
    | false =>
      simp only [cond_false] at h
      split at h
      · simp [Outcome.table?] at h; rw [← h]; exact hl
      · simp [Outcome.table?] at h
      · simp [Outcome.table?] at h; rw [← h]; exact set_changed_mono _ _ _ _ hl
  | callAssign lhs f args kw =>
    simp only [processStmt] at h
    split at h
    · simp [Outcome.table?] at h; rw [← h]; exact hc
    · simp [Outcome.table?] at h
    · simp [Outcome.table?] at h; rw [← h]; exact setZip_changed_mono ph lhs _ t hc
  | other => simp [processStmt, Outcome.table?] at h; rw [← h]; exact hc

/-- a statement processed without raising the flag left the table alone, and unless it was
    deferred, the table is a post-fix-point of its rule -/
theorem processStmt_unchanged (reg : Registry) (t : Table) (ph : Name) (s : KStmt) (t' : Table)
    (h : (processStmt reg t ph s).table? = some t') (hc : t'.changed = false) :
    t' = t ∧ ((∀ t'', processStmt reg t ph s ≠ .retry t'') → StmtFix reg t ph s) := by
  cases s with
  | assign lhs hasSub rhs flat loops =>
    simp only [processStmt] at h ⊢
    cases hasSub with
    | true =>
      simp only [cond_true, Outcome.table?, Option.some.injEq] at h
      subst h
      obtain ⟨e, a⟩ := setLoops_unchanged ph loops t hc
      exact ⟨e, fun _ => ⟨a, by simp⟩⟩
    | false =>
      simp only [cond_false] at h ⊢
      cases hi : infer false reg (setLoops t ph loops) ph flat with
      | error e =>
        simp only [hi] at h ⊢
        cases e <;> simp [Outcome.table?] at h
        subst h
        obtain ⟨e, a⟩ := setLoops_unchanged ph loops t hc
        exact ⟨e, fun hne => absurd rfl (hne _)⟩
      | ok k =>
        simp only [hi, Outcome.table?, Option.some.injEq] at h ⊢
        subst h
        have hl : (setLoops t ph loops).changed = false := by
          cases hcl : (setLoops t ph loops).changed with
          | false => rfl
          | true => rw [set_changed_mono _ _ _ _ hcl] at hc; cases hc
        obtain ⟨e, a⟩ := setLoops_unchanged ph loops t hl
        obtain ⟨e2, a2⟩ := set_unchanged _ ph lhs k hc
        rw [e2, e]
        rw [e] at hi a2
        exact ⟨rfl, fun _ => ⟨a, fun _ => ⟨k, hi, a2⟩⟩⟩
  | callAssign lhs f args kw =>
    simp only [processStmt] at h ⊢
    cases hi : inferCall false reg t ph f args kw with
    | error e =>
      simp only [hi] at h ⊢
      cases e <;> simp [Outcome.table?] at h
      subst h
      exact ⟨rfl, fun hne => absurd rfl (hne _)⟩
    | ok ks =>
      simp only [hi, Outcome.table?, Option.some.injEq] at h ⊢
      subst h
      obtain ⟨e, a⟩ := setZip_unchanged ph lhs ks t hc
      exact ⟨e, fun _ => ⟨ks, hi, a⟩⟩
  | other =>
    simp only [processStmt, Outcome.table?, Option.some.injEq] at h
    exact ⟨h.symm, fun _ => trivial⟩

/-- **one sweep that leaves the flag down** returns the table it started from, and that table is a
    post-fix-point of every statement in the queue and the buffer -/
theorem sweep_unchanged (reg : Registry) : ∀ (fuel : Nat) (t : Table) (queue buffer : List (Name × KStmt))
    (progress : Bool) (tf : Table),
    sweep reg fuel t queue buffer progress = .ok tf → tf.changed = false →
    tf = t ∧ ∀ p ∈ queue ++ buffer, StmtFix reg t p.1 p.2
  | 0, _, _, _, _, _, h, _ => by simp [sweep] at h
  | fuel + 1, t, queue, buffer, progress, tf, h, hc => by
    unfold sweep at h
    cases hq : queue.reverse with
    | nil =>
      have hqe : queue = [] := by simpa using hq
      simp only [hq] at h
      cases buffer with
      | nil =>
        simp only at h
        cases h
        exact ⟨rfl, by simp [hqe]⟩
      | cons b bs =>
        simp only at h
        cases progress with
        | false => simp at h
        | true =>
          simp only [cond_true] at h
          obtain ⟨e, a⟩ := sweep_unchanged reg fuel t (b :: bs) [] false tf h hc
          exact ⟨e, by simpa [hqe] using a⟩
    | cons last restRev =>
      obtain ⟨ph, s⟩ := last
      have hqe : queue = restRev.reverse ++ [(ph, s)] := by
        have := congrArg List.reverse hq
        simpa using this
      simp only [hq] at h
      -- whatever the outcome, the rest of the sweep runs on the outcome's table
      cases ho : processStmt reg t ph s with
      | fail e => simp [ho] at h
      | done t' =>
        simp only [ho] at h
        obtain ⟨e, a⟩ := sweep_unchanged reg fuel t' restRev.reverse buffer true tf h hc
        obtain ⟨e', fx⟩ := processStmt_unchanged reg t ph s t' (by simp [ho, Outcome.table?]) (e ▸ hc)
        subst e'
        refine ⟨e, ?_⟩
        intro p hp
        rw [hqe] at hp
        simp only [List.mem_append, List.mem_singleton] at hp
        rcases hp with (hp | rfl) | hp
        · exact a p (List.mem_append_left _ hp)
        · exact fx (by intro t''; rw [ho]; simp)
        · exact a p (List.mem_append_right _ hp)
      | skipped t' =>
        simp only [ho] at h
        obtain ⟨e, a⟩ := sweep_unchanged reg fuel t' restRev.reverse buffer progress tf h hc
        obtain ⟨e', fx⟩ := processStmt_unchanged reg t ph s t' (by simp [ho, Outcome.table?]) (e ▸ hc)
        subst e'
        refine ⟨e, ?_⟩
        intro p hp
        rw [hqe] at hp
        simp only [List.mem_append, List.mem_singleton] at hp
        rcases hp with (hp | rfl) | hp
        · exact a p (List.mem_append_left _ hp)
        · exact fx (by intro t''; rw [ho]; simp)
        · exact a p (List.mem_append_right _ hp)
      | retry t' =>
        simp only [ho] at h
        obtain ⟨e, a⟩ := sweep_unchanged reg fuel t' restRev.reverse (buffer ++ [(ph, s)]) progress tf h hc
        obtain ⟨e', _⟩ := processStmt_unchanged reg t ph s t' (by simp [ho, Outcome.table?]) (e ▸ hc)
        subst e'
        refine ⟨e, ?_⟩
        intro p hp
        rw [hqe] at hp
        simp only [List.mem_append, List.mem_singleton] at hp
        rcases hp with (hp | rfl) | hp
        · exact a p (List.mem_append_left _ hp)
        · exact a _ (List.mem_append_right _ (List.mem_append_right _ (List.mem_singleton.mpr rfl)))
        · exact a p (List.mem_append_right _ (List.mem_append_left _ hp))

/-- **the outer loop** returns the table of a sweep over the whole program that left the flag down -/
theorem outer_postfix (reg : Registry) (prog : List (Name × KStmt)) : ∀ (fuel : Nat) (t tf : Table),
    outer reg prog fuel t = .ok tf → ∀ p ∈ prog, StmtFix reg tf p.1 p.2
  | 0, _, _, h => by simp [outer] at h
  | fuel + 1, t, tf, h => by
    unfold outer at h
    cases hs : sweep reg (sweepFuel prog.length) { t with changed := false } prog [] false with
    | error e => simp [hs] at h
    | ok t' =>
      simp only [hs] at h
      cases hc : t'.changed with
      | true =>
        simp only [hc, cond_true] at h
        exact outer_postfix reg prog fuel t' tf h
      | false =>
        simp only [hc, cond_false] at h
        have htf : t' = tf := by simpa using h
        subst htf
        obtain ⟨e, a⟩ := sweep_unchanged reg _ _ prog [] false t' hs hc
        intro p hp
        rw [e]
        exact a p (by simpa using hp)

theorem inferAll_postfix (reg : Registry) (prog : List (Name × KStmt)) (t : Table)
    (h : inferAll reg prog = .ok t) : ∀ p ∈ prog, StmtFix reg t p.1 p.2 := by
  unfold inferAll at h
  cases ho : outer reg prog (4 * countNames prog + 4) Table.init with
  | error e => simp [ho, bind, Except.bind] at h
  | ok t' =>
    simp only [ho, bind, Except.bind] at h
    cases hf : finalCheck reg t' prog with
    | error e => simp [hf] at h
    | ok _ =>
      simp only [hf] at h
      have htf : t' = t := by simpa using h
      subst htf
      exact outer_postfix reg prog _ _ _ ho

/-! ### where entries live: state variables in the global table, everything else per phase -/

theorem lookupE_updateE (es : List ((Name × Name) × Kind)) (key key' : Name × Name) (v : Kind) :
    lookupE (updateE es key v) key' = if key = key' then some v else lookupE es key' := by
  induction es with
  | nil => simp [updateE, lookupE]
  | cons p r ih =>
    obtain ⟨k0, v0⟩ := p
    simp only [updateE]
    by_cases h0 : k0 = key
    · subst h0
      simp only [if_true, lookupE]
      split <;> rfl
    · simp only [h0, if_false, lookupE, ih]
      by_cases h1 : key = key'
      · subst h1; simp [h0]
      · simp [h1]

/-- every entry sits where `scope` puts it -/
def WellScoped (t : Table) : Prop :=
  ∀ s n k, lookupE t.entries (s, n) = some k → (s = "" ↔ isState n = true)

theorem wellScoped_init : WellScoped Table.init := by
  intro s n k h
  simp only [Table.init, lookupE] at h
  split at h
  · rename_i heq; cases heq; simp; decide +kernel
  · split at h
    · rename_i heq; cases heq; simp; decide +kernel
    · cases h

theorem scope_spec (ph n : Name) (hph : ph ≠ "") : (scope ph n = "" ↔ isState n = true) := by
  unfold scope
  cases isState n <;> simp [hph]

theorem set_wellScoped (t : Table) (ph n : Name) (k : Kind) (hph : ph ≠ "") (h : WellScoped t) :
    WellScoped (t.set ph n k) := by
  have hupd : ∀ v, WellScoped { entries := updateE t.entries (scope ph n, n) v, changed := true } := by
    intro v s m kk hl
    simp only [lookupE_updateE] at hl
    split at hl
    · rename_i heq; cases heq; exact scope_spec ph n hph
    · exact h s m kk hl
  unfold Table.set
  simp only
  split
  · exact hupd k
  · split
    · exact h
    · split
      · exact h
      · split
        · exact h
        · exact hupd _

theorem setLoops_wellScoped (ph : Name) (hph : ph ≠ "") : ∀ (is : List Name) (t : Table), WellScoped t →
    WellScoped (setLoops t ph is)
  | [], _, h => h
  | i :: is, t, h => setLoops_wellScoped ph hph is _ (set_wellScoped t ph i .integer hph h)

theorem setZip_wellScoped (ph : Name) (hph : ph ≠ "") : ∀ (ns : List Name) (ks : List Kind) (t : Table),
    WellScoped t → WellScoped (setZip t ph ns ks)
  | [], _, t, h => by simpa [setZip] using h
  | _ :: _, [], t, h => by simpa [setZip] using h
  | n :: ns, k :: ks, t, h => by
    simp only [setZip]; exact setZip_wellScoped ph hph ns ks _ (set_wellScoped t ph n k hph h)

theorem processStmt_wellScoped (reg : Registry) (t : Table) (ph : Name) (hph : ph ≠ "") (s : KStmt) (t' : Table)
    (h : (processStmt reg t ph s).table? = some t') (hw : WellScoped t) : WellScoped t' := by
  cases s with
  | assign lhs hasSub rhs flat loops =>
    simp only [processStmt] at h
    have hl := setLoops_wellScoped ph hph loops t hw
    cases hasSub with
    | true => simp [Outcome.table?] at h; rw [← h]; exact hl
    | false =>
      simp only [cond_false] at h
      split at h
      · simp [Outcome.table?] at h; rw [← h]; exact hl
      · simp [Outcome.table?] at h
      · simp [Outcome.table?] at h; rw [← h]; exact set_wellScoped _ _ _ _ hph hl
  | callAssign lhs f args kw =>
    simp only [processStmt] at h
    split at h
    · simp [Outcome.table?] at h; rw [← h]; exact hw
    · simp [Outcome.table?] at h
    · simp [Outcome.table?] at h; rw [← h]; exact setZip_wellScoped ph hph lhs _ t hw
  | other => simp [processStmt, Outcome.table?] at h; rw [← h]; exact hw

theorem sweep_wellScoped (reg : Registry) : ∀ (fuel : Nat) (t : Table) (queue buffer : List (Name × KStmt))
    (progress : Bool) (tf : Table), (∀ p ∈ queue ++ buffer, p.1 ≠ "") → WellScoped t →
    sweep reg fuel t queue buffer progress = .ok tf → WellScoped tf
  | 0, _, _, _, _, _, _, _, h => by simp [sweep] at h
  | fuel + 1, t, queue, buffer, progress, tf, hph, hw, h => by
    unfold sweep at h
    cases hq : queue.reverse with
    | nil =>
      have hqe : queue = [] := by simpa using hq
      simp only [hq] at h
      cases buffer with
      | nil => simp only at h; cases h; exact hw
      | cons b bs =>
        simp only at h
        cases progress with
        | false => simp at h
        | true =>
          simp only [cond_true] at h
          exact sweep_wellScoped reg fuel t (b :: bs) [] false tf (by simpa [hqe] using hph) hw h
    | cons last restRev =>
      obtain ⟨ph, s⟩ := last
      have hqe : queue = restRev.reverse ++ [(ph, s)] := by
        have := congrArg List.reverse hq
        simpa using this
      have hph1 : ph ≠ "" := hph (ph, s) (by rw [hqe]; simp)
      have hrest : ∀ p ∈ restRev.reverse ++ (buffer ++ [(ph, s)]), p.1 ≠ "" := by
        intro p hp
        simp only [List.mem_append, List.mem_singleton] at hp
        rcases hp with hp | hp | rfl
        · exact hph p (by rw [hqe]; simp [List.mem_append, hp])
        · exact hph p (by simp [List.mem_append, hp])
        · exact hph1
      have hrest' : ∀ p ∈ restRev.reverse ++ buffer, p.1 ≠ "" := by
        intro p hp
        apply hrest p
        simp only [List.mem_append] at hp ⊢
        rcases hp with hp | hp
        · exact Or.inl hp
        · exact Or.inr (Or.inl hp)
      simp only [hq] at h
      cases ho : processStmt reg t ph s with
      | fail e => simp [ho] at h
      | done t' =>
        simp only [ho] at h
        exact sweep_wellScoped reg fuel t' _ _ _ tf hrest'
          (processStmt_wellScoped reg t ph hph1 s t' (by simp [ho, Outcome.table?]) hw) h
      | skipped t' =>
        simp only [ho] at h
        exact sweep_wellScoped reg fuel t' _ _ _ tf hrest'
          (processStmt_wellScoped reg t ph hph1 s t' (by simp [ho, Outcome.table?]) hw) h
      | retry t' =>
        simp only [ho] at h
        exact sweep_wellScoped reg fuel t' _ _ _ tf (by simpa [List.append_assoc] using hrest)
          (processStmt_wellScoped reg t ph hph1 s t' (by simp [ho, Outcome.table?]) hw) h

theorem outer_wellScoped (reg : Registry) (prog : List (Name × KStmt)) (hph : ∀ p ∈ prog, p.1 ≠ "") :
    ∀ (fuel : Nat) (t tf : Table), WellScoped t → outer reg prog fuel t = .ok tf → WellScoped tf
  | 0, _, _, _, h => by simp [outer] at h
  | fuel + 1, t, tf, hw, h => by
    unfold outer at h
    cases hs : sweep reg (sweepFuel prog.length) { t with changed := false } prog [] false with
    | error e => simp [hs] at h
    | ok t' =>
      have hw' : WellScoped t' := sweep_wellScoped reg _ { t with changed := false } prog [] false t'
        (by simpa using hph) hw hs
      simp only [hs] at h
      cases hc : t'.changed with
      | true =>
        simp only [hc, cond_true] at h
        exact outer_wellScoped reg prog hph fuel t' tf hw' h
      | false =>
        simp only [hc, cond_false] at h
        have htf : t' = tf := by simpa using h
        subst htf
        exact hw'

theorem inferAll_wellScoped (reg : Registry) (prog : List (Name × KStmt)) (hph : ∀ p ∈ prog, p.1 ≠ "") (t : Table)
    (h : inferAll reg prog = .ok t) : WellScoped t := by
  unfold inferAll at h
  cases ho : outer reg prog (4 * countNames prog + 4) Table.init with
  | error e => simp [ho, bind, Except.bind] at h
  | ok t' =>
    simp only [ho, bind, Except.bind] at h
    cases hf : finalCheck reg t' prog with
    | error e => simp [hf] at h
    | ok _ =>
      simp only [hf] at h
      have htf : t' = t := by simpa using h
      subst htf
      exact outer_wellScoped reg prog hph _ _ _ wellScoped_init ho

/-- in a well-scoped table the mapper's look-up (global table, then the phase's) finds exactly the
    entry `set` maintains for that name -/
theorem lookupVar_eq_get (t : Table) (ph n : Name) (hph : ph ≠ "") (hw : WellScoped t) :
    lookupVar t ph n = t.get ph n := by
  unfold lookupVar Table.get scope
  cases hs : isState n with
  | true =>
    simp only [cond_true]
    cases hg : lookupE t.entries ("", n) with
    | some k => rfl
    | none =>
      simp only
      cases hp : lookupE t.entries (ph, n) with
      | none => rfl
      | some k => exact absurd ((hw ph n k hp).mpr hs) hph
  | false =>
    simp only [cond_false]
    cases hg : lookupE t.entries ("", n) with
    | none => rfl
    | some k =>
      have := (hw "" n k hg).mp rfl
      rw [hs] at this; cases this

end Dagrt.Kinds
