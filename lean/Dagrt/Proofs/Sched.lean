/-! generic scheduling lemma: sorting a schedule whose inversions commute does not change the result -/
namespace Dagrt.Sched
variable {S : Type} (sem : Nat → S → S)

def exec (l : List Nat) (σ : S) : S := l.foldl (fun s i => sem i s) σ
def Comm (i j : Nat) : Prop := ∀ σ, sem i (sem j σ) = sem j (sem i σ)

def ins (x : Nat) : List Nat → List Nat
  | [] => [x]
  | y :: ys => if x ≤ y then x :: y :: ys else y :: ins x ys
def isort : List Nat → List Nat
  | [] => []
  | x :: xs => ins x (isort xs)

theorem exec_cons (x : Nat) (l : List Nat) (σ : S) : exec sem (x :: l) σ = exec sem l (sem x σ) := rfl

theorem exec_ins (x : Nat) : ∀ (l : List Nat) (σ : S),
    (∀ y ∈ l, y < x → Comm sem x y) → exec sem (ins x l) σ = exec sem (x :: l) σ
  | [], σ, _ => rfl
  | y :: ys, σ, h => by
    unfold ins
    split
    · rfl
    · rename_i hxy
      have hyx : y < x := Nat.lt_of_not_le hxy
      have hc := h y (List.mem_cons_self) hyx
      rw [exec_cons, exec_ins x ys (sem y σ) (fun z hz => h z (List.mem_cons_of_mem _ hz))]
      simp only [exec_cons]
      rw [hc σ]

theorem mem_ins {x z : Nat} : ∀ {l : List Nat}, z ∈ ins x l ↔ z = x ∨ z ∈ l
  | [] => by simp [ins]
  | y :: ys => by
    unfold ins; split
    · simp
    · simp [mem_ins (l := ys)]; constructor
      · rintro (h | h | h) <;> simp [h]
      · rintro (h | h | h) <;> simp [h]

theorem mem_isort {z : Nat} : ∀ {l : List Nat}, z ∈ isort l ↔ z ∈ l
  | [] => by simp [isort]
  | x :: xs => by simp [isort, mem_ins, mem_isort (l := xs)]

/-- if every inversion pair of the schedule commutes, the sorted schedule computes the same -/
theorem exec_isort : ∀ (l : List Nat) (σ : S),
    l.Pairwise (fun a b => b < a → Comm sem a b) → exec sem (isort l) σ = exec sem l σ
  | [], _, _ => rfl
  | x :: xs, σ, h => by
    have ⟨hx, hxs⟩ := List.pairwise_cons.mp h
    simp only [isort]
    rw [exec_ins sem x (isort xs) σ (fun y hy hlt => hx y (mem_isort.mp hy) hlt)]
    rw [exec_cons, exec_isort xs (sem x σ) hxs, exec_cons]

theorem ins_sorted {x : Nat} : ∀ {l : List Nat}, l.Pairwise (· ≤ ·) → (ins x l).Pairwise (· ≤ ·)
  | [], _ => by simp [ins]
  | y :: ys, h => by
    have ⟨hy, hys⟩ := List.pairwise_cons.mp h
    unfold ins
    split
    · rename_i hxy
      refine List.Pairwise.cons ?_ h
      intro z hz; simp at hz; rcases hz with e | hz
      · subst e; exact hxy
      · have := hy z hz; omega
    · rename_i hxy
      refine List.Pairwise.cons ?_ (ins_sorted hys)
      intro z hz
      rcases mem_ins.mp hz with e | hz
      · subst e; omega
      · exact hy z hz

theorem isort_sorted : ∀ l : List Nat, (isort l).Pairwise (· ≤ ·)
  | [] => by simp [isort]
  | x :: xs => by simp only [isort]; exact ins_sorted (isort_sorted xs)

theorem ins_perm (x : Nat) : ∀ l : List Nat, (ins x l).Perm (x :: l)
  | [] => by simp [ins]
  | y :: ys => by
    unfold ins
    split
    · exact List.Perm.refl _
    · exact ((ins_perm x ys).cons y).trans (List.Perm.swap x y ys)

theorem isort_perm : ∀ l : List Nat, (isort l).Perm l
  | [] => by simp [isort]
  | x :: xs => by
    simp only [isort]
    exact (ins_perm x (isort xs)).trans ((isort_perm xs).cons x)

theorem range_sorted (n : Nat) : (List.range n).Pairwise (· ≤ ·) := by
  have := List.pairwise_lt_range (n := n)
  exact this.imp (fun h => Nat.le_of_lt h)

/-- sorting a permutation of `0 … n-1` gives program order -/
theorem isort_of_perm_range {l : List Nat} {n : Nat} (h : l.Perm (List.range n)) : isort l = List.range n := by
  apply List.Perm.eq_of_pairwise (le := (· ≤ ·))
  · intro a b _ _ h1 h2; omega
  · exact isort_sorted l
  · exact range_sorted n
  · exact (isort_perm l).trans h

end Dagrt.Sched
