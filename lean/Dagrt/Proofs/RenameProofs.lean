import Dagrt.Model.Fuse
import Dagrt.Proofs.SemProofs
/-!
C16: renaming commutes with execution (`exec_rename`) - the substitution lemma for the statement
semantics: mutual induction over the seven evaluator functions, then assignments (subscripts, loop
nests with their counters renamed as well), calls, yields and the control statements.
-/
set_option linter.unusedVariables false
set_option linter.unusedSectionVars false
namespace Dagrt.Sem
open Dagrt Dagrt.Fuse

def renEnv (ρ : Name → Name) (env : List (Name × Int)) : List (Name × Int) := env.map (fun p => (ρ p.1, p.2))

theorem lookupEnv_ren (ρ : Name → Name) (hinj : ∀ x y, ρ x = ρ y → x = y) (x : Name) :
    ∀ env, lookupEnv (renEnv ρ env) (ρ x) = lookupEnv env x
  | [] => rfl
  | (k, v) :: r => by
    simp only [renEnv, List.map_cons, lookupEnv]
    by_cases h : k = x
    · subst h; simp
    · have : ρ k ≠ ρ x := fun he => h (hinj _ _ he)
      simp only [h, this, if_false]
      exact lookupEnv_ren ρ hinj x r

def Rel (ρ : Name → Name) (σ σ' : Store) : Prop := ∀ x, σ' (ρ x) = σ x

section
variable (F : Funs) (ρ : Name → Name) (hinj : ∀ x y, ρ x = ρ y → x = y)
  (hF : ∀ f vs ks, F (ρ f) vs ks = F f vs ks) (σ σ' : Store) (hrel : Rel ρ σ σ')
include hinj hF hrel

mutual
theorem evalI_ren : ∀ (e : Expr) (env : List (Name × Int)),
    (evalI F (renEnv ρ env) σ' (renameExpr ρ e)).1 = (evalI F env σ e).1
  | .const c, env => by cases c <;> simp [evalI, renameExpr]
  | .var x, env => by
    simp only [evalI, renameExpr, lookupEnv_ren ρ hinj x env]
    cases lookupEnv env x with
    | some i => rfl
    | none => simp [Store.get, hrel x]
  | .sum cs, env => by simp only [evalI, renameExpr]; exact evalFold_ren Val.add (.int 0) cs env
  | .prod cs, env => by simp only [evalI, renameExpr]; exact evalFold_ren Val.mul (.int 1) cs env
  | .quot a b, env => by simp only [evalI, renameExpr, evalI_ren a env, evalI_ren b env]
  | .pow a b, env => by simp only [evalI, renameExpr, evalI_ren a env, evalI_ren b env]
  | .call f args kw, env => by
    simp only [evalI, renameExpr, evalArgs_ren args env, evalKw_ren kw env, hF]
  | .sub a i, env => by simp only [evalI, renameExpr, evalI_ren a env, evalI_ren i env]
  | .attr a n, env => by simp only [evalI, renameExpr, evalI_ren a env]
  | .cmp o a b, env => by simp only [evalI, renameExpr, evalI_ren a env, evalI_ren b env]
  | .lnot a, env => by simp only [evalI, renameExpr, evalI_ren a env]
  | .land cs, env => by simp only [evalI, renameExpr]; exact evalAll_ren cs env
  | .lor cs, env => by simp only [evalI, renameExpr]; exact evalAny_ren cs env
  | .ite c t e, env => by
    simp only [evalI, renameExpr, evalI_ren c env]
    cases (evalI F env σ c).1.truthy <;> simp [evalI_ren t env, evalI_ren e env]
  | .min cs, env => by simp only [evalI, renameExpr]; exact evalFold1_ren Val.min2 cs env
  | .max cs, env => by simp only [evalI, renameExpr]; exact evalFold1_ren Val.max2 cs env
theorem evalFold_ren (op : Val → Val → Val) : ∀ (acc : Val) (cs : List Expr) (env : List (Name × Int)),
    (evalFold F (renEnv ρ env) σ' op acc (renameL ρ cs)).1 = (evalFold F env σ op acc cs).1
  | acc, [], env => by simp [evalFold, renameL]
  | acc, c :: cs, env => by
    simp only [evalFold, renameL, evalI_ren c env]
    exact evalFold_ren op _ cs env
theorem evalFold1_ren (op : Val → Val → Val) : ∀ (cs : List Expr) (env : List (Name × Int)),
    (evalFold1 F (renEnv ρ env) σ' op (renameL ρ cs)).1 = (evalFold1 F env σ op cs).1
  | [], env => by simp [evalFold1, renameL]
  | [c], env => by simp only [evalFold1, renameL]; exact evalI_ren c env
  | c :: d :: cs, env => by
    simp only [evalFold1, renameL, evalI_ren c env]
    have := evalFold1_ren op (d :: cs) env
    simp only [renameL] at this
    rw [this]
theorem evalAll_ren : ∀ (cs : List Expr) (env : List (Name × Int)),
    (evalAll F (renEnv ρ env) σ' (renameL ρ cs)).1 = (evalAll F env σ cs).1
  | [], env => by simp [evalAll, renameL]
  | c :: cs, env => by
    simp only [evalAll, renameL, evalI_ren c env]
    cases (evalI F env σ c).1.truthy <;> simp [evalAll_ren cs env]
theorem evalAny_ren : ∀ (cs : List Expr) (env : List (Name × Int)),
    (evalAny F (renEnv ρ env) σ' (renameL ρ cs)).1 = (evalAny F env σ cs).1
  | [], env => by simp [evalAny, renameL]
  | c :: cs, env => by
    simp only [evalAny, renameL, evalI_ren c env]
    cases (evalI F env σ c).1.truthy <;> simp [evalAny_ren cs env]
theorem evalArgs_ren : ∀ (cs : List Expr) (env : List (Name × Int)),
    (evalArgs F (renEnv ρ env) σ' (renameL ρ cs)).1 = (evalArgs F env σ cs).1
  | [], env => by simp [evalArgs, renameL]
  | c :: cs, env => by simp only [evalArgs, renameL, evalI_ren c env, evalArgs_ren cs env]
theorem evalKw_ren : ∀ (cs : List (Name × Expr)) (env : List (Name × Int)),
    (evalKw F (renEnv ρ env) σ' (renameK ρ cs)).1 = (evalKw F env σ cs).1
  | [], env => by simp [evalKw, renameK]
  | (k, c) :: cs, env => by simp only [evalKw, renameK, evalI_ren c env, evalKw_ren cs env]
end

theorem rel_set (x : Name) (c : Cell) {σ σ' : Store} (h : Rel ρ σ σ') : Rel ρ (σ.set x c) (σ'.set (ρ x) c) := by
  intro y
  simp only [Store.set]
  by_cases hy : y = x
  · subst hy; simp
  · have : ρ y ≠ ρ x := fun he => hy (hinj _ _ he)
    simp [hy, this]
    exact h y

theorem rel_get {σ σ' : Store} (h : Rel ρ σ σ') (x : Name) : σ'.get (ρ x) = σ.get x := by
  simp [Store.get, h x]

theorem assignOnce_ren (env : List (Name × Int)) (lhs : Name) (sub : Option Expr) (rhs : Expr) (a a' : Acc)
    (h : Rel ρ a.σ a'.σ) :
    Rel ρ (assignOnce F env lhs sub rhs a).σ
      (assignOnce F (renEnv ρ env) (ρ lhs) (sub.map (renameExpr ρ)) (renameExpr ρ rhs) a').σ := by
  cases sub with
  | none =>
    simp only [assignOnce, Option.map_none, Acc.write, Acc.read]
    rw [evalI_ren F ρ hinj hF a.σ a'.σ h rhs env]
    exact rel_set F ρ hinj hF σ σ' hrel lhs _ h
  | some i =>
    simp only [assignOnce, Option.map_some, Acc.write, Acc.read]
    rw [evalI_ren F ρ hinj hF a.σ a'.σ h rhs env, evalI_ren F ρ hinj hF a.σ a'.σ h i env,
      rel_get F ρ hinj hF σ σ' hrel h lhs]
    exact rel_set F ρ hinj hF σ σ' hrel lhs _ h

mutual
theorem runLoops_ren (lhs : Name) (sub : Option Expr) (rhs : Expr) :
    ∀ (loops : List (Name × Expr × Expr)) (env : List (Name × Int)) (a a' : Acc), Rel ρ a.σ a'.σ →
      Rel ρ (runLoops F lhs sub rhs loops env a).σ
        (runLoops F (ρ lhs) (sub.map (renameExpr ρ)) (renameExpr ρ rhs) (renameLoops ρ loops) (renEnv ρ env) a').σ
  | [], env, a, a', h => by
    simp only [runLoops, renameLoops]
    exact assignOnce_ren F ρ hinj hF σ σ' hrel env lhs sub rhs a a' h
  | (i, lo, hi) :: rest, env, a, a', h => by
    simp only [runLoops, renameLoops]
    rw [evalI_ren F ρ hinj hF a.σ a'.σ h lo env, evalI_ren F ρ hinj hF a.σ a'.σ h hi env]
    exact iterate_ren lhs sub rhs rest env i _ _ _ _ (by simpa [Acc.read] using h)
theorem iterate_ren (lhs : Name) (sub : Option Expr) (rhs : Expr) (rest : List (Name × Expr × Expr))
    (env : List (Name × Int)) (i : Name) :
    ∀ (k : Int) (n : Nat) (a a' : Acc), Rel ρ a.σ a'.σ →
      Rel ρ (iterate F lhs sub rhs rest env i k n a).σ
        (iterate F (ρ lhs) (sub.map (renameExpr ρ)) (renameExpr ρ rhs) (renameLoops ρ rest) (renEnv ρ env) (ρ i) k n a').σ
  | k, 0, a, a', h => by simpa [iterate] using h
  | k, n + 1, a, a', h => by
    simp only [iterate]
    apply iterate_ren lhs sub rhs rest env i (k + 1) n
    have := runLoops_ren lhs sub rhs rest ((i, k) :: env) a a' h
    simpa [renEnv] using this
end

theorem assignResults_ren : ∀ (xs : List Name) (vs : List Val) (a a' : Acc), Rel ρ a.σ a'.σ →
    Rel ρ (assignResults a xs vs).σ (assignResults a' (xs.map ρ) vs).σ
  | [], _, a, a', h => by simpa [assignResults] using h
  | x :: xs, [], a, a', h => by simpa [assignResults] using h
  | x :: xs, v :: vs, a, a', h => by
    simp only [assignResults, List.map_cons]
    apply assignResults_ren xs vs
    simp only [Acc.write]
    exact rel_set F ρ hinj hF σ σ' hrel x _ h
end

/-- **Renaming commutes with execution**: a statement whose names were renamed injectively (the
    event pseudo-variable and the meaning of function symbols untouched), run on a store that holds
    under the new names what the original store holds under the old ones, leaves a store that again
    holds under the new names what the original statement leaves under the old ones -/
theorem exec_rename (F : Funs) (ρ : Name → Name) (hinj : ∀ x y, ρ x = ρ y → x = y)
    (hF : ∀ f vs ks, F (ρ f) vs ks = F f vs ks) (hexec : ρ EXEC = EXEC) (s : Stmt) (σ σ' : Store)
    (h : Rel ρ σ σ') : Rel ρ (exec F s σ) (exec F (renameStmt ρ s) σ') := by
  have hE : σ' EXEC = σ EXEC := by have := h EXEC; rwa [hexec] at this
  have hst : σ'.status = σ.status := by simp [Store.status, hE]
  have hlog : σ'.log = σ.log := by simp [Store.log, hE]
  unfold exec execI
  rw [hst]
  cases hs : σ.status <;> try exact h
  simp only
  have hc := evalI_ren F ρ hinj hF σ σ' h s.cond []
  simp only [renEnv, List.map_nil] at hc
  simp only [renameStmt]
  rw [hc]
  cases (evalI F [] σ s.cond).1.truthy
  · simpa [Acc.read] using h
  · simp only [cond_true]
    cases hk : s.kind with
    | assign lhs sub rhs loops =>
      simp only
      have := runLoops_ren F ρ hinj hF σ σ' h lhs sub rhs loops []
        (({ σ := σ, reads := [EXEC], writes := [] } : Acc).read (evalI F [] σ s.cond).2)
        (({ σ := σ', reads := [EXEC], writes := [] } : Acc).read (evalI F [] σ' (renameExpr ρ s.cond)).2)
        (by simpa [Acc.read] using h)
      simpa [renEnv] using this
    | callAssign lhs f args kw =>
      simp only [Acc.read]
      have ha := evalArgs_ren F ρ hinj hF σ σ' h args []
      have hk' := evalKw_ren F ρ hinj hF σ σ' h kw []
      simp only [renEnv, List.map_nil] at ha hk'
      rw [ha, hk', hF]
      exact assignResults_ren F ρ hinj hF σ σ' h lhs _ _ _ (by simpa using h)
    | yield e t tid comp =>
      simp only [Acc.read, setExec]
      have h1 := evalI_ren F ρ hinj hF σ σ' h t []
      have h2 := evalI_ren F ρ hinj hF σ σ' h e []
      simp only [renEnv, List.map_nil] at h1 h2
      rw [h1, h2, hlog]
      have := rel_set F ρ hinj hF σ σ' h EXEC (.exec (σ.log ++ [.stateComputed (evalI F [] σ t).1 tid comp (evalI F [] σ e).1]) .running) h
      rwa [hexec] at this
    | raise err =>
      simp only [Acc.read, setExec, hlog]
      have := rel_set F ρ hinj hF σ σ' h EXEC (.exec σ.log (.raised err)) h
      rwa [hexec] at this
    | fail =>
      simp only [Acc.read, setExec, hlog]
      have := rel_set F ρ hinj hF σ σ' h EXEC (.exec σ.log .failed) h
      rwa [hexec] at this
    | switch p =>
      simp only [Acc.read, setExec, hlog]
      have := rel_set F ρ hinj hF σ σ' h EXEC (.exec σ.log (.switched p)) h
      rwa [hexec] at this
    | nop => simpa [Acc.read] using h

end Dagrt.Sem
