import Dagrt.Driver.C16
import Dagrt.Model.Passes
namespace Dagrt.Driver.C07
open Lean Dagrt.Driver Dagrt Dagrt.Sem Dagrt.Fuse Dagrt.Passes

def dedupS : List String → List String
  | [] => []
  | x :: xs => if xs.contains x then dedupS xs else x :: dedupS xs

def fstmtJ (s : FStmt) : Json :=
  jobj [("id", jstr (String.ofList s.id)),
        ("deps", jarr (((dedupS (s.deps.map String.ofList)).foldl (fun acc x => C16.insertS x acc) []).map jstr)),
        ("stmt", stmtJ s.stmt)]

def passOf (s : String) : R Pass :=
  if s = "selfDep" then pure .selfDep else if s = "argIso" then pure .argIso
  else if s = "callIso" then pure .callIso else if s = "iteExp" then pure .iteExp
  else throw s!"unknown pass {s}"

def handle (op : String) (j : Json) : R Json := do
  match op with
  | "pass" =>
    let stmts ← listOf C16.fstmtOf (← field j "stmts")
    let orders ← listOf (listOf str?) (← field j "orders")
    let name ← str? (← field j "pass")
    -- names the loop / conditional nodes of the phase mention (they are the same for every pass)
    let extra ← match j.getObjVal? "extra" with
      | .ok x => listOf str? x
      | .error _ => pure []
    if name = "pipeline" then
      let s1 := (applyPass .selfDep stmts orders extra).flatten
      let s2 := (applyPass .argIso s1 [] extra).flatten
      let s3 := (applyPass .callIso s2 [] extra).flatten
      let s4 := (applyPass .iteExp s3 [] extra).flatten
      pure (jobj [("out", jarr (s4.map fstmtJ))])
    else
      let pass ← passOf name
      let res := applyPass pass stmts orders extra
      pure (jobj [("out", jarr (res.map fun l => jarr (l.map fstmtJ)))])
  | _ => throw s!"unknown op C07.{op}"

end Dagrt.Driver.C07
