import Dagrt.Driver.SemJson
import Dagrt.Model.Fuse
namespace Dagrt.Driver.C16
open Lean Dagrt.Driver Dagrt Dagrt.Sem Dagrt.Fuse

def fstmtOf (j : Json) : R FStmt := do
  pure { id := (← str? (← field j "id")).toList,
         deps := (← listOf str? (← field j "deps")).map String.toList,
         stmt := ← stmtOfJ (← field j "stmt") }

def insertS (x : String) : List String → List String
  | [] => [x]
  | y :: ys => if x ≤ y then x :: y :: ys else y :: insertS x ys

def fstmtJ (s : FStmt) : Json :=
  jobj [("id", jstr (String.ofList s.id)),
        ("deps", jarr (((s.deps.map String.ofList).foldl (fun acc x => insertS x acc) []).map jstr)),
        ("stmt", stmtJ s.stmt)]

def predOf (name : String) : Name → Bool :=
  if name = "all" then fun _ => true
  else if name = "none" then fun _ => false
  else fun n => !Dagrt.Kinds.isState n       -- "default"

def handle (op : String) (j : Json) : R Json := do
  match op with
  | "fuse" =>
    let a ← listOf fstmtOf (← field j "A")
    let b ← listOf fstmtOf (← field j "B")
    let clash ← listOf str? (← field j "clash")
    let pred ← str? (← field j "pred")
    match fuse (predOf pred) clash a b with
    | some r => pure (jobj [("ok", jarr (r.map fstmtJ))])
    | none => pure (jobj [("err", jstr "KeyError")])
  | _ => throw s!"unknown op C16.{op}"

end Dagrt.Driver.C16
