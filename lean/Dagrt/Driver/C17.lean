import Dagrt.Driver.ExprJson
import Dagrt.Model.Match
namespace Dagrt.Driver.C17
open Lean Dagrt.Driver Dagrt Dagrt.Match

def pairOf (j : Json) : R (Name × Name) :=
  match j with
  | .arr #[.str a, .str b] => pure (a, b)
  | _ => throw "bad pair"

def eqOf (j : Json) : R (Name × Expr) :=
  match j with
  | .arr #[.str a, e] => do pure (a, ← exprOf e)
  | _ => throw "bad equation"

def sortEqs (l : List (Name × Expr)) : List (Name × Expr) :=
  (l.toArray.qsort (fun a b => a.1 < b.1)).toList

def handle (op : String) (j : Json) : R Json := do
  match op with
  | "match" =>
    let tmpl ← exprOf (← field j "tmpl")
    let target ← exprOf (← field j "target")
    let cands ← listOf str? (← field j "cands")
    let firsts ← listOf pairOf (← field j "vfirst")
    let vfirst : Name → Name → Bool := fun x y => firsts.contains (x, y)
    let pre ← match fieldD j "pre" Json.null with
      | Json.null => pure none
      | p => do pure (some (← listOf eqOf p))
    if !(supported tmpl && wfT tmpl) then
      pure (jobj [("unsupported", jbool true)])
    else
      -- number of records the unifier returns (the code warns when there are several)
      let recs : List URec := match pre with
        | some eqs => if eqs.all (fun p => cands.contains p.1) then unif cands vfirst tmpl target [URec.ofEqs eqs] else []
        | none => unif cands vfirst tmpl target [URec.empty]
      let n : Nat := recs.length
      let mapJ (m : List (Name × Expr)) : Json := jarr ((sortEqs m).map fun (n, x) => jarr [jstr n, exprJ x])
      -- all records (each of them is a semantic unifier: `unifier_sound`); WHICH one the front end returns
      -- depends on an order the property leaves open - the harness accepts any of them
      let alts : List Json := if n ≤ 64 then recs.map (fun r => mapJ r.lmap) else []
      match matchE cands vfirst pre tmpl target with
      | .ok m => pure (jobj [("ok", mapJ m), ("n", jnat n), ("alts", jarr alts)])
      | .error .preNotCandidate => pure (jobj [("err", jstr "preNotCandidate")])
      | .error .cannotUnify => pure (jobj [("err", jstr "cannotUnify")])
  | _ => throw s!"unknown op C17.{op}"

end Dagrt.Driver.C17
