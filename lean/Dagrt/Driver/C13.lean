import Dagrt.Driver.Util
import Dagrt.Model.Names
namespace Dagrt.Driver.C13
open Lean Dagrt.Driver Dagrt.Names

def opOf (j : Json) : R NameOp :=
  match j with
  | .arr #[.str "var", .str n] => pure (.var n)
  | .arr #[.str "func", .str n] => pure (.func n)
  | .arr #[.str "unique", .str n] => pure (.unique n)
  | .arr #[.str "refcount", .str n] => pure (.refcount n)
  | _ => throw s!"bad name op {j.compress}"

def runPy (ops : List NameOp) : List Json :=
  (ops.foldl (fun (st : PyNames × List Json) op =>
    match st.1.step op with
    | some (s', r) => (s', st.2 ++ [jstr (String.ofList r)])
    | none => (st.1, st.2 ++ [.null])) (PyNames.init, [])).2

def runF (ops : List NameOp) : List Json :=
  (ops.foldl (fun (st : FNames × List Json) op =>
    match st.1.step op with
    | some (s', r) => (s', st.2 ++ [jstr (String.ofList r)])
    | none => (st.1, st.2 ++ [.null])) (FNames.init, [])).2

def handle (op : String) (j : Json) : R Json := do
  match op with
  | "names" =>
    let ops ← listOf opOf (← field j "ops")
    let lang ← str? (← field j "lang")
    pure (jobj [("names", jarr (if lang = "python" then runPy ops else runF ops))])
  | "ident" =>
    let n ← str? (← field j "name")
    pure (jobj [("ident", jstr (String.ofList (makeIdentifier n.toList)))])
  | _ => throw s!"unknown op C13.{op}"

end Dagrt.Driver.C13
