import Dagrt.Driver.ExprJson
import Dagrt.Model.PrintParse
namespace Dagrt.Driver.C19
open Lean Dagrt.Driver Dagrt Dagrt.PrintParse

def tokJ : Tok → Json
  | .op s => jarr [jstr "op", jstr s]
  | .kw s => jarr [jstr "kw", jstr s]
  | .num s => jarr [jstr "num", jstr s]
  | .ident s => jarr [jstr "ident", jstr s]
  | .ws s => jarr [jstr "ws", jstr s]

def handle (op : String) (j : Json) : R Json := do
  match op with
  | "lex" =>
    let s ← str? (← field j "s")
    match lex s with
    | some ts => pure (jobj [("toks", jarr (ts.map tokJ))])
    | none => pure (jobj [("err", jstr "InvalidTokenError")])
  | "name" =>
    let s ← str? (← field j "s")
    match parseName s with
    | .ok n => pure (jobj [("var", jstr n)])
    | .error (.expected _) => pure (jobj [("err", jstr "ParseError")])
    | .error .notModelled => pure (jobj [("notModelled", jbool true)])
  | "unquote" =>
    let e ← exprOf (← field j "expr")
    pure (jobj [("expr", exprJ (removeBackticks e))])
  | _ => throw s!"unknown op C19.{op}"

end Dagrt.Driver.C19
