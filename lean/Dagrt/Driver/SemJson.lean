import Dagrt.Driver.ExprJson
import Dagrt.Model.Stmt
namespace Dagrt.Driver
open Lean Dagrt Dagrt.Sem

def valOf (j : Json) : R Val :=
  match j with
  | .null => pure .none
  | .bool b => pure (.bool b)
  | .str "undef" => pure .undef
  | .arr #[.str "arr", l] => do
      pure (.arr (← listOf (fun x => match x with | .null => pure Option.none | y => do pure (some (← int? y))) l))
  | .arr #[.str "str", .str s] => pure (.str s)
  | x => do pure (.int (← int? x))

def valJ : Val → Json
  | .int n => jint n
  | .bool b => jbool b
  | .arr l => jarr [jstr "arr", jarr (l.map fun | some x => jint x | Option.none => .null)]
  | .str s => jarr [jstr "str", jstr s]
  | .none => .null
  | .undef => jstr "undef"

def eventJ : Event → Json
  | .stateComputed t tid comp v => jarr [jstr "state", valJ t, jstr tid, jstr comp, valJ v]

def statusJ : Status → Json
  | .running => jstr "running"
  | .failed => jstr "failed"
  | .switched p => jarr [jstr "switched", jstr p]
  | .raised e => jarr [jstr "raised", jstr e]

def storeOf (j : Json) : R Store := do
  let items ← listOf (fun p => match p with
    | .arr #[.str k, v] => do pure (k, ← valOf v)
    | _ => throw "bad store entry") j
  let base : Store := fun x => if x = EXEC then .exec [] .running else .val .none
  pure (items.foldl (fun σ (k, v) => σ.set k (.val v)) base)

def loopsOf (j : Json) : R (List (Name × Expr × Expr)) :=
  listOf (fun p => match p with
    | .arr #[.str i, lo, hi] => do pure (i, ← exprOf lo, ← exprOf hi)
    | _ => throw "bad loop") j

def kwExprOf (j : Json) : R (List (Name × Expr)) :=
  listOf (fun p => match p with
    | .arr #[.str k, e] => do pure (k, ← exprOf e)
    | _ => throw "bad kw") j

def kindOfJ (j : Json) : R Kind :=
  match j with
  | .arr #[.str "assign", .str lhs, sub, rhs, loops] => do
      let s ← (match sub with | .null => pure Option.none | x => do pure (some (← exprOf x)))
      pure (.assign lhs s (← exprOf rhs) (← loopsOf loops))
  | .arr #[.str "call", lhs, .str f, args, kw] => do
      pure (.callAssign (← listOf str? lhs) f (← listOf exprOf args) (← kwExprOf kw))
  | .arr #[.str "yield", e, t, .str tid, .str comp] => do pure (.yield (← exprOf e) (← exprOf t) tid comp)
  | .arr #[.str "raise", .str err] => pure (.raise err)
  | .arr #[.str "fail"] => pure .fail
  | .arr #[.str "switch", .str p] => pure (.switch p)
  | .arr #[.str "nop"] => pure .nop
  | _ => throw s!"bad kind {j.compress}"

def kindJ : Kind → Json
  | .assign lhs sub rhs loops => jarr [jstr "assign", jstr lhs, (match sub with | some e => exprJ e | none => .null),
      exprJ rhs, jarr (loops.map fun (i, lo, hi) => jarr [jstr i, exprJ lo, exprJ hi])]
  | .callAssign lhs f args kw => jarr [jstr "call", jarr (lhs.map jstr), jstr f, jarr (args.map exprJ),
      jarr (kw.map fun (k, e) => jarr [jstr k, exprJ e])]
  | .yield e t tid comp => jarr [jstr "yield", exprJ e, exprJ t, jstr tid, jstr comp]
  | .raise err => jarr [jstr "raise", jstr err]
  | .fail => jarr [jstr "fail"]
  | .switch p => jarr [jstr "switch", jstr p]
  | .nop => jarr [jstr "nop"]

def stmtJ (s : Stmt) : Json := jobj [("cond", exprJ s.cond), ("kind", kindJ s.kind)]

def stmtOfJ (j : Json) : R Stmt := do
  pure { cond := ← exprOf (← field j "cond"), kind := ← kindOfJ (← field j "kind") }

/-- resolve positional + keyword arguments against parameter names (Python call binding) -/
def bindArgs (names : List Name) (pos : List Val) (kw : List (Name × Val)) : List Val :=
  let rec go : List Name → List Val → List Val
    | [], _ => []
    | n :: ns, p :: ps => p :: go ns ps
    | n :: ns, [] => ((kw.lookup n).getD .undef) :: go ns []
  go names pos

/-- the deterministic functions the harness registers on the Python side as well -/
def driverFuns : Funs := fun f pos kw =>
  if f = "<func>f" then
    match bindArgs ["x"] pos kw with
    | [.int x] => [.int (2 * x + 1)]
    | _ => [.undef]
  else if f = "<func>g" then
    match bindArgs ["x", "y"] pos kw with
    | [.int x, .int y] => [.int (x - y)]
    | _ => [.undef]
  else if f = "<func>h" then
    match bindArgs ["x"] pos kw with
    | [.int x] => [.int (x + 1), .int (x * 2)]
    | _ => [.undef, .undef]
  else if f = "<builtin>len" then
    match bindArgs ["x"] pos kw with
    | [.arr l] => [.int l.length]
    | [.int _] => [.int 1]
    | _ => [.undef]
  else if f = "<func>rhs" then
    -- the right-hand side of the Fortran family: -2 * y + t (it must depend on BOTH arguments: a stale
    -- time argument has to be visible)
    match bindArgs ["t", "y"] pos kw with
    | [.int t, .arr l] => [.arr (l.map (Option.map (fun x => -2 * x + t)))]
    | [.int t, .int x] => [.int (-2 * x + t)]
    | _ => [.undef]
  else if f = "<func>split" then
    -- two results: (2*y, -y)
    match bindArgs ["y"] pos kw with
    | [.arr l] => [.arr (l.map (Option.map (fun x => 2 * x))), .arr (l.map (Option.map (fun x => -x)))]
    | [.int x] => [.int (2 * x), .int (-x)]
    | _ => [.undef]
  else if f = "<builtin>elementwise_abs" then
    match bindArgs ["x"] pos kw with
    | [.arr l] => [.arr (l.map (Option.map (fun x => if x < 0 then -x else x)))]
    | [.int x] => [.int (if x < 0 then -x else x)]
    | _ => [.undef]
  else if f = "<builtin>array" then
    match bindArgs ["n"] pos kw with
    | [.int n] => [.arr (List.replicate n.toNat Option.none)]
    | _ => [.undef]
  else [.undef]

def insertSortedS (x : String) : List String → List String
  | [] => [x]
  | y :: ys => if x ≤ y then (if x = y then y :: ys else x :: y :: ys) else y :: insertSortedS x ys

def sortNames (l : List Name) : List Name := l.foldl (fun acc x => insertSortedS x acc) []

end Dagrt.Driver
