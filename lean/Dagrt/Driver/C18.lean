import Dagrt.Driver.ExprJson
import Dagrt.Model.Hoist
namespace Dagrt.Driver.C18
open Lean Dagrt.Driver Dagrt Dagrt.Hoist

def handle (op : String) (j : Json) : R Json := do
  match op with
  | "collapse" =>
    let e ← exprOf (← field j "expr")
    let free ← listOf str? (← field j "free")
    let (e', as) := collapse free e
    pure (jobj [("expr", exprJ e'), ("assigns", jarr (as.map fun (n, x) => jarr [jstr n, exprJ x]))])
  | _ => throw s!"unknown op C18.{op}"

end Dagrt.Driver.C18
