import Dagrt.Driver.SemJson
import Dagrt.Model.Builder
namespace Dagrt.Driver.C02
open Lean Dagrt.Driver Dagrt Dagrt.Sem Dagrt.Builder

def opOf (j : Json) : R BOp :=
  match j with
  | .arr #[.str "stmt", k] => do pure (.stmt (← kindOfJ k))
  | .arr #[.str "if", e] => do pure (.ifBegin (← exprOf e))
  | .arr #[.str "endif"] => pure .ifEnd
  | .arr #[.str "else"] => pure .elseBegin
  | .arr #[.str "endelse"] => pure .elseEnd
  | .arr #[.str "fresh", .str p] => pure (.fresh p)
  | _ => throw s!"bad builder op {j.compress}"

def insertNat (x : Nat) : List Nat → List Nat
  | [] => [x]
  | y :: ys => if x < y then x :: y :: ys else if x = y then y :: ys else y :: insertNat x ys
def sortNat (l : List Nat) : List Nat := l.foldl (fun acc x => insertNat x acc) []

/-- run the ops, collecting the names returned by `fresh` calls -/
def runCollect (ops : List BOp) : BState × List Name :=
  ops.foldl (fun (st, names) op =>
    if st.failed.isSome then (st, names)
    else match op with
      | .fresh p => let (st', nm) := freshVar st p; (st', names ++ [nm])
      | _ => (step st op, names)) (BState.init, [])

def handle (op : String) (j : Json) : R Json := do
  match op with
  | "build" =>
    let ops ← listOf opOf (← field j "ops")
    let (st, names) := runCollect ops
    pure (jobj [
      ("stmts", jarr (st.out.map fun (s, d) => jobj [("cond", exprJ s.cond), ("kind", kindJ s.kind),
          ("deps", jarr ((sortNat d).map jnat))])),
      ("fresh", jarr (names.map jstr)),
      ("failed", match st.failed with | some e => jstr e | none => .null)])
  | _ => throw s!"unknown op C02.{op}"

end Dagrt.Driver.C02
