import Dagrt.Driver.ExprJson
import Dagrt.Model.RtKinds
namespace Dagrt.Driver.Kinds
open Lean Dagrt.Driver Dagrt.Kinds Dagrt

def kindOf (j : Json) : R (Option Kind) :=
  match j with
  | .null => pure none
  | .str "B" => pure (some .boolean)
  | .str "I" => pure (some .integer)
  | .arr #[.str "S", r] => do pure (some (.scalar (← bool? r)))
  | .arr #[.str "A", r] => do pure (some (.array (← bool? r)))
  | .arr #[.str "U", .str i] => pure (some (.user i))
  | _ => throw s!"bad kind {j.compress}"

def kindOf! (j : Json) : R Kind := do
  match ← kindOf j with
  | some k => pure k
  | none => throw "null kind"

def kindJ : Kind → Json
  | .boolean => jstr "B" | .integer => jstr "I"
  | .scalar r => jarr [jstr "S", jbool r]
  | .array r => jarr [jstr "A", jbool r]
  | .user i => jarr [jstr "U", jstr i]

def okindJ : Option Kind → Json
  | none => .null
  | some k => kindJ k

def errJ : KErr → Json
  | .valueError => jstr "ValueError" | .assertion => jstr "AssertionError"
  | .unable => jstr "UnableToInferKind" | .typeError => jstr "TypeError"
  | .runtimeError => jstr "RuntimeError" | .functionNotFound => jstr "FunctionNotFound"
  | .attributeError => jstr "AttributeError" | .unsupported => jstr "NotImplementedError"
  | .noneKind => jstr "NoneKind"

def kwOf (j : Json) : R (List (Name × Expr)) :=
  listOf (fun p => match p with
    | .arr #[.str k, e] => do pure (k, ← exprOf e)
    | _ => throw "bad kw") j

def stmtOf (j : Json) : R KStmt :=
  match j with
  | .arr #[.str "assign", .str lhs, hasSub, rhs, flat, loops] => do
      pure (.assign lhs (← bool? hasSub) (← exprOf rhs) (← exprOf flat) (← listOf str? loops))
  | .arr #[.str "callassign", lhs, .str f, args, kw] => do
      pure (.callAssign (← listOf str? lhs) f (← listOf exprOf args) (← kwOf kw))
  | .arr #[.str "other"] => pure .other
  | _ => throw s!"bad kstmt {j.compress}"

def progOf (j : Json) : R (List (Name × KStmt)) :=
  listOf (fun p => match p with
    | .arr #[.str ph, s] => do pure (ph, ← stmtOf s)
    | _ => throw "bad prog entry") j

def fixedOf (j : Json) : R (List (Name × List Kind)) :=
  listOf (fun p => match p with
    | .arr #[.str f, ks] => do pure (f, ← listOf kindOf! ks)
    | _ => throw "bad func entry") j

/-- insertion sort on keys for a canonical table listing -/
def insertSorted (x : String × Json) : List (String × Json) → List (String × Json)
  | [] => [x]
  | y :: ys => if x.1 ≤ y.1 then x :: y :: ys else y :: insertSorted x ys

def tableJ (t : Table) : Json :=
  let items := t.entries.foldl (fun acc ((sc, n), k) => insertSorted (sc ++ "|" ++ n, kindJ k) acc) []
  jarr (items.map fun (k, v) => jarr [jstr k, v])

def rtOf (j : Json) : R Rt :=
  match j with
  | .str "bool" => pure .bool | .str "int" => pure .int | .str "real" => pure .real | .str "cplx" => pure .cplx
  | .arr #[.str "arr", c] => do pure (.arr (← bool? c))
  | .arr #[.str "user", .str i] => pure (.user i)
  | .str "none" => pure .none | .str "err" => pure .err
  | _ => throw s!"bad rt {j.compress}"

def rtJ : Rt → Json
  | .bool => jstr "bool" | .int => jstr "int" | .real => jstr "real" | .cplx => jstr "cplx"
  | .arr c => jarr [jstr "arr", jbool c] | .user i => jarr [jstr "user", jstr i]
  | .none => jstr "none" | .err => jstr "err"

inductive RtStmt where
  | assign (lhs : Name) (hasSub : Bool) (e : Expr) (loops : List Name)
  | call (lhs : List Name) (f : Name) (args : List Expr) (kw : List (Name × Expr))

/-- straight-line run over run-time kinds: `[lhs, hasSub, expr, loops]` or
    `["call", [lhs...], f, args, kw]` per statement; what is stored is listed per assignee
    (a call whose result count does not fit its assignees: `["raises"]`) -/
def rtRun (F : RtFuns) : List RtStmt → (Name → Rt) → List Json → List Json
  | [], _, acc => acc
  | .assign lhs hasSub e loops :: rest, ρ, acc =>
    let ρl : Name → Rt := fun x => if loops.contains x then .int else ρ x
    let v := rtEval F ρl e
    bif hasSub then rtRun F rest ρ (acc ++ [jarr [jstr lhs, jstr "elem", rtJ v]])
    else rtRun F rest (fun x => if x = lhs then v else ρ x) (acc ++ [jarr [jstr lhs, rtJ v]])
  | .call lhs f args kw :: rest, ρ, acc =>
    let rs := F f (rtEvalL F ρ args) (rtEvalK F ρ kw)
    let ρ' := execCallRt F ρ lhs f args kw
    let raises := lhs.length ≥ 2 && rs.length != lhs.length
    let line := bif raises then [jarr [jstr "raises"]] else lhs.map (fun x => jarr [jstr x, rtJ (ρ' x)])
    rtRun F rest ρ' (acc ++ line)

def handle (op : String) (j : Json) : R Json := do
  match op with
  | "unify" =>
    let a ← kindOf (← field j "a")
    let b ← kindOf (← field j "b")
    match unify a b with
    | .ok k => pure (jobj [("ok", okindJ k)])
    | .error e => pure (jobj [("err", errJ e)])
  | "infer" =>
    let prog ← progOf (← field j "prog")
    let fixed ← fixedOf (← field j "funcs")
    match inferAll (mkRegistry fixed) prog with
    | .ok t => pure (jobj [("ok", tableJ t)])
    | .error e => pure (jobj [("err", errJ e)])
  | "results" =>
    let f ← str? (← field j "f")
    let pos ← listOf kindOf (← field j "pos")
    let kw ← listOf (fun p => match p with
      | .arr #[.str k, v] => do pure (k, ← kindOf v)
      | _ => throw "bad kw kind") (← field j "kw")
    let chk := match j.getObjVal? "check" with
      | .ok (.bool b) => b
      | _ => false
    match builtin f with
    | none => pure (jobj [("err", jstr "FunctionNotFound")])
    | some fn => match fn chk pos kw with
      | .ok ks => pure (jobj [("ok", jarr (ks.map kindJ))])
      | .error e => pure (jobj [("err", errJ e)])
  | "rt" =>
    let prog ← listOf (fun p => match p with
      | .arr #[.str "call", lhs, .str f, args, kw] => do
        let kws ← listOf (fun q => match q with
          | .arr #[.str k, v] => do pure (k, ← exprOf v)
          | _ => throw "bad rt kw") kw
        pure (RtStmt.call (← listOf str? lhs) f (← listOf exprOf args) kws)
      | .arr #[.str lhs, hasSub, e, loops] => do pure (RtStmt.assign lhs (← bool? hasSub) (← exprOf e) (← listOf str? loops))
      | _ => throw "bad rt stmt") (← field j "prog")
    let init ← listOf (fun p => match p with
      | .arr #[.str n, r] => do pure (n, ← rtOf r)
      | _ => throw "bad init") (← field j "init")
    let ufs ← listOf (fun p => match p with
      | .arr #[.str f, rs] => do pure (f, ← listOf rtOf rs)
      | _ => throw "bad rt func") (← field j "rtfuncs")
    let F : RtFuns := fun f pos kw =>
      match rtBuiltin f pos kw with
      | some r => r
      | none => (ufs.lookup f).getD [.err]
    let ρ0 : Name → Rt := fun x => (init.lookup x).getD .none
    pure (jobj [("rt", jarr (rtRun F prog ρ0 []))])
  | _ => throw s!"unknown op kinds.{op}"

end Dagrt.Driver.Kinds
