import Dagrt.Driver.Util
import Dagrt.Model.Expr
namespace Dagrt.Driver
open Lean Dagrt

def constOf (j : Json) : R Const :=
  match j with
  | .arr #[.str "c", n] => do pure (.int (← int? n))
  | .arr #[.str "cb", b] => do pure (.bool (← bool? b))
  | .arr #[.str "cf", .str s] => pure (.float s)
  | .arr #[.str "cz", .str s] => pure (.cplx s)
  | .arr #[.str "cs", .str s] => pure (.str s)
  | .arr #[.str "cn"] => pure .none
  | _ => throw s!"bad const {j.compress}"

partial def exprOf (j : Json) : R Expr :=
  match j with
  | .arr #[.str "v", .str n] => pure (.var n)
  | .arr #[.str "+", cs] => do pure (.sum (← listOf exprOf cs))
  | .arr #[.str "*", cs] => do pure (.prod (← listOf exprOf cs))
  | .arr #[.str "/", a, b] => do pure (.quot (← exprOf a) (← exprOf b))
  | .arr #[.str "**", a, b] => do pure (.pow (← exprOf a) (← exprOf b))
  | .arr #[.str "call", .str f, args, kw] => do
      let kws ← listOf (fun p => match p with
        | .arr #[.str k, e] => do pure (k, ← exprOf e)
        | _ => throw "bad kw") kw
      pure (.call f (← listOf exprOf args) kws)
  | .arr #[.str "sub", a, i] => do pure (.sub (← exprOf a) (← exprOf i))
  | .arr #[.str "attr", a, .str n] => do pure (.attr (← exprOf a) n)
  | .arr #[.str "cmp", .str o, a, b] => do pure (.cmp o (← exprOf a) (← exprOf b))
  | .arr #[.str "not", a] => do pure (.lnot (← exprOf a))
  | .arr #[.str "and", cs] => do pure (.land (← listOf exprOf cs))
  | .arr #[.str "or", cs] => do pure (.lor (← listOf exprOf cs))
  | .arr #[.str "if", c, t, e] => do pure (.ite (← exprOf c) (← exprOf t) (← exprOf e))
  | .arr #[.str "min", cs] => do pure (.min (← listOf exprOf cs))
  | .arr #[.str "max", cs] => do pure (.max (← listOf exprOf cs))
  | _ => do pure (.const (← constOf j))

def constJ : Const → Json
  | .int n => jarr [jstr "c", jint n]
  | .bool b => jarr [jstr "cb", jbool b]
  | .float s => jarr [jstr "cf", jstr s]
  | .cplx s => jarr [jstr "cz", jstr s]
  | .str s => jarr [jstr "cs", jstr s]
  | .none => jarr [jstr "cn"]

partial def exprJ : Expr → Json
  | .const c => constJ c
  | .var n => jarr [jstr "v", jstr n]
  | .sum cs => jarr [jstr "+", jarr (cs.map exprJ)]
  | .prod cs => jarr [jstr "*", jarr (cs.map exprJ)]
  | .quot a b => jarr [jstr "/", exprJ a, exprJ b]
  | .pow a b => jarr [jstr "**", exprJ a, exprJ b]
  | .call f args kw => jarr [jstr "call", jstr f, jarr (args.map exprJ),
      jarr (kw.map fun (k, e) => jarr [jstr k, exprJ e])]
  | .sub a i => jarr [jstr "sub", exprJ a, exprJ i]
  | .attr a n => jarr [jstr "attr", exprJ a, jstr n]
  | .cmp o a b => jarr [jstr "cmp", jstr o, exprJ a, exprJ b]
  | .lnot a => jarr [jstr "not", exprJ a]
  | .land cs => jarr [jstr "and", jarr (cs.map exprJ)]
  | .lor cs => jarr [jstr "or", jarr (cs.map exprJ)]
  | .ite c t e => jarr [jstr "if", exprJ c, exprJ t, exprJ e]
  | .min cs => jarr [jstr "min", jarr (cs.map exprJ)]
  | .max cs => jarr [jstr "max", jarr (cs.map exprJ)]

end Dagrt.Driver
