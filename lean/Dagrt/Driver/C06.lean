import Dagrt.Driver.Util
import Dagrt.Model.Simplify
namespace Dagrt.Driver.C06
open Lean Dagrt.Driver Dagrt.Simplify

partial def condOf (j : Json) : R Cond :=
  match j with
  | .str "t" => pure .tt
  | .str "f" => pure .ff
  | .arr #[.str "p", n] => do pure (.flag (← nat? n))
  | .arr #[.str "n", c] => do pure (.not (← condOf c))
  | _ => throw s!"bad cond {j.compress}"

partial def astOf (j : Json) : R Ast :=
  match j with
  | .str "N" => pure .null
  | .arr #[.str "L", n] => do pure (.leaf (← nat? n))
  | .arr #[.str "T", c, a] => do pure (.ifThen (← condOf c) (← astOf a))
  | .arr #[.str "I", c, a, b] => do pure (.ite (← condOf c) (← astOf a) (← astOf b))
  | .arr #[.str "O", v, a] => do pure (.loop (← nat? v) (← astOf a))
  | .arr #[.str "B", cs] => do pure (.block (← listOf astOf cs))
  | _ => throw s!"bad ast {j.compress}"

def condJ : Cond → Json
  | .tt => jstr "t" | .ff => jstr "f"
  | .flag n => jarr [jstr "p", jnat n]
  | .not c => jarr [jstr "n", condJ c]

partial def astJ : Ast → Json
  | .null => jstr "N"
  | .leaf n => jarr [jstr "L", jnat n]
  | .ifThen c a => jarr [jstr "T", condJ c, astJ a]
  | .ite c a b => jarr [jstr "I", condJ c, astJ a, astJ b]
  | .loop v a => jarr [jstr "O", jnat v, astJ a]
  | .block cs => jarr [jstr "B", jarr (cs.map astJ)]

def evJ : Ev → Json
  | .inst n => jarr [jstr "inst", jnat n]
  | .ifBegin c => jarr [jstr "if", condJ c]
  | .elseBegin => jstr "else"
  | .ifEnd => jstr "endif"
  | .forBegin v => jarr [jstr "for", jnat v]
  | .forEnd v => jarr [jstr "endfor", jnat v]

def handle (op : String) (j : Json) : R Json := do
  match op with
  | "simplify" =>
    let a ← astOf (← field j "ast")
    match simplify a with
    | .ok a' => pure (jobj [("ok", astJ a'), ("walk", match walk a' with
        | some evs => jarr (evs.map evJ)
        | none => jstr "ValueError")])
    | .error .indexError => pure (jobj [("err", jstr "IndexError")])
  | _ => throw s!"unknown op C06.{op}"

end Dagrt.Driver.C06
