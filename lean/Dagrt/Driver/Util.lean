import Lean.Data.Json
/-! helpers shared by the per-property driver modules (line protocol, appendix B of DESIGN.md) -/
namespace Dagrt.Driver
open Lean

abbrev R := Except String

def arr? (j : Json) : R (Array Json) := j.getArr?
def str? (j : Json) : R String := j.getStr?
def nat? (j : Json) : R Nat := j.getNat?
def int? (j : Json) : R Int := j.getInt?
def bool? (j : Json) : R Bool := j.getBool?
def field (j : Json) (k : String) : R Json := j.getObjVal? k
def fieldD (j : Json) (k : String) (d : Json) : Json := (j.getObjVal? k).toOption.getD d

def listOf {α} (f : Json → R α) (j : Json) : R (List α) := do
  let a ← arr? j
  a.toList.mapM f

def jstr (s : String) : Json := Json.str s
def jnat (n : Nat) : Json := Json.num (JsonNumber.fromNat n)
def jint (n : Int) : Json := Json.num (JsonNumber.fromInt n)
def jarr (l : List Json) : Json := Json.arr l.toArray
def jobj (l : List (String × Json)) : Json := Json.mkObj l
def jbool (b : Bool) : Json := Json.bool b

end Dagrt.Driver
