import Dagrt.Driver.Util
import Dagrt.Model.Verify
namespace Dagrt.Driver.C10
open Lean Dagrt.Driver Dagrt.Verify

def stmtOf (j : Json) : R VStmt := do
  let sw := fieldD j "sw" .null
  pure { id := ← nat? (← field j "id"), deps := ← listOf nat? (← field j "deps"),
         switchTo := ← (match sw with | .null => pure none | x => do pure (some (← nat? x))),
         condWrites := ← listOf nat? (fieldD j "cw" (jarr [])) }

def handle (op : String) (j : Json) : R Json := do
  match op with
  | "verify" =>
    let phases ← listOf (listOf stmtOf) (← field j "phases")
    match verify phases with
    | .accept => pure (jobj [("res", jstr "accept")])
    | .otherException t => pure (jobj [("res", jstr "other"), ("exc", jstr t)])
    | .codegenError k => pure (jobj [("res", jstr "codegen"), ("kinds",
        jarr ((if k.deps then [jstr "deps"] else []) ++ (if k.cycle then [jstr "cycle"] else []) ++
              (if k.switch then [jstr "switch"] else []) ++ (if k.cond then [jstr "cond"] else [])))])
  | "cycle" =>
    let p ← listOf stmtOf (← field j "phase")
    match cycleCheck p with
    | .noCycle o => pure (jobj [("res", jstr "nocycle"), ("order", jarr (o.map jnat))])
    | .cycle => pure (jobj [("res", jstr "cycle")])
    | .keyError => pure (jobj [("res", jstr "KeyError")])
    | .outOfFuel => pure (jobj [("res", jstr "outOfFuel")])
  | _ => throw s!"unknown op C10.{op}"

end Dagrt.Driver.C10
