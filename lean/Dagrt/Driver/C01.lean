import Dagrt.Driver.C02
import Dagrt.Model.StepLoop
namespace Dagrt.Driver.C01
open Lean Dagrt.Driver Dagrt Dagrt.Sem Dagrt.Builder Dagrt.StepLoop

def phaseOf (j : Json) : R Phase := do
  pure { name := ← str? (← field j "name"), next := ← str? (← field j "next"),
         ops := ← listOf C02.opOf (← field j "ops") }

def evJ : Ev → Json
  | .state t tid comp v => jarr [jstr "state", valJ t, jstr tid, jstr comp, valJ v]
  | .completed dt t cur next => jarr [jstr "completed", valJ dt, valJ t, jstr cur, jstr next]
  | .failed t => jarr [jstr "failed", valJ t]
  | .raised e => jarr [jstr "raised", jstr e]
  | .noSuchPhase p => jarr [jstr "nosuchphase", jstr p]

def snapJ (names : List Name) (s : RunState) : Json :=
  jobj [("next", jstr s.next), ("vars", jarr (names.map fun n => jarr [jstr n, valJ (s.σ.get n)]))]

def handle (op : String) (j : Json) : R Json := do
  match op with
  | "run" =>
    let ps ← listOf phaseOf (← field j "phases")
    let init ← str? (← field j "initial")
    let σ ← storeOf (← field j "store")
    let names ← listOf str? (← field j "observe")
    let tEnd ← match fieldD j "t_end" Json.null with
      | Json.null => pure none
      | x => do pure (some (← int? x))
    let maxSteps ← match fieldD j "max_steps" Json.null with
      | Json.null => pure none
      | x => do pure (some (← nat? x))
    let fuel ← nat? (← field j "max_iters")
    let res := runLoop (stepRef driverFuns ps) tEnd maxSteps fuel 0 ⟨σ, init⟩
    pure (jobj [("steps", jarr (res.map fun (evs, s) => jobj [("events", jarr (evs.map evJ)), ("after", snapJ names s)]))])
  | "abort" =>
    let ph ← phaseOf (← field j "phase")
    let σ ← storeOf (← field j "store")
    let names ← listOf str? (← field j "observe")
    let pre ← listOf nat? (← field j "prefix")
    let s := abortedStep driverFuns ph pre ⟨σ, ph.name⟩
    pure (jobj [("post", snapJ names s)])
  | _ => throw s!"unknown op C01.{op}"

end Dagrt.Driver.C01
