import Dagrt.Driver.Util
import Dagrt.Model.Refcount
namespace Dagrt.Driver.C12
open Lean Dagrt.Driver Dagrt.Refcount

def opOf (j : Json) : R Op :=
  match j with
  | .arr #[.str "alloc", i] => do pure (.allocCheck (← nat? i))
  | .arr #[.str "deinit", i] => do pure (.deinit (← nat? i))
  | .arr #[.str "move", d, s] => do pure (.move (← nat? d) (← nat? s))
  | _ => throw "bad op"

def obs (h : Heap) : Json :=
  let n := h.vars.length
  let idx := List.range n
  let pairs := idx.flatMap fun i => (idx.filter (fun j => i < j)).map fun j => (i, j)
  jobj [("assoc", jarr (h.vars.map fun v => jbool v.isSome)),
        ("rc", jarr (h.vars.map fun v => match v with | some b => jnat (h.rc b) | none => Json.null)),
        ("alias", jarr ((pairs.filter fun (i, j) =>
            match h.vars[i]?, h.vars[j]? with
            | some (some a), some (some b) => a == b
            | _, _ => false).map fun (i, j) => jarr [jnat i, jnat j]))]

def trace : Heap → List Op → List Json
  | _, [] => []
  | h, op :: ops =>
    match step h op with
    | .error _ => [jobj [("err", jbool true)]]
    | .ok h' => obs h' :: trace h' ops

def handle (op : String) (j : Json) : R Json := do
  match op with
  | "ops" =>
    let n ← nat? (← field j "n")
    let ops ← listOf opOf (← field j "ops")
    pure (jobj [("trace", jarr (trace (Heap.init n) ops))])
  | _ => throw s!"unknown op C12.{op}"

end Dagrt.Driver.C12
