import Dagrt.Driver.C06
import Dagrt.Model.Lower
namespace Dagrt.Driver.C05
open Lean Dagrt.Driver Dagrt.Lower Dagrt.Simplify

def stmtOf (j : Json) : R LStmt := do
  let c := fieldD j "cond" .null
  pure { id := ← nat? (← field j "id"), deps := ← listOf nat? (← field j "deps"),
         isNop := ← bool? (fieldD j "nop" (jbool false)),
         cond := ← (match c with | .null => pure none | x => do pure (some (← C06.condOf x))),
         loops := ← listOf nat? (fieldD j "loops" (jarr [])) }

def errJ : LErr → Json
  | .keyError => jstr "KeyError" | .outOfFuel => jstr "outOfFuel" | .indexError => jstr "IndexError"

def handle (op : String) (j : Json) : R Json := do
  match op with
  | "lower" =>
    let p ← listOf stmtOf (← field j "phase")
    match createAst p with
    | .ok a => pure (jobj [("ok", C06.astJ a), ("order", match topoOrder p with
        | .ok o => jarr (o.map jnat) | .error _ => .null)])
    | .error e => pure (jobj [("err", errJ e)])
  | _ => throw s!"unknown op C05.{op}"

end Dagrt.Driver.C05
