import Dagrt.Driver.Util
import Dagrt.Model.Wrap
namespace Dagrt.Driver.C20
open Lean Dagrt.Driver Dagrt.Wrap

def handle (op : String) (j : Json) : R Json := do
  match op with
  | "wrap" =>
    let line ← str? (← field j "line")
    let level ← nat? (← field j "level")
    let width ← nat? (← field j "width")
    let lang ← str? (← field j "lang")
    let indent ← str? (← field j "indent")
    let (marker, esc) : Char × Option Char := if lang = "python" then ('\\', some '\\') else ('&', none)
    match wrapLine marker esc line.toList level width indent.toList with
    | .ok ls => pure (jobj [("ok", jarr (ls.map fun l => jstr (String.ofList l)))])
    | .error _ => pure (jobj [("err", jstr "ValueError")])
  | "split" =>
    let line ← str? (← field j "line")
    let lang ← str? (← field j "lang")
    let esc : Option Char := if lang = "python" then some '\\' else none
    match split esc line.toList with
    | .ok ts => pure (jobj [("ok", jarr (ts.map fun l => jstr (String.ofList l)))])
    | .error _ => pure (jobj [("err", jstr "ValueError")])
  | _ => throw s!"unknown op C20.{op}"

end Dagrt.Driver.C20
