import Dagrt.Driver.Util
import Dagrt.Model.Controller
namespace Dagrt.Driver.C04
open Lean Dagrt.Driver Dagrt.Controller

def actionOf (j : Json) : R Action :=
  match j with
  | .str "skip" => pure .skip
  | .str "abort" => pure .abort
  | .arr #[.str "run", req] => do pure (.run (← listOf nat? req))
  | _ => throw s!"bad action {j.compress}"

def errJ : CErr → Json
  | .keyError => jstr "KeyError" | .recursion => jstr "RecursionError"

def handle (op : String) (j : Json) : R Json := do
  match op with
  | "step" =>
    let deps ← listOf (listOf nat?) (← field j "graph")
    let acts ← listOf actionOf (← field j "target")
    let roots ← listOf nat? (← field j "roots")
    let n := deps.length
    let g : Graph := fun i => deps[i]?
    let target : Nat → Action := fun i => acts.getD i .skip
    match step g n roots target with
    | .ok (log, s) => pure (jobj [("log", jarr (log.map jnat)), ("plan", jarr (s.plan.map jnat))])
    | .error e => pure (jobj [("err", errJ e)])
  | _ => throw s!"unknown op C04.{op}"

end Dagrt.Driver.C04
