import Dagrt.Driver.SemJson
namespace Dagrt.Driver.C08
open Lean Dagrt.Driver Dagrt Dagrt.Sem

def handle (op : String) (j : Json) : R Json := do
  match op with
  | "stmt" =>
    let s ← stmtOfJ (← field j "stmt")
    let σ ← storeOf (← field j "store")
    let watch ← listOf str? (← field j "watch")
    let a := execI driverFuns s σ
    pure (jobj [
      ("declReads", jarr ((sortNames (declReads s)).map jstr)),
      ("declWrites", jarr ((sortNames (declWrites s)).map jstr)),
      ("reads", jarr ((sortNames (a.reads.filter (· != EXEC))).map jstr)),
      ("writes", jarr ((sortNames (a.writes.filter (· != EXEC))).map jstr)),
      ("store", jarr (watch.map fun x => jarr [jstr x, valJ (a.σ.get x)])),
      ("status", statusJ a.σ.status),
      ("log", jarr (a.σ.log.map eventJ))])
  | _ => throw s!"unknown op C08.{op}"

end Dagrt.Driver.C08
