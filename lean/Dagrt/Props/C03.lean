import Dagrt.Props.C01
/-!
# C03 — compiled Fortran stepper computes the same states as the interpreter

What is modelled of the Fortran target: the `run` entry point emitted by `emit_run_step`
(`fortranRun` below: dispatch on `dagrt_next_phase`, the default successor is stored BEFORE the
phase subroutine is called, `FailStep` / `SwitchPhase` leave through the exit label, a switch
overwrites the stored successor, locals of the phase subroutine do not survive the call) over a
phase body that executes the emitted statements in the order of the lowering.  The text emitter
itself (declarations, expression printer, built-in templates, reference counting) is NOT modelled:
it is exercised end to end on every run — the emitted module is compiled by gfortran and its
printed states are compared with the REAL interpreter and, for integer-exact methods, with the
Lean reference semantics of the written program (`StepLoop.stepRef`, the C01 model).

Proved: for every method, store and body, one `run()` call leaves the persistent variables and the
next phase that one interpreter step leaves (`run_call_eq_interpreter_step`), for every
admissible order of the statements — in particular the lowering's — (`fortran_body_order_irrelevant`),
and a sequence of `run()` calls walks through the same phases as the interpreter's step loop
(`run_calls_eq_steps`).
-/
namespace Dagrt.C03
open Dagrt Dagrt.Sem Dagrt.Builder Dagrt.StepLoop

/-- one `call run(dagrt_state)`; `none` = "encountered invalid phase in run" (the program stops) -/
def fortranRun (body : Phase → Store → Boxed) (ps : List Phase) (s : RunState) : Option RunState :=
  match findPhase ps s.next with
  | none => none
  | some ph =>
    -- dagrt_state%dagrt_next_phase = <default successor>; call dagrt_phase_func_<ph>(dagrt_state)
    let σ1 := (body ph (startStep s.σ)).σ
    some ⟨persist σ1, match σ1.status with | .switched p => p | _ => ph.next⟩

/-- **One `run()` call = one interpreter step** on the persistent variables and the next phase —
    whether the step completes, fails or switches phase -/
theorem run_call_eq_interpreter_step (body : Phase → Store → Boxed) (ps : List Phase) (s : RunState)
    (hp : (findPhase ps s.next).isSome) :
    fortranRun body ps s = some (stepWith body ps s).2.2 := by
  unfold fortranRun stepWith
  cases hf : findPhase ps s.next with
  | none => simp [hf] at hp
  | some ph =>
    simp only [finishStep]
    cases hst : (body ph (startStep s.σ)).σ.status <;> simp

/-- the order in which the phase subroutine executes the emitted statements does not matter as long
    as it respects the recorded dependencies (the lowering's topological order does: C05) -/
theorem fortran_body_order_irrelevant (F : Funs) (ps : List Phase) (sched₁ sched₂ : Phase → List Nat)
    (h₁ : ∀ ph ∈ ps, C01.Admissible ph.ops (sched₁ ph)) (h₂ : ∀ ph ∈ ps, C01.Admissible ph.ops (sched₂ ph))
    (s : RunState) :
    fortranRun (fun ph σ => { σ := flatExec F (flatStmts ph.ops) (sched₁ ph) σ }) ps s =
      fortranRun (fun ph σ => { σ := flatExec F (flatStmts ph.ops) (sched₂ ph) σ }) ps s := by
  unfold fortranRun
  cases hf : findPhase ps s.next with
  | none => rfl
  | some ph =>
    have hm : ph ∈ ps := List.mem_of_find?_eq_some hf
    simp only
    rw [C01.body_order_irrelevant F ph.ops _ _ (h₁ ph hm), C01.body_order_irrelevant F ph.ops _ _ (h₂ ph hm)]

/-- `n` calls of `run()` -/
def fortranRuns (body : Phase → Store → Boxed) (ps : List Phase) : Nat → RunState → Option RunState
  | 0, s => some s
  | n + 1, s =>
    match fortranRun body ps s with
    | none => none
    | some s' => fortranRuns body ps n s'

/-- `n` interpreter steps (`run_single_step` called `n` times, failed steps included) -/
def interpSteps (body : Phase → Store → Boxed) (ps : List Phase) : Nat → RunState → RunState
  | 0, s => s
  | n + 1, s => interpSteps body ps n (stepWith body ps s).2.2

/-- **Any number of `run()` calls** leaves the state that the same number of interpreter steps
    leaves, as long as every phase that comes up exists (verify_code checks switch targets) -/
theorem run_calls_eq_steps (body : Phase → Store → Boxed) (ps : List Phase)
    (hclosed : ∀ s : RunState, (findPhase ps s.next).isSome → (findPhase ps (stepWith body ps s).2.2.next).isSome) :
    ∀ (n : Nat) (s : RunState), (findPhase ps s.next).isSome →
      fortranRuns body ps n s = some (interpSteps body ps n s)
  | 0, s, _ => rfl
  | n + 1, s, hp => by
    simp only [fortranRuns, interpSteps, run_call_eq_interpreter_step body ps s hp]
    exact run_calls_eq_steps body ps hclosed n _ (hclosed s hp)

/-- **One `run()` call = one step of the WRITTEN program** (C01's bridge): for every method the
    builder accepts (its own statements off the builder's flag names) and every admissible order
    of the phase subroutine's statements, the call leaves the persistent variables and the next
    phase that carrying out the builder calls block by block leaves -/
theorem run_call_eq_written_step (F : Funs) (ps : List Phase) (sched : Phase → List Nat)
    (hs : ∀ ph ∈ ps, C01.Admissible ph.ops (sched ph)) (hw : ∀ ph ∈ ps, C01.WellBuilt ph.ops)
    (s : RunState) (hp : (findPhase ps s.next).isSome) :
    fortranRun (fun ph σ => { σ := flatExec F (flatStmts ph.ops) (sched ph) σ }) ps s =
      some (stepRef F ps s).2.2 := by
  rw [run_call_eq_interpreter_step _ ps s hp]
  have := C01.step_backend_eq_written F ps sched hs hw s
  unfold stepFlat at this
  rw [this]

end Dagrt.C03
