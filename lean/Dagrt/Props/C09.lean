import Dagrt.Proofs.CallStmtProofs
import Dagrt.Proofs.RtProofs
import Dagrt.Proofs.KindLoopProofs
/-!
# C09 — inferred kinds agree with the values computed at run time

Models: `Dagrt.Kinds` (`Model/Kinds.lean`, `Model/Builtins.lean`) = the kind rules, the table,
the built-ins' declared result kinds; `Model/RtKinds.lean` = the run-time kinds of Python/NumPy
values and how the evaluator combines them (validated against the real interpreter by the
correspondence run).  `compat v k`: a value of run-time kind `v` is of declared kind `k`
(int ⊑ real ⊑ complex, scalars may initialise array / user-type variables, never complex where
real is claimed).
Hypothesis `good`: nothing raises at run time, constants are numbers, a quotient is not of
Integer kind, and - only outside check mode - every term of a sum is inferable (in check mode,
which the final consistency pass uses since the `fix:` commit, an uninferable term is an error).  The last two exclusions are real gaps of the
code (known findings): `True`/`None` constants get the kind Scalar(real); `i / j` of two loop
counters is declared Integer but Python's true division yields a float.  Powers are treated
like products (no negative base with fractional exponent, no negative integer exponent).
-/
namespace Dagrt.C09
open Dagrt Dagrt.Kinds

/-- **Per-operator soundness.** If the table describes the current values and the registry's
    declared result kinds describe what the functions return, then the kind inferred for an
    expression describes the value it evaluates to — for every expression, table and valuation. -/
theorem infer_sound (chk : Bool) (reg : Registry) (t : Table) (ph : Name) (F : RtFuns) (ρ : Name → Rt)
    (hT : TableCompat t ph ρ) (hR : RegSound reg F) (e : Expr) (k : Kind)
    (hg : good chk reg t ph F ρ e = true) (h : infer chk reg t ph e = .ok k) :
    compat (rtEval F ρ e) k = true :=
  Dagrt.Kinds.infer_sound chk reg t ph F ρ hT hR e k hg h

/-- in particular a value is never complex where the inferred kind claims real -/
theorem never_complex_where_real (chk : Bool) (reg : Registry) (t : Table) (ph : Name) (F : RtFuns) (ρ : Name → Rt)
    (hT : TableCompat t ph ρ) (hR : RegSound reg F) (e : Expr) (r : Bool)
    (hg : good chk reg t ph F ρ e = true)
    (h : infer chk reg t ph e = .ok (.scalar r) ∨ infer chk reg t ph e = .ok (.array r)) (hr : r = true) :
    rtEval F ρ e ≠ .cplx ∧ rtEval F ρ e ≠ .arr true := by
  subst hr
  rcases h with h | h
  · have := infer_sound chk reg t ph F ρ hT hR e _ hg h
    constructor <;> intro he <;> rw [he] at this <;> simp [compat] at this
  · have := infer_sound chk reg t ph F ρ hT hR e _ hg h
    constructor <;> intro he <;> rw [he] at this <;> simp [compat] at this

/-- a kind above the inferred one (what the table holds after unification with other
    assignments of the same variable) still describes the value -/
theorem table_kind_accepts (v : Rt) (k k' : Kind) (hc : compat v k = true)
    (hle : k = k' ∨ unifyK k k' = .ok k') : compat v k' = true := by
  rcases hle with h | h
  · subst h; exact hc
  · exact compat_mono v k k' hc h

/-- **Invariant under assignment.** If the table is a post-fix-point for the statement
    `lhs <- e` (the inferred kind of `e` is below the table's kind of `lhs`), executing it keeps
    the table a description of the store. -/
theorem assign_preserves (chk : Bool) (reg : Registry) (t : Table) (ph : Name) (F : RtFuns) (ρ : Name → Rt)
    (hT : TableCompat t ph ρ) (hR : RegSound reg F) (lhs : Name) (e : Expr) (k : Kind)
    (hg : good chk reg t ph F ρ e = true) (h : infer chk reg t ph e = .ok k)
    (hpost : ∀ k', lookupVar t ph lhs = some k' → k = k' ∨ unifyK k k' = .ok k') :
    TableCompat t ph (fun x => if x = lhs then rtEval F ρ e else ρ x) := by
  intro x kx hx
  by_cases hxl : x = lhs
  · subst hxl
    simp only [if_true]
    exact table_kind_accepts _ k kx (infer_sound chk reg t ph F ρ hT hR e k hg h) (hpost kx hx)
  · simp only [hxl, if_false]; exact hT x kx hx

/-- **Built-ins.** Declared result kinds vs. what the Python implementations return, for every
    argument whose run-time kind is compatible with the kind the inference saw (finite table over
    the kind universe with user types `a`, `b`; identifiers matter only through equality). -/
def rtUniverse : List Rt := [.bool, .int, .real, .cplx, .arr false, .arr true, .user "a", .user "b"]
def kindUniverse : List (Option Kind) := [none, some .boolean, some .integer, some (.scalar true), some (.scalar false),
  some (.array true), some (.array false), some (.user "a"), some (.user "b")]
def builtins1 : List Name := ["<builtin>norm_1", "<builtin>norm_2", "<builtin>norm_inf", "<builtin>len",
  "<builtin>isnan", "<builtin>elementwise_abs", "<builtin>array"]

def outOk : List Rt → List Kind → Bool
  | [], [] => true
  | r :: rs, k :: ks => (compat r k || r == .err) && outOk rs ks
  | _, _ => false

theorem builtin_kinds_sound :
    [true, false].all (fun chk => builtins1.all fun f => rtUniverse.all fun r => kindUniverse.all fun k =>
      !(match k with | none => true | some k' => compat r k') ||
      (match builtin f, rtBuiltin f [r] [] with
      | some fn, some rts => (match fn chk [k] [] with | .ok out => outOk rts out | .error _ => true)
      | _, _ => false)) = true := by decide

theorem dot_product_sound :
    [true, false].all (fun chk => rtUniverse.all fun r1 => rtUniverse.all fun r2 => kindUniverse.all fun k1 => kindUniverse.all fun k2 =>
      !((match k1 with | none => true | some k' => compat r1 k') && (match k2 with | none => true | some k' => compat r2 k')) ||
      match builtin "<builtin>dot_product", rtBuiltin "<builtin>dot_product" [r1, r2] [] with
      | some fn, some rts => (match fn chk [k1, k2] [] with | .ok out => outOk rts out | .error _ => true)
      | _, _ => false) = true := by decide

/-- matrix built-ins (column counts: an int value of kind Scalar(real), as constants are inferred) -/
theorem matrix_builtins_sound :
    [true, false].all (fun chk => ["<builtin>matmul", "<builtin>linear_solve"].all fun f =>
      rtUniverse.all fun r1 => rtUniverse.all fun r2 => kindUniverse.all fun k1 => kindUniverse.all fun k2 =>
      !((match k1 with | none => true | some k' => compat r1 k') && (match k2 with | none => true | some k' => compat r2 k')) ||
      match builtin f, rtBuiltin f [r1, r2, .int, .int] [] with
      | some fn, some rts => (match fn chk [k1, k2, some (.scalar true), some (.scalar true)] [] with
          | .ok out => outOk rts out | .error _ => true)
      | _, _ => false) = true := by decide

theorem transpose_sound :
    [true, false].all (fun chk => rtUniverse.all fun r1 => kindUniverse.all fun k1 =>
      !(match k1 with | none => true | some k' => compat r1 k') ||
      match builtin "<builtin>transpose", rtBuiltin "<builtin>transpose" [r1, .int] [] with
      | some fn, some rts => (match fn chk [k1, some (.scalar true)] [] with
          | .ok out => outOk rts out | .error _ => true)
      | _, _ => false) = true := by decide

/-! ### from the work-list loop to every execution

`SymbolKindFinder.__call__` (`inferAll`: sweeps over a queue popped from its end, statements that
cannot be inferred yet deferred to a buffer, repeated until a sweep changes nothing, then the final
consistency pass) returns a table that is a post-fix-point of the rule of EVERY statement — up to
unifications that `SymbolKindTable.set` printed and ignored (recorded known finding
`C09-incompatible-kinds-first-wins`).  With the per-operator soundness theorem this gives the
property for executions: every assignment of the program, executed in any state the table
describes, leaves a state the table describes. -/

/-- **The loop returns a post-fix-point** (all programs, all registries). -/
theorem inferred_table_is_postfix (reg : Registry) (prog : List (Name × KStmt)) (t : Table)
    (h : inferAll reg prog = .ok t) : ∀ p ∈ prog, StmtFix reg t p.1 p.2 :=
  inferAll_postfix reg prog t h

/-- **Every assigned variable has a kind** whenever inference succeeds: assignees of unsubscripted
    assignments, loop identifiers, and every assignee of a call that received a result kind. -/
theorem assigned_variable_has_kind (reg : Registry) (prog : List (Name × KStmt)) (t : Table)
    (h : inferAll reg prog = .ok t) (ph lhs : Name) (rhs flat : Expr) (loops : List Name)
    (hm : (ph, KStmt.assign lhs false rhs flat loops) ∈ prog) :
    (∃ k, t.get ph lhs = some k) ∧ ∀ i ∈ loops, ∃ k, t.get ph i = some k := by
  obtain ⟨hl, ha⟩ := inferAll_postfix reg prog t h _ hm
  obtain ⟨k, _, old, hold, _⟩ := ha rfl
  exact ⟨⟨old, hold⟩, fun i hi => by obtain ⟨o, ho, _⟩ := hl i hi; exact ⟨o, ho⟩⟩

/-- no unification was printed-and-ignored for this assignment (the known finding is exactly the
    failure of this) -/
def NoIgnoredConflict (reg : Registry) (t : Table) (ph lhs : Name) (flat : Expr) : Prop :=
  ∀ k old, infer false reg t ph flat = .ok k → t.get ph lhs = some old → ∀ e, unifyK k old ≠ .error e

/-- **One executed assignment of the program** keeps the returned table a description of the
    store — for every program on which inference succeeds, every statement of it, every state. -/
theorem inferred_table_sound_step (reg : Registry) (prog : List (Name × KStmt)) (t : Table)
    (h : inferAll reg prog = .ok t) (hph : ∀ p ∈ prog, p.1 ≠ "")
    (ph lhs : Name) (rhs flat : Expr) (loops : List Name)
    (hm : (ph, KStmt.assign lhs false rhs flat loops) ∈ prog)
    (F : RtFuns) (ρ : Name → Rt) (hT : TableCompat t ph ρ) (hR : RegSound reg F)
    (hg : good false reg t ph F ρ flat = true) (hnc : NoIgnoredConflict reg t ph lhs flat) :
    TableCompat t ph (fun x => if x = lhs then rtEval F ρ flat else ρ x) := by
  obtain ⟨_, ha⟩ := inferAll_postfix reg prog t h _ hm
  obtain ⟨k, hk, old, hold, habs⟩ := ha rfl
  have hw := inferAll_wellScoped reg prog hph t h
  have hphne : ph ≠ "" := hph _ hm
  apply assign_preserves false reg t ph F ρ hT hR lhs flat k hg hk
  intro k' hk'
  rw [lookupVar_eq_get t ph lhs hphne hw, hold] at hk'
  cases hk'
  rcases habs with h1 | h2 | ⟨e, he⟩
  · exact Or.inl h1.symm
  · exact Or.inr h2
  · exact absurd he (hnc k old hk hold e)

/-- a trace of executed assignments `(lhs, flattened rhs)` within one phase -/
def execTrace (F : RtFuns) : List (Name × Expr) → (Name → Rt) → (Name → Rt)
  | [], ρ => ρ
  | (lhs, e) :: r, ρ => execTrace F r (fun x => if x = lhs then rtEval F ρ e else ρ x)

/-- nothing raises along the trace (hypothesis `good` at every state the trace goes through) -/
def goodTrace (reg : Registry) (t : Table) (ph : Name) (F : RtFuns) : List (Name × Expr) → (Name → Rt) → Prop
  | [], _ => True
  | (lhs, e) :: r, ρ =>
    good false reg t ph F ρ e = true ∧ goodTrace reg t ph F r (fun x => if x = lhs then rtEval F ρ e else ρ x)

/-- **Every execution**: any sequence of assignments of a phase of the program, of any length, in
    any order, with any repetitions (loops of the step, repeated steps), started in a state the
    table describes, ends in a state the table describes — every stored value is of the inferred
    kind of its variable. -/
theorem inferred_table_sound_run (reg : Registry) (prog : List (Name × KStmt)) (t : Table)
    (h : inferAll reg prog = .ok t) (hph : ∀ p ∈ prog, p.1 ≠ "") (ph : Name) (F : RtFuns) (hR : RegSound reg F) :
    ∀ (trace : List (Name × Expr)) (ρ : Name → Rt),
      (∀ a ∈ trace, ∃ rhs loops, (ph, KStmt.assign a.1 false rhs a.2 loops) ∈ prog) →
      (∀ a ∈ trace, NoIgnoredConflict reg t ph a.1 a.2) →
      goodTrace reg t ph F trace ρ → TableCompat t ph ρ → TableCompat t ph (execTrace F trace ρ)
  | [], ρ, _, _, _, hT => hT
  | (lhs, e) :: r, ρ, hm, hnc, hg, hT => by
    obtain ⟨rhs, loops, hmem⟩ := hm (lhs, e) List.mem_cons_self
    have h1 := inferred_table_sound_step reg prog t h hph ph lhs rhs e loops hmem F ρ hT hR hg.1
      (hnc (lhs, e) List.mem_cons_self)
    exact inferred_table_sound_run reg prog t h hph ph F hR r _
      (fun a ha => hm a (List.mem_cons_of_mem _ ha)) (fun a ha => hnc a (List.mem_cons_of_mem _ ha)) hg.2 h1

/-! non-vacuity -/
/-- inference succeeds on a two-statement program whose second statement has to wait for the first
    (queue popped from its end), and the post-fix-point it returns gives `y` the complex kind -/
example :
    let prog : List (Name × KStmt) :=
      [("p", .assign "y" false (.prod [.var "x", .const (.cplx "1j")]) (.prod [.var "x", .const (.cplx "1j")]) []),
       ("p", .assign "x" false (.var "<t>") (.var "<t>") [])]
    (inferAll (mkRegistry []) prog).toOption.map (fun t => (t.get "p" "x", t.get "p" "y")) =
      some (some (.scalar true), some (.scalar false)) := by decide +kernel
example : infer true (mkRegistry []) Table.init "p" (.prod [.var "<t>", .const (.cplx "1j")]) = .ok (.scalar false) := by decide
example : rtEval (fun _ _ _ => []) (fun _ => .real) (.prod [.var "<t>", .const (.cplx "1j")]) = .cplx := by decide

/-! ### call statements (`AssignFunctionCall` with one or several results) -/

/-- **Invariant under a call statement.** If the table is a post-fix-point for
    `assignees <- f(args, kw)` (the declared result kinds are below the table's kinds of the
    assignees) and there are as many assignees as results (what the final consistency pass of the
    inference checks), executing it keeps the table a description of the store. -/
theorem call_preserves (reg : Registry) (t : Table) (ph : Name) (F : RtFuns) (ρ : Name → Rt)
    (hT : TableCompat t ph ρ) (hR : RegSound reg F) (lhs : List Name) (f : Name) (args : List Expr)
    (kw : List (Name × Expr)) (ks : List Kind)
    (hga : goodA false reg t ph F ρ args = true) (hgk : goodK false reg t ph F ρ kw = true)
    (h : inferCall false reg t ph f args kw = .ok ks) (hlen : ks.length = lhs.length)
    (hpost : ∀ p ∈ zipNK lhs ks, ∀ k', lookupVar t ph p.1 = some k' → p.2 = k' ∨ unifyK p.2 k' = .ok k') :
    TableCompat t ph (execCallRt F ρ lhs f args kw) := by
  unfold inferCall at h
  cases hf : reg f with
  | none => simp [hf] at h
  | some fn =>
    simp only [hf, bind, Except.bind] at h
    cases ha : inferArgs false reg t ph args with
    | error e => simp [ha] at h
    | ok ak =>
      cases hk : inferKw false reg t ph kw with
      | error e => simp [ha, hk] at h
      | ok kk =>
        simp only [ha, hk] at h
        cases hfn : fn false ak kk with
        | error e => simp [hfn] at h
        | ok ks0 =>
          simp only [hfn, Except.ok.injEq] at h
          subst h
          have hA := inferArgs_sound false reg t ph F ρ hT hR args ak hga ha
          have hK := inferKw_sound false reg t ph F ρ hT hR kw kk hgk hk
          have hO : OutCompat (F f (rtEvalL F ρ args) (rtEvalK F ρ kw)) ks0 :=
            hR f fn false _ ak _ kk ks0 hf hA hK hfn
          have hl := outCompat_length _ _ hO
          unfold execCallRt
          match lhs, hlen, hpost with
          | [], _, _ => exact hT
          | [x], hlen, hpost =>
            -- one assignee, hence one result kind, hence one result
            match ks0, hlen, hO, hl, hpost with
            | [k], _, hO, hl, hpost =>
              generalize F f (rtEvalL F ρ args) (rtEvalK F ρ kw) = rs at hO hl ⊢
              match rs, hO, hl with
              | [r], hO, _ =>
                simp only [OutCompat] at hO
                intro y ky hy
                by_cases hyx : y = x
                · subst hyx; simp only [if_true]
                  exact table_kind_accepts r k ky hO.1 (hpost (y, k) (by simp [zipNK]) ky hy)
                · simp only [hyx, if_false]; exact hT y ky hy
          | x :: y :: rest, hlen, hpost =>
            have : (F f (rtEvalL F ρ args) (rtEvalK F ρ kw)).length = (x :: y :: rest).length := by
              rw [hl, hlen]
            simp only [this, if_true]
            exact assignZip_compat t ph _ _ ρ hT (zip_values_compat t ph _ _ ks0 hO hpost)


/-- a registered function has a fixed number of results (`len(func.result_names)` is an attribute of
    the function, not of a call) -/
def FixedArity (reg : Registry) : Prop :=
  ∀ f fn, reg f = some fn → ∀ c1 c2 a1 a2 k1 k2 r1 r2,
    fn c1 a1 k1 = .ok r1 → fn c2 a2 k2 = .ok r2 → r1.length = r2.length


/-- the hypothesis is met by the registries the property talks about: every built-in has a fixed number
    of results (`builtin_arity`: three for `svd`, none for `print`, one otherwise), a function
    registered with fixed result kinds has that many -/
theorem fixedArity_mkRegistry (fixed : List (Name × List Kind)) : FixedArity (mkRegistry fixed) := by
  intro f fn hf c1 c2 a1 a2 k1 k2 r1 r2 h1 h2
  unfold mkRegistry at hf
  cases hb : builtin f with
  | some g =>
    simp only [hb, Option.some.injEq] at hf
    subst hf
    rw [builtin_arity f g hb c1 a1 k1 r1 h1, builtin_arity f g hb c2 a2 k2 r2 h2]
  | none =>
    simp only [hb] at hf
    cases hl : fixed.lookup f with
    | none => simp [hl] at hf
    | some ks =>
      simp only [hl, Option.some.injEq] at hf
      subst hf
      simp only [Except.ok.injEq] at h1 h2
      subst h1 h2
      rfl

/-- no unification was printed-and-ignored for an assignee of this call statement -/
def NoIgnoredCallConflict (reg : Registry) (t : Table) (ph : Name) (lhs : List Name) (f : Name)
    (args : List Expr) (kw : List (Name × Expr)) : Prop :=
  ∀ ks, inferCall false reg t ph f args kw = .ok ks →
    ∀ p ∈ zipNK lhs ks, ∀ old e, t.get ph p.1 = some old → unifyK p.2 old ≠ .error e

/-- **One executed call statement of the program** keeps the returned table a description of the
    store: every assignee receives a value of its inferred kind - in particular never the whole tuple
    of a multi-result function, because the final consistency pass of a successful inference has
    checked that there are as many assignees as results. -/
theorem inferred_table_sound_call_step (reg : Registry) (prog : List (Name × KStmt)) (t : Table)
    (h : inferAll reg prog = .ok t) (hph : ∀ p ∈ prog, p.1 ≠ "") (hfa : FixedArity reg)
    (ph : Name) (lhs : List Name) (f : Name) (args : List Expr) (kw : List (Name × Expr))
    (hm : (ph, KStmt.callAssign lhs f args kw) ∈ prog)
    (F : RtFuns) (ρ : Name → Rt) (hT : TableCompat t ph ρ) (hR : RegSound reg F)
    (hga : goodA false reg t ph F ρ args = true) (hgk : goodK false reg t ph F ρ kw = true)
    (hnc : NoIgnoredCallConflict reg t ph lhs f args kw) :
    TableCompat t ph (execCallRt F ρ lhs f args kw) := by
  obtain ⟨ks, hks, habs⟩ := inferAll_postfix reg prog t h _ hm
  have hw := inferAll_wellScoped reg prog hph t h
  have hphne : ph ≠ "" := hph _ hm
  -- the final pass ran and accepted the statement
  have hfc : finalCheck reg t prog = .ok () := by
    unfold inferAll at h
    cases ho : outer reg prog (4 * countNames prog + 4) Table.init with
    | error e => simp [ho, bind, Except.bind] at h
    | ok t0 =>
      simp only [ho, bind, Except.bind] at h
      cases hf : finalCheck reg t0 prog with
      | error e => simp [hf] at h
      | ok u =>
        simp only [hf, Except.ok.injEq] at h
        subst h
        exact hf
  obtain ⟨ks', hks', hlen'⟩ := finalCheck_count reg t prog hfc ph lhs f args kw hm
  obtain ⟨fn, ak, kk, hf, hfn⟩ := inferCall_fn hks
  obtain ⟨fn', ak', kk', hf', hfn'⟩ := inferCall_fn hks'
  have hfe : fn' = fn := by rw [hf] at hf'; exact (Option.some.inj hf').symm
  subst hfe
  have hlen : ks.length = lhs.length := (hfa f fn' hf _ _ _ _ _ _ _ _ hfn hfn').trans hlen'
  apply call_preserves reg t ph F ρ hT hR lhs f args kw ks hga hgk hks hlen
  intro p hp k' hk'
  rw [lookupVar_eq_get t ph p.1 hphne hw] at hk'
  obtain ⟨old, hold, h1 | h2 | ⟨e, he⟩⟩ := habs p hp
  · rw [hold] at hk'; cases hk'; exact Or.inl h1.symm
  · rw [hold] at hk'; cases hk'; exact Or.inr h2
  · exact absurd he (hnc ks hks p hp old e hold)


/-- an executed statement: an assignment `(lhs, flattened rhs)` or a call statement -/
inductive Step where
  | assign (lhs : Name) (e : Expr)
  | call (lhs : List Name) (f : Name) (args : List Expr) (kw : List (Name × Expr))

def Step.exec (F : RtFuns) (ρ : Name → Rt) : Step → (Name → Rt)
  | .assign lhs e => fun x => if x = lhs then rtEval F ρ e else ρ x
  | .call lhs f args kw => execCallRt F ρ lhs f args kw

/-- the step is a statement of phase `ph` of the program -/
def Step.inProg (prog : List (Name × KStmt)) (ph : Name) : Step → Prop
  | .assign lhs e => ∃ rhs loops, (ph, KStmt.assign lhs false rhs e loops) ∈ prog
  | .call lhs f args kw => (ph, KStmt.callAssign lhs f args kw) ∈ prog

/-- nothing raises while the step's expressions are evaluated -/
def Step.good (reg : Registry) (t : Table) (ph : Name) (F : RtFuns) (ρ : Name → Rt) : Step → Prop
  | .assign _ e => Dagrt.Kinds.good false reg t ph F ρ e = true
  | .call _ _ args kw => goodA false reg t ph F ρ args = true ∧ goodK false reg t ph F ρ kw = true

def Step.noIgnored (reg : Registry) (t : Table) (ph : Name) : Step → Prop
  | .assign lhs e => NoIgnoredConflict reg t ph lhs e
  | .call lhs f args kw => NoIgnoredCallConflict reg t ph lhs f args kw

def execSteps (F : RtFuns) : List Step → (Name → Rt) → (Name → Rt)
  | [], ρ => ρ
  | s :: r, ρ => execSteps F r (s.exec F ρ)

def goodSteps (reg : Registry) (t : Table) (ph : Name) (F : RtFuns) : List Step → (Name → Rt) → Prop
  | [], _ => True
  | s :: r, ρ => s.good reg t ph F ρ ∧ goodSteps reg t ph F r (s.exec F ρ)

/-- **Every execution, call statements included**: any sequence of assignments and call statements
    of a phase of the program, of any length, in any order, with any repetitions, started in a state
    the table describes, ends in a state the table describes. -/
theorem inferred_table_sound_run_stmts (reg : Registry) (prog : List (Name × KStmt)) (t : Table)
    (h : inferAll reg prog = .ok t) (hph : ∀ p ∈ prog, p.1 ≠ "") (hfa : FixedArity reg) (ph : Name)
    (F : RtFuns) (hR : RegSound reg F) :
    ∀ (trace : List Step) (ρ : Name → Rt),
      (∀ s ∈ trace, s.inProg prog ph) → (∀ s ∈ trace, s.noIgnored reg t ph) →
      goodSteps reg t ph F trace ρ → TableCompat t ph ρ → TableCompat t ph (execSteps F trace ρ)
  | [], ρ, _, _, _, hT => hT
  | s :: r, ρ, hm, hnc, hg, hT => by
    have h1 : TableCompat t ph (s.exec F ρ) := by
      have hin := hm s List.mem_cons_self
      have hno := hnc s List.mem_cons_self
      cases s with
      | assign lhs e =>
        obtain ⟨rhs, loops, hmem⟩ := hin
        exact inferred_table_sound_step reg prog t h hph ph lhs rhs e loops hmem F ρ hT hR hg.1 hno
      | call lhs f args kw =>
        exact inferred_table_sound_call_step reg prog t h hph hfa ph lhs f args kw hin F ρ hT hR hg.1.1 hg.1.2 hno
    exact inferred_table_sound_run_stmts reg prog t h hph hfa ph F hR r _
      (fun a ha => hm a (List.mem_cons_of_mem _ ha)) (fun a ha => hnc a (List.mem_cons_of_mem _ ha)) hg.2 h1

/-- non-vacuity, and the shape the count check is there for: with as many assignees as results the
    two-result call is accepted and the assignees get the results' kinds; with ONE assignee inference
    fails (the interpreter would store the whole tuple, a value without a kind) -/
example :
    let reg := mkRegistry [("<func>two", [.scalar true, .array false])]
    let ok := [("p", KStmt.callAssign ["s", "w"] "<func>two" [.var "<t>"] [])]
    let short := [("p", KStmt.callAssign ["s"] "<func>two" [.var "<t>"] [])]
    (inferAll reg ok).toOption.map (fun t => (t.get "p" "s", t.get "p" "w")) =
        some (some (.scalar true), some (.array false)) ∧
    (inferAll reg short).toOption.isNone = true ∧
    execCallRt (fun _ _ _ => [.real, .arr true]) (fun _ => .real) ["s"] "<func>two" [.var "<t>"] [] "s" = .none := by
  decide +kernel


end Dagrt.C09
