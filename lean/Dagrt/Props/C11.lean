import Dagrt.Props.C01
namespace Dagrt.C11
open Dagrt Dagrt.StepLoop
theorem placeholder : allTrue [] = true := rfl
end Dagrt.C11
