import Dagrt.Props.C01
import Dagrt.Props.C08
/-!
# C11 — a failing user function leaves the stepper consistent and resumable

Model: `StepLoop.abortedStep` — when the exception leaves the step, a prefix `pre` of the order the
back end uses has been executed; `run_single_step`'s `finally` (interpreter) / the end of the phase
function's frame (generated code) discards the per-step variables; the successor phase was stored
before the body ran.  The effect of the statement that made the failing call is not part of the
prefix (for a plain assignment or call statement the value is computed before anything is
assigned; for a looped assignment the iterations before the failing one have happened — that
partial effect is covered by the oracle on the real back ends, not by these theorems).

The exception itself is not a value of the model ("the same exception reaches the caller" is
checked on the real objects on every run).
-/
namespace Dagrt.C11
open Dagrt Dagrt.Sem Dagrt.Builder Dagrt.StepLoop

/-- no per-step variable is visible after the failed step -/
theorem no_temporaries_after_abort (F : Funs) (ph : Phase) (pre : List Nat) (s : RunState) (x : Name)
    (hx : isPersistent x = false) : (abortedStep F ph pre s).σ x = .val .none := by
  simp [abortedStep, persist, hx]

/-- executing statements changes a variable only if one of them declares it as written -/
theorem flat_frame (F : Funs) (stmts : List Stmt) (x : Name) : ∀ (pre : List Nat) (σ : Store),
    (∀ i ∈ pre, ∀ st, stmts[i]? = some st → x ∉ effW st) → flatExec F stmts pre σ x = σ x := by
  intro pre
  induction pre with
  | nil => intro σ _; rfl
  | cons i pre ih =>
    intro σ h
    rw [flatExec_def]
    simp only [List.foldl_cons]
    have h' := ih (flatStep F stmts σ i) (fun k hk st hst => h k (List.mem_cons_of_mem _ hk) st hst)
    rw [flatExec_def] at h'
    refine h'.trans ?_
    unfold flatStep
    cases hs : stmts[i]? with
    | none => rfl
    | some st => exact C08.stmt_frame F st σ x (h i List.mem_cons_self st hs)

theorem persistent_ne_exec {x : Name} (hx : isPersistent x = true) : x ≠ EXEC := by
  intro h; subst h
  have : isPersistent EXEC = false := by decide +kernel
  rw [this] at hx; exact Bool.noConfusion hx

/-- **unchanged unless written**: a persistent variable that no executed statement declares as
    written holds its value from before the step -/
theorem unwritten_persistent_unchanged (F : Funs) (ph : Phase) (pre : List Nat) (s : RunState) (x : Name)
    (hx : isPersistent x = true)
    (h : ∀ i ∈ pre, ∀ st, (flatStmts ph.ops)[i]? = some st → x ∉ effW st) :
    (abortedStep F ph pre s).σ x = s.σ x := by
  simp only [abortedStep, persist, hx, cond_true]
  rw [flat_frame F _ x pre _ h]
  simp [startStep, Store.set, persistent_ne_exec hx, persist, hx]

/-- **every value is justified**: after the failed step a persistent variable holds its value from
    before the step, or a statement that was executed in this step assigns to it -/
theorem persistent_value_justified (F : Funs) (ph : Phase) (pre : List Nat) (s : RunState) (x : Name)
    (hx : isPersistent x = true) :
    (abortedStep F ph pre s).σ x = s.σ x ∨
      ∃ i ∈ pre, ∃ st, (flatStmts ph.ops)[i]? = some st ∧ x ∈ effW st := by
  by_cases h : ∃ i ∈ pre, ∃ st, (flatStmts ph.ops)[i]? = some st ∧ x ∈ effW st
  · exact Or.inr h
  · left
    apply unwritten_persistent_unchanged F ph pre s x hx
    intro i hi st hst hmem
    exact h ⟨i, hi, st, hst, hmem⟩

/-- **writes that depend on the failed call did not happen**: if the back end's order is admissible
    (`π = pre ++ j :: post`, `j` the statement that made the failing call) and every statement
    that writes `x` is `j` itself or depends on `j` through recorded dependencies, `x` is unchanged -/
theorem dependent_writes_unchanged (F : Funs) (ph : Phase) (pre post : List Nat) (j : Nat) (s : RunState)
    (x : Name) (hx : isPersistent x = true)
    (hadm : C01.Admissible ph.ops (pre ++ j :: post))
    (hdep : ∀ w st, (flatStmts ph.ops)[w]? = some st → x ∈ effW st → Reach (Builder.run ph.ops).core.D j w) :
    (abortedStep F ph pre s).σ x = s.σ x := by
  apply unwritten_persistent_unchanged F ph pre s x hx
  intro w hw st hst hmem
  have hr := hdep w st hst hmem
  have hnd : (pre ++ j :: post).Nodup := (List.Perm.nodup_iff hadm.1).mpr List.nodup_range
  obtain ⟨p1, p2, hsplit⟩ := List.append_of_mem hw
  have hπ : pre ++ j :: post = p1 ++ w :: (p2 ++ j :: post) := by rw [hsplit]; simp
  rcases reach_before hadm.2 hr p1 (p2 ++ j :: post) hπ with e | hmem'
  · -- j = w would occur twice
    subst e
    rw [hπ] at hnd
    have := List.nodup_append.mp hnd
    have h3 := (List.nodup_cons.mp this.2.1).1
    exact h3 (by simp)
  · rw [hπ] at hnd
    have := (List.nodup_append.mp hnd).2.2 j hmem' j (by simp)
    exact this rfl

/-- **resumable**: how a stepper continues depends only on its persistent variables and its next
    phase — whatever else the failed step left behind is irrelevant, so stepping on equals
    stepping a fresh stepper that was started from a snapshot of that state and phase -/
theorem step_depends_on_persistent_only (body : Phase → Store → Boxed) (ps : List Phase) (σ₁ σ₂ : Store) (p : Name)
    (h : persist σ₁ = persist σ₂) (hp : (findPhase ps p).isSome) :
    stepWith body ps ⟨σ₁, p⟩ = stepWith body ps ⟨σ₂, p⟩ := by
  unfold stepWith
  cases hf : findPhase ps p with
  | none => simp [hf] at hp
  | some ph => simp [startStep, h]

theorem get_of_persist {σ₁ σ₂ : Store} (h : persist σ₁ = persist σ₂) (x : Name) (hx : isPersistent x = true) :
    σ₁.get x = σ₂.get x := by
  have := congrFun h x
  simp only [persist, hx, cond_true] at this
  simp [Store.get, this]

/-- … for whole runs: every end time, step limit and number of passes — the same events and the same
    states after every step -/
theorem resume_eq_fresh (body : Phase → Store → Boxed) (ps : List Phase) (σ₁ σ₂ : Store) (p : Name)
    (h : persist σ₁ = persist σ₂) (hp : (findPhase ps p).isSome)
    (tEnd : Option Int) (maxSteps : Option Nat) (fuel n : Nat) :
    runLoop (stepWith body ps) tEnd maxSteps fuel n ⟨σ₁, p⟩ =
      runLoop (stepWith body ps) tEnd maxSteps fuel n ⟨σ₂, p⟩ := by
  cases fuel with
  | zero => simp [runLoop]
  | succ fuel =>
    have hs : stopNow ⟨σ₁, p⟩ tEnd maxSteps n = stopNow ⟨σ₂, p⟩ tEnd maxSteps n := by
      have ht : isPersistent "<t>" = true := by decide +kernel
      simp [stopNow, reached, get_of_persist h "<t>" ht]
    have hstep := step_depends_on_persistent_only body ps σ₁ σ₂ p h hp
    unfold runLoop
    rw [hs, hstep]

/-- in particular: the state a failed step leaves behind and a snapshot of its persistent variables -/
theorem resume_after_abort_eq_fresh_from_snapshot (F : Funs) (body : Phase → Store → Boxed) (ps : List Phase)
    (ph : Phase) (pre : List Nat) (s : RunState) (snapshot : Store)
    (hsnap : persist snapshot = persist (abortedStep F ph pre s).σ) (hp : (findPhase ps ph.next).isSome)
    (tEnd : Option Int) (maxSteps : Option Nat) (fuel n : Nat) :
    runLoop (stepWith body ps) tEnd maxSteps fuel n (abortedStep F ph pre s) =
      runLoop (stepWith body ps) tEnd maxSteps fuel n ⟨snapshot, ph.next⟩ :=
  resume_eq_fresh body ps _ _ ph.next hsnap.symm hp tEnd maxSteps fuel n

end Dagrt.C11
