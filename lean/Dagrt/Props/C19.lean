import Dagrt.Model.PrintParse
namespace Dagrt.C19
open Dagrt Dagrt.PrintParse
theorem placeholder : dropWs [] = [] := rfl
end Dagrt.C19
