import Dagrt.Model.PrintParse
import Dagrt.Proofs.FuseProofs
/-!
# C19 — printing an expression and parsing it back returns the same expression

Model: `Dagrt.PrintParse` (`Model/PrintParse.lean`) = the dagrt-owned parts of
`dagrt.expression.parse`: the lexer table (first matching rule wins) with the identifier rule
extended by backtick-delimited identifiers, `_ExtendedParser.parse_terminal` for `<tag>name`, and
the backtick-removal pass.  pymbolic's precedence-climbing parser and its printer are third party
and NOT modelled: the round trip of whole expressions is decided on every run by the oracle on the
real code (prints identically, same variables, same value, constants keep their type).

Proved here, for ALL names / token lists / expressions:
* terminals at token level: `<`, tag, `>`, name is read as the one variable `<tag>name`; a tag-only
  identifier is read as `<tag>` when no identifier token follows; a plain identifier is itself;
* **backtick-quoted names denote the variable between the backticks**: for every run `q` of
  characters the quoting rule admits, the string `` `q` `` lexes to a single identifier token and
  parses to the variable `q` (lexer + terminal rule + removal pass composed);
* the removal pass renames exactly by `unquote`: it is the substitution `x ↦ unquote x` on every
  variable occurrence (function symbols, subscript aggregates and look-ups included), so the
  variables of the result are the unquoted variables of the input, and names without backticks are
  untouched.
-/
namespace Dagrt.C19
open Dagrt Dagrt.PrintParse

/-- `<tag>name`: four tokens, one variable -/
theorem terminal_tagged (tag name : String) (rest : List Tok) :
    parseTerminal (.op "<" :: .ident tag :: .op ">" :: .ident name :: rest) =
      .ok ("<" ++ tag ++ ">" ++ name, rest) := by
  simp [parseTerminal]

/-- `<tag>` alone: the variable `<tag>`, provided no identifier token follows (then the two would
    be glued together — the printer never puts two terminals next to each other) -/
theorem terminal_tag_only (tag : String) (rest : List Tok) (h : ∀ n r, rest ≠ .ident n :: r) :
    parseTerminal (.op "<" :: .ident tag :: .op ">" :: rest) = .ok ("<" ++ tag ++ ">", rest) := by
  unfold parseTerminal
  cases rest with
  | nil => rfl
  | cons t r =>
    cases t with
    | ident n => exact absurd rfl (h n r)
    | _ => rfl

theorem terminal_plain (name : String) (rest : List Tok) :
    parseTerminal (.ident name :: rest) = .ok (name, rest) := by
  simp [parseTerminal]

/-- a tag that is not followed by `>` is a parse error, not a wrong variable -/
theorem terminal_unclosed_tag (tag : String) (rest : List Tok) (h : ∀ r, rest ≠ .op ">" :: r) :
    parseTerminal (.op "<" :: .ident tag :: rest) = .error (.expected ">") := by
  cases rest with
  | nil => simp [parseTerminal]
  | cons t r =>
    cases t with
    | op s =>
      have hs : s ≠ ">" := by intro e; subst e; exact h r rfl
      simp [parseTerminal, hs]
    | _ => simp [parseTerminal]

/-! ### quoting -/

theorem spanP_all (p : Char → Bool) : ∀ (a rest : List Char), (∀ c ∈ a, p c = true) →
    (∀ c r, rest = c :: r → p c = false) → spanP p (a ++ rest) = (a, rest)
  | [], rest, _, hr => by
    cases rest with
    | nil => rfl
    | cons c r => simp [spanP, hr c r rfl]
  | c :: a, rest, ha, hr => by
    have := spanP_all p a rest (fun x hx => ha x (List.mem_cons_of_mem _ hx)) hr
    simp [spanP, ha c List.mem_cons_self, this]

theorem unquote_quoted (q : List Char) : unquote (String.ofList ('`' :: q ++ ['`'])) = String.ofList q := by
  unfold unquote
  simp

theorem unquote_plain (n : Name) (h : ∀ r, n.toList ≠ '`' :: r) : unquote n = n := by
  unfold unquote
  split
  · rename_i r heq; exact absurd heq (h r)
  · rfl

/-- the lexer reads `` `q` `` (q: characters the quoting rule admits) as ONE identifier token -/
theorem lexOne_quoted (q rest : List Char) (hq : ∀ c ∈ q, isQuotedChar c = true) :
    lexOne ('`' :: q ++ '`' :: rest) = some (.ident (String.ofList ('`' :: q ++ ['`'])), rest) := by
  have hsp : spanP isQuotedChar (q ++ '`' :: rest) = (q, '`' :: rest) :=
    spanP_all isQuotedChar q ('`' :: rest) hq (by intro c r h; simp at h; rw [← h.1]; decide)
  have hid : lexIdent ('`' :: q ++ '`' :: rest) = some ('`' :: q ++ ['`'], rest) := by
    simp [lexIdent, isIdentStart, isLetter, hsp]
  unfold lexOne
  have h1 : firstPrefix fixedOps ('`' :: q ++ '`' :: rest) = none := by
    simp [fixedOps, firstPrefix, startsWith]
  have h2 : firstKeyword keywords ('`' :: q ++ '`' :: rest) = none := by
    simp [keywords, firstKeyword, startsWith]
  have h3 : lexNumber ('`' :: q ++ '`' :: rest) = none := by
    simp [lexNumber, spanP, isDigit]
  have h4 : firstPrefix lateOps ('`' :: q ++ '`' :: rest) = none := by
    simp [lateOps, firstPrefix, startsWith]
  have h5 : firstPrefix ["True", "False"] ('`' :: q ++ '`' :: rest) = none := by
    simp [firstPrefix, startsWith]
  simp only [h1, h2, h3, h4, h5, hid]

/-- **Backtick-quoted names denote the variable between the backticks** -/
theorem quoted_name_denotes (q : List Char) (hq : ∀ c ∈ q, isQuotedChar c = true) :
    parseName (String.ofList ('`' :: q ++ ['`'])) = .ok (String.ofList q) := by
  unfold parseName lex
  have hl := lexOne_quoted q [] hq
  have htl : (String.ofList ('`' :: q ++ ['`'])).toList = '`' :: q ++ '`' :: [] := by simp
  rw [htl]
  have hf : ∀ n, lexFuel (n + 1) ('`' :: q ++ '`' :: []) = some [.ident (String.ofList ('`' :: q ++ ['`']))] := by
    intro n
    have : lexFuel (n + 1) ('`' :: (q ++ '`' :: [])) = some [.ident (String.ofList ('`' :: q ++ ['`']))] := by
      rw [lexFuel]
      · have hl' : lexOne ('`' :: (q ++ '`' :: [])) = some (.ident (String.ofList ('`' :: q ++ ['`'])), []) := hl
        rw [hl']
        cases n <;> simp [lexFuel]
      · intro h; cases h
    exact this
  have hlen : ∃ n, (String.ofList ('`' :: q ++ ['`'])).length + 1 = n + 1 := ⟨_, rfl⟩
  obtain ⟨n, hn⟩ := hlen
  rw [hn, hf]
  simp only [dropWs, List.filter, parseTerminal]
  rw [unquote_quoted]

/-- the opening `<` of a tag is its own token whenever the tag does not start with `<` or `=`
    (no `<<`, `<=`) … -/
theorem lexOne_less (c : Char) (rest : List Char) (h1 : c ≠ '<') (h2 : c ≠ '=') :
    lexOne ('<' :: c :: rest) = some (.op "<", c :: rest) := by
  simp [lexOne, fixedOps, firstPrefix, startsWith, Ne.symm h1, Ne.symm h2]

/-- … and the closing `>` whenever what follows does not start with `>` or `=` -/
theorem lexOne_greater (rest : List Char) (h : ∀ c r, rest = c :: r → c ≠ '>' ∧ c ≠ '=') :
    lexOne ('>' :: rest) = some (.op ">", rest) := by
  cases rest with
  | nil => simp [lexOne, fixedOps, firstPrefix, startsWith]
  | cons c r =>
    obtain ⟨h1, h2⟩ := h c r rfl
    simp [lexOne, fixedOps, firstPrefix, startsWith, Ne.symm h1, Ne.symm h2]

/-! ### plain identifiers -/

theorem start_not_digit (c : Char) (hc : isIdentStart c = true) : isDigit c = false := by
  cases hd : isDigit c with
  | false => rfl
  | true =>
    exfalso
    simp only [isIdentStart, isLetter, isDigit, Bool.or_eq_true, Bool.and_eq_true, decide_eq_true_eq, beq_iff_eq] at hc hd
    simp only [Char.le_def, UInt32.le_iff_toNat_le] at hc hd
    have e0 : ('0' : Char).val.toNat = 48 := by decide
    have e9 : ('9' : Char).val.toNat = 57 := by decide
    have ea : ('a' : Char).val.toNat = 97 := by decide
    have ez : ('z' : Char).val.toNat = 122 := by decide
    have eA : ('A' : Char).val.toNat = 65 := by decide
    have eZ : ('Z' : Char).val.toNat = 90 := by decide
    rcases hc with (((⟨h1, h2⟩ | ⟨h1, h2⟩) | h) | h) | h
    · omega
    · omega
    · subst h; revert hd; decide
    · subst h; revert hd; decide
    · subst h; revert hd; decide

theorem ne_of_start {c : Char} (hc : isIdentStart c = true) (d : Char) (hd : isIdentStart d = false) : d ≠ c := by
  intro h; subst h; rw [hc] at hd; cases hd

/-- **A plain identifier lexes to one identifier token**: an identifier-start character followed by
    identifier characters, up to a character that cannot continue an identifier, unless the lexer's
    keyword rules claim its beginning (`and`/`or`/`not`/`if`/`else` followed by a non-word character,
    or the literals `True`/`False` as a prefix) -/
theorem lexOne_plain (c : Char) (a rest : List Char) (hc : isIdentStart c = true)
    (ha : ∀ x ∈ a, isIdentChar x = true) (hb : ∀ x r, rest = x :: r → isIdentChar x = false)
    (hk : firstKeyword keywords (c :: a ++ rest) = none)
    (hT : firstPrefix ["True", "False"] (c :: a ++ rest) = none) :
    lexOne (c :: a ++ rest) = some (.ident (String.ofList (c :: a)), rest) := by
  have hsp : spanP isIdentChar (a ++ rest) = (a, rest) := spanP_all isIdentChar a rest ha hb
  have n := ne_of_start hc
  have h1 : firstPrefix fixedOps (c :: a ++ rest) = none := by
    simp [fixedOps, firstPrefix, startsWith, n '=' (by decide), n '!' (by decide), n '<' (by decide), n '>' (by decide)]
  have hnd := start_not_digit c hc
  have h3 : lexNumber (c :: a ++ rest) = none := by
    simp [lexNumber, spanP, hnd, Ne.symm (n '.' (by decide))]
  have h4 : firstPrefix lateOps (c :: a ++ rest) = none := by
    simp [lateOps, firstPrefix, startsWith, n '+' (by decide), n '-' (by decide), n '*' (by decide), n '/' (by decide),
      n '%' (by decide), n '&' (by decide), n '|' (by decide), n '~' (by decide), n '^' (by decide), n '(' (by decide),
      n ')' (by decide), n '[' (by decide), n ']' (by decide)]
  have hid : lexIdent (c :: a ++ rest) = some (c :: a, rest) := by
    simp [lexIdent, hc, hsp]
  have hk' : firstKeyword keywords (c :: (a ++ rest)) = none := hk
  have hT' : firstPrefix ["True", "False"] (c :: (a ++ rest)) = none := hT
  unfold lexOne
  simp only [List.cons_append] at h1 h3 h4 hid ⊢
  rw [h1, hk', h3, h4, hT', hid]

theorem startsWith_some : ∀ (p s r : List Char), startsWith p s = some r ↔ s = p ++ r
  | [], s, r => by simp [startsWith]
  | _ :: _, [], r => by simp [startsWith]
  | x :: p, c :: s, r => by
    simp only [startsWith]
    split
    · rename_i h; subst h
      rw [startsWith_some p s r]; simp
    · rename_i h
      simp only [reduceCtorEq, List.cons_append, List.cons.injEq, false_iff, not_and]
      intro h'; exact absurd h'.symm h

/-- one keyword does not claim the beginning of a word that is not that keyword -/
theorem keyword_skipped (k w rest : List Char) (hkc : ∀ x ∈ k, isIdentChar x = true)
    (hw : ∀ x ∈ w, isWord x = true) (hb : ∀ x r, rest = x :: r → isIdentChar x = false) (hne : w ≠ k) :
    ∀ r, startsWith k (w ++ rest) = some r → boundary r = false := by
  intro r h
  rw [startsWith_some] at h
  rcases List.append_eq_append_iff.mp h with ⟨a', h1, h2⟩ | ⟨a', h1, h2⟩
  · -- k = w ++ a': the keyword is longer than the word, so `rest` continues it with an identifier character
    cases a' with
    | nil => simp at h1; exact absurd h1.symm hne
    | cons x a'' =>
      have hx : isIdentChar x = true := hkc x (by rw [h1]; simp)
      have := hb x (a'' ++ r) (by rw [h2]; rfl)
      rw [hx] at this; cases this
  · -- w = k ++ a': the word goes on with a word character: no boundary
    cases a' with
    | nil => simp at h1; exact absurd h1 hne
    | cons x a'' =>
      have hx : isWord x = true := hw x (by rw [h1]; simp)
      rw [h2]
      simp [boundary, hx]

theorem firstKeyword_none : ∀ (ks : List String) (w rest : List Char),
    (∀ k ∈ ks, ∀ x ∈ k.toList, isIdentChar x = true) → (∀ x ∈ w, isWord x = true) →
    (∀ x r, rest = x :: r → isIdentChar x = false) → (∀ k ∈ ks, w ≠ k.toList) →
    firstKeyword ks (w ++ rest) = none
  | [], _, _, _, _, _, _ => rfl
  | k :: ks, w, rest, hkc, hw, hb, hne => by
    have ih := firstKeyword_none ks w rest (fun k' hk' => hkc k' (List.mem_cons_of_mem _ hk')) hw hb
      (fun k' hk' => hne k' (List.mem_cons_of_mem _ hk'))
    simp only [firstKeyword]
    cases hs : startsWith k.toList (w ++ rest) with
    | none => exact ih
    | some r =>
      have := keyword_skipped k.toList w rest (hkc k List.mem_cons_self) hw hb (hne k List.mem_cons_self) r hs
      simp [this, ih]

theorem keywords_ident_chars : ∀ k ∈ keywords, ∀ x ∈ k.toList, isIdentChar x = true := by decide

/-- a word (letters, digits, underscores, not starting with a digit) that is not a keyword and does not
    begin with `True` / `False` lexes to ONE identifier token carrying exactly that word -/
theorem word_lexes_to_identifier (c : Char) (a rest : List Char) (hc : isIdentStart c = true)
    (hw : ∀ x ∈ c :: a, isWord x = true) (hb : ∀ x r, rest = x :: r → isIdentChar x = false)
    (hnk : ∀ k ∈ keywords, c :: a ≠ k.toList)
    (hT : firstPrefix ["True", "False"] (c :: a ++ rest) = none) :
    lexOne (c :: a ++ rest) = some (.ident (String.ofList (c :: a)), rest) := by
  apply lexOne_plain c a rest hc ?_ hb ?_ hT
  · intro x hx
    have := hw x (List.mem_cons_of_mem _ hx)
    simp only [isWord, isIdentChar, isIdentStart, Bool.or_eq_true, beq_iff_eq] at this ⊢
    rcases this with (h | h) | h
    · exact Or.inl (Or.inl (Or.inl (Or.inl h)))
    · exact Or.inr h
    · exact Or.inl (Or.inl (Or.inl (Or.inr h)))
  · exact firstKeyword_none keywords (c :: a) rest keywords_ident_chars hw hb hnk

/-! ### the removal pass is the renaming by `unquote` -/

mutual
theorem remove_is_rename : ∀ e : Expr, removeBackticks e = Fuse.renameExpr unquote e
  | .const _ => by simp [removeBackticks, Fuse.renameExpr]
  | .var _ => by simp [removeBackticks, Fuse.renameExpr]
  | .sum cs => by simp [removeBackticks, Fuse.renameExpr, removeL_is_rename cs]
  | .prod cs => by simp [removeBackticks, Fuse.renameExpr, removeL_is_rename cs]
  | .quot a b => by simp [removeBackticks, Fuse.renameExpr, remove_is_rename a, remove_is_rename b]
  | .pow a b => by simp [removeBackticks, Fuse.renameExpr, remove_is_rename a, remove_is_rename b]
  | .call f args kw => by simp [removeBackticks, Fuse.renameExpr, removeL_is_rename args, removeK_is_rename kw]
  | .sub a b => by simp [removeBackticks, Fuse.renameExpr, remove_is_rename a, remove_is_rename b]
  | .attr a _ => by simp [removeBackticks, Fuse.renameExpr, remove_is_rename a]
  | .cmp _ a b => by simp [removeBackticks, Fuse.renameExpr, remove_is_rename a, remove_is_rename b]
  | .lnot a => by simp [removeBackticks, Fuse.renameExpr, remove_is_rename a]
  | .land cs => by simp [removeBackticks, Fuse.renameExpr, removeL_is_rename cs]
  | .lor cs => by simp [removeBackticks, Fuse.renameExpr, removeL_is_rename cs]
  | .ite c t e => by simp [removeBackticks, Fuse.renameExpr, remove_is_rename c, remove_is_rename t, remove_is_rename e]
  | .min cs => by simp [removeBackticks, Fuse.renameExpr, removeL_is_rename cs]
  | .max cs => by simp [removeBackticks, Fuse.renameExpr, removeL_is_rename cs]
theorem removeL_is_rename : ∀ cs : List Expr, removeL cs = Fuse.renameL unquote cs
  | [] => rfl
  | c :: cs => by simp [removeL, Fuse.renameL, remove_is_rename c, removeL_is_rename cs]
theorem removeK_is_rename : ∀ cs : List (Name × Expr), removeK cs = Fuse.renameK unquote cs
  | [] => rfl
  | (k, c) :: cs => by simp [removeK, Fuse.renameK, remove_is_rename c, removeK_is_rename cs]
end

/-- the variables of the result are the unquoted variables of the input, occurrence by occurrence -/
theorem remove_vars (e : Expr) : Sem.depVars (removeBackticks e) = (Sem.depVars e).map unquote := by
  rw [remove_is_rename]; exact Fuse.depVars_rename unquote e

/-- non-vacuity: `` `<state>y`[`i`] + `a:b` `` -/
example : (removeBackticks (.sum [.sub (.var "`<state>y`") (.var "`i`"), .var "`a:b`"])).beq
    (.sum [.sub (.var "<state>y") (.var "i"), .var "a:b"]) = true := by decide +kernel
example : parseName "`<state>y`" = .ok "<state>y" := by decide +kernel
example : parseName "<state>y" = .ok "<state>y" := by decide +kernel
example : parseName "<dt>" = .ok "<dt>" := by decide +kernel

end Dagrt.C19
