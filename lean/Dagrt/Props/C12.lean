import Dagrt.Model.Refcount
/-!
# C12 — generated Fortran never leaks, double-frees or uses freed user-type storage

Model: `Dagrt.Refcount` (`Model/Refcount.lean`) = the reference-count protocol the generated module
implements: `dagrt_alloc_check_T` (copy-on-write: a shared block is left to the others and a fresh
one taken), `dagrt_deinit_T`, the move emitted for `v <- w`.  The model is compared on every run
with the REAL emitted routines, compiled by gfortran and driven through random operation sequences
(association status, reference counts and aliasing after every operation).

Proved, for EVERY sequence of operations on any number of pointer variables:
* `Inv`: the reference-count cell of a block always equals the number of pointer variables bound to
  it, and blocks that were never allocated have none;
* hence a bound variable always points to live storage (no use of freed storage through a bound
  variable), storage is deallocated only when exactly one variable is bound to it — so never twice,
  and never while another variable still uses it;
* after releasing every variable (what the exit label of every phase subroutine and `shutdown` do,
  after the `fix:` commit for ALL user-type locals) no block is live: nothing leaks.
Which operations the generator places where (allocation check before a write, move on plain
assignment, releases at last uses and at the exit label) is NOT modelled; whole methods are run
under AddressSanitizer/LeakSanitizer on every run (oracle).
-/
namespace Dagrt.C12
open Dagrt.Refcount

structure Inv (h : Heap) : Prop where
  counts : ∀ b, h.rc b = h.vars.count (some b)
  fresh : ∀ b, b ≥ h.next → h.rc b = 0

theorem init_inv (n : Nat) : Inv (Heap.init n) := by
  constructor
  · intro b; simp [Heap.init, List.count_replicate]
  · intro b _; rfl

theorem bound_lt_next {h : Heap} (inv : Inv h) {i b : Nat} (hv : h.vars[i]? = some (some b)) : b < h.next := by
  have hpos : 0 < h.vars.count (some b) := by
    rw [List.count_pos_iff]
    exact List.mem_of_getElem? hv
  have := inv.counts b
  have hf := inv.fresh b
  omega

theorem idx_lt {h : Heap} {i : Nat} {x : Option Nat} (hv : h.vars[i]? = some x) : i < h.vars.length := by
  have := List.getElem?_eq_some_iff.mp hv
  exact this.1

theorem getElem_of {h : Heap} {i : Nat} {x : Option Nat} (hv : h.vars[i]? = some x) : h.vars[i]'(idx_lt hv) = x :=
  (List.getElem?_eq_some_iff.mp hv).2

theorem alloc_inv {h : Heap} (inv : Inv h) {i : Nat} (hv : h.vars[i]? = some none) : Inv (h.alloc i) := by
  have hi := idx_lt hv
  have hg := getElem_of hv
  constructor
  · intro b
    simp only [Heap.alloc, List.count_set hi, hg]
    by_cases hb : b = h.next
    · subst hb
      have := inv.counts h.next
      have := inv.fresh h.next (Nat.le_refl _)
      simp; omega
    · have := inv.counts b
      simp [hb, Ne.symm hb]; omega
  · intro b hb
    simp only [Heap.alloc] at hb ⊢
    have : b ≠ h.next := by omega
    simp [this]; exact inv.fresh b (by omega)

theorem allocCheck_inv {h h' : Heap} (inv : Inv h) {i : Nat} (hr : allocCheck h i = .ok h') : Inv h' := by
  unfold allocCheck at hr
  split at hr
  · cases hr
  · rename_i hv; cases hr; exact alloc_inv inv hv
  · rename_i b hv
    split at hr
    · rename_i hne
      cases hr
      have hi := idx_lt hv
      have hg := getElem_of hv
      have hblt := bound_lt_next inv hv
      have hcnt := inv.counts b
      have hpos : 0 < h.vars.count (some b) := by rw [List.count_pos_iff]; exact List.mem_of_getElem? hv
      constructor
      · intro x
        simp only [Heap.alloc, Heap.setRc, List.count_set hi, hg]
        by_cases hx : x = h.next
        · subst hx
          have := inv.counts h.next
          have := inv.fresh h.next (Nat.le_refl _)
          have : b ≠ h.next := by omega
          simp [this]; omega
        · by_cases hxb : x = b
          · subst hxb; simp [hx, Ne.symm hx]; omega
          · have := inv.counts x
            simp [hx, Ne.symm hx, hxb, Ne.symm hxb]; omega
      · intro x hx
        simp only [Heap.alloc, Heap.setRc] at hx ⊢
        have h1 : x ≠ h.next := by omega
        have h2 : x ≠ b := by omega
        simp [h1, h2]; exact inv.fresh x (by omega)
    · cases hr; exact inv

theorem deinit_inv {h h' : Heap} (inv : Inv h) {i : Nat} (hr : deinit h i = .ok h') :
    Inv h' ∧ h'.vars = h.vars.set i none ∧ h'.next = h.next := by
  unfold deinit at hr
  split at hr
  · cases hr
  · rename_i hv
    cases hr
    refine ⟨inv, ?_, rfl⟩
    have hg := getElem_of hv
    have := List.set_getElem_self (idx_lt hv)
    rw [hg] at this
    exact this.symm
  · rename_i b hv
    have hi := idx_lt hv
    have hg := getElem_of hv
    have hcnt := inv.counts b
    have hpos : 0 < h.vars.count (some b) := by rw [List.count_pos_iff]; exact List.mem_of_getElem? hv
    split at hr
    · rename_i h1
      cases hr
      refine ⟨⟨?_, ?_⟩, rfl, rfl⟩
      · intro x
        simp only [Heap.setRc, List.count_set hi, hg]
        by_cases hxb : x = b
        · subst hxb; simp; omega
        · have := inv.counts x
          simp [hxb, Ne.symm hxb]; omega
      · intro x hx
        simp only [Heap.setRc]
        by_cases hxb : x = b
        · simp [hxb]
        · simp [hxb]; exact inv.fresh x hx
    · rename_i h1
      cases hr
      refine ⟨⟨?_, ?_⟩, rfl, rfl⟩
      · intro x
        simp only [Heap.setRc, List.count_set hi, hg]
        by_cases hxb : x = b
        · subst hxb; simp; omega
        · have := inv.counts x
          simp [hxb, Ne.symm hxb]; omega
      · intro x hx
        have hx' : x ≥ h.next := hx
        simp only [Heap.setRc]
        have hblt := bound_lt_next inv hv
        have : x ≠ b := by omega
        simp [this]; exact inv.fresh x hx'

theorem move_inv {h h' : Heap} (inv : Inv h) {d s : Nat} (hr : move h d s = .ok h') : Inv h' := by
  unfold move at hr
  split at hr
  · cases hr
  · rename_i hne
    split at hr
    · cases hr
    · rename_i h1 hd
      obtain ⟨inv1, hvars, hnext⟩ := deinit_inv inv hd
      split at hr
      · cases hr
      · cases hr
      · rename_i b hv
        cases hr
        have hi : d < h1.vars.length := by
          -- `deinit` succeeded on `d`, so `d` is a declared variable
          have : d < h.vars.length := by
            unfold deinit at hd
            split at hd
            · cases hd
            · rename_i hv0; exact idx_lt hv0
            · rename_i _ hv0; exact idx_lt hv0
          rw [hvars]; simpa using this
        have hg : h1.vars[d]'hi = none := by
          simp only [hvars]; simp
        have hblt := bound_lt_next inv1 hv
        constructor
        · intro x
          simp only [Heap.setRc, List.count_set hi, hg]
          by_cases hxb : x = b
          · subst hxb
            have := inv1.counts x
            simp; omega
          · have := inv1.counts x
            simp [hxb, Ne.symm hxb]; omega
        · intro x hx
          have hx' : x ≥ h1.next := hx
          simp only [Heap.setRc]
          have : x ≠ b := by omega
          simp [this]; exact inv1.fresh x hx'

theorem step_inv {h h' : Heap} (inv : Inv h) {op : Op} (hr : step h op = .ok h') : Inv h' := by
  cases op with
  | allocCheck i => exact allocCheck_inv inv hr
  | deinit i => exact (deinit_inv inv hr).1
  | move d s => exact move_inv inv hr

/-- **The invariant holds after every sequence of operations** -/
theorem run_inv : ∀ (ops : List Op) (h h' : Heap), Inv h → run h ops = .ok h' → Inv h'
  | [], h, h', inv, hr => by simp [run] at hr; subst hr; exact inv
  | op :: ops, h, h', inv, hr => by
    simp only [run] at hr
    split at hr
    · cases hr
    · rename_i h1 hs
      exact run_inv ops h1 h' (step_inv inv hs) hr

/-- a bound pointer variable points to live storage: its reference count is at least one -/
theorem bound_is_live {h : Heap} (inv : Inv h) {i b : Nat} (hv : h.vars[i]? = some (some b)) : 1 ≤ h.rc b := by
  rw [inv.counts b]
  exact List.count_pos_iff.mpr (List.mem_of_getElem? hv)

/-- storage is deallocated only when no OTHER variable is bound to it (no use after free through
    another variable, no second deallocation): when `deinit` frees, the count was exactly one -/
theorem free_only_last_reference {h : Heap} (inv : Inv h) {i b : Nat} (hv : h.vars[i]? = some (some b))
    (hone : h.rc b = 1) : ∀ j, j ≠ i → h.vars[j]? ≠ some (some b) := by
  intro j hji hvj
  have hcnt := inv.counts b
  rw [hone] at hcnt
  -- two different positions hold `some b`: the count would be at least two
  have hi := idx_lt hv
  have hj := idx_lt hvj
  have h2 : 2 ≤ h.vars.count (some b) := by
    have hset := List.count_set (a := (none : Option Nat)) (b := some b) hi
    rw [getElem_of hv] at hset
    simp at hset
    have hmem : some b ∈ h.vars.set i none := by
      have : (h.vars.set i none)[j]? = some (some b) := by
        rw [List.getElem?_set_ne (Ne.symm hji)]; exact hvj
      exact List.mem_of_getElem? this
    have := List.count_pos_iff.mpr hmem
    omega
  omega

/-- releasing every variable leaves every variable disassociated … -/
theorem deinitAll_spec : ∀ (n : Nat) (h h' : Heap), Inv h → n ≤ h.vars.length → deinitAll h n = .ok h' →
    Inv h' ∧ h'.vars.length = h.vars.length ∧ (∀ i, i < n → h'.vars[i]? = some none) ∧
      (∀ i, n ≤ i → h'.vars[i]? = h.vars[i]?)
  | 0, h, h', inv, _, hr => by
    simp [deinitAll] at hr; subst hr
    exact ⟨inv, rfl, fun i hi => absurd hi (Nat.not_lt_zero i), fun _ _ => rfl⟩
  | n + 1, h, h', inv, hn, hr => by
    simp only [deinitAll] at hr
    split at hr
    · cases hr
    · rename_i h1 h1r
      obtain ⟨inv1, hlen, hnone, hsame⟩ := deinitAll_spec n h h1 inv (by omega) h1r
      obtain ⟨inv2, hvars, _⟩ := deinit_inv inv1 hr
      refine ⟨inv2, by rw [hvars]; simp [hlen], ?_, ?_⟩
      · intro i hi
        rw [hvars]
        by_cases hin : i = n
        · subst hin
          have : i < h1.vars.length := by omega
          rw [List.getElem?_set_self this]
        · rw [List.getElem?_set_ne (Ne.symm hin)]; exact hnone i (by omega)
      · intro i hi
        rw [hvars, List.getElem?_set_ne (by omega)]
        exact hsame i (by omega)

/-- … and then **no block is live: nothing leaks** -/
theorem no_leak_after_release_all (h h' : Heap) (inv : Inv h) (hr : deinitAll h h.vars.length = .ok h') :
    ∀ b, h'.rc b = 0 := by
  obtain ⟨inv', hlen, hnone, _⟩ := deinitAll_spec h.vars.length h h' inv (Nat.le_refl _) hr
  intro b
  rw [inv'.counts b]
  rw [List.count_eq_zero]
  intro hmem
  obtain ⟨i, hi, hget⟩ := List.getElem_of_mem hmem
  have := hnone i (by omega)
  rw [List.getElem?_eq_getElem hi, hget] at this
  cases this

/-- for every operation sequence from the initial state: whatever happened, releasing everything at
    the end leaves no live block -/
theorem any_history_then_release_all_is_clean (n : Nat) (ops : List Op) (h h' : Heap)
    (hrun : run (Heap.init n) ops = .ok h) (hrel : deinitAll h h.vars.length = .ok h') : ∀ b, h'.rc b = 0 :=
  no_leak_after_release_all h h' (run_inv ops _ h (init_inv n) hrun) hrel

/-! ### "released exactly once": counting the deallocations

`frees` is a ghost counter of executed `deallocate` statements (`deinit` raises it exactly when it
deallocates).  Invariant: deallocations so far + live blocks = blocks allocated so far.  With
`free_only_last_reference` (a deallocated block has count 0 and no variable bound to it, so it can
never be reached by a `deinit` again) this is "every allocated block is released exactly once" once
no block is live. -/

def liveCount (h : Heap) : Nat := (List.range h.next).countP (fun b => decide (0 < h.rc b))

theorem countP_range_congr (p p' : Nat → Bool) : ∀ n, (∀ x, x < n → p' x = p x) →
    (List.range n).countP p' = (List.range n).countP p
  | 0, _ => rfl
  | n + 1, h => by
    rw [List.range_succ, List.countP_append, List.countP_append,
      countP_range_congr p p' n (fun x hx => h x (by omega))]
    simp [h n (by omega)]

theorem countP_range_flip_up (p p' : Nat → Bool) (b : Nat) : ∀ n, b < n → p b = false → p' b = true →
    (∀ x, x ≠ b → p' x = p x) → (List.range n).countP p' = (List.range n).countP p + 1
  | 0, hb, _, _, _ => by omega
  | n + 1, hb, h0, h1, hx => by
    rw [List.range_succ, List.countP_append, List.countP_append]
    by_cases hbn : b = n
    · subst hbn
      rw [countP_range_congr p p' b (fun x hlt => hx x (by omega))]
      simp [h0, h1]
    · rw [countP_range_flip_up p p' b n (by omega) h0 h1 hx]
      simp [hx n (Ne.symm hbn)]
      omega

theorem countP_range_flip_down (p p' : Nat → Bool) (b n : Nat) (hb : b < n) (h0 : p b = true) (h1 : p' b = false)
    (hx : ∀ x, x ≠ b → p' x = p x) : (List.range n).countP p' + 1 = (List.range n).countP p :=
  (countP_range_flip_up p' p b n hb h1 h0 (fun x hxb => (hx x hxb).symm)).symm

/-- deallocations so far + live blocks = blocks allocated so far -/
def Accounted (h : Heap) : Prop := h.frees + liveCount h = h.next

theorem init_accounted (n : Nat) : Accounted (Heap.init n) := by
  simp [Accounted, Heap.init, liveCount]

theorem alloc_accounted {h : Heap} (ha : Accounted h) (i : Nat) : Accounted (h.alloc i) := by
  unfold Accounted liveCount at *
  simp only [Heap.alloc]
  rw [List.range_succ, List.countP_append]
  rw [countP_range_congr (fun b => decide (0 < h.rc b)) _ h.next (fun x hx => by simp [Nat.ne_of_lt hx])]
  simp
  omega

/-- changing a positive count to a positive count does not change which blocks are live -/
theorem setRc_pos_live (h : Heap) (b n : Nat) (hold : 0 < h.rc b) (hn : 0 < n) :
    liveCount (h.setRc b n) = liveCount h := by
  unfold liveCount
  simp only [Heap.setRc]
  apply countP_range_congr
  intro x _
  by_cases hxb : x = b
  · subst hxb; simp [hold, hn]
  · simp [hxb]

/-- the last reference goes: one live block fewer -/
theorem setRc_zero_live (h : Heap) (b : Nat) (hold : 0 < h.rc b) (hb : b < h.next) :
    liveCount (h.setRc b 0) + 1 = liveCount h := by
  unfold liveCount
  simp only [Heap.setRc]
  exact countP_range_flip_down _ _ b h.next hb (by simp; omega) (by simp) (fun x hxb => by simp [hxb])

theorem allocCheck_accounted {h h' : Heap} (inv : Inv h) (ha : Accounted h) {i : Nat}
    (hr : allocCheck h i = .ok h') : Accounted h' := by
  unfold allocCheck at hr
  split at hr
  · cases hr
  · cases hr; exact alloc_accounted ha i
  · rename_i b hv
    have hlive := bound_is_live inv hv
    split at hr
    · rename_i hne
      cases hr
      -- the shared block stays live (count at least two), then a fresh block is taken
      have h1 : liveCount (h.setRc b (h.rc b - 1)) = liveCount h := setRc_pos_live h b _ (by omega) (by omega)
      have ha2 : Accounted (h.setRc b (h.rc b - 1)) := by
        unfold Accounted at *
        rw [h1]; exact ha
      exact alloc_accounted ha2 i
    · cases hr; exact ha

theorem deinit_accounted {h h' : Heap} (inv : Inv h) (ha : Accounted h) {i : Nat}
    (hr : deinit h i = .ok h') : Accounted h' := by
  unfold deinit at hr
  split at hr
  · cases hr
  · cases hr; exact ha
  · rename_i b hv
    have hlive := bound_is_live inv hv
    have hblt := bound_lt_next inv hv
    split at hr
    · rename_i hone
      cases hr
      -- the last reference: the block is deallocated, one live block fewer, one deallocation more
      have h0 := setRc_zero_live h b (by omega) hblt
      unfold Accounted at *
      have e1 : liveCount { (h.setRc b 0) with vars := h.vars.set i none, frees := h.frees + 1 } =
          liveCount (h.setRc b 0) := rfl
      rw [e1]
      show h.frees + 1 + liveCount (h.setRc b 0) = h.next
      omega
    · rename_i hne
      cases hr
      have h1 : liveCount (h.setRc b (h.rc b - 1)) = liveCount h := setRc_pos_live h b _ (by omega) (by omega)
      unfold Accounted at *
      have e1 : liveCount { (h.setRc b (h.rc b - 1)) with vars := h.vars.set i none } =
          liveCount (h.setRc b (h.rc b - 1)) := rfl
      rw [e1, h1]
      exact ha

theorem move_accounted {h h' : Heap} (inv : Inv h) (ha : Accounted h) {d s : Nat}
    (hr : move h d s = .ok h') : Accounted h' := by
  unfold move at hr
  split at hr
  · cases hr
  · split at hr
    · cases hr
    · rename_i h1 hd
      obtain ⟨inv1, _, _⟩ := deinit_inv inv hd
      have ha1 := deinit_accounted inv ha hd
      split at hr
      · cases hr
      · cases hr
      · rename_i b hv
        cases hr
        have hlive := bound_is_live inv1 hv
        have h2 : liveCount (h1.setRc b (h1.rc b + 1)) = liveCount h1 := setRc_pos_live h1 b _ (by omega) (by omega)
        unfold Accounted at *
        have e1 : liveCount { (h1.setRc b (h1.rc b + 1)) with vars := h1.vars.set d (some b) } =
            liveCount (h1.setRc b (h1.rc b + 1)) := rfl
        rw [e1, h2]
        exact ha1

theorem step_accounted {h h' : Heap} (inv : Inv h) (ha : Accounted h) {op : Op} (hr : step h op = .ok h') :
    Accounted h' := by
  cases op with
  | allocCheck i => exact allocCheck_accounted inv ha hr
  | deinit i => exact deinit_accounted inv ha hr
  | move d s => exact move_accounted inv ha hr

theorem run_accounted : ∀ (ops : List Op) (h h' : Heap), Inv h → Accounted h → run h ops = .ok h' → Accounted h'
  | [], h, h', _, ha, hr => by simp [run] at hr; subst hr; exact ha
  | op :: ops, h, h', inv, ha, hr => by
    simp only [run] at hr
    split at hr
    · cases hr
    · rename_i h1 hs
      exact run_accounted ops h1 h' (step_inv inv hs) (step_accounted inv ha hs) hr

theorem deinitAll_accounted : ∀ (n : Nat) (h h' : Heap), Inv h → Accounted h → n ≤ h.vars.length →
    deinitAll h n = .ok h' → Accounted h'
  | 0, h, h', _, ha, _, hr => by simp [deinitAll] at hr; subst hr; exact ha
  | n + 1, h, h', inv, ha, hn, hr => by
    simp only [deinitAll] at hr
    split at hr
    · cases hr
    · rename_i h1 h1r
      obtain ⟨inv1, _, _, _⟩ := deinitAll_spec n h h1 inv (by omega) h1r
      exact deinit_accounted inv1 (deinitAll_accounted n h h1 inv ha (by omega) h1r) hr

/-- **Every block is released exactly once**: for every operation sequence from the initial state
    followed by the release of every variable, the number of executed deallocations equals the
    number of blocks ever allocated (and no block is live: `any_history_then_release_all_is_clean`;
    a block is deallocated only through its last reference: `free_only_last_reference`) -/
theorem every_block_released_exactly_once (n : Nat) (ops : List Op) (h h' : Heap)
    (hrun : run (Heap.init n) ops = .ok h) (hrel : deinitAll h h.vars.length = .ok h') :
    h'.frees = h'.next := by
  have inv := run_inv ops _ h (init_inv n) hrun
  have acc := run_accounted ops _ h (init_inv n) (init_accounted n) hrun
  have acc' := deinitAll_accounted h.vars.length h h' inv acc (Nat.le_refl _) hrel
  have clean := no_leak_after_release_all h h' inv hrel
  unfold Accounted liveCount at acc'
  have : (List.range h'.next).countP (fun b => decide (0 < h'.rc b)) = 0 := by
    rw [List.countP_eq_zero]
    intro b _
    simp [clean b]
  omega

/-! non-vacuity: allocate `v0`, move it to `v1`, write to `v0` (copy-on-write takes a fresh block),
    release both -/
example : (match run (Heap.init 2) [.allocCheck 0, .move 1 0, .allocCheck 0, .deinit 0, .deinit 1] with
    | .ok h => (h.vars, h.next, h.frees, h.rc 0, h.rc 1)
    | .error _ => ([], 0, 0, 9, 9)) = ([none, none], 2, 2, 0, 0) := by decide

end Dagrt.C12
