import Dagrt.Model.Refcount
/-!
# C12 — generated Fortran never leaks, double-frees or uses freed user-type storage

Model: `Dagrt.Refcount` (`Model/Refcount.lean`) = the reference-count protocol the generated module
implements: `dagrt_alloc_check_T` (copy-on-write: a shared block is left to the others and a fresh
one taken), `dagrt_deinit_T`, the move emitted for `v <- w`.  The model is compared on every run
with the REAL emitted routines, compiled by gfortran and driven through random operation sequences
(association status, reference counts and aliasing after every operation).

Proved, for EVERY sequence of operations on any number of pointer variables:
* `Inv`: the reference-count cell of a block always equals the number of pointer variables bound to
  it, and blocks that were never allocated have none;
* hence a bound variable always points to live storage (no use of freed storage through a bound
  variable), storage is deallocated only when exactly one variable is bound to it — so never twice,
  and never while another variable still uses it;
* after releasing every variable (what the exit label of every phase subroutine and `shutdown` do,
  after the `fix:` commit for ALL user-type locals) no block is live: nothing leaks.
Which operations the generator places where (allocation check before a write, move on plain
assignment, releases at last uses and at the exit label) is NOT modelled; whole methods are run
under AddressSanitizer/LeakSanitizer on every run (oracle).
-/
namespace Dagrt.C12
open Dagrt.Refcount

structure Inv (h : Heap) : Prop where
  counts : ∀ b, h.rc b = h.vars.count (some b)
  fresh : ∀ b, b ≥ h.next → h.rc b = 0

theorem init_inv (n : Nat) : Inv (Heap.init n) := by
  constructor
  · intro b; simp [Heap.init, List.count_replicate]
  · intro b _; rfl

theorem bound_lt_next {h : Heap} (inv : Inv h) {i b : Nat} (hv : h.vars[i]? = some (some b)) : b < h.next := by
  have hpos : 0 < h.vars.count (some b) := by
    rw [List.count_pos_iff]
    exact List.mem_of_getElem? hv
  have := inv.counts b
  have hf := inv.fresh b
  omega

theorem idx_lt {h : Heap} {i : Nat} {x : Option Nat} (hv : h.vars[i]? = some x) : i < h.vars.length := by
  have := List.getElem?_eq_some_iff.mp hv
  exact this.1

theorem getElem_of {h : Heap} {i : Nat} {x : Option Nat} (hv : h.vars[i]? = some x) : h.vars[i]'(idx_lt hv) = x :=
  (List.getElem?_eq_some_iff.mp hv).2

theorem alloc_inv {h : Heap} (inv : Inv h) {i : Nat} (hv : h.vars[i]? = some none) : Inv (h.alloc i) := by
  have hi := idx_lt hv
  have hg := getElem_of hv
  constructor
  · intro b
    simp only [Heap.alloc, List.count_set hi, hg]
    by_cases hb : b = h.next
    · subst hb
      have := inv.counts h.next
      have := inv.fresh h.next (Nat.le_refl _)
      simp; omega
    · have := inv.counts b
      simp [hb, Ne.symm hb]; omega
  · intro b hb
    simp only [Heap.alloc] at hb ⊢
    have : b ≠ h.next := by omega
    simp [this]; exact inv.fresh b (by omega)

theorem allocCheck_inv {h h' : Heap} (inv : Inv h) {i : Nat} (hr : allocCheck h i = .ok h') : Inv h' := by
  unfold allocCheck at hr
  split at hr
  · cases hr
  · rename_i hv; cases hr; exact alloc_inv inv hv
  · rename_i b hv
    split at hr
    · rename_i hne
      cases hr
      have hi := idx_lt hv
      have hg := getElem_of hv
      have hblt := bound_lt_next inv hv
      have hcnt := inv.counts b
      have hpos : 0 < h.vars.count (some b) := by rw [List.count_pos_iff]; exact List.mem_of_getElem? hv
      constructor
      · intro x
        simp only [Heap.alloc, Heap.setRc, List.count_set hi, hg]
        by_cases hx : x = h.next
        · subst hx
          have := inv.counts h.next
          have := inv.fresh h.next (Nat.le_refl _)
          have : b ≠ h.next := by omega
          simp [this]; omega
        · by_cases hxb : x = b
          · subst hxb; simp [hx, Ne.symm hx]; omega
          · have := inv.counts x
            simp [hx, Ne.symm hx, hxb, Ne.symm hxb]; omega
      · intro x hx
        simp only [Heap.alloc, Heap.setRc] at hx ⊢
        have h1 : x ≠ h.next := by omega
        have h2 : x ≠ b := by omega
        simp [h1, h2]; exact inv.fresh x (by omega)
    · cases hr; exact inv

theorem deinit_inv {h h' : Heap} (inv : Inv h) {i : Nat} (hr : deinit h i = .ok h') :
    Inv h' ∧ h'.vars = h.vars.set i none ∧ h'.next = h.next := by
  unfold deinit at hr
  split at hr
  · cases hr
  · rename_i hv
    cases hr
    refine ⟨inv, ?_, rfl⟩
    have hg := getElem_of hv
    have := List.set_getElem_self (idx_lt hv)
    rw [hg] at this
    exact this.symm
  · rename_i b hv
    have hi := idx_lt hv
    have hg := getElem_of hv
    have hcnt := inv.counts b
    have hpos : 0 < h.vars.count (some b) := by rw [List.count_pos_iff]; exact List.mem_of_getElem? hv
    split at hr
    · rename_i h1
      cases hr
      refine ⟨⟨?_, ?_⟩, rfl, rfl⟩
      · intro x
        simp only [Heap.setRc, List.count_set hi, hg]
        by_cases hxb : x = b
        · subst hxb; simp; omega
        · have := inv.counts x
          simp [hxb, Ne.symm hxb]; omega
      · intro x hx
        simp only [Heap.setRc]
        by_cases hxb : x = b
        · simp [hxb]
        · simp [hxb]; exact inv.fresh x hx
    · rename_i h1
      cases hr
      refine ⟨⟨?_, ?_⟩, rfl, rfl⟩
      · intro x
        simp only [Heap.setRc, List.count_set hi, hg]
        by_cases hxb : x = b
        · subst hxb; simp; omega
        · have := inv.counts x
          simp [hxb, Ne.symm hxb]; omega
      · intro x hx
        have hx' : x ≥ h.next := hx
        simp only [Heap.setRc]
        have hblt := bound_lt_next inv hv
        have : x ≠ b := by omega
        simp [this]; exact inv.fresh x hx'

theorem move_inv {h h' : Heap} (inv : Inv h) {d s : Nat} (hr : move h d s = .ok h') : Inv h' := by
  unfold move at hr
  split at hr
  · cases hr
  · rename_i hne
    split at hr
    · cases hr
    · rename_i h1 hd
      obtain ⟨inv1, hvars, hnext⟩ := deinit_inv inv hd
      split at hr
      · cases hr
      · cases hr
      · rename_i b hv
        cases hr
        have hi : d < h1.vars.length := by
          -- `deinit` succeeded on `d`, so `d` is a declared variable
          have : d < h.vars.length := by
            unfold deinit at hd
            split at hd
            · cases hd
            · rename_i hv0; exact idx_lt hv0
            · rename_i _ hv0; exact idx_lt hv0
          rw [hvars]; simpa using this
        have hg : h1.vars[d]'hi = none := by
          simp only [hvars]; simp
        have hblt := bound_lt_next inv1 hv
        constructor
        · intro x
          simp only [Heap.setRc, List.count_set hi, hg]
          by_cases hxb : x = b
          · subst hxb
            have := inv1.counts x
            simp; omega
          · have := inv1.counts x
            simp [hxb, Ne.symm hxb]; omega
        · intro x hx
          have hx' : x ≥ h1.next := hx
          simp only [Heap.setRc]
          have : x ≠ b := by omega
          simp [this]; exact inv1.fresh x hx'

theorem step_inv {h h' : Heap} (inv : Inv h) {op : Op} (hr : step h op = .ok h') : Inv h' := by
  cases op with
  | allocCheck i => exact allocCheck_inv inv hr
  | deinit i => exact (deinit_inv inv hr).1
  | move d s => exact move_inv inv hr

/-- **The invariant holds after every sequence of operations** -/
theorem run_inv : ∀ (ops : List Op) (h h' : Heap), Inv h → run h ops = .ok h' → Inv h'
  | [], h, h', inv, hr => by simp [run] at hr; subst hr; exact inv
  | op :: ops, h, h', inv, hr => by
    simp only [run] at hr
    split at hr
    · cases hr
    · rename_i h1 hs
      exact run_inv ops h1 h' (step_inv inv hs) hr

/-- a bound pointer variable points to live storage: its reference count is at least one -/
theorem bound_is_live {h : Heap} (inv : Inv h) {i b : Nat} (hv : h.vars[i]? = some (some b)) : 1 ≤ h.rc b := by
  rw [inv.counts b]
  exact List.count_pos_iff.mpr (List.mem_of_getElem? hv)

/-- storage is deallocated only when no OTHER variable is bound to it (no use after free through
    another variable, no second deallocation): when `deinit` frees, the count was exactly one -/
theorem free_only_last_reference {h : Heap} (inv : Inv h) {i b : Nat} (hv : h.vars[i]? = some (some b))
    (hone : h.rc b = 1) : ∀ j, j ≠ i → h.vars[j]? ≠ some (some b) := by
  intro j hji hvj
  have hcnt := inv.counts b
  rw [hone] at hcnt
  -- two different positions hold `some b`: the count would be at least two
  have hi := idx_lt hv
  have hj := idx_lt hvj
  have h2 : 2 ≤ h.vars.count (some b) := by
    have hset := List.count_set (a := (none : Option Nat)) (b := some b) hi
    rw [getElem_of hv] at hset
    simp at hset
    have hmem : some b ∈ h.vars.set i none := by
      have : (h.vars.set i none)[j]? = some (some b) := by
        rw [List.getElem?_set_ne (Ne.symm hji)]; exact hvj
      exact List.mem_of_getElem? this
    have := List.count_pos_iff.mpr hmem
    omega
  omega

/-- releasing every variable leaves every variable disassociated … -/
theorem deinitAll_spec : ∀ (n : Nat) (h h' : Heap), Inv h → n ≤ h.vars.length → deinitAll h n = .ok h' →
    Inv h' ∧ h'.vars.length = h.vars.length ∧ (∀ i, i < n → h'.vars[i]? = some none) ∧
      (∀ i, n ≤ i → h'.vars[i]? = h.vars[i]?)
  | 0, h, h', inv, _, hr => by
    simp [deinitAll] at hr; subst hr
    exact ⟨inv, rfl, fun i hi => absurd hi (Nat.not_lt_zero i), fun _ _ => rfl⟩
  | n + 1, h, h', inv, hn, hr => by
    simp only [deinitAll] at hr
    split at hr
    · cases hr
    · rename_i h1 h1r
      obtain ⟨inv1, hlen, hnone, hsame⟩ := deinitAll_spec n h h1 inv (by omega) h1r
      obtain ⟨inv2, hvars, _⟩ := deinit_inv inv1 hr
      refine ⟨inv2, by rw [hvars]; simp [hlen], ?_, ?_⟩
      · intro i hi
        rw [hvars]
        by_cases hin : i = n
        · subst hin
          have : i < h1.vars.length := by omega
          rw [List.getElem?_set_self this]
        · rw [List.getElem?_set_ne (Ne.symm hin)]; exact hnone i (by omega)
      · intro i hi
        rw [hvars, List.getElem?_set_ne (by omega)]
        exact hsame i (by omega)

/-- … and then **no block is live: nothing leaks** -/
theorem no_leak_after_release_all (h h' : Heap) (inv : Inv h) (hr : deinitAll h h.vars.length = .ok h') :
    ∀ b, h'.rc b = 0 := by
  obtain ⟨inv', hlen, hnone, _⟩ := deinitAll_spec h.vars.length h h' inv (Nat.le_refl _) hr
  intro b
  rw [inv'.counts b]
  rw [List.count_eq_zero]
  intro hmem
  obtain ⟨i, hi, hget⟩ := List.getElem_of_mem hmem
  have := hnone i (by omega)
  rw [List.getElem?_eq_getElem hi, hget] at this
  cases this

/-- for every operation sequence from the initial state: whatever happened, releasing everything at
    the end leaves no live block -/
theorem any_history_then_release_all_is_clean (n : Nat) (ops : List Op) (h h' : Heap)
    (hrun : run (Heap.init n) ops = .ok h) (hrel : deinitAll h h.vars.length = .ok h') : ∀ b, h'.rc b = 0 :=
  no_leak_after_release_all h h' (run_inv ops _ h (init_inv n) hrun) hrel

/-! non-vacuity: allocate `v0`, move it to `v1`, write to `v0` (copy-on-write takes a fresh block),
    release both -/
example : (match run (Heap.init 2) [.allocCheck 0, .move 1 0, .allocCheck 0, .deinit 0, .deinit 1] with
    | .ok h => (h.vars, h.next, h.frees, h.rc 0, h.rc 1)
    | .error _ => ([], 0, 0, 9, 9)) = ([none, none], 2, 2, 0, 0) := by decide

end Dagrt.C12
