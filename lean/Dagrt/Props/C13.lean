import Dagrt.Proofs.NamesProofs
/-!
# C13 — distinct IR names map to distinct, legal, stable target identifiers

Model: `Dagrt.Names` (`Model/Names.lean`) = `make_identifier_from_name`, `KeyToUniqueNameMap`,
`pytools.UniqueNameGenerator` (third party, modelled), `PythonNameManager`, `FortranNameManager`
(with the case-insensitive generator of the `fix:` commit).  Theorems are for every name, every
set of names in use, every sequence of look-ups.
Not provable because false on the code (known findings, see KNOWN_FINDINGS.json): Fortran length
limit, Python/Fortran function identifiers without a sanitising prefix, IR names that start with
`dagrt_`.
-/
namespace Dagrt.C13
open Dagrt.Names

/-- the sanitiser returns a non-empty string of ASCII identifier characters that does not start
    with an underscore -/
theorem sanitised (name : List Char) :
    makeIdentifier name ≠ [] ∧ (∀ c ∈ makeIdentifier name, identChar c = true) ∧
    (∀ x xs, makeIdentifier name = x :: xs → x ≠ '_') :=
  ⟨makeIdentifier_ne_nil name, makeIdentifier_chars name, makeIdentifier_head name⟩

/-- the generator never fails … -/
theorem generator_total (g : Gen) (b : List Char) : ∃ r, g.call b = some r := gen_total g b

/-- … and what it returns was not in use (case-folded for Fortran), is in use afterwards, and
    nothing in use is forgotten -/
theorem generator_fresh (g g' : Gen) (b nm : List Char) (h : g.call b = some (g', nm)) :
    g.conflicting nm = false ∧ g'.conflicting nm = true ∧
      (∀ m, g.conflicting m = true → g'.conflicting m = true) := gen_fresh g g' b nm h

/-- hence ALL names handed out by one generator, over any history of calls, are pairwise
    different under the target's identifier comparison -/
theorem generator_history_distinct (g0 : Gen) : ∀ (seeds : List (List Char)) (g : Gen) (out : List (List Char)),
    (∀ n ∈ out, g.conflicting n = true) → (out.map g.norm).Nodup →
    ∀ gN outN, seeds.foldl (fun (st : Option (Gen × List (List Char))) b =>
        match st with
        | none => none
        | some (g, o) => match g.call b with
          | none => none
          | some (g', n) => some (g', o ++ [n])) (some (g, out)) = some (gN, outN) →
      gN.caseless = g.caseless → (outN.map g.norm).Nodup
  | [], g, out, _, hnd, gN, outN, h, _ => by simp at h; rw [← h.2]; exact hnd
  | b :: bs, g, out, hk, hnd, gN, outN, h, hcl => by
    simp only [List.foldl] at h
    cases hc : g.call b with
    | none =>
      simp [hc] at h
      have : ∀ l : List (List Char), l.foldl (fun (st : Option (Gen × List (List Char))) b =>
          match st with
          | none => none
          | some (g, o) => match g.call b with
            | none => none
            | some (g', n) => some (g', o ++ [n])) none = none := by
        intro l; induction l with
        | nil => rfl
        | cons _ _ ih => simpa using ih
      rw [this] at h; cases h
    | some r =>
      obtain ⟨g1, n⟩ := r
      simp only [hc] at h
      obtain ⟨hfree, htaken, hmono⟩ := gen_fresh g g1 b n hc
      have hcl1 : g1.caseless = g.caseless := by
        unfold Gen.call at hc
        simp only at hc
        -- every branch only changes `counters` and `existing`
        have fin : ∀ (bb : List Char) (r : Option (Nat × List Char)),
            (match r with
              | none => none
              | some (k, nm') => some ({ g with counters := setCounter g.counters bb k }.addName nm', nm')) = some (g1, n) →
            g1.caseless = g.caseless := by
          intro bb r hr
          cases r with
          | none => simp at hr
          | some p => obtain ⟨k, nm'⟩ := p; simp at hr; rw [← hr.1]; rfl
        split at hc
        · exact fin _ _ hc
        · split at hc
          · exact fin _ _ hc
          · split at hc
            · exact fin _ _ hc
            · simp only [Option.some.injEq, Prod.mk.injEq] at hc; rw [← hc.1]; rfl
      have hnorm : ∀ x, g1.norm x = g.norm x := by intro x; simp [Gen.norm, hcl1]
      have hnormf : g1.norm = g.norm := funext hnorm
      have := generator_history_distinct g0 bs g1 (out ++ [n])
        (by intro m hm; simp at hm; rcases hm with h' | h'
            · exact hmono m (hk m h')
            · subst h'; exact htaken)
        (by
          rw [List.map_append, List.nodup_append]
          refine ⟨by rw [hnormf]; exact hnd, by simp, ?_⟩
          intro a ha b' hb' e; subst e
          simp at hb'; subst hb'
          simp only [List.mem_map] at ha
          obtain ⟨m, hm, he⟩ := ha
          have h1 := hk m hm
          rw [hnorm, hnorm] at he
          rw [norm_conflicting_eq g m n he, hfree] at h1; cases h1)
        gN outN h (by rw [hcl, hcl1])
      rw [hnormf] at this; exact this

/-- a later look-up of the same key returns the first answer -/
theorem map_lookup_stable (m m' : KeyMap) (g g' g'' : Gen) (key : String) (p p' : Option String)
    (n : List Char) (h : getOrMake m g key p = some (m', g', n)) :
    getOrMake m' g'' key p' = some (m', g'', n) := map_stable m m' g g' g'' key p p' n h

/-- distinct keys never share an identifier: the invariant "all identifiers of the map are known to
    the generator and pairwise different (case-folded for Fortran)" survives every look-up -/
theorem map_stays_injective (m m' : KeyMap) (g g' : Gen) (key : String) (p : Option String)
    (n : List Char) (hi : MapInv m g) (h : getOrMake m g key p = some (m', g', n))
    (hn : g'.caseless = g.caseless) : MapInv m' g' := map_injective m m' g g' key p n hi h hn

/-- Python per-step variables: `local` + identifier characters — a legal identifier that is not a
    keyword and cannot coincide with anything the generated class defines itself
    (`self.…` attributes, method names) -/
theorem py_local_legal (g g' : Gen) (x nm : List Char) (hp : g.forcedPrefix = "local".toList)
    (h : g.call (makeIdentifier x) = some (g', nm)) :
    (∃ rest, nm = "local".toList ++ rest ∧ ∀ c ∈ rest, identChar c = true) ∧
    (∀ kw ∈ pyKeywords, nm ≠ kw.toList) := by
  obtain ⟨rest, hr, hc⟩ := py_local_shape g g' x nm hp h
  refine ⟨⟨rest, hr, hc⟩, ?_⟩
  intro kw hkw heq
  have := keyword_not_local kw hkw
  rw [← heq, hr] at this
  have h2 : ("local".toList).isPrefixOf ("local".toList ++ rest) = true := by
    rw [List.isPrefixOf_iff_prefix]; exact List.prefix_append _ _
  rw [h2] at this; cases this

/-- storage class: persistent names (and only they) go through the instance/state map -/
theorem py_storage_class (s s' : PyNames) (n : String) (r : List Char)
    (h : s.step (.var n) = some (s', r)) :
    (Dagrt.Kinds.isState n = true → s'.localM = s.localM ∧ (n, r) ∈ s'.globalM) ∧
    (Dagrt.Kinds.isState n = false → s'.globalM = s.globalM ∧ (n, r) ∈ s'.localM) := by
  simp only [PyNames.step] at h
  have key : ∀ (m m' : KeyMap) (g g' : Gen) (p : Option String), getOrMake m g n p = some (m', g', r) → (n, r) ∈ m' := by
    intro m m' g g' p hg
    unfold getOrMake at hg
    split at hg
    · rename_i n0 hl
      simp only [Option.some.injEq, Prod.mk.injEq] at hg
      rw [← hg.1, ← hg.2.2]; exact lookup_mem hl
    · simp only at hg
      split at hg
      · cases hg
      · simp only [Option.some.injEq, Prod.mk.injEq] at hg
        rw [← hg.1, ← hg.2.2]; simp
  split at h
  · rename_i hs
    split at h
    · rename_i m g r' hg
      simp only [Option.some.injEq, Prod.mk.injEq] at h
      obtain ⟨hs', hr⟩ := h
      subst hr
      refine ⟨fun _ => ⟨by rw [← hs'], by rw [← hs']; exact key _ _ _ _ _ hg⟩, fun hf => by rw [hs] at hf; cases hf⟩
    · cases h
  · rename_i hs
    split at h
    · rename_i m g r' hg
      simp only [Option.some.injEq, Prod.mk.injEq] at h
      obtain ⟨hs', hr⟩ := h
      subst hr
      refine ⟨fun ht => absurd ht hs, fun _ => ⟨by rw [← hs'], by rw [← hs']; exact key _ _ _ _ _ hg⟩⟩
    · cases h

/-! non-vacuity: names that collide after sanitising, that look generated, that differ in case -/
example : (PyNames.init.step (.var "x")).map (·.2) = some "localx".toList := by decide
example : makeIdentifier "<cond>a b".toList = "cond_a_b".toList := by decide
example : counterMatch "localx_007".toList = some ("localx".toList, 7) := by decide
example : counterMatch "self.global_x_1".toList = none := by decide

end Dagrt.C13
