import Dagrt.Model.Names
namespace Dagrt.C13
open Dagrt.Names
theorem ident_default : makeIdentifier "<>".toList = "dagrt_var".toList := by decide
end Dagrt.C13
