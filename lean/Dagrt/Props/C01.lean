import Dagrt.Model.StepLoop
namespace Dagrt.C01
open Dagrt Dagrt.StepLoop

theorem placeholder : allTrue [] = true := rfl

end Dagrt.C01
