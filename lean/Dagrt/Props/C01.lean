import Dagrt.Model.StepLoop
import Dagrt.Props.C02
import Dagrt.Proofs.BridgeProofs
/-!
# C01 — interpreter and generated Python stepper both implement the written program

Model: `Dagrt.StepLoop` (`Model/StepLoop.lean`).
* `seqExec` — the reference: the builder calls carried out one after another (blocks entered iff
  their condition was true on entry).  This is what the driver runs and what the REAL interpreter
  and the REAL generated class are compared with on every run (events, persistent state and next
  phase after every step).
* `flatExec … π` — what a back end does in one step: the guarded statements the builder emitted
  (`Builder.run`, the C02 model), executed in an order `π`.  The interpreter takes the order of its
  execution controller (C04: a permutation that puts dependencies first), the generated code the
  topological order of the lowering (C05: likewise), both of the same recorded `depends_on` edges.
* `stepWith` / `runLoop` — `run_single_step` and `run` (identical in `NumpyInterpreter` and in the
  emitted template): the next phase is advanced to the default successor before the body runs,
  per-step variables are discarded afterwards (also after a failure), a failed step is reported
  and not counted against `max_steps`, a phase switch replaces the successor, a raised error ends
  the run.

Proved here (all programs, all admissible orders, all stores, all function interpretations, all run
lengths and end times): the order in which a back end executes the emitted statements does not
matter — per step and for whole runs — so interpreter and generated code, which differ ONLY in that
order in this model, produce the same events and the same states, and both equal program order of
the flat statements.  `seq_eq_flat_straightline_partial`: for programs without `if_`/`else_` the
flat program order IS the written program.  `seq_eq_flat` / `backend_implements_program`: the
general bridge — for every program the builder accepts whose own statements and conditions do not
mention the builder's `<cond>` flag names, started from a store in which those flags are unset, the
flat guarded statements in ANY admissible order leave in every variable other than the flags
(including `<exec>`: events and status) exactly what carrying out the builder calls block by block
leaves (a block runs iff all enclosing entry conditions held; `else_` is the negation of the `if_`
closed immediately before).  The proof is a simulation (`Proofs/BridgeProofs.lean`, `Sim`) whose
invariant says that each flag on the builder's condition stack currently evaluates to the entry
condition of its block, that flags not handed out yet are unset, and that no user statement
touches a flag.
-/
namespace Dagrt.C01
open Dagrt Dagrt.Sem Dagrt.Builder Dagrt.StepLoop

/-- an order a back end may use: every emitted statement exactly once, dependencies first -/
def Admissible (ops : List BOp) (π : List Nat) : Prop :=
  π.Perm (List.range (flatStmts ops).length) ∧ LinExt (Builder.run ops).core.D π

def progOrder (ops : List BOp) : List Nat := List.range (flatStmts ops).length

theorem flat_is_sched (F : Funs) (ops : List BOp) (π : List Nat) (σ : Store) :
    flatExec F (flatStmts ops) π σ = Sched.exec (C02.sem F ops) π σ := by
  rw [flatExec_def]
  unfold Sched.exec
  congr 1

/-- **Within a step the order does not matter**: every admissible order of the emitted statements
    gives the store — events, status, every variable — of program order. -/
theorem body_order_irrelevant (F : Funs) (ops : List BOp) (π : List Nat) (σ : Store)
    (h : Admissible ops π) :
    flatExec F (flatStmts ops) π σ = flatExec F (flatStmts ops) (progOrder ops) σ := by
  rw [flat_is_sched, flat_is_sched]
  exact C02.any_schedule_eq_program_order ops F π σ h.1 h.2

/-- two back ends whose schedulers pick admissible orders take the same step: same events, same
    outcome (completed / failed / raised), same persistent state, same next phase -/
theorem step_backends_agree (F : Funs) (ps : List Phase) (sched₁ sched₂ : Phase → List Nat)
    (h₁ : ∀ ph ∈ ps, Admissible ph.ops (sched₁ ph)) (h₂ : ∀ ph ∈ ps, Admissible ph.ops (sched₂ ph))
    (s : RunState) : stepFlat F sched₁ ps s = stepFlat F sched₂ ps s := by
  unfold stepFlat stepWith
  cases hf : findPhase ps s.next with
  | none => rfl
  | some ph =>
    have hm : ph ∈ ps := List.mem_of_find?_eq_some hf
    simp only
    rw [body_order_irrelevant F ph.ops _ _ (h₁ ph hm), body_order_irrelevant F ph.ops _ _ (h₂ ph hm)]

/-- … and the same whole run, for every end time, step limit and number of loop passes -/
theorem run_backends_agree (F : Funs) (ps : List Phase) (sched₁ sched₂ : Phase → List Nat)
    (h₁ : ∀ ph ∈ ps, Admissible ph.ops (sched₁ ph)) (h₂ : ∀ ph ∈ ps, Admissible ph.ops (sched₂ ph))
    (tEnd : Option Int) (maxSteps : Option Nat) (fuel n : Nat) (s : RunState) :
    runLoop (stepFlat F sched₁ ps) tEnd maxSteps fuel n s = runLoop (stepFlat F sched₂ ps) tEnd maxSteps fuel n s := by
  have : stepFlat F sched₁ ps = stepFlat F sched₂ ps := funext (step_backends_agree F ps sched₁ sched₂ h₁ h₂)
  rw [this]

/-- program order is admissible (so "both equal program order" is an instance of the above) -/
theorem progOrder_admissible (ops : List BOp) : Admissible ops (progOrder ops) := by
  refine ⟨List.Perm.refl _, ?_⟩
  intro pre j post hsplit d hd
  have hb := C02.deps_backward ops j d hd
  -- `range n = pre ++ j :: post` puts exactly the numbers below `j` into `pre`
  have hn : (flatStmts ops).length = pre.length + (post.length + 1) := by
    have : (progOrder ops).length = pre.length + (post.length + 1) := by rw [hsplit]; simp
    unfold progOrder at this; simpa using this
  have hlen : pre.length = j := by
    have h1 : (progOrder ops)[pre.length]? = some j := by rw [hsplit]; simp
    unfold progOrder at h1
    rw [List.getElem?_range (by omega)] at h1
    simpa using h1
  have : d < pre.length := by omega
  have h2 : (progOrder ops)[d]? = pre[d]? := by rw [hsplit, List.getElem?_append_left this]
  have hdn : d < (flatStmts ops).length := by omega
  unfold progOrder at h2
  rw [List.getElem?_range hdn] at h2
  exact List.mem_of_getElem? h2.symm

/-- whatever the body did, a per-step variable is gone after the step -/
theorem temporaries_discarded (body : Phase → Store → Boxed) (ps : List Phase) (s : RunState)
    (x : Name) (hx : isPersistent x = false) (hfound : (findPhase ps s.next).isSome) :
    (stepWith body ps s).2.2.σ x = .val .none := by
  unfold stepWith
  cases hf : findPhase ps s.next with
  | none => simp [hf] at hfound
  | some ph =>
    simp only [finishStep]
    split <;> simp [persist, hx]

/-- the next phase is the default successor unless the step switched phase — also after a failed
    step (the successor is stored before the body runs and is not rolled back) -/
theorem next_phase_rule (body : Phase → Store → Boxed) (ps : List Phase) (s : RunState) (ph : Phase)
    (hf : findPhase ps s.next = some ph) :
    (stepWith body ps s).2.2.next =
      match (body ph (startStep s.σ)).σ.status with
      | .switched p => p
      | _ => ph.next := by
  unfold stepWith
  simp only [hf, finishStep]
  split <;> simp_all

/-- a failed step is reported and does not count against `max_steps` -/
theorem failed_step_not_counted (step : RunState → List Ev × Outcome × RunState) (tEnd : Option Int)
    (maxSteps : Option Nat) (fuel n : Nat) (s s' : RunState) (evs : List Ev)
    (hgo : stopNow s tEnd maxSteps n = false) (hs : step s = (evs, .failed, s')) :
    runLoop step tEnd maxSteps (fuel + 1) n s = (evs, s') :: runLoop step tEnd maxSteps fuel n s' := by
  simp [runLoop, hgo, hs]

theorem completed_step_counted (step : RunState → List Ev × Outcome × RunState) (tEnd : Option Int)
    (maxSteps : Option Nat) (fuel n : Nat) (s s' : RunState) (evs : List Ev)
    (hgo : stopNow s tEnd maxSteps n = false) (hs : step s = (evs, .completed, s')) :
    runLoop step tEnd maxSteps (fuel + 1) n s = (evs, s') :: runLoop step tEnd maxSteps fuel (n + 1) s' := by
  simp [runLoop, hgo, hs]

/-- a raised error ends the run after reporting the events of the step -/
theorem raise_ends_run (step : RunState → List Ev × Outcome × RunState) (tEnd : Option Int)
    (maxSteps : Option Nat) (fuel n : Nat) (s s' : RunState) (evs : List Ev)
    (hgo : stopNow s tEnd maxSteps n = false) (hs : step s = (evs, .raised, s')) :
    runLoop step tEnd maxSteps (fuel + 1) n s = [(evs, s')] := by
  simp [runLoop, hgo, hs]

/-! ### the written program vs. the flat statements: programs without `if_` / `else_` -/

theorem flat_rangeFrom_eq_fold (F : Funs) : ∀ (l pre : List Stmt) (σ : Store),
    flatExec F (pre ++ l) (List.range' pre.length l.length) σ = l.foldl (fun σ s => exec F s σ) σ := by
  intro l
  induction l with
  | nil => intro pre σ; simp [flatExec_def]
  | cons s l ih =>
    intro pre σ
    have h := ih (pre ++ [s]) (exec F s σ)
    simp only [List.length_append, List.length_singleton, List.append_assoc, List.singleton_append] at h
    simp only [List.length_cons, List.range'_succ, List.foldl_cons]
    rw [← h, flatExec_def, flatExec_def]
    simp only [List.foldl_cons]
    have : (pre ++ s :: l)[pre.length]? = some s := by simp
    simp only [flatStep, this]
    rfl

theorem flat_range_eq_fold (F : Funs) (l : List Stmt) (σ : Store) :
    flatExec F l (List.range l.length) σ = l.foldl (fun σ s => exec F s σ) σ := by
  have := flat_rangeFrom_eq_fold F l [] σ
  simpa [List.range_eq_range'] using this

theorem run_straight (ks : List Kind) : ∀ (st : BState), st.condStack = [] → st.failed = none →
    let st' := (ks.map BOp.stmt).foldl (fun st op => if st.failed.isSome then st else step st op) st
    st'.out.map (·.1) = st.out.map (·.1) ++ ks.map (fun k => (⟨.const (.bool true), k⟩ : Stmt)) := by
  induction ks with
  | nil => intro st _ _; simp
  | cons k ks ih =>
    intro st hc hf
    simp only [List.map_cons, List.foldl_cons, hf, Option.isSome_none, Bool.false_eq_true, if_false]
    have h1 : (step st (.stmt k)).condStack = [] := by simp [step, addStatement, hc]
    have h2 : (step st (.stmt k)).failed = none := by simp [step, addStatement, hf]
    have := ih (step st (.stmt k)) h1 h2
    simp only at this
    rw [this]
    simp [step, addStatement, hc, condOf]

theorem seq_straight (F : Funs) (ks : List Kind) : ∀ (s : SeqState), s.stack = [] → s.failed = false →
    ((ks.map BOp.stmt).foldl (fun s op => bif s.failed then s else seqStep F s op) s).σ =
      ks.foldl (fun σ k => exec F ⟨.const (.bool true), k⟩ σ) s.σ := by
  induction ks with
  | nil => intro s _ _; rfl
  | cons k ks ih =>
    intro s hs hf
    simp only [List.map_cons, List.foldl_cons, hf, cond_false]
    have h1 : (seqStep F s (.stmt k)).stack = [] := by simp [seqStep, hs, allTrue]
    have h2 : (seqStep F s (.stmt k)).failed = false := by simp [seqStep, hs, allTrue, hf]
    rw [ih _ h1 h2]
    simp [seqStep, hs, allTrue, exec]

/-- for a program that consists of statements only (no `if_` / `else_`), executing the emitted
    flat statements in program order IS carrying out the builder calls one after another — with
    `body_order_irrelevant`: every admissible order of a back end implements the written program -/
theorem seq_eq_flat_straightline_partial (F : Funs) (ks : List Kind) (σ : Store) :
    (seqExec F (ks.map BOp.stmt) σ).σ =
      flatExec F (flatStmts (ks.map BOp.stmt)) (progOrder (ks.map BOp.stmt)) σ := by
  unfold progOrder
  rw [flat_range_eq_fold]
  unfold seqExec
  rw [seq_straight F ks _ rfl rfl]
  have := run_straight ks BState.init rfl rfl
  simp only at this
  unfold flatStmts Builder.run
  rw [this]
  simp [BState.init, List.foldl_map]

theorem backend_implements_straightline_partial (F : Funs) (ks : List Kind) (π : List Nat) (σ : Store)
    (h : Admissible (ks.map BOp.stmt) π) :
    flatExec F (flatStmts (ks.map BOp.stmt)) π σ = (seqExec F (ks.map BOp.stmt) σ).σ := by
  rw [body_order_irrelevant F _ π σ h, seq_eq_flat_straightline_partial]

/-! ### the general bridge: flat guarded statements = the written blocks -/

/-- **C01, program order = written program** (all programs the builder accepts, all stores with the
    flag names unset, all function interpretations).  Off the builder's own `<cond>` flags, executing
    the emitted guarded statements in program order leaves exactly what carrying out the builder
    calls block by block leaves — events, status and every variable. -/
theorem seq_eq_flat (F : Funs) (ops : List BOp) (σ : Store)
    (hbuilt : (Builder.run ops).failed = none)
    (hok : ∀ op ∈ ops, OpOK op)
    (hunset : ∀ x, IsFlag x → σ x = .val .none) :
    (seqExec F ops σ).failed = false ∧
    ∀ x, ¬ IsFlag x → flatExec F (flatStmts ops) (progOrder ops) σ x = (seqExec F ops σ).σ x := by
  have sim0 : Sim F σ BState.init σ ⟨σ, [], none, false⟩ :=
    ⟨rfl, rfl, fun _ _ => rfl, All2.nil, Or.inl ⟨rfl, rfl⟩,
      fun c hc => by rcases hc with h | h <;> simp [BState.init] at h,
      fun x hx _ => hunset x hx, rfl⟩
  obtain ⟨σf, sim⟩ := sim_run F σ ops BState.init σ _ sim0 hok hbuilt
  refine ⟨sim.sfail, fun x hx => ?_⟩
  unfold progOrder
  rw [flat_range_eq_fold]
  have := sim.flat
  unfold flatStmts Builder.run
  unfold runFrom at this
  rw [← this]
  exact sim.agree x hx

/-- **C01, both back ends implement the written program**: whatever admissible order a back end
    picks for the emitted statements (C04: the interpreter's controller; C05: the lowering), one
    step body leaves what the written program says, off the flags. -/
theorem backend_implements_program (F : Funs) (ops : List BOp) (π : List Nat) (σ : Store)
    (hπ : Admissible ops π)
    (hbuilt : (Builder.run ops).failed = none)
    (hok : ∀ op ∈ ops, OpOK op)
    (hunset : ∀ x, IsFlag x → σ x = .val .none) :
    ∀ x, ¬ IsFlag x → flatExec F (flatStmts ops) π σ x = (seqExec F ops σ).σ x := by
  intro x hx
  rw [body_order_irrelevant F ops π σ hπ]
  exact (seq_eq_flat F ops σ hbuilt hok hunset).2 x hx

/-- the events and the status of a step are among the things the two agree on -/
theorem backend_events_eq_program (F : Funs) (ops : List BOp) (π : List Nat) (σ : Store)
    (hπ : Admissible ops π)
    (hbuilt : (Builder.run ops).failed = none)
    (hok : ∀ op ∈ ops, OpOK op)
    (hunset : ∀ x, IsFlag x → σ x = .val .none) :
    (flatExec F (flatStmts ops) π σ).log = (seqExec F ops σ).σ.log ∧
    (flatExec F (flatStmts ops) π σ).status = (seqExec F ops σ).σ.status := by
  have := backend_implements_program F ops π σ hπ hbuilt hok hunset EXEC exec_not_flag
  simp [Store.log, Store.status, this]

theorem flag_length {x : Name} (h : IsFlag x) : 6 ≤ x.length := by
  obtain ⟨k, rfl⟩ := h
  cases k with
  | zero => decide
  | succ k =>
    have h7 : ("<cond>_" : String).length = 7 := by decide
    simp [genName, String.length_append]
    omega

theorem flag_not_persistent {x : Name} (h : IsFlag x) : isPersistent x = false := by
  obtain ⟨k, rfl⟩ := h
  cases k with
  | zero => decide +kernel
  | succ k =>
    have h2 : ("<state>" : String).toList = ['<','s','t','a','t','e','>'] := by decide
    have h3 : ("<p>" : String).toList = ['<','p','>'] := by decide
    have hl : ∀ n : String, n.length < 7 → ("<cond>" ++ "_" ++ toString k == n) = false := by
      intro n hn
      rw [beq_eq_false_iff_ne]
      intro h
      have := congrArg String.length h
      have h7 : ("<cond>_" : String).length = 7 := by decide
      simp [String.length_append] at this
      omega
    simp only [isPersistent, genName, hl "<t>" (by decide), hl "<dt>" (by decide), Bool.false_or]
    simp [hasPrefix, String.toList_append, h2, h3, List.isPrefixOf]

theorem startStep_flags_unset (σ : Store) (x : Name) (h : IsFlag x) : startStep σ x = .val .none := by
  have hne : x ≠ EXEC := by rintro rfl; exact exec_not_flag h
  simp [startStep, Store.set, hne, persist, flag_not_persistent h]

/-- what `run` makes of a step only looks at the events, the status and the persistent names -/
theorem finishStep_congr (ph : Phase) (b b' : Boxed) (h : ∀ x, ¬ IsFlag x → b.σ x = b'.σ x) :
    finishStep ph b = finishStep ph b' := by
  have hp : persist b.σ = persist b'.σ := by
    funext x
    unfold persist
    cases hx : isPersistent x
    · rfl
    · simp only [cond_true]
      exact h x (fun hf => by rw [flag_not_persistent hf] at hx; cases hx)
  have he := h EXEC exec_not_flag
  have hl : b.σ.log = b'.σ.log := by simp [Store.log, he]
  have hs : b.σ.status = b'.σ.status := by simp [Store.status, he]
  unfold finishStep
  simp only [hp, hl, hs]

/-- a program a back end can be compared with the written program on: the builder accepted it and
    its own statements and conditions stay off the builder's flag names -/
def WellBuilt (ops : List BOp) : Prop :=
  (Builder.run ops).failed = none ∧ ∀ op ∈ ops, OpOK op

/-- **C01, one step**: a back end whose scheduler picks admissible orders takes exactly the step the
    written program describes — same events, same outcome, same persistent state, same next phase -/
theorem step_backend_eq_written (F : Funs) (ps : List Phase) (sched : Phase → List Nat)
    (hs : ∀ ph ∈ ps, Admissible ph.ops (sched ph)) (hw : ∀ ph ∈ ps, WellBuilt ph.ops) (s : RunState) :
    stepFlat F sched ps s = stepRef F ps s := by
  unfold stepFlat stepRef stepWith
  cases hf : findPhase ps s.next with
  | none => rfl
  | some ph =>
    have hm : ph ∈ ps := List.mem_of_find?_eq_some hf
    simp only
    apply finishStep_congr
    intro x hx
    exact backend_implements_program F ph.ops (sched ph) (startStep s.σ) (hs ph hm) (hw ph hm).1 (hw ph hm).2
      (startStep_flags_unset s.σ) x hx

/-- **C01, whole runs**: … and therefore produces exactly the run of the written program, for every
    end time, step limit and number of loop passes -/
theorem run_backend_eq_written (F : Funs) (ps : List Phase) (sched : Phase → List Nat)
    (hs : ∀ ph ∈ ps, Admissible ph.ops (sched ph)) (hw : ∀ ph ∈ ps, WellBuilt ph.ops)
    (tEnd : Option Int) (maxSteps : Option Nat) (fuel n : Nat) (s : RunState) :
    runLoop (stepFlat F sched ps) tEnd maxSteps fuel n s = runLoop (stepRef F ps) tEnd maxSteps fuel n s := by
  have : stepFlat F sched ps = stepRef F ps := funext (step_backend_eq_written F ps sched hs hw)
  rw [this]

/-- the hypotheses of the bridge are satisfiable by a program with an `if_` / `else_` pair whose
    two branches assign different values (a store with everything unset but `a`) -/
example :
    let ops : List BOp :=
      [.ifBegin (.var "a"), .stmt (.assign "y" none (.const (.int 1)) []), .ifEnd,
       .elseBegin, .stmt (.assign "y" none (.const (.int 2)) []), .elseEnd]
    (Builder.run ops).failed = none ∧ (∀ op ∈ ops, OpOK op) ∧
    (∀ x, IsFlag x → (fun n => if n = "a" then Cell.val (.bool false) else .val .none : Store) x = .val .none) := by
  refine ⟨by decide +kernel, ?_, ?_⟩
  · intro op hop
    simp only [List.mem_cons, List.mem_nil_iff, or_false] at hop
    rcases hop with rfl | rfl | rfl | rfl | rfl | rfl
    · intro x hx; have := flag_length hx
      simp only [depVars, List.mem_singleton]
      rintro rfl; revert this; decide
    · intro x hx; have h6 := flag_length hx
      have hne : x ≠ "y" := by rintro rfl; revert h6; decide
      have hne2 : x ≠ "<exec>" := by rintro rfl; exact exec_not_flag hx
      simp [effR, effW, declReads, declWrites, depVars, loopVars, Kind.isAssignment, hne, hne2, EXEC]
    · trivial
    · trivial
    · intro x hx; have h6 := flag_length hx
      have hne : x ≠ "y" := by rintro rfl; revert h6; decide
      have hne2 : x ≠ "<exec>" := by rintro rfl; exact exec_not_flag hx
      simp [effR, effW, declReads, declWrites, depVars, loopVars, Kind.isAssignment, hne, hne2, EXEC]
    · trivial
  · intro x hx
    have := flag_length hx
    have hne : x ≠ "a" := by rintro rfl; revert this; decide
    simp [hne]

end Dagrt.C01
