import Dagrt.Proofs.SimplifyShape
/-!
# C06 — control-flow simplification never changes which statements run, or their order

Model: `Dagrt.Simplify` (`Model/Simplify.lean`) = `dagrt.codegen.dag_ast.simplify_ast`.
The statements are over *all* trees (no size bound), *all* valuations `v` of the
condition flags and *all* loop trip counts `it`.
-/
namespace Dagrt.C06
open Dagrt.Simplify

/-- Simplification terminates without an error on every input (Python exceptions
    are `Except.error` values of the model), including programs in which nothing remains. -/
theorem simplify_total (a : Ast) : ∃ a', simplify a = .ok a' := by
  obtain ⟨b, hb⟩ := simp_total (pre a)
  simp [simplify, hb, bind, Except.bind, pure, Except.pure]

/-- The simplified program executes the same sequence of leaf statements as the
    original, for every truth assignment to the flags (and every trip count). -/
theorem simplify_trace (a a' : Ast) (v : Nat → Bool) (it : Nat → Nat)
    (h : simplify a = .ok a') : trace v it a' = trace v it a := by
  simp only [simplify, bind, Except.bind] at h
  split at h
  · cases h
  · rename_i b hb
    simp [pure, Except.pure] at h; subst h
    rw [trace_postTop, trace_simp v it (pre a) b hb, trace_pre]

/-- Each of the three passes preserves the trace on its own. -/
theorem pre_trace (a : Ast) (v : Nat → Bool) (it : Nat → Nat) :
    trace v it (pre a) = trace v it a := trace_pre v it a
theorem simp_trace (a a' : Ast) (v : Nat → Bool) (it : Nat → Nat) (h : simp a = .ok a') :
    trace v it a' = trace v it a := trace_simp v it a a' h
theorem post_trace (a : Ast) (v : Nat → Bool) (it : Nat → Nat) :
    trace v it (postTop a) = trace v it a := trace_postTop v it a

/-- The result of `simplify_ast` is never the null node (back ends have no case for it). -/
theorem simplify_root_not_null (a a' : Ast) (h : simplify a = .ok a') : isNull a' = false := by
  simp only [simplify, bind, Except.bind] at h
  split at h
  · cases h
  · simp [pure, Except.pure] at h; subst h
    unfold postTop; split
    · rfl
    · rename_i hx; cases hp : post _ <;> simp_all [isNull]

/-- Shape the back ends rely on: the simplified program contains no null node at all
    (loops, conditionals and blocks whose content vanishes are removed) … -/
theorem simplify_no_null (a a' : Ast) (h : simplify a = .ok a') : noNull a' = true := by
  simp only [simplify, bind, Except.bind] at h
  split at h
  · cases h
  · rename_i b hb
    simp [pure, Except.pure] at h; subst h
    have hn := simp_noIfThen (pre a) b (pre_noIfThen a) hb
    unfold postTop
    rcases post_shape b hn with h' | h'
    · cases hp : post b <;> simp_all [isNull, noNull, noNullList]
    · cases hp : post b <;> simp_all [isNull, noNull, noNullList]

/-- … hence the generic walker of the structured back ends (`lower_node`) never meets a node
    it has no case for -/
theorem walker_total (a a' : Ast) (h : simplify a = .ok a') : ∃ evs, walk a' = some evs :=
  walk_total a' (simplify_no_null a a' h)

/-! non-vacuity / regression witnesses (the two defects of the pinned tree, repaired
    by the `fix:` commit, are now instances of the theorems) -/
example : simplify (.block [.null]) = .ok (.block []) := by rfl
example : (match simplify (.block [.leaf 0, .block [.leaf 1, .leaf 2]]) with
    | .ok a' => trace (fun _ => true) (fun _ => 1) a' | .error _ => []) = [0, 1, 2] := by decide
example : (match simplify (.block [.ite (.flag 0) (.leaf 1) .null, .ite (.not (.flag 0)) (.leaf 2) .null,
      .ite (.flag 0) (.leaf 3) .null]) with
    | .ok a' => trace (fun _ => false) (fun _ => 1) a' | .error _ => []) = [2] := by decide

example : simplify (.loop 0 (.ite .ff (.leaf 1) .null)) = .ok (.block []) := by rfl

end Dagrt.C06
