import Dagrt.Props.C05
import Dagrt.Props.C01
import Dagrt.Props.C07
/-!
# C15 — generated source text is a pure function of the method description

The text emitters themselves are not modelled (their determinism for ORDERED inputs is observed on
every run: sha256 of the Python and Fortran text across hash seeds, container orders and process
histories).  What is proved is that everything that feeds them is independent of the iteration
order of the containers — for all methods:
* the lowered structured program does not depend on the storage order of the statements
  (`lowering_storage_order`, C05) nor on the order inside a `depends_on` set
  (`dependency_order`: the lowering sorts them);
* the interpreter's observable results do not depend on the order in which its controller
  schedules the statements (`interpreter_schedule`, C01/C02);
* the names and ids the rewriting passes introduce are determined by the sequence of generator
  calls alone: the two generators are created per pass application from the statements of the
  phase, there is no state shared between generator objects in the model (`pass_state_is_local`),
  self-dependency elimination visits the variables in sorted order (after the `fix:` commit; the
  model takes the order as an input and the correspondence run feeds it the sorted one — for
  sorted enumerations of a set, `dependency_order` is the statement that the enumeration order is
  irrelevant).
-/
namespace Dagrt.C15
open Dagrt Dagrt.Lower Dagrt.Passes

/-- the structured program is the same for every storage order of the statements -/
theorem lowering_storage_order {p p' : Phase} (hp : p.Perm p') (wf : Lower.LWF p) : createAst p = createAst p' :=
  C05.storage_order_irrelevant hp wf

/-- the order in which a `depends_on` set is enumerated does not matter: it is sorted first -/
theorem dependency_order {l l' : List Nat} (h : l.Perm l') : isort l = isort l' :=
  C05.isort_eq_of_perm h

/-- the interpreter's events and states do not depend on the controller's schedule -/
theorem interpreter_schedule (F : Sem.Funs) (ps : List StepLoop.Phase) (sched₁ sched₂ : StepLoop.Phase → List Nat)
    (h₁ : ∀ ph ∈ ps, C01.Admissible ph.ops (sched₁ ph)) (h₂ : ∀ ph ∈ ps, C01.Admissible ph.ops (sched₂ ph))
    (tEnd : Option Int) (maxSteps : Option Nat) (fuel n : Nat) (s : StepLoop.RunState) :
    StepLoop.runLoop (StepLoop.stepFlat F sched₁ ps) tEnd maxSteps fuel n s =
      StepLoop.runLoop (StepLoop.stepFlat F sched₂ ps) tEnd maxSteps fuel n s :=
  C01.run_backends_agree F ps sched₁ sched₂ h₁ h₂ tEnd maxSteps fuel n s

/-- a pass application starts from generators that are a function of the phase alone -/
theorem pass_state_is_local (pass : Pass) (stmts : List Fuse.FStmt) (orders : List (List Name)) :
    applyPass pass stmts orders = runPass pass stmts orders (initPS stmts) := rfl

end Dagrt.C15
