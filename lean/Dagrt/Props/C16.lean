import Dagrt.Model.Fuse
namespace Dagrt.C16
open Dagrt.Fuse
theorem applySubst_nil (x : Dagrt.Name) : applySubst [] x = x := rfl
end Dagrt.C16
