import Dagrt.Proofs.FuseProofs
import Dagrt.Proofs.RenameProofs
import Dagrt.Proofs.RenameOnProofs
import Dagrt.Proofs.FuseInjProofs
import Dagrt.Proofs.StmtProofs
/-!
# C16 — fusing two methods runs both on shared persistent state without interference

Model: `Dagrt.Fuse` (`Model/Fuse.lean`) = `fuse_two_phases` with pymbolic's
`disambiguate_identifiers` and `fuse_statement_streams_with_unique_ids` and the name generator
model of C13.  `clash` = the iteration order of the set of names used by both methods (any
order); the second statement list is in any order.  Theorems are for all pairs of statement
lists, every renaming predicate, every such order.
The behavioural clause: `renamed_method_computes_the_same` / `fused_second_method_runs_as_alone` -
renaming commutes with execution (`Sem.exec_rename`, the substitution lemma for the whole statement
semantics), so the renamed second method, run in the fused store, computes under the new names
exactly what the second method computes alone under the old ones - in particular the same
persistent variables, events and status.  That the first method's statements do not disturb it
follows from the structural theorems below (`temporaries_disjoint`) and `C02.exec_comm`; the two
halves are not assembled into one theorem, and the whole clause is checked by the failing-input
search with the real interpreter.
-/
namespace Dagrt.C16
open Dagrt Dagrt.Sem Dagrt.Names Dagrt.Fuse

/-- initial generator of `disambiguate_identifiers`: knows every name of both methods -/
def vng0 (A B : List FStmt) : Gen := ⟨(usedIdents A ++ usedIdents B).map String.toList, [], [], false⟩

theorem vng0_conflicting (A B : List FStmt) (x : Name) (h : x ∈ usedIdents A ++ usedIdents B) :
    (vng0 A B).conflicting x.toList = true := by
  simp only [vng0, Gen.conflicting, Gen.norm, cond_false, List.contains_iff_mem, List.mem_map]
  exact ⟨x, h, rfl⟩

theorem sub_inv (pred : Name → Bool) (clash : List Name) (A B : List FStmt) (sub : List (Name × Name))
    (h : disambiguate pred clash (vng0 A B) [] = some sub) :
    ∃ g', SubInv pred clash (vng0 A B) g' sub :=
  disambiguate_inv pred clash (vng0 A B) clash (vng0 A B) [] sub (fun _ h => h)
    ⟨by simp, by simp, by simp, fun _ h => h, ⟨rfl, rfl⟩⟩ h

/-- names for which the caller's predicate says "do not rename" (by default: persistent
    variables, `<t>`, `<dt>`) occur unchanged in the fused second method -/
theorem persistent_unrenamed (pred : Name → Bool) (clash : List Name) (A B : List FStmt)
    (sub : List (Name × Name)) (h : disambiguate pred clash (vng0 A B) [] = some sub)
    (x : Name) (hx : pred x = false) : applySubst sub x = x := by
  obtain ⟨g', hi⟩ := sub_inv pred clash A B sub h
  apply applySubst_of_not_key
  intro p hp e
  have := (hi.keys p hp).1
  rw [e, hx] at this; cases this

/-- every renamed name is new: it is used by neither method -/
theorem renamed_is_fresh (pred : Name → Bool) (clash : List Name) (A B : List FStmt)
    (sub : List (Name × Name)) (h : disambiguate pred clash (vng0 A B) [] = some sub) :
    ∀ p ∈ sub, p.2 ∉ usedIdents A ++ usedIdents B := by
  obtain ⟨g', hi⟩ := sub_inv pred clash A B sub h
  intro p hp hmem
  have := vng0_conflicting A B p.2 hmem
  rw [hi.fresh p hp] at this; cases this

/-- **Temporaries are disjoint.** A name used by the fused second method and also by the first
    method is one the predicate declined to rename — with the default predicate: a persistent
    name.  (`hclash`: the clash list contains every name used by both.) -/
theorem temporaries_disjoint (pred : Name → Bool) (clash : List Name) (A B : List FStmt)
    (sub : List (Name × Name)) (h : disambiguate pred clash (vng0 A B) [] = some sub)
    (hclash : ∀ x, x ∈ usedIdents A → x ∈ usedIdents B → x ∈ clash)
    (n : Name)
    (hn : n ∈ usedIdents (B.map fun b => { b with stmt := renameStmt (applySubst sub) b.stmt }))
    (ha : n ∈ usedIdents A) : pred n = false ∧ n ∈ usedIdents B := by
  rw [usedIdents_rename] at hn
  simp only [List.mem_map] at hn
  obtain ⟨x, hx, he⟩ := hn
  rcases applySubst_mem sub x with h1 | ⟨p, hp, hk, h2⟩
  · -- x was not renamed, so n = x is used by both methods and is not a key of the substitution
    rw [h1] at he; subst he
    refine ⟨?_, hx⟩
    cases hpn : pred x with
    | false => rfl
    | true =>
      exfalso
      -- x ∈ clash and pred x: the loop made x a key, so applySubst maps it to a fresh name ≠ x
      obtain ⟨q, hq, hqx⟩ := disambiguate_keys pred x hpn clash (vng0 A B) [] sub h (Or.inl (hclash x ha hx))
      obtain ⟨v, hv⟩ := lookup_some_of_key sub x ⟨q, hq, hqx⟩
      have hvmem := lookup_pair_mem sub x v hv
      have hfresh := renamed_is_fresh pred clash A B sub h (x, v) hvmem
      have : applySubst sub x = v := by simp [applySubst, hv]
      rw [this] at h1
      apply hfresh; simp only; rw [h1]; simp [hx]
  · -- n is a fresh name: it cannot be used by the first method
    exfalso
    have := renamed_is_fresh pred clash A B sub h p hp
    apply this
    rw [← h2, he]; simp [ha]

/-- **Ids are unique** in the fused phase (given that each method's ids are), the first method's
    statements are untouched, and the second method keeps its statements (renamed) in order -/
theorem ids_unique (pred : Name → Bool) (clash : List Name) (A B out : List FStmt)
    (h : fuse pred clash A B = some out) (hA : (A.map (·.id)).Nodup) :
    (out.map (·.id)).Nodup ∧ ∃ B2, out = A ++ B2 ∧ B2.length = B.length := by
  obtain ⟨sub, m, B2, hs, hm, hb, ho⟩ := fuse_some pred clash A B out h
  have hr := renumber_spec (A.map (·.id)) _ ⟨A.map (·.id), [], [], false⟩ [] m rfl
    (by intro a ha; simp [Gen.conflicting, Gen.norm]; simpa using ha) (by simp) (by simp) (by simp) hm
  have hlen : m.length = (B.map fun b => { b with stmt := renameStmt (applySubst sub) b.stmt }).length := by
    have := congrArg List.length hr.2.2
    simpa using this
  have hz := zipIds_spec _ m hlen
  have hra := remapAll_spec m _ B2 hb
  have hids : B2.map (·.id) = m.map (·.2) := by rw [hra.1, hz.1]
  refine ⟨?_, B2, ho, ?_⟩
  · rw [ho, List.map_append, List.nodup_append]
    refine ⟨hA, by rw [hids]; exact hr.1, ?_⟩
    intro a ha b hb' e; subst e
    rw [hids] at hb'
    simp only [List.mem_map] at hb'
    obtain ⟨p, hp, he⟩ := hb'
    exact hr.2.1 p hp (by rw [he]; exact ha)
  · have := congrArg List.length hids
    simp at this
    rw [this, hlen]; simp

/-- **Dependencies are translated, not lost or mixed**: every dependency of a fused
    second-method statement is the new id of the corresponding old dependency (so the sub-graph is
    the image of the original one under the id map), and it is an id of the second part -/
theorem deps_translated (pred : Name → Bool) (clash : List Name) (A B out : List FStmt)
    (h : fuse pred clash A B = some out) :
    ∃ (m : List (List Char × List Char)) (B2 : List FStmt), out = A ++ B2 ∧ B2.map (·.id) = m.map (·.2) ∧
      ∀ (k : Nat) (r b : FStmt), B2[k]? = some r → B[k]? = some b →
        r.deps.length = b.deps.length ∧
        ∀ (j : Nat) (d d' : List Char), b.deps[j]? = some d → r.deps[j]? = some d' → (d, d') ∈ m ∧ d' ∈ B2.map (·.id) := by
  obtain ⟨sub, m, B2, hs, hm, hb, ho⟩ := fuse_some pred clash A B out h
  have hr := renumber_spec (A.map (·.id)) _ ⟨A.map (·.id), [], [], false⟩ [] m rfl
    (by intro a ha; simp [Gen.conflicting, Gen.norm]; simpa using ha) (by simp) (by simp) (by simp) hm
  have hlen : m.length = (B.map fun b => { b with stmt := renameStmt (applySubst sub) b.stmt }).length := by
    have := congrArg List.length hr.2.2
    simpa using this
  have hz := zipIds_spec _ m hlen
  have hra := remapAll_spec m _ B2 hb
  have hids : B2.map (·.id) = m.map (·.2) := by rw [hra.1, hz.1]
  refine ⟨m, B2, ho, hids, ?_⟩
  intro k r b hk hbk
  -- the k-th zipped statement has the deps of the k-th original statement
  have hzk : ∃ z, (zipIds (B.map fun b => { b with stmt := renameStmt (applySubst sub) b.stmt }) m)[k]? = some z ∧ z.deps = b.deps := by
    have hd := hz.2.2
    have h1 : ((zipIds (B.map fun b => { b with stmt := renameStmt (applySubst sub) b.stmt }) m).map (·.deps))[k]? = some b.deps := by
      rw [hd]; simp [hbk]
    simp only [List.getElem?_map, Option.map_eq_some_iff] at h1
    obtain ⟨z, hz1, hz2⟩ := h1
    exact ⟨z, hz1, hz2⟩
  obtain ⟨z, hz1, hz2⟩ := hzk
  have hrd := hra.2.2 k r z hk hz1
  rw [hz2] at hrd
  have hsp := remapDeps_spec m b.deps r.deps hrd
  refine ⟨hsp.1, ?_⟩
  intro j d d' hd hd'
  have hl := hsp.2 j d d' hd hd'
  have hmem := lookupId_mem m d d' hl
  refine ⟨hmem, ?_⟩
  rw [hids]; exact List.mem_map.mpr ⟨(d, d'), hmem, rfl⟩

/-! ### the renamed method computes what the method computes -/

/-- a list of statements executed one after another (any schedule of a method's statements) -/
def runList (F : Funs) (l : List Stmt) (σ : Store) : Store := l.foldl (fun σ s => exec F s σ) σ

/-- **The renamed method computes the same**, statement list by statement list: for every
    injective renaming that leaves the event pseudo-variable and the meaning of function symbols
    alone, every statement list, every pair of stores that correspond through the renaming -/
theorem renamed_method_computes_the_same (F : Funs) (ρ : Name → Name) (hinj : ∀ x y, ρ x = ρ y → x = y)
    (hF : ∀ f vs ks, F (ρ f) vs ks = F f vs ks) (hexec : ρ EXEC = EXEC) :
    ∀ (l : List Stmt) (σ σ' : Store), Rel ρ σ σ' → Rel ρ (runList F l σ) (runList F (l.map (renameStmt ρ)) σ')
  | [], _, _, h => h
  | s :: l, σ, σ', h => by
    simp only [runList, List.map_cons, List.foldl_cons]
    exact renamed_method_computes_the_same F ρ hinj hF hexec l _ _ (exec_rename F ρ hinj hF hexec s σ σ' h)

/-- **In the fused method the second method runs as it runs alone**: whatever store `σ1` the first
    method leaves, the renamed second method turns it into a store that holds, under the new names,
    exactly what the second method alone makes of `σ1` read through the renaming (its own temporaries
    start unset - their new names are fresh -, persistent variables are shared and unrenamed) -/
theorem fused_second_method_runs_as_alone (F : Funs) (ρ : Name → Name) (hinj : ∀ x y, ρ x = ρ y → x = y)
    (hF : ∀ f vs ks, F (ρ f) vs ks = F f vs ks) (hexec : ρ EXEC = EXEC) (B : List Stmt) (σ1 : Store) :
    Rel ρ (runList F B (fun x => σ1 (ρ x))) (runList F (B.map (renameStmt ρ)) σ1) :=
  renamed_method_computes_the_same F ρ hinj hF hexec B _ σ1 (fun _ => rfl)

/-- in particular every variable the renaming leaves alone - the persistent variables, time and step
    size under the default predicate (`persistent_unrenamed`) - ends with the value the second method
    alone gives it, and the events and the status of the step are the same -/
theorem fused_second_method_persistent_results (F : Funs) (ρ : Name → Name) (hinj : ∀ x y, ρ x = ρ y → x = y)
    (hF : ∀ f vs ks, F (ρ f) vs ks = F f vs ks) (hexec : ρ EXEC = EXEC) (B : List Stmt) (σ1 : Store)
    (x : Name) (hx : ρ x = x) :
    runList F (B.map (renameStmt ρ)) σ1 x = runList F B (fun y => σ1 (ρ y)) x := by
  have := fused_second_method_runs_as_alone F ρ hinj hF hexec B σ1 x
  rwa [hx] at this

/-! ### both halves: the fused method, first method's statements then the renamed second method's -/

theorem runList_append (F : Funs) (l₁ l₂ : List Stmt) (σ : Store) :
    runList F (l₁ ++ l₂) σ = runList F l₂ (runList F l₁ σ) := by
  simp [runList, List.foldl_append]

/-- a variable no statement of a list declares as written keeps its value (C08's frame, over lists) -/
theorem runList_frame (F : Funs) : ∀ (l : List Stmt) (σ : Store) (x : Name), (∀ s ∈ l, x ∉ effW s) →
    runList F l σ x = σ x
  | [], _, _, _ => rfl
  | s :: l, σ, x, h => by
    simp only [runList, List.foldl_cons]
    have h1 := runList_frame F l (exec F s σ) x (fun s' hs' => h s' (List.mem_cons_of_mem _ hs'))
    simp only [runList] at h1
    rw [h1]
    exact (execI_spec F s).2.2.1 σ x (h s List.mem_cons_self)

/-- the result of a statement list on a set of names that contains everything it declares depends on
    the store on that set only -/
theorem runList_agree (F : Funs) (S : List Name) : ∀ (l : List Stmt) (σ σ' : Store),
    (∀ s ∈ l, (∀ x ∈ effR s, x ∈ S) ∧ (∀ x ∈ effW s, x ∈ S)) → AgreeOn S σ σ' →
    AgreeOn S (runList F l σ) (runList F l σ')
  | [], _, _, _, h => h
  | s :: l, σ, σ', hS, h => by
    simp only [runList, List.foldl_cons]
    have hs := hS s List.mem_cons_self
    exact runList_agree F S l _ _ (fun s' hs' => hS s' (List.mem_cons_of_mem _ hs'))
      ((execI_spec F s).2.2.2 S σ σ' hs.1 hs.2 h)

/-- **First method in the fused run**: a variable that no renamed statement of the second method
    declares as written ends with the value the first method alone gives it -/
theorem fused_first_method_results (F : Funs) (ρ : Name → Name) (A B : List Stmt) (σ0 : Store) (x : Name)
    (hx : ∀ s ∈ B.map (renameStmt ρ), x ∉ effW s) :
    runList F (A ++ B.map (renameStmt ρ)) σ0 x = runList F A σ0 x := by
  rw [runList_append]
  exact runList_frame F _ _ x hx

/-- **Second method in the fused run, as alone from the same start**: if no name the second method
    declares (read or written) is written by the first method - the two write disjoint persistent
    variables, the second does not read what the first writes, temporaries are disjoint - then every
    name `x` the second method declares ends, under its new name, with the value the second method
    ALONE gives it when started from the same initial store (read through the renaming) -/
theorem fused_second_method_results (F : Funs) (ρ : Name → Name) (hinj : ∀ x y, ρ x = ρ y → x = y)
    (hF : ∀ f vs ks, F (ρ f) vs ks = F f vs ks) (hexec : ρ EXEC = EXEC) (A B : List Stmt) (σ0 : Store)
    (S : List Name) (hS : ∀ s ∈ B, (∀ x ∈ effR s, x ∈ S) ∧ (∀ x ∈ effW s, x ∈ S))
    (hdisj : ∀ x ∈ S, ∀ s ∈ A, ρ x ∉ effW s) :
    ∀ x ∈ S, runList F (A ++ B.map (renameStmt ρ)) σ0 (ρ x) = runList F B (fun y => σ0 (ρ y)) x := by
  intro x hx
  rw [runList_append]
  -- through the renaming, the store the first method leaves agrees with the initial store on `S`
  have hagree : AgreeOn S (fun y => runList F A σ0 (ρ y)) (fun y => σ0 (ρ y)) := by
    intro y hy
    exact runList_frame F A σ0 (ρ y) (hdisj y hy)
  have h1 := fused_second_method_runs_as_alone F ρ hinj hF hexec B (runList F A σ0) x
  rw [h1]
  exact runList_agree F S B _ _ hS hagree x hx

/-! ### … for the renaming fusion itself computes -/

/-- the names in play: what either method uses, and the event pseudo-variable -/
def namesInUse (A B : List FStmt) : List Name := usedIdents A ++ usedIdents B ++ [EXEC]

/-- **fusion's renaming is injective on the names in use**: replacements are fresh and pairwise
    different (no replacement is spelled `<exec>`: they are derived from names of temporaries) -/
theorem fusion_renaming_injective (pred : Name → Bool) (clash : List Name) (A B : List FStmt)
    (sub : List (Name × Name)) (h : disambiguate pred clash (vng0 A B) [] = some sub)
    (hE : ∀ p ∈ sub, p.2 ≠ EXEC) :
    ∀ x ∈ namesInUse A B, ∀ y ∈ namesInUse A B, applySubst sub x = applySubst sub y → x = y := by
  apply applySubst_injOn sub (targets_nodup pred clash (vng0 A B) sub h)
  intro p hp hmem
  simp only [namesInUse, List.mem_append, List.mem_singleton] at hmem
  rcases hmem with hm | hm
  · exact renamed_is_fresh pred clash A B sub h p hp (by simpa using hm)
  · exact hE p hp hm

/-- **The second method inside the fused method, with the renaming fusion computes**: every list of
    statements whose names are names in use (any schedule of the second method's statements), run
    after whatever the first method left in the store, ends in a store that holds under the new
    names exactly what the statements ALONE make of that store read through the renaming — no
    injectivity assumption left: it is proved of the model's `disambiguate` -/
theorem fusion_second_method_runs_as_alone (pred : Name → Bool) (clash : List Name) (A B : List FStmt)
    (sub : List (Name × Name)) (h : disambiguate pred clash (vng0 A B) [] = some sub)
    (hE : ∀ p ∈ sub, p.2 ≠ EXEC) (hEc : EXEC ∉ clash)
    (F : Funs) (hF : ∀ f vs ks, F (applySubst sub f) vs ks = F f vs ks) :
    ∀ (l : List Stmt), (∀ s ∈ l, ∀ x ∈ stmtNames s, x ∈ namesInUse A B) → ∀ (σ σ' : Store),
      RelOn (applySubst sub) (namesInUse A B) σ σ' →
      RelOn (applySubst sub) (namesInUse A B) (runList F l σ) (runList F (l.map (renameStmt (applySubst sub))) σ')
  | [], _, _, _, hr => hr
  | s :: l, hn, σ, σ', hr => by
    have hexec : applySubst sub EXEC = EXEC := by
      obtain ⟨g', hi⟩ := sub_inv pred clash A B sub h
      apply applySubst_of_not_key
      intro p hp e
      exact hEc (e ▸ (hi.keys p hp).2)
    simp only [runList, List.map_cons, List.foldl_cons]
    exact fusion_second_method_runs_as_alone pred clash A B sub h hE hEc F hF l
      (fun s' hs' => hn s' (List.mem_cons_of_mem _ hs')) _ _
      (exec_renameOn F (applySubst sub) (namesInUse A B) (fusion_renaming_injective pred clash A B sub h hE) hF hexec
        (by simp [namesInUse]) s (hn s List.mem_cons_self) σ σ' hr)

/-! non-vacuity: both methods use the temporary `a`, the flag `<cond>`, the id `p_0`, and read `<t>` -/
def exA : List FStmt := [⟨"p_0".toList, [], ⟨.const (.bool true), .assign "a" none (.var "<t>") []⟩⟩]
def exB : List FStmt := [⟨"p_0".toList, [], ⟨.var "<cond>", .assign "a" none (.sum [.var "a", .var "<t>"]) []⟩⟩,
                         ⟨"p_1".toList, ["p_0".toList], ⟨.const (.bool true), .assign "<state>z" none (.var "a") []⟩⟩]
example : usedIdents exA = ["<t>", "a"] := by decide

end Dagrt.C16
