import Dagrt.Proofs.PassesProofs
import Dagrt.Proofs.FuseProofs
/-!
# C07 — statement-rewriting passes preserve meaning and never capture names

Model: `Dagrt.Passes` (`Model/Passes.lean`) = the four passes of `dagrt/codegen/transform.py` with
the two `UniqueNameGenerator`s (C13 model) threaded in the order the Python code calls them and
`pymbolic.flatten` applied where the `Assign` constructor applies it.  Compared with the real
passes on every run (every statement each leaf is replaced by).

Proved here, for EVERY statement, expression (nested calls, nested conditional expressions, any
depth), guard, set of existing names — including names that look generated — and for the three
expression-driven passes (argument isolation, call isolation, conditional-expression expansion):
* the pass state changes only by asking one of the two generators for a name and by emitting a
  statement whose guard is the guard of the statement being rewritten, extended by flag literals of
  the expander (`mapE_trace`, mutual structural induction over the expression type);
* hence **guards are carried** (`guards_carried`), and
* **every name and every statement id a generator hands out during a pass is new** — not among the
  names / ids of the phase, not handed out before (`names_new`, `ids_new`; from C13's generator
  theorems), for any input names.
The semantic clauses (same values of the original variables, same external calls, no introduced
variable read before it is set) and "an emitted statement uses exactly the names handed out for it"
are NOT theorems here: they are decided on every run by the independent executor on the real output
and by the exact correspondence of the model with the real passes.
-/
namespace Dagrt.C07
open Dagrt Dagrt.Sem Dagrt.Names Dagrt.Fuse Dagrt.Passes

/-- every statement emitted along a trace carries the guard -/
theorem trace_guards {base : Expr} {p q : PS} (h : Trace base p q) :
    ∀ st ∈ q.out, st ∈ p.out ∨ Carries base st.stmt.cond := by
  induction h with
  | refl => intro st hst; exact Or.inl hst
  | fv b _ ih => intro st hst; exact ih st (by simpa [PS.freshVar] using hst)
  | fi b _ ih => intro st hst; exact ih st (by simpa [PS.freshId] using hst)
  | emit st' _ hc ih =>
    intro st hst
    simp only [PS.emit, List.mem_append, List.mem_singleton] at hst
    rcases hst with h | h
    · exact ih st h
    · right; subst h; simpa [normStmt_cond] using hc

/-- **Guards are carried.**  Every statement an expression mapper emits while rewriting a statement
    with guard `cond` has guard `cond`, possibly extended by (possibly negated) flags introduced by
    the conditional-expression expander. -/
theorem guards_carried (m : Mode) (cond : Expr) (deps : List (List Char)) (e : Expr) (s : MS) :
    ∀ st ∈ (mapE m cond deps e s).2.ps.out, st ∈ s.ps.out ∨ Carries cond st.stmt.cond :=
  trace_guards (mapE_trace m cond deps e s)

/-- what is known about a generator: the names of the phase and everything handed out so far are
    taken, what was handed out is pairwise different and not a name of the phase -/
structure GenOK (names0 : List (List Char)) (g : Gen) (handed : List (List Char)) : Prop where
  plain : g.caseless = false
  orig : ∀ n ∈ names0, g.conflicting n = true
  taken : ∀ n ∈ handed, g.conflicting n = true
  nodup : handed.Nodup
  new : ∀ n ∈ handed, n ∉ names0

theorem genCall_ok {names0 handed : List (List Char)} {g : Gen} (h : GenOK names0 g handed) (b : List Char) :
    GenOK names0 (genCall g b).1 (handed ++ [(genCall g b).2]) := by
  obtain ⟨r, hr⟩ := C13.generator_total g b
  obtain ⟨g', n⟩ := r
  have hg : genCall g b = (g', n) := by simp [genCall, hr]
  obtain ⟨hfree, htaken, hmono⟩ := C13.generator_fresh g g' b n hr
  rw [hg]
  refine ⟨?_, ?_, ?_, ?_, ?_⟩
  · rw [gen_call_caseless g g' b n hr]; exact h.plain
  · intro m hm; exact hmono m (h.orig m hm)
  · intro m hm
    simp only [List.mem_append, List.mem_singleton] at hm
    rcases hm with hm | hm
    · exact hmono m (h.taken m hm)
    · subst hm; exact htaken
  · rw [List.nodup_append]
    refine ⟨h.nodup, by simp, ?_⟩
    intro a ha b' hb' e
    simp at hb'; subst hb'; subst e
    have := h.taken a ha
    rw [hfree] at this; cases this
  · intro m hm
    simp only [List.mem_append, List.mem_singleton] at hm
    rcases hm with hm | hm
    · exact h.new m hm
    · subst hm
      intro hin
      have := h.orig m hin
      rw [hfree] at this; cases this

/-- **Names are new**: along any trace of a pass, whatever the variable-name generator has handed
    out is pairwise different and not a name of the phase -/
theorem names_new {base : Expr} {p q : PS} (h : Trace base p q) (names0 : List (List Char))
    (hp : GenOK names0 p.vars p.newVars) : GenOK names0 q.vars q.newVars := by
  induction h with
  | refl => exact hp
  | fv b _ ih => simpa [PS.freshVar] using genCall_ok ih b.toList
  | fi b _ ih => simpa [PS.freshId] using ih
  | emit st _ _ ih => simpa [PS.emit] using ih

/-- **Statement ids are new**, likewise -/
theorem ids_new {base : Expr} {p q : PS} (h : Trace base p q) (ids0 : List (List Char))
    (hp : GenOK ids0 p.ids p.newIds) : GenOK ids0 q.ids q.newIds := by
  induction h with
  | refl => exact hp
  | fv b _ ih => simpa [PS.freshVar] using ih
  | fi b _ ih => simpa [PS.freshId] using genCall_ok ih b.toList
  | emit st _ _ ih => simpa [PS.emit] using ih

/-- the generators `apply_statement_rewriter` seeds from the phase know every name and id of it:
    the variables of its statements AND the names its loop / conditional nodes mention (`extra`;
    the pinned tree left those out, so a loop variable called `tmp` that no statement of the loop
    body mentioned was handed out again — repaired by a `fix:` commit) -/
theorem initPS_ok (stmts : List FStmt) (extra : List Name) :
    GenOK ((usedIdents stmts ++ extra).map String.toList) (initPS stmts extra).vars (initPS stmts extra).newVars ∧
    GenOK (stmts.map (·.id)) (initPS stmts extra).ids (initPS stmts extra).newIds := by
  constructor
  · refine ⟨rfl, ?_, by simp [initPS], by simp [initPS], by simp [initPS]⟩
    intro n hn
    simpa [initPS, Gen.conflicting, Gen.norm] using hn
  · refine ⟨rfl, ?_, by simp [initPS], by simp [initPS], by simp [initPS]⟩
    intro n hn
    simpa [initPS, Gen.conflicting, Gen.norm] using hn

/-- in particular for one expression of one statement, whatever the names of the phase look like
    (`tmp`, `tmp_0`, `ifthenelse_result`, … included) -/
theorem mapper_names_and_ids_new (m : Mode) (cond : Expr) (deps : List (List Char)) (e : Expr) (s : MS)
    (names0 ids0 : List (List Char))
    (hv : GenOK names0 s.ps.vars s.ps.newVars) (hi : GenOK ids0 s.ps.ids s.ps.newIds) :
    GenOK names0 (mapE m cond deps e s).2.ps.vars (mapE m cond deps e s).2.ps.newVars ∧
    GenOK ids0 (mapE m cond deps e s).2.ps.ids (mapE m cond deps e s).2.ps.newIds :=
  ⟨names_new (mapE_trace m cond deps e s) names0 hv, ids_new (mapE_trace m cond deps e s) ids0 hi⟩

/-- the copy-in statements of self-dependency elimination carry the guard and depend on what the
    statement depends on -/
theorem copyIns_guard (st : FStmt) : ∀ (vs : List Name) (p : PS) (sub : List (Name × Name)) (tids : List (List Char)),
    ∀ c ∈ (copyIns st vs p sub tids).1.out, c ∈ p.out ∨ (c.stmt.cond = st.stmt.cond ∧ c.deps = st.deps)
  | [], p, sub, tids => by intro c hc; exact Or.inl hc
  | v :: vs, p, sub, tids => by
    intro c hc
    rw [copyIns] at hc
    rcases copyIns_guard st vs _ _ _ c hc with h | h
    · simp only [PS.emit, List.mem_append, List.mem_singleton] at h
      rcases h with h | h
      · left; simpa [PS.freshVar, PS.freshId] using h
      · right; subst h; simp [normStmt]
    · exact Or.inr h

/-! non-vacuity: `w <- 1 + f(g(x))` through call isolation: two call statements, the inner one first,
    named `tmp_0` / `tmp`, both with the guard `fl` of the statement -/
example :
    ((applyPass .callIso [{ id := "s0".toList, deps := [], stmt := ⟨.var "fl",
        .assign "w" none (.sum [.const (.int 1), .call "f" [.call "g" [.var "x"] []] []]) []⟩ }] []).flatten.map
      fun s => (String.ofList s.id, s.stmt.cond.beq (.var "fl"))) = [("tmp_0", true), ("tmp", true), ("s0", true)] := by
  decide +kernel

end Dagrt.C07
