import Dagrt.Model.Passes
namespace Dagrt.C07
open Dagrt Dagrt.Passes
theorem placeholder : flatAndParts (.land []) = [] := rfl
end Dagrt.C07
