import Dagrt.Model.Match
namespace Dagrt.C17
open Dagrt Dagrt.Match

theorem placeholder : URec.empty.lmap = [] := rfl

end Dagrt.C17
