import Dagrt.Proofs.MatchProofs
/-!
# C17 — a reported expression match is a genuine match

Model: `Dagrt.Match` (`Model/Match.lean`) = `dagrt.expression.match` with `_ExtendedUnifier`
(calls with keyword arguments, function symbols, unification modulo identity) **and** the part of
pymbolic's `UnidirectionalUnifier` it runs on (records, `unify_many`, the commutative-associative
search over candidate rows and partitions, `flattened_sum` / `flattened_product`).  The model is
compared with the real `match` on every run (substitution, error kind, number of records).

Semantics: `Dagrt.Hoist.evalZ` — integer valuations `ρ` of the variables, an arbitrary
interpretation `F` of the function symbols and of every non-arithmetic operator.

Hypothesis `wfT tmpl`: the (flattened) template contains no empty sum or product —
`pymbolic.flatten` never produces one.  Templates containing and/or/min/max are answered with
"no match" by the model (`supported`), so the theorems hold for them vacuously; the real code hands
them to pymbolic's permutation matcher (outside the property's operator set).
-/
namespace Dagrt.C17
open Dagrt Dagrt.Match Dagrt.Hoist

/-- **The unifier is sound** — for every template, target, set of declared free variables,
    iteration order of Python's sets and list of partial solutions handed in: each returned record
    extends one of those partial solutions, binds declared free variables only, and every
    substitution extending it makes the template evaluate to the target under every valuation and
    every interpretation of the function symbols. -/
theorem unifier_sound (C : List Name) (vf : Name → Name → Bool) (t : Expr) (hw : wfT t = true) :
    Sound C vf t :=
  sound_all C vf t.size t (Nat.le_refl _) hw

theorem lookup_none_of_keys {C : List Name} {r : URec} (hk : KeysIn C r) :
    DomC C (lookupE r.lmap) := by
  intro x hx
  cases h : lookupE r.lmap x with
  | none => rfl
  | some v => have := hk _ (lookupE_mem h); simp_all

/-- the records the front end starts from -/
theorem start_keys (C : List Name) (eqs : List (Name × Expr)) (h : eqs.all (fun p => C.contains p.1) = true) :
    KeysIn C (URec.ofEqs eqs) := by
  intro p hp
  simp only [URec.ofEqs] at hp
  exact (List.all_eq_true.mp h) p hp

/-- **C17, main statement.**  Whenever `match` returns a substitution `m`:
    (1) it binds only declared free variables;
    (2) it agrees with every pre-supplied binding;
    (3) substituting it into the template gives an expression with the value of the target, for
        all values of the remaining variables and all interpretations of the function symbols. -/
theorem match_genuine (C : List Name) (vf : Name → Name → Bool) (pre : Option (List (Name × Expr)))
    (tmpl target : Expr) (m : List (Name × Expr)) (hw : wfT tmpl = true)
    (h : matchE C vf pre tmpl target = .ok m) :
    (∀ p ∈ m, p.1 ∈ C) ∧
    (∀ eqs, pre = some eqs → ∀ x e, lookupE eqs x = some e → lookupE m x = some e) ∧
    (∀ ρ F, evalZ ρ F (subst (lookupE m) tmpl) = evalZ ρ F target) := by
  unfold matchE at h
  cases pre with
  | none =>
    simp only at h
    split at h
    · simp at h
    · rename_i r rest hu
      simp at h; subst h
      have hr : r ∈ unif C vf tmpl target [URec.empty] := by rw [hu]; exact List.mem_cons_self
      obtain ⟨_, e2, e3⟩ := unifier_sound C vf tmpl hw target [URec.empty] r
        (by intro u hu; simp at hu; subst hu; exact KeysIn_empty C) hr
      refine ⟨fun p hp => by simpa using e2 p hp, by intro eqs h; simp at h, ?_⟩
      exact e3 _ (fun _ _ h => h) (lookup_none_of_keys e2)
  | some eqs =>
    by_cases hall : eqs.all (fun p => C.contains p.1) = true
    · simp only [hall, if_true] at h
      split at h
      · simp at h
      · rename_i r rest hu
        simp at h; subst h
        have hr : r ∈ unif C vf tmpl target [URec.ofEqs eqs] := by rw [hu]; exact List.mem_cons_self
        obtain ⟨⟨u, hu', e1⟩, e2, e3⟩ := unifier_sound C vf tmpl hw target [URec.ofEqs eqs] r
          (by intro u hu; simp at hu; subst hu; exact start_keys C eqs hall) hr
        simp at hu'; subst hu'
        refine ⟨fun p hp => by simpa using e2 p hp, ?_, ?_⟩
        · intro eqs' h x e hx
          simp at h; subst h
          exact e1 x e hx
        · exact e3 _ (fun _ _ h => h) (lookup_none_of_keys e2)
    · simp only [hall] at h
      simp at h

/-- when the unifier finds no record the documented error is raised — never a substitution -/
theorem no_record_is_error (C : List Name) (vf : Name → Name → Bool) (tmpl target : Expr)
    (h : unif C vf tmpl target [URec.empty] = []) :
    matchE C vf none tmpl target = .error .cannotUnify := by
  simp [matchE, h]

/-- a pre-supplied binding for a name that is not a declared free variable is refused -/
theorem pre_match_must_be_candidate (C : List Name) (vf : Name → Name → Bool) (eqs : List (Name × Expr))
    (tmpl target : Expr) (p : Name × Expr) (hp : p ∈ eqs) (hn : C.contains p.1 = false) :
    matchE C vf (some eqs) tmpl target = .error .preNotCandidate := by
  have : eqs.all (fun p => C.contains p.1) = false := by
    rw [List.all_eq_false]; exact ⟨p, hp, by rw [hn]; simp⟩
  unfold matchE
  simp only [this]
  simp

/-- an answer never contains two bindings for one name the record did not start with: the map the
    front end returns is read with first-match look-up, and the unifier only ever appends names
    that are not bound yet -/
theorem unify_appends_new_names (a b r : URec) (h : a.unify b = some r) :
    ∃ l, r.lmap = a.lmap ++ l ∧ ∀ p ∈ l, lookupE a.lmap p.1 = none := by
  unfold URec.unify at h
  split at h
  · simp at h
  · rename_i l hl
    split at h
    · simp at h
    · simp at h; subst h
      refine ⟨l, rfl, ?_⟩
      generalize b.lmap = bm at hl
      induction bm generalizing l with
      | nil => simp [addsE] at hl; subst hl; simp
      | cons q m ih =>
        obtain ⟨n, v⟩ := q
        simp only [addsE] at hl
        split at hl
        · split at hl
          · exact ih l hl
          · simp at hl
        · rename_i hnone
          split at hl
          · rename_i a' ha'
            simp at hl; subst hl
            intro p hp
            simp at hp
            rcases hp with rfl | hp
            · exact hnone
            · exact ih a' ha' p hp
          · simp at hl

/-! non-vacuity: the hypotheses are met by real matches -/
example : matchE ["x"] (fun _ _ => true) none (.var "x") (.const (.int 2)) = .ok [("x", .const (.int 2))] := by
  simp [matchE, unif, unifVar, unifyMany, URec.unify, addsE, addsN, lookupE, URec.ofEq, URec.empty]

example : wfT (.sum [.var "x", .call "f" [.var "y"] []]) = true := by decide

end Dagrt.C17
