import Dagrt.Proofs.WrapProofs
/-!
# C20 — line wrapping of generated code changes layout only

Model: `Dagrt.Wrap` (`Model/Wrap.lean`) = `split_outside_quotes` (the quote-aware splitter that
replaced `shlex.split(posix=False)` in a `fix:` commit) and `wrap_line_base` with `pad_python` /
`pad_fortran`.  Theorems are for every line, indentation level, width, marker and escape
character; the indentation string is any non-empty run of blanks (4 for Python, 1 for Fortran).
-/
namespace Dagrt.C20
open Dagrt.Wrap

/-- the lines' token lists, concatenated, are exactly the input tokens: no token is dropped,
    duplicated, reordered or split — in particular no quoted string, since a quoted string never
    extends beyond one token (`split_tokens_ok`) -/
theorem chunks_partition (width il cl : Nat) (toks : List Tok) :
    (chunks width il cl toks).flatten = toks := by
  cases toks with
  | nil => simp [chunks]
  | cons w ws => simp [chunks, chunkLoop_flatten]

/-- no output line is empty when there is at least one token -/
theorem chunks_nonempty (width il cl : Nat) (toks : List Tok) (h : toks ≠ []) :
    ∀ c ∈ chunks width il cl toks, c ≠ [] := by
  cases toks with
  | nil => exact absurd rfl h
  | cons w ws => exact chunkLoop_nonempty width il cl ws [w] _ [] (by simp) (by simp)

/-- every produced line that holds more than one token fits the width: a continued line is
    strictly shorter (its marker lands exactly on the last column), the final line may use the
    last column itself (`pre` = 0 for the first line, the continuation indentation otherwise) -/
theorem width_respected (width il cl : Nat) (toks : List Tok) :
    ∃ last more, chunks width il cl toks = more ++ [last] ∧
      (∀ c ∈ more, 2 ≤ c.length → ∃ pre, (pre = 0 ∨ pre = cl) ∧ il + pre + (joinWords c).length < width) ∧
      (2 ≤ last.length → ∃ pre, (pre = 0 ∨ pre = cl) ∧ il + pre + (joinWords last).length ≤ width) := by
  cases toks with
  | nil => exact ⟨[], [], by simp [chunks], by simp, by simp⟩
  | cons w ws =>
    obtain ⟨last, more, h1, h2, h3⟩ := chunkLoop_width width il cl ws [w] w.length 0 [] (by simp)
      (by simp [joinWords]) (by intro h; simp at h) _ rfl
    exact ⟨last, more, by simpa [chunks] using h1, h2, h3⟩

/-- a padded line of text length `< padw` is exactly `padw` long, marker included -/
theorem padded_line_length (marker : Char) (line : List Char) (padw : Nat) (h : line.length < padw) :
    (pad marker line padw).length = padw := by
  rw [pad_length]; omega

/-- every token the splitter produces is well-formed: tokenised on its own it is one token with no
    quote left open — so a quoted string (even one that starts in the middle of a word) lies
    inside a single token -/
theorem split_tokens_wellformed (esc : Option Char) (line : List Char) (toks : List Tok)
    (h : split esc line = .ok toks) : ∀ t ∈ toks, TokOK esc t := split_tokens_ok esc line toks h

/-- **Re-tokenisation.** Joining the wrapped lines with their continuation markers removed and
    tokenising again gives exactly the tokens of the input line — for every width, level, marker. -/
theorem retokenise (marker : Char) (esc : Option Char) (line : List Char) (level width : Nat)
    (indent : List Char) (hi1 : indent ≠ []) (hi2 : ∀ c ∈ indent, c = ' ')
    (lines : List (List Char)) (h : wrapLine marker esc line level width indent = .ok lines) :
    ∃ toks, split esc line = .ok toks ∧ split esc (unwrap lines) = .ok toks := by
  unfold wrapLine at h
  cases hs : split esc line with
  | error e => simp [hs] at h
  | ok toks =>
    simp [hs] at h
    refine ⟨toks, rfl, ?_⟩
    subst h
    have hok := split_tokens_ok esc line toks hs
    cases toks with
    | nil => simp [wrapToks, chunks, renderLines, unwrap, lineText, joinWords, split, lexRun, LS.init]
    | cons w ws =>
      unfold wrapToks
      simp only
      have hne : chunks width (level * indent.length) indent.length (w :: ws) ≠ [] := by
        intro hc
        have := chunks_partition width (level * indent.length) indent.length (w :: ws)
        rw [hc] at this; simp at this
      obtain ⟨pads, hu⟩ := unwrap_render marker (width - level * indent.length) indent _ true hne
      rw [hu]
      simp only [cond_true, List.nil_append]
      have hsp : AllSpace indent := by intro c hc; rw [hi2 c hc]; decide
      obtain ⟨pre, last, heq, hrun⟩ := lexRun_wtext esc indent hi1 hsp _ pads [] hne
        (by intro c hc
            refine ⟨chunks_nonempty _ _ _ _ (by simp) c hc, ?_⟩
            intro t ht
            apply hok
            rw [← chunks_partition width (level * indent.length) indent.length (w :: ws)]
            exact List.mem_flatten.mpr ⟨c, hc, ht⟩)
      rw [chunks_partition] at heq
      unfold split
      have : LS.init = clean [] := rfl
      rw [this, hrun]
      simp only
      have hl : last ≠ [] := by
        have hmem : last ∈ w :: ws := by
          have : last ∈ pre ++ [last] := by simp
          rw [← heq] at this; simpa using this
        exact (hok last hmem).1
      simp [hl]
      simpa using heq.symm

/-- a line whose quotes are not closed is refused (the documented `ValueError`), never wrapped -/
theorem open_quote_rejected (marker : Char) (esc : Option Char) (line : List Char) (level width : Nat)
    (indent : List Char) (q : Char) (h : (lexRun esc LS.init line).quote = some q) :
    wrapLine marker esc line level width indent = .error .noClosingQuotation := by
  simp [wrapLine, split, h]

/-! non-vacuity: the line that the pinned tree broke inside the literal -/
example : split none "x = f('a  b')".toList = .ok ["x".toList, "=".toList, "f('a  b')".toList] := by decide
example : wrapLine '\\' (some '\\') "x = f('a  b') + yy".toList 1 14 "    ".toList =
    .ok ["x =      \\".toList, "    f('a  b')\\".toList, "    + yy".toList] := by decide

end Dagrt.C20
