import Dagrt.Proofs.StmtProofs
/-!
# C08 — declared read/write sets cover what a statement really touches

Model: `Dagrt.Sem` (`Model/Sem.lean`, `Model/Stmt.lean`): `depVars` = the dependency mapper as
configured by dagrt, `declReads`/`declWrites` = `get_read_variables`/`get_written_variables`
per statement kind, `execI` = `evaluate_condition` + `exec_*` of the interpreter, instrumented
with every store look-up and every store assignment it performs.  All theorems are for every
statement, every store, every interpretation `F` of the function symbols.
-/
namespace Dagrt.C08
open Dagrt Dagrt.Sem

/-- every variable the evaluator looks up is reported by the dependency mapper (short-circuit
    operators and the lazy conditional only ever read fewer) -/
theorem eval_reads_subset (F : Funs) (env : List (Name × Int)) (σ : Store) (e : Expr) :
    ∀ x ∈ (evalI F env σ e).2, x ∈ depVars e := evalI_reads F env σ e

/-- …and the value depends on nothing else -/
theorem agreeOn_reads_eval (F : Funs) (env : List (Name × Int)) (σ σ' : Store) (e : Expr)
    (h : AgreeOn (depVars e) σ σ') : evalI F env σ e = evalI F env σ' e := evalI_agree F env e h

/-- each variable read while executing a statement (guard, right-hand side, subscripts on either
    side, loop bounds, call arguments, yielded value and time) belongs to its declared read set
    or its declared write set (the aggregate of `a[i] <- …`); `<exec>` is the step's own status -/
theorem stmt_reads_covered (F : Funs) (s : Stmt) (σ : Store) :
    ∀ x ∈ (execI F s σ).reads, x = EXEC ∨ x ∈ declReads s ∨ x ∈ declWrites s := by
  intro x hx
  have := (execI_spec F s).1 σ x hx
  simpa [effR] using this

/-- each variable assigned belongs to the declared write set (loop counters are local to the
    statement in the model); only non-assignments touch the execution state -/
theorem stmt_writes_covered (F : Funs) (s : Stmt) (σ : Store) :
    ∀ x ∈ (execI F s σ).writes, x ∈ declWrites s ∨ (x = EXEC ∧ s.kind.isAssignment = false) := by
  intro x hx
  have := (execI_spec F s).2.1 σ x hx
  simp only [effW, List.mem_append] at this
  rcases this with h | h
  · exact Or.inl h
  · right; cases hk : s.kind.isAssignment <;> simp_all

/-- nothing outside the write set changes -/
theorem stmt_frame (F : Funs) (s : Stmt) (σ : Store) (x : Name) (h : x ∉ effW s) :
    (exec F s σ) x = σ x := (execI_spec F s).2.2.1 σ x h

/-! mapping the expressions of a statement -/
def mapLoops (f : Expr → Expr) : List (Name × Expr × Expr) → List (Name × Expr × Expr)
  | [] => []
  | (i, a, b) :: r => (i, f a, f b) :: mapLoops f r
def mapKw (f : Expr → Expr) : List (Name × Expr) → List (Name × Expr)
  | [] => []
  | (k, e) :: r => (k, f e) :: mapKw f r

/-- `stmt.map_expressions(f)` -/
def mapStmt (f : Expr → Expr) (s : Stmt) : Stmt :=
  { cond := f s.cond,
    kind := match s.kind with
      | .assign lhs sub rhs loops => .assign lhs (sub.map f) (f rhs) (mapLoops f loops)
      | .callAssign lhs g args kw => .callAssign lhs g (args.map f) (mapKw f kw)
      | .yield e t tid c => .yield (f e) (f t) tid c
      | k => k }

theorem mapLoops_id : ∀ l, mapLoops (fun e => e) l = l
  | [] => rfl
  | (i, a, b) :: r => by simp [mapLoops, mapLoops_id r]
theorem mapKw_id : ∀ l, mapKw (fun e => e) l = l
  | [] => rfl
  | (k, e) :: r => by simp [mapKw, mapKw_id r]

/-- the sets are unchanged by mapping the statement's expressions with the identity -/
theorem identity_map_invariant (s : Stmt) :
    declReads (mapStmt (fun e => e) s) = declReads s ∧ declWrites (mapStmt (fun e => e) s) = declWrites s := by
  have : mapStmt (fun e => e) s = s := by
    obtain ⟨c, k⟩ := s
    cases k <;> simp [mapStmt, mapLoops_id, mapKw_id]
  rw [this]; exact ⟨rfl, rfl⟩

/-! non-vacuity: `a[j] <- b[i] + 1 [i = 0..n]` under guard `c` reads c, b, j, n, a (and `i` only
    as its own loop counter) -/
def exS : Stmt := ⟨.var "c", .assign "a" (some (.var "j")) (.sum [.sub (.var "b") (.var "i"), .const (.int 1)])
  [("i", .const (.int 0), .var "n")]⟩
example : declReads exS = ["c", "b", "i", "j", "n"] ∧ declWrites exS = ["a"] := by decide

end Dagrt.C08
