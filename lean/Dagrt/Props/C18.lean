import Dagrt.Proofs.HoistProofs
/-!
# C18 — constant hoisting preserves value and hoists only constants

Model: `Dagrt.Hoist` (`Model/Hoist.lean`) = `collapse_constants` with `_ConstantFindingMapper`
and `_ExpressionCollapsingMapper` (incl. the regrouping of sums and products into constants and
non-constants).  Semantics `evalZ`: integer valuations of the variables, arbitrary
interpretation `F` of function symbols (and of every non-arithmetic operator), sums/products as
folds.  The value theorem uses commutativity and associativity of `+` and `*` on the integers —
the property's claim is for commutative arithmetic.  Hypothesis `NoH e`: the fresh-variable
supply `h0, h1, …` is really fresh (no such variable occurs in the input).
-/
namespace Dagrt.C18
open Dagrt Dagrt.Hoist

/-- the environment after executing the hoisted assignments (each right-hand side is an original
    sub-expression, evaluated in the original environment) -/
def extend (ρ : Env) (F : FunI) (as : List (Name × Expr)) : Env := fun x =>
  match as.find? (fun p => p.1 == x) with
  | some p => evalZ ρ F p.2
  | none => ρ x

theorem collapse_good (free : List Name) (ρ : Env) (F : FunI) (e : Expr) (hn : NoH e) :
    Good free ρ F ⟨0, []⟩ ⟨(collapseG free true e ⟨0, []⟩).2.next, (collapse free e).2⟩
      (fun ρ₂ => evalZ ρ₂ F (collapse free e).1 = evalZ ρ F e) :=
  collapseG_good free ρ F true e ⟨0, []⟩ hn

/-- every new variable is assigned exactly once: the assigned names are `h0 … h(n-1)`, pairwise
    different -/
theorem assigned_once (free : List Name) (e : Expr) (hn : NoH e) :
    ∃ n, (collapse free e).2.map (·.1) = (List.range n).map hname ∧
      ((collapse free e).2.map (·.1)).Nodup := by
  obtain ⟨new, h1, _, h3, _, _⟩ := collapse_good free (fun _ => 0) (fun _ _ _ => 0) e hn
  simp only [List.nil_append] at h1
  refine ⟨(collapseG free true e ⟨0, []⟩).2.next, ?_, ?_⟩
  · rw [h1, h3]; simp [List.range_eq_range']
  · rw [h1, h3]
    show List.Pairwise (· ≠ ·) _
    rw [List.pairwise_map]
    have : (List.range' 0 ((collapseG free true e ⟨0, []⟩).2.next - 0)).Pairwise (· ≠ ·) := List.nodup_range'
    exact this.imp (fun hab heq => hab (hname_inj heq))

/-- no hoisted sub-expression mentions a free variable (function symbols count as variables) -/
theorem hoisted_closed (free : List Name) (e : Expr) (hn : NoH e) :
    ∀ p ∈ (collapse free e).2, isConst free p.2 = true := by
  obtain ⟨new, h1, _, _, h4, _⟩ := collapse_good free (fun _ => 0) (fun _ _ _ => 0) e hn
  simp only [List.nil_append] at h1
  intro p hp; rw [h1] at hp; exact (h4 p hp).1

/-- `isConst` means what it says for variables: no variable of the expression is free -/
theorem isConst_no_free_var (free : List Name) : ∀ e : Expr, isConst free e = true → ∀ x ∈ vars e, x ∉ free := by
  intro e
  -- via the congruence structure: induction on the size of the expression
  suffices h : ∀ n (e : Expr), e.size ≤ n → isConst free e = true → ∀ x ∈ vars e, x ∉ free from h _ e (Nat.le_refl _)
  intro n
  induction n with
  | zero => intro e hs; cases e <;> simp [Expr.size] at hs
  | succ n ih =>
    have ihL : ∀ cs : List Expr, Expr.sizeL cs ≤ n → allConst free cs = true → ∀ x ∈ varsL cs, x ∉ free := by
      intro cs
      induction cs with
      | nil => intro _ _ x hx; simp [varsL] at hx
      | cons c cs ihc =>
        intro hs hc x hx
        simp only [Expr.sizeL] at hs
        simp only [allConst, Bool.and_eq_true] at hc
        simp only [varsL, List.mem_append] at hx
        rcases hx with h | h
        · exact ih c (by omega) hc.1 x h
        · exact ihc (by omega) hc.2 x h
    have ihK : ∀ cs : List (Name × Expr), Expr.sizeK cs ≤ n → allConstK free cs = true → ∀ x ∈ varsK cs, x ∉ free := by
      intro cs
      induction cs with
      | nil => intro _ _ x hx; simp [varsK] at hx
      | cons c cs ihc =>
        obtain ⟨k, c⟩ := c
        intro hs hc x hx
        simp only [Expr.sizeK] at hs
        simp only [allConstK, Bool.and_eq_true] at hc
        simp only [varsK, List.mem_append] at hx
        rcases hx with h | h
        · exact ih c (by omega) hc.1 x h
        · exact ihc (by omega) hc.2 x h
    intro e hs hc x hx
    cases e with
    | const c => simp [vars] at hx
    | var y => simp [vars] at hx; subst hx; simpa [isConst] using hc
    | sum cs => simp only [Expr.size] at hs; exact ihL cs (by omega) (by simpa [isConst] using hc) x (by simpa [vars] using hx)
    | prod cs => simp only [Expr.size] at hs; exact ihL cs (by omega) (by simpa [isConst] using hc) x (by simpa [vars] using hx)
    | quot a b =>
      simp only [Expr.size] at hs; simp only [isConst, Bool.and_eq_true] at hc; simp only [vars, List.mem_append] at hx
      rcases hx with h | h
      · exact ih a (by omega) hc.1 x h
      · exact ih b (by omega) hc.2 x h
    | pow a b =>
      simp only [Expr.size] at hs; simp only [isConst, Bool.and_eq_true] at hc; simp only [vars, List.mem_append] at hx
      rcases hx with h | h
      · exact ih a (by omega) hc.1 x h
      · exact ih b (by omega) hc.2 x h
    | call f args kw =>
      simp only [Expr.size] at hs; simp only [isConst, Bool.and_eq_true] at hc; simp only [vars, List.mem_append] at hx
      rcases hx with h | h
      · exact ihL args (by omega) hc.1.2 x h
      · exact ihK kw (by omega) hc.2 x h
    | sub a b =>
      simp only [Expr.size] at hs; simp only [isConst, Bool.and_eq_true] at hc; simp only [vars, List.mem_append] at hx
      rcases hx with h | h
      · exact ih a (by omega) hc.1 x h
      · exact ih b (by omega) hc.2 x h
    | attr a nm => simp only [Expr.size] at hs; exact ih a (by omega) (by simpa [isConst] using hc) x (by simpa [vars] using hx)
    | cmp o a b =>
      simp only [Expr.size] at hs; simp only [isConst, Bool.and_eq_true] at hc; simp only [vars, List.mem_append] at hx
      rcases hx with h | h
      · exact ih a (by omega) hc.1 x h
      · exact ih b (by omega) hc.2 x h
    | lnot a => simp only [Expr.size] at hs; exact ih a (by omega) (by simpa [isConst] using hc) x (by simpa [vars] using hx)
    | land cs => simp only [Expr.size] at hs; exact ihL cs (by omega) (by simpa [isConst] using hc) x (by simpa [vars] using hx)
    | lor cs => simp only [Expr.size] at hs; exact ihL cs (by omega) (by simpa [isConst] using hc) x (by simpa [vars] using hx)
    | ite c t f =>
      simp only [Expr.size] at hs; simp only [isConst, Bool.and_eq_true] at hc; simp only [vars, List.mem_append] at hx
      rcases hx with (h | h) | h
      · exact ih c (by omega) hc.1.1 x h
      · exact ih t (by omega) hc.1.2 x h
      · exact ih f (by omega) hc.2 x h
    | min cs => simp only [Expr.size] at hs; exact ihL cs (by omega) (by simpa [isConst] using hc) x (by simpa [vars] using hx)
    | max cs => simp only [Expr.size] at hs; exact ihL cs (by omega) (by simpa [isConst] using hc) x (by simpa [vars] using hx)

/-- **Value preservation.** Evaluating the rewritten expression in the valuation extended by the
    hoisted assignments equals evaluating the original — for every valuation and every
    interpretation of the function symbols. -/
theorem value_preserved (free : List Name) (e : Expr) (hn : NoH e) (ρ : Env) (F : FunI) :
    evalZ (extend ρ F (collapse free e).2) F (collapse free e).1 = evalZ ρ F e := by
  obtain ⟨new, h1, _, h3, _, h5⟩ := collapse_good free ρ F e hn
  simp only [List.nil_append] at h1
  apply h5
  · intro x hx
    unfold extend
    have : (collapse free e).2.find? (fun p => p.1 == x) = none := by
      rw [List.find?_eq_none]
      intro p hp heq
      simp at heq
      have : p.1 ∈ (collapse free e).2.map (·.1) := List.mem_map.mpr ⟨p, hp, rfl⟩
      rw [h1, h3] at this
      simp at this
      obtain ⟨k, _, hk⟩ := this
      exact hx k (by rw [← heq, hk])
    rw [this]
  · intro p hp
    unfold extend
    have hnd : ((collapse free e).2.map (·.1)).Nodup := (assigned_once free e hn).choose_spec.2
    rw [← h1] at hp
    -- the first entry with this name is p itself
    have : ∀ (l : List (Name × Expr)), (l.map (·.1)).Nodup → p ∈ l → l.find? (fun q => q.1 == p.1) = some p := by
      intro l
      induction l with
      | nil => intro _ h; simp at h
      | cons q qs ih =>
        intro hnd hmem
        simp only [List.map_cons, List.nodup_cons] at hnd
        simp only [List.find?]
        by_cases hq : q.1 = p.1
        · simp [hq]
          simp at hmem
          rcases hmem with e' | hmem
          · exact e'.symm
          · exfalso; apply hnd.1; rw [hq]; exact List.mem_map.mpr ⟨p, hmem, rfl⟩
        · have : (q.1 == p.1) = false := by simpa using hq
          simp only [this]
          simp at hmem
          rcases hmem with e' | hmem
          · subst e'; exact absurd rfl hq
          · exact ih hnd.2 hmem
    rw [this _ hnd hp]

/-- atoms are returned unchanged with no assignment -/
theorem atoms_unchanged (free : List Name) (x : Name) (c : Const) :
    collapse free (.var x) = (.var x, []) ∧ collapse free (.const c) = (.const c, []) := ⟨rfl, rfl⟩

/-! non-vacuity: `(2 + y) * x + f(2) * 3` with `x` free hoists `2 + y` … and `f(2) * 3` -/
example : collapse ["x"] (.sum [.prod [.sum [.const (.int 2), .var "y"], .var "x"],
      .prod [.call "f" [.const (.int 2)] [], .const (.int 3)]]) =
    (.sum [.var "h1", .prod [.var "h0", .var "x"]],
     [("h0", .sum [.const (.int 2), .var "y"]),
      ("h1", .prod [.call "f" [.const (.int 2)] [], .const (.int 3)])]) := by rfl

end Dagrt.C18
