import Dagrt.Model.Builder
namespace Dagrt.C02
open Dagrt.Builder
theorem init_n : Core.init.n = 0 := rfl
end Dagrt.C02
