import Dagrt.Proofs.BuilderProofs
import Dagrt.Proofs.Sched
/-!
# C02 — recorded dependencies make every admissible schedule equal to program order

Model: `Dagrt.Builder` (`Model/Builder.lean`) = `CodeBuilder._add_statement`, `if_`/`else_`,
`fresh_var_name`; `Dagrt.Sem` = the statement semantics of C08.  Statement ids are program
positions.  The events yielded so far and the status of the step (running / failed / switched /
raised) are the value of the pseudo-variable `<exec>`, which every statement reads and every
non-assignment writes — the builder's own view of side effects — so "same events, same abort,
same final values" is equality of stores.
Theorems are for every sequence of builder calls, every linear extension of the emitted
dependency lists, every initial store and every (total, pure) interpretation of the functions.
-/
namespace Dagrt.C02
open Dagrt Dagrt.Sem Dagrt.Builder

/-- the emitted statements, in program order -/
def prog (ops : List BOp) : List Stmt := (run ops).out.map (·.1)

/-- what executing statement `i` does to the store -/
def sem (F : Funs) (ops : List BOp) (i : Nat) (σ : Store) : Store :=
  match (prog ops)[i]? with
  | some s => exec F s σ
  | none => σ

/-- dependency edges only point backwards in program order -/
theorem deps_backward (ops : List BOp) : ∀ k d, d ∈ (run ops).core.D k → d < k :=
  (run_ok ops).1.back

/-- every conflict between an earlier statement `i` and a later statement `k` (write/read,
    write/write, read/write on any name — guards, subscripts, loop bounds, call arguments, the
    persistent names a non-assignment is a barrier for, and `<exec>`) is covered by a path of
    recorded dependency edges from `k` back to `i` -/
theorem conflict_reaches (ops : List BOp) : ∀ i k, i < k → k < (run ops).core.n →
    Conflict (run ops).core i k → ∃ d, d ∈ (run ops).core.D k ∧ Reach (run ops).core.D i d :=
  (run_ok ops).1.cr

/-- the `depends_on` attribute of each emitted statement is what the bookkeeping computed -/
theorem emitted_deps (ops : List BOp) (k : Nat) (s : Stmt) (d : List Nat)
    (h : (run ops).out[k]? = some (s, d)) : d = (run ops).core.D k :=
  (run_ok ops).2.deps k s d h

theorem prog_length (ops : List BOp) : (prog ops).length = (run ops).core.n := by
  simp [prog, (run_ok ops).2.len]

theorem prog_get (ops : List BOp) {i : Nat} {s : Stmt} (h : (prog ops)[i]? = some s) :
    ∃ d, (run ops).out[i]? = some (s, d) := by
  simp only [prog, List.getElem?_map] at h
  cases ho : (run ops).out[i]? with
  | none => simp [ho] at h
  | some p => simp [ho] at h; exact ⟨p.2, by rw [← h]⟩

/-- two statements without a conflict in the builder's effective sets commute -/
theorem no_conflict_comm (F : Funs) (ops : List BOp) (a b : Nat) (_hba : b < a)
    (hnc : ¬ Conflict (run ops).core b a) : Sched.Comm (sem F ops) a b := by
  intro σ
  unfold sem
  cases ha : (prog ops)[a]? with
  | none => rfl
  | some sa =>
    cases hb : (prog ops)[b]? with
    | none => rfl
    | some sb =>
      simp only
      obtain ⟨da, hoa⟩ := prog_get ops ha
      obtain ⟨db, hob⟩ := prog_get ops hb
      have ok := (run_ok ops).2
      have hWa := ok.wset a sa da hoa
      have hWb := ok.wset b sb db hob
      have hRa := ok.rset a sa da hoa
      have hRb := ok.rset b sb db hob
      apply exec_comm F sa sb
      · intro x hx
        rw [hWa] at hx
        constructor
        · intro hr
          apply hnc; right
          rcases hRb x hr with h | h
          · exact ⟨x, h, hx⟩
          · exact absurd (Or.inl ⟨x, h, Or.inr hx⟩) hnc
        · intro hw; rw [hWb] at hw
          exact hnc (Or.inl ⟨x, hw, Or.inr hx⟩)
      · intro x hx
        rw [hWb] at hx
        constructor
        · intro hr
          apply hnc; left
          rcases hRa x hr with h | h
          · exact ⟨x, hx, Or.inl h⟩
          · exact ⟨x, hx, Or.inr h⟩
        · intro hw; rw [hWa] at hw
          exact hnc (Or.inl ⟨x, hx, Or.inr hw⟩)

/-- **Main theorem.** Executing the emitted statements in ANY order that is a permutation of the
    statements and respects the recorded dependency edges gives the same store — hence the same
    events, the same failure / phase switch / raised error and the same final value of every
    variable — as executing them in the order they were written. -/
theorem any_schedule_eq_program_order (ops : List BOp) (F : Funs) (π : List Nat) (σ : Store)
    (hperm : π.Perm (List.range (prog ops).length))
    (hlin : LinExt (run ops).core.D π) :
    Sched.exec (sem F ops) π σ = Sched.exec (sem F ops) (List.range (prog ops).length) σ := by
  rw [← Sched.isort_of_perm_range hperm]
  symm
  apply Sched.exec_isort
  have hnd : π.Nodup := (List.Perm.nodup_iff hperm).mpr List.nodup_range
  rw [List.pairwise_iff_getElem]
  intro i j hi hj hij hlt
  -- a = π[i] runs before b = π[j] although b < a: they must not conflict
  apply no_conflict_comm F ops _ _ hlt
  intro hc
  have han : π[i] < (run ops).core.n := by
    have : π[i] ∈ List.range (prog ops).length := hperm.mem_iff.mp (List.getElem_mem hi)
    rw [prog_length] at this; simpa using this
  obtain ⟨d, hd, hr⟩ := conflict_reaches ops π[j] π[i] hlt han hc
  have hr' : Reach (run ops).core.D π[j] π[i] := Reach.step hd hr
  have hsplit : π = π.take i ++ π[i] :: π.drop (i + 1) := by
    rw [List.getElem_cons_drop, List.take_append_drop]
  rcases reach_before hlin hr' (π.take i) (π.drop (i + 1)) hsplit with e | hmem
  · omega
  · -- π[j] occurs at a position before i as well: contradicts Nodup
    obtain ⟨k, hk, hke⟩ := List.getElem_of_mem hmem
    have hk' : k < i := by simpa [List.length_take] using (Nat.lt_of_lt_of_le hk (by simp [List.length_take]; omega))
    have : π[k]'(by omega) = π[j] := by rw [← hke, List.getElem_take]
    have hne := (List.pairwise_iff_getElem.mp hnd) k j (by omega) hj (by omega)
    exact hne this

/-- names handed out by the builder: a name returned by `fresh_var_name` was not in use … -/
theorem fresh_not_seen (st : BState) (p : Name) (h : (freshVar st p).1.failed = st.failed) :
    (freshVar st p).2 ∉ st.seen ∨ st.failed ≠ none ∨ (freshVar st p).1.failed ≠ none := by
  unfold freshVar
  cases hs : freshSearch st.seen p (st.seen.length + 2) (genCount st.gens p) with
  | none => right; right; simp [hs]
  | some r =>
    left
    obtain ⟨nm, k⟩ := r
    simp only
    have : ∀ fuel k0, freshSearch st.seen p fuel k0 = some (nm, k) → nm ∉ st.seen := by
      intro fuel
      induction fuel with
      | zero => intro k0 h; simp [freshSearch] at h
      | succ f ih =>
        intro k0 h
        unfold freshSearch at h
        simp only at h
        split at h
        · exact ih _ h
        · rename_i hn; simp at h; rw [← h.1]; exact hn
    exact this _ _ hs

/-- … and joins the seen set, so that it is never handed out (or chosen as a flag name) again -/
theorem fresh_joins_seen (st : BState) (p : Name) (h : (freshVar st p).1.failed = none) :
    (freshVar st p).2 ∈ (freshVar st p).1.seen := by
  unfold freshVar at h ⊢
  split
  · simp
  · rename_i hs; simp [hs] at h

/-- statements emitted inside `else_` are guarded by the negation of the flag of the `if_` block
    closed immediately before -/
theorem else_negates_last_if (st : BState) (c : Expr) (h : st.lastIf = some c) :
    (step st .elseBegin).condStack = st.condStack ++ [.lnot c] := by
  simp [step, h]

/-! non-vacuity: `j <- 2; a[j] <- 1; y <- a[0]; yield y` — the conflict on `j` (read only in the
    subscript of a left-hand side) is an edge -/
def exOps : List BOp := [
  .stmt (.assign "j" none (.const (.int 2)) []),
  .stmt (.assign "a" (some (.var "j")) (.const (.int 1)) []),
  .stmt (.assign "y" none (.sub (.var "a") (.const (.int 0))) [])]
example : (run exOps).out.map (·.2) = [[], [0], [1]] := by decide

end Dagrt.C02
