import Dagrt.Proofs.VerifyProofs
/-!
# C10 — well-formedness verification accepts exactly the well-formed methods

Model: `Dagrt.Verify` (`Model/Verify.lean`) = `dagrt.codegen.analysis.verify_code` with its
four passes and the `try/except` aggregator.  Python exceptions are outcomes of the model
(`otherException`), the unbounded `while stack:` loop is run with fuel and proved to
terminate.  Hypothesis of the verifier-level theorems: statement ids are unique within a
phase (`ids p` has no duplicates) — the code builder guarantees it and the property does not
speak about duplicated ids.
-/
namespace Dagrt.C10
open Dagrt.Verify

/-- the four clauses of the property, per phase -/
def WellFormed (phases : List Phase) : Prop :=
  ∀ p ∈ phases, DepsClosed p ∧ PhaseAcyclic p ∧ SwitchOk phases.length p ∧ CondSingle p

/-- the cycle check never hangs: the potential `|stack| + Σ_{unvisited}(deg+1)` strictly
    decreases, so the fuel of the model is never exhausted -/
theorem terminates (p : Phase) (hnd : (ids p).Nodup) : cycleCheck p ≠ .outOfFuel :=
  cycleCheck_terminates p hnd

/-- a reported cycle is a real one: no rank function exists for the phase -/
theorem cycleCheck_sound (p : Phase) (hnd : (ids p).Nodup) (h : cycleCheck p = .cycle) :
    ¬ PhaseAcyclic p := by
  have := cycleCheck_spec p hnd; rw [h] at this; exact this

/-- no report means acyclic: the finish order is a rank function -/
theorem cycleCheck_complete (p : Phase) (hnd : (ids p).Nodup) (o : List Nat)
    (h : cycleCheck p = .noCycle o) : PhaseAcyclic p := by
  have := cycleCheck_spec p hnd; rw [h] at this; exact this

/-- a failed dictionary look-up in the cycle check means a dependency names nothing in the phase -/
theorem cycleCheck_keyError (p : Phase) (hnd : (ids p).Nodup) (h : cycleCheck p = .keyError) :
    ¬ DepsClosed p := by
  have := cycleCheck_spec p hnd; rw [h] at this; exact this

theorem cyclePass_spec : ∀ (phases : List Phase), (∀ p ∈ phases, (ids p).Nodup) →
    ((cyclePass phases).2 = true → ∃ p ∈ phases, ¬ DepsClosed p) ∧
    ((cyclePass phases).1 = true → ∃ p ∈ phases, ¬ PhaseAcyclic p) ∧
    ((cyclePass phases).2 = false → (cyclePass phases).1 = false → ∀ p ∈ phases, PhaseAcyclic p)
  | [], _ => by simp [cyclePass]
  | p :: ps, hnd => by
    have ih := cyclePass_spec ps (fun q hq => hnd q (by simp [hq]))
    have hp := cycleCheck_spec p (hnd p (by simp))
    unfold cyclePass
    cases heq : cycleCheck p with
    | keyError =>
      rw [heq] at hp; simp only at hp
      exact ⟨fun _ => ⟨p, by simp, hp⟩, by simp, by simp⟩
    | outOfFuel => rw [heq] at hp; simp only at hp
    | cycle =>
      rw [heq] at hp; simp only at hp
      refine ⟨fun h => ?_, fun _ => ⟨p, by simp, hp⟩, by simp⟩
      obtain ⟨q, hq, h'⟩ := ih.1 h
      exact ⟨q, by simp [hq], h'⟩
    | noCycle o =>
      rw [heq] at hp; simp only at hp
      refine ⟨fun h => ?_, fun h => ?_, fun h1 h2 q hq => ?_⟩
      · obtain ⟨q, hq, h'⟩ := ih.1 h; exact ⟨q, by simp [hq], h'⟩
      · obtain ⟨q, hq, h'⟩ := ih.2.1 h; exact ⟨q, by simp [hq], h'⟩
      · simp at hq
        rcases hq with e | hq
        · subst e; exact hp
        · exact ih.2.2 h1 h2 q hq

theorem any_false_iff {α} (l : List α) (f : α → Bool) : l.any f = false ↔ ∀ x ∈ l, f x = false := by
  simp [List.any_eq_false]

/-- verification never raises anything but the documented error -/
theorem never_other_exception (phases : List Phase) (hnd : ∀ p ∈ phases, (ids p).Nodup) (t : String) :
    verify phases ≠ .otherException t := by
  have hc := cyclePass_spec phases hnd
  unfold verify
  simp only
  split
  · rename_i c heq
    rw [heq] at hc
    obtain ⟨q, hq, hbad⟩ := hc.1 rfl
    have : phases.any depsMissing = true := by
      rw [List.any_eq_true]; refine ⟨q, hq, ?_⟩
      cases hd : depsMissing q with
      | true => rfl
      | false => exact absurd (depsMissing_false.mp hd) hbad
    simp [this]
  · split <;> simp

/-- a rejection always carries at least one message -/
theorem rejection_has_message (phases : List Phase) (k : Kinds) (h : verify phases = .codegenError k) :
    k.any = true := by
  unfold verify at h
  simp only at h
  split at h
  · split at h
    · rename_i hk; cases h; simp [Kinds.any]; simpa using hk
    · cases h
  · split at h
    · rename_i hk; cases h; exact hk
    · cases h

/-- acceptance is exactly well-formedness -/
theorem accept_iff_wellformed (phases : List Phase) (hnd : ∀ p ∈ phases, (ids p).Nodup) :
    verify phases = .accept ↔ WellFormed phases := by
  have hc := cyclePass_spec phases hnd
  constructor
  · intro h
    unfold verify at h
    simp only at h
    split at h
    · split at h <;> cases h
    · rename_i c heq
      rw [heq] at hc
      split at h
      · cases h
      · rename_i hk
        simp [Kinds.any] at hk
        obtain ⟨⟨⟨h1, h2⟩, h3⟩, h4⟩ := hk
        subst h2
        have hac := hc.2.2 rfl rfl
        intro p hp
        refine ⟨depsMissing_false.mp (h1 p hp), hac p hp, switchBad_false.mp (h3 p hp), condBad_false.mp (h4 p hp)⟩
  · intro hwf
    have h1 : phases.any depsMissing = false := by
      rw [any_false_iff]; intro p hp; exact depsMissing_false.mpr (hwf p hp).1
    have h3 : phases.any (switchBad phases.length) = false := by
      rw [any_false_iff]; intro p hp; exact switchBad_false.mpr (hwf p hp).2.2.1
    have h4 : phases.any condBad = false := by
      rw [any_false_iff]; intro p hp; exact condBad_false.mpr (hwf p hp).2.2.2
    have he : (cyclePass phases).2 = false := by
      cases h : (cyclePass phases).2 with
      | false => rfl
      | true => obtain ⟨q, hq, hb⟩ := hc.1 h; exact absurd (hwf q hq).1 hb
    have hcy : (cyclePass phases).1 = false := by
      cases h : (cyclePass phases).1 with
      | false => rfl
      | true => obtain ⟨q, hq, hb⟩ := hc.2.1 h; exact absurd (hwf q hq).2.1 hb
    unfold verify
    simp only
    have : cyclePass phases = (false, false) := by
      cases hcp : cyclePass phases with | mk a b => simp [hcp] at he hcy; simp [he, hcy]
    rw [this]
    simp [h1, h3, h4, Kinds.any]

/-- hence an ill-formed method is never accepted and always rejected with the documented error -/
theorem illformed_rejected (phases : List Phase) (hnd : ∀ p ∈ phases, (ids p).Nodup)
    (h : ¬ WellFormed phases) : ∃ k, verify phases = .codegenError k ∧ k.any = true := by
  cases hv : verify phases with
  | accept => exact absurd ((accept_iff_wellformed phases hnd).mp hv) h
  | otherException t => exact absurd hv (never_other_exception phases hnd t)
  | codegenError k => exact ⟨k, rfl, rejection_has_message phases k hv⟩

/-- what consumers (planner, lowering) rely on after acceptance: every dependency resolves inside
    the phase and a rank function bounds every recursion over dependencies -/
theorem accept_implies_consumers_safe (phases : List Phase) (hnd : ∀ p ∈ phases, (ids p).Nodup)
    (h : verify phases = .accept) :
    ∀ p ∈ phases, (∀ s ∈ p, ∀ d ∈ s.deps, (lookup p d).isSome) ∧
      ∃ rank : Nat → Nat, ∀ s ∈ p, ∀ d ∈ s.deps, rank d < rank s.id := by
  intro p hp
  have hw := (accept_iff_wellformed phases hnd).mp h p hp
  refine ⟨fun s hs d hd => ?_, hw.2.1⟩
  have := known_iff.mpr (hw.1 s hs d hd)
  simpa [known] using this

/-! non-vacuity -/
def ex_ok : List Phase := [[⟨0, [], none, []⟩, ⟨1, [0], some 0, [7]⟩, ⟨2, [0, 1], none, []⟩]]
def ex_cycle : List Phase := [[⟨0, [1], none, []⟩, ⟨1, [0], none, []⟩]]
def ex_cross : List Phase := [[⟨0, [5], none, []⟩], [⟨5, [], none, []⟩]]
example : verify ex_ok = .accept := by decide
example : verify ex_cycle = .codegenError ⟨false, true, false, false⟩ := by decide
example : verify ex_cross = .codegenError ⟨true, false, false, false⟩ := by decide
example : ∀ p ∈ ex_ok, (ids p).Nodup := by decide

end Dagrt.C10
