import Dagrt.Proofs.Unify
/-!
# C14 — kind unification is a partial join; kind inference is order-independent

Model: `Dagrt.Kinds` (`Model/Kinds.lean`) = `dagrt.data.unify`, `SymbolKindTable.set`,
`KindInferenceMapper`, `SymbolKindFinder.__call__`.  The theorems about `unify` hold for
ALL kinds, including arbitrary user-type identifiers (case analysis on identifier
equality, not enumeration).  `Generated/UnifyTable.lean` (rewritten from the real function
on every run) proves by `decide` that the real function equals the model on the finite
universe used by the property.
-/
namespace Dagrt.C14
open Dagrt.Kinds

/-- combining a kind with itself, where defined, returns it -/
theorem unify_idem (a r : Option Kind) (h : unify a a = .ok r) : r = a := unify_idem' a r h

/-- …and it is defined for every kind except the flag kind (arithmetic on flags is refused) -/
theorem unify_idem_defined (a : Option Kind) (h : a ≠ some .boolean) : unify a a = .ok a := by
  cases a with
  | none => simp
  | some k => cases k <;> simp_all [unify]

/-- commutative wherever defined: success for one argument order is success, with the same
    result, for the other -/
theorem unify_comm (a b r : Option Kind) (h : unify a b = .ok r) : unify b a = .ok r :=
  unify_comm' a b r h

/-- associative wherever defined, in both directions -/
theorem unify_assoc (a b c r : Option Kind) :
    (unify a b).bind (fun ab => unify ab c) = .ok r ↔
    (unify b c).bind (fun bc => unify a bc) = .ok r :=
  ⟨unify_assoc' a b c r, unify_assoc_rev a b c r⟩

/-- `unify` is the least upper bound for the information order `le` (a partial order) -/
theorem unify_lub (a b c : Option Kind) (h : unify a b = .ok c) :
    le a c ∧ le b c ∧ ∀ d, le a d → le b d → le c d :=
  ⟨unify_upper_left a b c h, unify_upper_right a b c h, fun d => unify_least a b c d h⟩

theorem le_partial_order :
    (∀ a, le a a) ∧ (∀ a b, le a b → le b a → a = b) ∧ (∀ a b c, le a b → le b c → le a c) :=
  ⟨le_refl, le_antisymm, le_trans⟩

/-! non-vacuity: the pairs that were asymmetric on the pinned tree (repaired by a `fix:` commit) -/
example : unify (some .integer) (some (.user "y")) = .ok (some (.user "y")) ∧
          unify (some (.user "y")) (some .integer) = .ok (some (.user "y")) := by decide
example : (unify (some (.array true)) (some (.scalar false))).bind (fun ab => unify ab (some .integer))
          = .ok (some (.array false)) := by decide

end Dagrt.C14
