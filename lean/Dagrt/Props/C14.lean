import Dagrt.Proofs.Unify
import Dagrt.Proofs.KindOrderProofs
import Dagrt.Model.Builtins
import Dagrt.Proofs.RegMonoProofs
/-!
# C14 — kind unification is a partial join; kind inference is order-independent

Model: `Dagrt.Kinds` (`Model/Kinds.lean`) = `dagrt.data.unify`, `SymbolKindTable.set`,
`KindInferenceMapper`, `SymbolKindFinder.__call__`.  The theorems about `unify` hold for
ALL kinds, including arbitrary user-type identifiers (case analysis on identifier
equality, not enumeration).  `Generated/UnifyTable.lean` (rewritten from the real function
on every run) proves by `decide` that the real function equals the model on the finite
universe used by the property.
-/
namespace Dagrt.C14
open Dagrt.Kinds

/-- combining a kind with itself, where defined, returns it -/
theorem unify_idem (a r : Option Kind) (h : unify a a = .ok r) : r = a := unify_idem' a r h

/-- …and it is defined for every kind except the flag kind (arithmetic on flags is refused) -/
theorem unify_idem_defined (a : Option Kind) (h : a ≠ some .boolean) : unify a a = .ok a := by
  cases a with
  | none => simp
  | some k => cases k <;> simp_all [unify]

/-- commutative wherever defined: success for one argument order is success, with the same
    result, for the other -/
theorem unify_comm (a b r : Option Kind) (h : unify a b = .ok r) : unify b a = .ok r :=
  unify_comm' a b r h

/-- associative wherever defined, in both directions -/
theorem unify_assoc (a b c r : Option Kind) :
    (unify a b).bind (fun ab => unify ab c) = .ok r ↔
    (unify b c).bind (fun bc => unify a bc) = .ok r :=
  ⟨unify_assoc' a b c r, unify_assoc_rev a b c r⟩

/-- `unify` is the least upper bound for the information order `le` (a partial order) -/
theorem unify_lub (a b c : Option Kind) (h : unify a b = .ok c) :
    le a c ∧ le b c ∧ ∀ d, le a d → le b d → le c d :=
  ⟨unify_upper_left a b c h, unify_upper_right a b c h, fun d => unify_least a b c d h⟩

theorem le_partial_order :
    (∀ a, le a a) ∧ (∀ a b, le a b → le b a → a = b) ∧ (∀ a b c, le a b → le b c → le a c) :=
  ⟨le_refl, le_antisymm, le_trans⟩

/-! non-vacuity: the pairs that were asymmetric on the pinned tree (repaired by a `fix:` commit) -/
example : unify (some .integer) (some (.user "y")) = .ok (some (.user "y")) ∧
          unify (some (.user "y")) (some .integer) = .ok (some (.user "y")) := by decide
example : (unify (some (.array true)) (some (.scalar false))).bind (fun ab => unify ab (some .integer))
          = .ok (some (.array false)) := by decide

/-! ### kind inference does not depend on the order of the statements

The work-list loop (`inferAll`) returns the LEAST strict post-fix-point of the statements' rules
above the initial table: it is a post-fix-point (`KindLoopProofs.inferAll_postfix`), and every table
it goes through stays below any strict post-fix-point (`KindOrderProofs.inferAll_least`, from the
monotonicity of the rules in the table, `infer_mono`).  Two runs over the same statements - in any
order, with any repetitions, phases interleaved in any way - therefore return tables with exactly
the same entries.

Hypotheses, all necessary: no unification failure was printed-and-ignored in either run (`NoIgnored`;
its failure is the recorded known finding `C14-incompatible-kinds-first-wins`, where the result DOES
depend on the order); the registered functions are monotone in the loop's mode (`RegMono`: true of
functions with fixed result kinds, `regMono_fixed`; for the built-ins it can fail on arguments of a
kind the final consistency pass rejects anyway, e.g. `matmul` of a user type). -/

/-- no unification failure was swallowed for this statement -/
def NoIgnored (reg : Registry) (t : Table) (ph : Name) : KStmt → Prop
  | .assign lhs _ _ flat loops =>
    (∀ i ∈ loops, ∀ old e, t.get ph i = some old → unifyK .integer old ≠ .error e) ∧
    (∀ k old e, infer false reg t ph flat = .ok k → t.get ph lhs = some old → unifyK k old ≠ .error e)
  | .callAssign lhs f args kw =>
    ∀ ks, inferCall false reg t ph f args kw = .ok ks →
      ∀ p ∈ zipNK lhs ks, ∀ old e, t.get ph p.1 = some old → unifyK p.2 old ≠ .error e
  | .other => True

theorem above_of_absorbed {t : Table} {ph n : Name} {k : Kind} (h : Absorbed t ph n k)
    (hn : ∀ old e, t.get ph n = some old → unifyK k old ≠ .error e) : Above t ph n k := by
  obtain ⟨old, hold, h1 | h2 | ⟨e, he⟩⟩ := h
  · exact ⟨old, hold, le_of_absorbed (Or.inl h1)⟩
  · exact ⟨old, hold, le_of_absorbed (Or.inr h2)⟩
  · exact absurd he (hn old e hold)

theorem strict_of_fix {reg : Registry} {t : Table} {ph : Name} {s : KStmt}
    (h : StmtFix reg t ph s) (hn : NoIgnored reg t ph s) : StmtFixS reg t ph s := by
  cases s with
  | assign lhs hasSub rhs flat loops =>
    obtain ⟨hl, ha⟩ := h
    obtain ⟨nl, na⟩ := hn
    refine ⟨fun i hi => above_of_absorbed (hl i hi) (fun old e => nl i hi old e), fun hs => ?_⟩
    obtain ⟨k, hk, hab⟩ := ha hs
    exact ⟨k, hk, above_of_absorbed hab (fun old e => na k old e hk)⟩
  | callAssign lhs f args kw =>
    obtain ⟨ks, hks, hab⟩ := h
    exact ⟨ks, hks, fun p hp => above_of_absorbed (hab p hp) (fun old e => hn ks hks p hp old e)⟩
  | other => trivial

/-- functions with fixed result kinds (`FixedResultKindsFunction`, what user right-hand sides are
    registered as) are monotone -/
theorem regMono_fixed (fixed : List (Name × List Kind)) :
    RegMono (fun f => (fixed.lookup f).map (fun ks _ _ _ => .ok ks)) := by
  intro f fn hf ak ak' kk kk' ks _ _ hfn
  cases hl : fixed.lookup f with
  | none => simp [hl] at hf
  | some ks0 =>
    simp only [hl, Option.map_some, Option.some.injEq] at hf
    subst hf
    simp only [Except.ok.injEq] at hfn
    subst hfn
    refine ⟨ks0, rfl, ?_⟩
    clear hl
    induction ks0 with
    | nil => exact KsLe.nil
    | cons k ks ih => exact KsLe.cons (le_refl _) ih

/-- **Kind inference is order-independent** (all programs, all registries of monotone functions):
    two presentations of the same statements - any order, any repetitions - on which inference
    succeeds without a swallowed unification failure give tables with exactly the same entries. -/
theorem inference_order_independent (reg : Registry) (hreg : RegMono reg)
    (prog prog' : List (Name × KStmt)) (hsame : ∀ p, p ∈ prog ↔ p ∈ prog')
    (hph : ∀ p ∈ prog, p.1 ≠ "")
    (t t' : Table) (h : inferAll reg prog = .ok t) (h' : inferAll reg prog' = .ok t')
    (hn : ∀ p ∈ prog, NoIgnored reg t p.1 p.2) (hn' : ∀ p ∈ prog', NoIgnored reg t' p.1 p.2) :
    ∀ key, lookupE t.entries key = lookupE t'.entries key := by
  have hph' : ∀ p ∈ prog', p.1 ≠ "" := fun p hp => hph p ((hsame p).mpr hp)
  have hw := inferAll_wellScoped reg prog hph t h
  have hw' := inferAll_wellScoped reg prog' hph' t' h'
  -- each result is a strict post-fix-point of the statements - of both presentations
  have fix : ∀ p ∈ prog, StmtFixS reg t p.1 p.2 :=
    fun p hp => strict_of_fix (inferAll_postfix reg prog t h p hp) (hn p hp)
  have fix' : ∀ p ∈ prog', StmtFixS reg t' p.1 p.2 :=
    fun p hp => strict_of_fix (inferAll_postfix reg prog' t' h' p hp) (hn' p hp)
  have work : WorkOK reg t' prog := fun p hp => ⟨hph p hp, fix' p ((hsame p).mp hp)⟩
  have work' : WorkOK reg t prog' := fun p hp => ⟨hph' p hp, fix p ((hsame p).mpr hp)⟩
  -- both are above the initial table
  have init_t : TLe Table.init t := outer_above_init reg prog t h
  have init_t' : TLe Table.init t' := outer_above_init reg prog' t' h'
  exact tle_antisymm (inferAll_least reg hreg prog t h t' hw' work init_t').1
    (inferAll_least reg hreg prog' t' h' t hw work' init_t).1

/-- an instance: the two orders of a program in which one statement has to wait for the other -/
example :
    let s1 : Name × KStmt := ("p", .assign "y" false (.prod [.var "x", .const (.cplx "1j")]) (.prod [.var "x", .const (.cplx "1j")]) [])
    let s2 : Name × KStmt := ("p", .assign "x" false (.var "<t>") (.var "<t>") [])
    let r := fun prog => (inferAll (mkRegistry []) prog).toOption.map
      (fun t => (t.get "p" "x", t.get "p" "y", t.get "p" "<t>", t.get "p" "<dt>"))
    r [s1, s2] = r [s2, s1] ∧ (r [s1, s2]).isSome = true := by decide +kernel

/-- **The hypothesis on the registry is met** by the registries the property talks about - the
    built-ins whose result kinds do not depend on refinable argument kinds (norms, `len`, `isnan`,
    `dot_product`, `array`, `print`, `elementwise_abs`) plus any user functions registered with fixed
    result kinds: for them order independence holds with no assumption on the functions. -/
theorem inference_order_independent_builtins (fixed : List (Name × List Kind))
    (prog prog' : List (Name × KStmt)) (hsame : ∀ p, p ∈ prog ↔ p ∈ prog')
    (hph : ∀ p ∈ prog, p.1 ≠ "")
    (t t' : Table) (h : inferAll (mkRegistrySimple fixed) prog = .ok t)
    (h' : inferAll (mkRegistrySimple fixed) prog' = .ok t')
    (hn : ∀ p ∈ prog, NoIgnored (mkRegistrySimple fixed) t p.1 p.2)
    (hn' : ∀ p ∈ prog', NoIgnored (mkRegistrySimple fixed) t' p.1 p.2) :
    ∀ key, lookupE t.entries key = lookupE t'.entries key :=
  inference_order_independent _ (regMono_simple fixed) prog prog' hsame hph t t' h h' hn hn'

/-- the restriction to those built-ins is needed for the PROOF (monotonicity fails for `matmul`,
    `regMono_fails_matmul`: a scalar argument is answered, the user type it may be refined to raises) -/
theorem matmul_not_monotone : ¬ RegMono (mkRegistry []) := regMono_fails_matmul

/-- non-vacuity: a program over the simple registry whose two orders both succeed -/
example :
    let s1 : Name × KStmt := ("p", .callAssign ["n"] "<builtin>norm_2" [.var "x"] [])
    let s2 : Name × KStmt := ("p", .callAssign ["x"] "<func>rhs" [.var "<t>"] [])
    let reg := mkRegistrySimple [("<func>rhs", [.user "y"])]
    let r := fun prog => (inferAll reg prog).toOption.map (fun t => (t.get "p" "x", t.get "p" "n"))
    r [s1, s2] = r [s2, s1] ∧ r [s1, s2] = some (some (.user "y"), some (.scalar true)) := by decide +kernel

end Dagrt.C14
