import Dagrt.Proofs.LowerProofs
import Dagrt.Props.C06
/-!
# C05 — lowering a phase to structured code keeps order, guards and loops

Model: `Dagrt.Lower` (`Model/Lower.lean`) = `create_ast_from_phase` (iterative DFS over sorted
ids, guard-outermost wrapping around the loops, no-ops dropped) composed with the C06 model of `simplify_ast`
and the walker `lower_node`.  `LWF p`: ids unique, dependencies resolve inside the phase, a
rank function exists — what `C10.accept_iff_wellformed` gives for accepted methods.
Semantics: `trace v it a` = the leaves executed under flag valuation `v` and trip counts `it`.
-/
namespace Dagrt.C05
open Dagrt.Lower Dagrt.Simplify
open Dagrt.Verify (Topo)

/-- the topological sort terminates; its result lists every statement of the phase exactly
    once, each after all statements it depends on -/
theorem topo_perm_and_sorted {p : Phase} (wf : LWF p) :
    ∃ o, topoOrder p = .ok o ∧ o.Nodup ∧ (∀ i, i ∈ o ↔ i ∈ ids p) ∧
      ∀ pre u post, o = pre ++ u :: post → ∀ s ∈ p, s.id = u → ∀ d ∈ s.deps, d ∈ pre := by
  obtain ⟨o, hok, htopo, hnd, hall⟩ := topoOrder_full wf
  refine ⟨o, hok, hnd, hall, ?_⟩
  intro pre u post hsplit s hs he d hd
  subst he
  apply htopo pre s.id post hsplit d
  simp [sortedDeps, lookup_of_nodup wf.nodup s hs, mem_isort, hd]

/-- lowering never fails on a well-formed phase -/
theorem createAst_total {p : Phase} (wf : LWF p) : ∃ a, createAst p = .ok a := by
  obtain ⟨o, hok, _, _, hall⟩ := topoOrder_full wf
  obtain ⟨blk, hblk⟩ := mainBlock_total p o (fun i hi => ids_known ((hall i).mp hi))
  obtain ⟨a, ha⟩ := Dagrt.C06.simplify_total (.block blk)
  exact ⟨a, by simp [createAst, hok, hblk, ha, bind, Except.bind]⟩

/-- For every guard valuation and all trip counts, the structured program executes exactly:
    for each statement in the topological order, nothing if it is a no-op or its guard is
    false, else its id once per iteration vector of exactly its declared loops. -/
theorem leaf_trace {p : Phase} {a : Ast} (h : createAst p = .ok a) (v : Nat → Bool) (it : Nat → Nat) :
    ∃ o, topoOrder p = .ok o ∧ trace v it a = orderTrace p v it o := by
  unfold createAst at h
  simp only [bind, Except.bind] at h
  cases ho : topoOrder p with
  | error e => simp [ho] at h
  | ok o =>
    simp only [ho] at h
    cases hb : mainBlock p o with
    | error e => simp [hb] at h
    | ok blk =>
      simp only [hb] at h
      cases hs : simplify (.block blk) with
      | error e => simp [hs] at h
      | ok a' =>
        simp [hs] at h; subst h
        refine ⟨o, rfl, ?_⟩
        rw [Dagrt.C06.simplify_trace _ _ v it hs]
        simp only [trace]
        exact mainBlock_trace p v it o blk hb

/-- the structured program handed to the back ends contains no node the generic walker has no
    case for -/
theorem lowered_program_walkable {p : Phase} {a : Ast} (h : createAst p = .ok a) :
    ∃ evs, walk a = some evs := by
  unfold createAst at h
  simp only [bind, Except.bind] at h
  cases ho : topoOrder p with
  | error e => simp [ho] at h
  | ok o =>
    simp only [ho] at h
    cases hb : mainBlock p o with
    | error e => simp [hb] at h
    | ok blk =>
      simp only [hb] at h
      cases hs : simplify (.block blk) with
      | error e => simp [hs] at h
      | ok a' => simp [hs] at h; subst h; exact Dagrt.C06.walker_total _ _ hs

/-! ### the result does not depend on the order in which the statements are stored -/

theorem ids_perm_nodup {p p' : Phase} (hp : p.Perm p') (hnd : (ids p).Nodup) : (ids p').Nodup := by
  unfold ids at *; exact (List.Perm.nodup_iff (hp.map _)).mp hnd

theorem lookup_perm {p p' : Phase} (hp : p.Perm p') (hnd : (ids p).Nodup) : lookup p = lookup p' := by
  have hnd' : (ids p').Nodup := ids_perm_nodup hp hnd
  funext i
  cases hl : lookup p i with
  | none =>
    cases hl' : lookup p' i with
    | none => rfl
    | some s =>
      have := lookup_mem hl'
      exact absurd this.2 (lookup_none hl s (hp.mem_iff.mpr this.1))
  | some s =>
    have hm := lookup_mem hl
    have := lookup_of_nodup hnd' s (hp.mem_iff.mp hm.1)
    rw [hm.2] at this; exact this.symm

theorem insertSorted_sorted {x : Nat} : ∀ {l : List Nat}, l.Pairwise (· ≤ ·) → (insertSorted x l).Pairwise (· ≤ ·)
  | [], _ => by simp [insertSorted]
  | y :: ys, h => by
    have ⟨hy, hys⟩ := List.pairwise_cons.mp h
    unfold insertSorted
    split
    · rename_i hxy
      refine List.Pairwise.cons ?_ h
      intro z hz; simp at hz; rcases hz with e | hz
      · subst e; exact hxy
      · have := hy z hz; omega
    · rename_i hxy
      refine List.Pairwise.cons ?_ (insertSorted_sorted hys)
      intro z hz
      rcases mem_insertSorted.mp hz with e | hz
      · subst e; omega
      · exact hy z hz

theorem isort_sorted : ∀ l : List Nat, (isort l).Pairwise (· ≤ ·)
  | [] => by simp [isort]
  | x :: xs => by simp only [isort]; exact insertSorted_sorted (isort_sorted xs)

theorem insertSorted_perm (x : Nat) : ∀ l : List Nat, (insertSorted x l).Perm (x :: l)
  | [] => by simp [insertSorted]
  | y :: ys => by
    unfold insertSorted
    split
    · exact List.Perm.refl _
    · exact ((insertSorted_perm x ys).cons y).trans (List.Perm.swap x y ys)

theorem isort_perm : ∀ l : List Nat, (isort l).Perm l
  | [] => by simp [isort]
  | x :: xs => by
    simp only [isort]
    exact (insertSorted_perm x (isort xs)).trans ((isort_perm xs).cons x)

theorem isort_eq_of_perm {l l' : List Nat} (h : l.Perm l') : isort l = isort l' := by
  apply List.Perm.eq_of_pairwise (le := (· ≤ ·))
  · intro a b _ _ h1 h2; omega
  · exact isort_sorted l
  · exact isort_sorted l'
  · exact (isort_perm l).trans (h.trans (isort_perm l').symm)

theorem sinks_perm {p p' : Phase} (hp : p.Perm p') (hnd : (ids p).Nodup) : sinks p = sinks p' := by
  have hnd' : (ids p').Nodup := ids_perm_nodup hp hnd
  unfold sinks
  rw [eraseDups_of_nodup hnd, eraseDups_of_nodup hnd']
  apply isort_eq_of_perm
  have hmem : ∀ i, (allDeps p).contains i = (allDeps p').contains i := by
    intro i
    have : i ∈ allDeps p ↔ i ∈ allDeps p' := (hp.flatMap_right (·.deps)).mem_iff
    cases h1 : (allDeps p).contains i <;> cases h2 : (allDeps p').contains i <;> simp_all
  have : (fun i => !(allDeps p).contains i) = (fun i => !(allDeps p').contains i) := by
    funext i; rw [hmem i]
  rw [this]
  unfold ids; exact (hp.map _).filter _

theorem tstep_congr {p p' : Phase} (h : lookup p = lookup p') (s : St) : tstep p s = tstep p' s := by
  unfold tstep; rw [h]

theorem trun_congr {p p' : Phase} (h : lookup p = lookup p') : ∀ (f : Nat) (s : St), trun p f s = trun p' f s
  | 0, _ => rfl
  | f+1, s => by
    unfold trun; rw [tstep_congr h s]
    cases tstep p' s <;> simp [trun_congr h f]

theorem mainBlock_congr {p p' : Phase} (h : lookup p = lookup p') : ∀ o, mainBlock p o = mainBlock p' o
  | [] => rfl
  | i :: is => by unfold mainBlock; rw [h, mainBlock_congr h is]

/-- storing the statements of a well-formed phase in a different order gives the identical
    structured program -/
theorem storage_order_irrelevant {p p' : Phase} (hp : p.Perm p') (wf : LWF p) :
    createAst p = createAst p' := by
  have hl := lookup_perm hp wf.nodup
  have hs := sinks_perm hp wf.nodup
  have wf' : LWF p' := by
    refine ⟨ids_perm_nodup hp wf.nodup, ?_, ?_⟩
    · intro s hs' d hd
      obtain ⟨t, ht, he⟩ := wf.closed s (hp.mem_iff.mpr hs') d hd
      exact ⟨t, hp.mem_iff.mp ht, he⟩
    · obtain ⟨rank, hr⟩ := wf.acyclic
      exact ⟨rank, fun s hs' d hd => hr s (hp.mem_iff.mpr hs') d hd⟩
  obtain ⟨o, hok, _⟩ := topoOrder_full wf
  obtain ⟨o', hok', _⟩ := topoOrder_full wf'
  have : o = o' := by
    unfold topoOrder at hok hok'
    rw [← hs, ← trun_congr hl] at hok'
    have h1 := trun_mono p _ _ o hok (max (topoFuel p) (topoFuel p')) (by omega)
    have h2 := trun_mono p _ _ o' hok' (max (topoFuel p) (topoFuel p')) (by omega)
    rw [h1] at h2; cases h2; rfl
  subst this
  unfold createAst
  rw [hok, hok']
  simp only [bind, Except.bind]
  rw [mainBlock_congr hl]

/-! non-vacuity: ids whose sorted order is not topological, a guard, a loop, a no-op -/
def exP : Phase := [⟨2, [], false, none, []⟩, ⟨0, [2, 1], false, some (.flag 0), [1]⟩, ⟨1, [2], true, none, []⟩]
example : topoOrder exP = .ok [2, 1, 0] := by decide
example : createAst exP = .ok (.block [.leaf 2, .ifThen (.flag 0) (.loop 1 (.leaf 0))]) := by rfl
example : LWF exP := by
  refine ⟨by decide, ?_, ⟨fun i => 2 - i, ?_⟩⟩
  · intro s hs d hd
    simp [exP] at hs
    rcases hs with e | e | e <;> subst e <;> simp at hd
    · rcases hd with e | e <;> subst e <;> simp [exP]
    · subst hd; simp [exP]
  · intro s hs d hd
    simp [exP] at hs
    rcases hs with e | e | e <;> subst e <;> simp at hd
    · rcases hd with e | e <;> subst e <;> simp
    · subst hd; simp

end Dagrt.C05
