import Dagrt.Proofs.ControllerProofs
/-!
# C04 — each step runs every statement of the phase once, after its dependencies

Model: `Dagrt.Controller` (`Model/Controller.lean`) = `ExecutionController.reset /
update_plan / __call__`.  Dependencies are iterated in an arbitrary (given) order, the
target is an arbitrary function from statements to {guard false, executed (with any list of
dynamically requested statements), abort}: the theorems therefore cover every iteration
order of the dependency sets, every guard valuation, every abort point and every sequence
of dynamic plan updates.  `WF g n r`: dependencies resolve within the phase and `r` is a
rank function bounded by the number of statements — what `C10.accept_implies_consumers_safe`
establishes for every accepted method.
-/
namespace Dagrt.C04
open Dagrt.Controller

/-- the plan invariant (no duplicates, disjoint from what was executed, every planned
    statement has its dependencies executed or planned earlier) survives every plan update,
    which never fails on a well-formed phase; requested statements end up executed or in the
    new front part `e`, ahead of everything planned before -/
theorem update_plan_preserves_invariant {g : Graph} {r : Nat → Nat} {n : Nat} (wf : WF g n r)
    {s : St} (hi : Inv g s) (ids : List Nat) (hids : ∀ i ∈ ids, (g i).isSome) :
    ∃ s' e, updatePlan g n s ids = .ok s' ∧ Inv g s' ∧ s'.executed = s.executed ∧
      s'.plan = e ++ s.plan.filter (fun x => decide (x ∉ e)) ∧
      (∀ i ∈ ids, i ∈ s.executed ∨ i ∈ e) :=
  updatePlan_inv wf hi ids hids

/-- the statement about to be visited has all its dependencies visited, and was not visited before -/
theorem popped_statement_ready {g : Graph} {x : Nat} {rest ex : List Nat}
    (hi : Inv g { plan := x :: rest, executed := ex }) :
    Inv g { plan := rest, executed := x :: ex } ∧ (∀ d ∈ depsOf g x, d ∈ ex) ∧ x ∉ ex :=
  pop_inv hi

/-- with the phase's sinks as roots, the initial plan contains every statement -/
theorem initial_plan_complete {g : Graph} {r : Nat → Nat} {n : Nat} (wf : WF g n r) (roots : List Nat)
    (hk : ∀ i ∈ roots, (g i).isSome)
    (hsinks : ∀ i, (g i).isSome → (∀ j, i ∉ depsOf g j) → i ∈ roots) :
    ∃ s0, updatePlan g n reset roots = .ok s0 ∧ Inv g s0 ∧ s0.executed = [] ∧
      ∀ i, (g i).isSome → i ∈ s0.plan :=
  initial_plan wf roots hk hsinks

/-- One whole step, for every guard valuation / abort point / sequence of dynamic requests
    (`target`) and every iteration order: the controller never fails, the visit log has no
    duplicates, every statement is visited only after all statements it depends on, and — when
    nothing aborts the step and the roots include the sinks — every statement of the phase is
    visited (exactly once) and the plan is empty at the end. -/
theorem visit_once_deps_first {g : Graph} {r : Nat → Nat} {n : Nat} (wf : WF g n r)
    (hn : ∀ i, (g i).isSome ↔ i < n)
    (roots : List Nat) (hk : ∀ i ∈ roots, (g i).isSome)
    (hsinks : ∀ i, (g i).isSome → (∀ j, i ∉ depsOf g j) → i ∈ roots)
    (target : Nat → Action)
    (htarget : ∀ x req, target x = .run req → ∀ i ∈ req, (g i).isSome) :
    ∃ log s', step g n roots target = .ok (log, s') ∧ LogOK g log ∧
      ((∀ x, target x ≠ .abort) → s'.plan = [] ∧ ∀ i, i < n → i ∈ log) := by
  obtain ⟨s0, hok, hinv, hex, hall⟩ := initial_plan wf roots hk hsinks
  unfold step
  rw [hok]
  simp only
  have hloop : LoopInv g n (List.range n) s0 [] := by
    refine ⟨hinv, by intro x; simp [hex], ⟨by simp, depsFirst_nil _ _⟩, by simp, ?_⟩
    intro i hi; left; simp at hi; exact hall i ((hn i).mpr hi)
  obtain ⟨log', s', hrun, hinv', _, hfin⟩ := runLoop_spec wf target htarget (List.range n) (n + 1) s0 [] hloop
  refine ⟨log', s', hrun, hinv'.logOK, ?_⟩
  intro hna
  have hp := hfin hna (by simp) (fun i hi => (hn i).mp hi)
  refine ⟨hp, ?_⟩
  intro i hi
  rcases hinv'.cover i (by simp [hi]) with h | h
  · rw [hp] at h; simp at h
  · exact h

/-- a step that is cut short (failure, switch, error) still visits only a duplicate-free,
    dependency-closed prefix order: `LogOK` holds for every target, aborting or not -/
theorem abort_prefix {g : Graph} {r : Nat → Nat} {n : Nat} (wf : WF g n r)
    (roots : List Nat) (hk : ∀ i ∈ roots, (g i).isSome)
    (target : Nat → Action)
    (htarget : ∀ x req, target x = .run req → ∀ i ∈ req, (g i).isSome) :
    ∃ log s', step g n roots target = .ok (log, s') ∧ LogOK g log := by
  obtain ⟨s0, e, hok, hinv, hex, _, _⟩ := updatePlan_inv wf (reset_inv g) roots hk
  unfold step
  rw [hok]
  simp only
  have hloop : LoopInv g n [] s0 [] :=
    ⟨hinv, by intro x; simp [hex, reset], ⟨by simp, depsFirst_nil _ _⟩, by simp, by simp⟩
  obtain ⟨log', s', hrun, hinv', _, _⟩ := runLoop_spec wf target htarget [] (n + 1) s0 [] hloop
  exact ⟨log', s', hrun, hinv'.logOK⟩

/-! non-vacuity: a diamond with a dynamic request, iteration order ≠ id order -/
def exG : Graph := fun i => [[], [0], [0], [2, 1]][i]?
def exTarget : Nat → Action := fun i => if i = 0 then .run [3] else if i = 1 then .skip else .run []
example : step exG 4 [3] exTarget = .ok ([0, 2, 1, 3], { plan := [], executed := [3, 1, 2, 0] }) := by decide
example : WF exG 4 (fun i => i) := by
  refine ⟨?_, ?_, ?_⟩
  · intro i hi d hd
    match i with
    | 0 => simp [depsOf, exG] at hd
    | 1 => simp [depsOf, exG] at hd; subst hd; simp [exG]
    | 2 => simp [depsOf, exG] at hd; subst hd; simp [exG]
    | 3 => simp [depsOf, exG] at hd; rcases hd with h | h <;> subst h <;> simp [exG]
    | k+4 => simp [exG] at hi
  · intro i d hd
    match i with
    | 0 => simp [depsOf, exG] at hd
    | 1 => simp [depsOf, exG] at hd; omega
    | 2 => simp [depsOf, exG] at hd; omega
    | 3 => simp [depsOf, exG] at hd; omega
    | k+4 => simp [depsOf, exG] at hd
  · intro i hi
    match i with
    | 0 | 1 | 2 | 3 => omega
    | k+4 => simp [exG] at hi

end Dagrt.C04
