import Dagrt.Model.Controller
namespace Dagrt.C04
open Dagrt.Controller
theorem reset_empty : reset.plan = [] ∧ reset.executed = [] := ⟨rfl, rfl⟩
end Dagrt.C04
