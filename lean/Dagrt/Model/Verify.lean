/-
Model of `dagrt.codegen.analysis.verify_code` and its four passes — property C10.
Statement ids, phase names and condition-flag names are numbered by the harness
(`Nat`); a dependency / switch target that names nothing gets a number that no
statement / phase carries.  Import-free.
-/
namespace Dagrt.Verify

structure VStmt where
  id : Nat
  deps : List Nat            -- iteration order of the `depends_on` frozenset, as observed
  switchTo : Option Nat      -- `SwitchPhase.next_phase`
  condWrites : List Nat      -- written variables that start with "<cond>"
  deriving Repr, Inhabited

abbrev Phase := List VStmt

/-- `id_to_statement = {inst.id: inst for inst in statements}` (last one wins) -/
def lookup : Phase → Nat → Option VStmt
  | [], _ => none
  | s :: r, i =>
    match lookup r i with
    | some t => some t
    | none => if s.id = i then some s else none

def nbrs (p : Phase) (i : Nat) : List Nat :=
  match lookup p i with
  | some s => s.deps
  | none => []

def known (p : Phase) (i : Nat) : Bool := (lookup p i).isSome

/-! ## pass 2: `verify_no_circular_dependencies` -/

structure St where
  stack : List Nat       -- head = top of the Python list
  visiting : List Nat
  visited : List Nat
  order : List Nat       -- ghost: finish log (not present in the code, influences nothing)
  deriving Repr

inductive Res where
  | cycle                -- "Circular dependency chain found"
  | keyError             -- `id_to_statement[neighbor]` failed
  | done (order : List Nat)
  | running (s : St)

inductive Scan where | ok | cycle | keyError deriving DecidableEq, Repr

/-- the `for neighbor in top.depends_on:` loop up to its first failure -/
def scan (knownF : Nat → Bool) (visiting : List Nat) : List Nat → Scan
  | [] => .ok
  | n :: ns =>
    if n ∈ visiting then .cycle
    else if knownF n then scan knownF visiting ns
    else .keyError

def step (nbrsF : Nat → List Nat) (knownF : Nat → Bool) (s : St) : Res :=
  match s.stack with
  | [] => .done s.order
  | top :: rest =>
    if top ∈ s.visited then
      if top ∈ s.visiting then
        .running { stack := rest, visiting := s.visiting.erase top, visited := s.visited, order := s.order ++ [top] }
      else .running { s with stack := rest }
    else
      match scan knownF (top :: s.visiting) (nbrsF top) with
      | .cycle => .cycle
      | .keyError => .keyError
      | .ok => .running { stack := (nbrsF top).reverse ++ top :: rest, visiting := top :: s.visiting,
                          visited := top :: s.visited, order := s.order }

inductive CRes where
  | noCycle (order : List Nat) | cycle | keyError | outOfFuel
  deriving Repr

def run (nbrsF : Nat → List Nat) (knownF : Nat → Bool) : Nat → St → CRes
  | 0, _ => .outOfFuel
  | fuel+1, s =>
    match step nbrsF knownF s with
    | .cycle => .cycle
    | .keyError => .keyError
    | .done o => .noCycle o
    | .running s' => run nbrsF knownF fuel s'

/-- work still to do: every unvisited node costs one visit plus one stack entry per neighbour -/
def cost (nbrsF : Nat → List Nat) (U visited : List Nat) : Nat :=
  ((U.filter (fun u => decide (u ∉ visited))).map (fun u => (nbrsF u).length + 1)).sum

def ids (p : Phase) : List Nat := p.map (·.id)

/-- fuel of the model's loop (the Python loop has none); sufficient by `C10.terminates` -/
def cycleFuel (p : Phase) : Nat := (ids p).length + cost (nbrs p) (ids p) [] + 1

/-- `stack = list(statements)`: the LAST statement is the top -/
def cycleCheck (p : Phase) : CRes :=
  run (nbrs p) (known p) (cycleFuel p)
    { stack := (ids p).reverse, visiting := [], visited := [], order := [] }

/-! ## the other passes and the aggregator -/

/-- pass 1 (after the `fix:` commit: ids are taken per phase): some message is produced -/
def depsMissing (p : Phase) : Bool :=
  p.any fun s => s.deps.any fun d => !(p.any fun t => t.id == d)

def switchBad (nPhases : Nat) (p : Phase) : Bool :=
  p.any fun s => match s.switchTo with | some t => decide (nPhases ≤ t) | none => false

def condWriters (p : Phase) (c : Nat) : Nat := (p.filter fun s => s.condWrites.contains c).length

def condBad (p : Phase) : Bool :=
  p.any fun s => s.condWrites.any fun c => decide (1 < condWriters p c)

structure Kinds where
  deps : Bool
  cycle : Bool
  switch : Bool
  cond : Bool
  deriving Repr, DecidableEq

def Kinds.any (k : Kinds) : Bool := k.deps || k.cycle || k.switch || k.cond

inductive Outcome where
  | accept
  | codegenError (kinds : Kinds)       -- CodeGenerationError carrying ≥ 1 message of these kinds
  | otherException (tag : String)
  deriving Repr, DecidableEq

/-- run the cycle pass over the phases in order: (a cycle was reported, an exception escaped) -/
def cyclePass : List Phase → Bool × Bool
  | [] => (false, false)
  | p :: ps =>
    match cycleCheck p with
    | .keyError => (false, true)
    | .outOfFuel => (false, true)
    | .cycle => let (c, e) := cyclePass ps; (true || c, e)
    | .noCycle _ => cyclePass ps

/-- `verify_code`: phases are numbered 0 … n-1 -/
def verify (phases : List Phase) : Outcome :=
  let e1 := phases.any depsMissing
  match cyclePass phases with
  | (c, true) =>
    -- "except Exception as e: if len(errors) == 0: raise e"
    if e1 || c then .codegenError { deps := e1, cycle := c, switch := false, cond := false }
    else .otherException "KeyError"
  | (c, false) =>
    let e3 := phases.any (switchBad phases.length)
    let e4 := phases.any condBad
    let k : Kinds := { deps := e1, cycle := c, switch := e3, cond := e4 }
    if k.any then .codegenError k else .accept

end Dagrt.Verify
