/-
Model of the dagrt-owned parts of `dagrt.expression.parse` — property C19:
* the lexer table of `_ExtendedParser` (pymbolic's table with the identifier rule extended by
  backtick-delimited identifiers; `pytools.lex.lex`: first matching rule wins, an empty match does
  not count) for the token classes names are made of,
* `_ExtendedParser.parse_terminal` for tagged identifiers `<tag>name`,
* the backtick-removal pass (after the `fix:` commit: it descends into subscripts and look-ups).
The precedence-climbing parser and the printer are pymbolic's (third party): exercised by the
round-trip oracle on every run, not modelled.  Import-free.
-/
import Dagrt.Model.Expr
namespace Dagrt.PrintParse
open Dagrt

inductive Tok where
  | op (s : String)          -- == != << >> <= >= < > = + - ** * // / % & | ~ ^ ( ) [ ] , . :
  | kw (s : String)          -- and or not if else True False
  | num (s : String)         -- int / float text
  | ident (s : String)       -- plain or backtick-delimited identifier
  | ws (s : String)
  deriving DecidableEq, Repr

def isDigit (c : Char) : Bool := '0' ≤ c && c ≤ '9'
def isLetter (c : Char) : Bool := ('a' ≤ c && c ≤ 'z') || ('A' ≤ c && c ≤ 'Z')
/-- `\w` -/
def isWord (c : Char) : Bool := isLetter c || isDigit c || c == '_'
/-- `[@$a-z_A-Z_]` -/
def isIdentStart (c : Char) : Bool := isLetter c || c == '_' || c == '@' || c == '$'
/-- `[@$a-zA-Z_0-9]` -/
def isIdentChar (c : Char) : Bool := isIdentStart c || isDigit c
/-- `[<>:a-zA-Z0-9_]` (inside backticks) -/
def isQuotedChar (c : Char) : Bool := isLetter c || isDigit c || c == '_' || c == '<' || c == '>' || c == ':'
def isSpace (c : Char) : Bool := c == ' ' || c == '\n' || c == '\t'

def spanP (p : Char → Bool) : List Char → List Char × List Char
  | [] => ([], [])
  | c :: cs => if p c then let (a, b) := spanP p cs; (c :: a, b) else ([], c :: cs)

def startsWith : List Char → List Char → Option (List Char)
  | [], s => some s
  | _ :: _, [] => none
  | p :: ps, c :: cs => if p = c then startsWith ps cs else none

/-- `\b` after a word character: the next character is not a word character (or the end) -/
def boundary : List Char → Bool
  | [] => true
  | c :: _ => !isWord c

def fixedOps : List String :=
  ["==", "!=", "<<", ">>", "<=", ">=", "<", ">", "="]
def keywords : List String := ["and", "or", "not", "if", "else"]
def lateOps : List String :=
  ["+", "-", "**", "*", "//", "/", "%", "&", "|", "~", "^", "(", ")", "[", "]"]

def firstPrefix (cands : List String) (s : List Char) : Option (String × List Char) :=
  match cands with
  | [] => none
  | c :: cs =>
    match startsWith c.toList s with
    | some rest => some (c, rest)
    | none => firstPrefix cs s

def firstKeyword (cands : List String) (s : List Char) : Option (String × List Char) :=
  match cands with
  | [] => none
  | c :: cs =>
    match startsWith c.toList s with
    | some rest => if boundary rest then some (c, rest) else firstKeyword cs s
    | none => firstKeyword cs s

/-- the number rules, for the shapes `[0-9]+`, `[0-9]+.[0-9]*[a-zA-Z]*`, `[0-9]*.[0-9]+[a-zA-Z]*`,
    `[0-9]+[a-zA-Z]+` (exponents are not modelled: the driver refuses strings in which a number is
    followed by e/E/d/D and a sign or digit) -/
def lexNumber (s : List Char) : Option (List Char × List Char) :=
  let (ds, r) := spanP isDigit s
  match ds, r with
  | [], '.' :: r1 =>
    let (fs, r2) := spanP isDigit r1
    if fs.isEmpty then none
    else let (ls, r3) := spanP isLetter r2; some ('.' :: fs ++ ls, r3)
  | [], _ => none
  | _, '.' :: r1 =>
    let (fs, r2) := spanP isDigit r1
    let (ls, r3) := spanP isLetter r2
    some (ds ++ '.' :: fs ++ ls, r3)
  | _, _ =>
    let (ls, r3) := spanP isLetter r
    some (ds ++ ls, r3)

/-- the identifier rule: plain, or delimited by backticks -/
def lexIdent (s : List Char) : Option (List Char × List Char) :=
  match s with
  | c :: cs =>
    if isIdentStart c then
      let (a, r) := spanP isIdentChar cs
      some (c :: a, r)
    else if c = '`' then
      let (a, r) := spanP isQuotedChar cs
      match r with
      | '`' :: r' => some ('`' :: a ++ ['`'], r')
      | _ => none
    else none
  | [] => none

/-- one token at the head of a non-empty input; `none` = `InvalidTokenError` -/
def lexOne (s : List Char) : Option (Tok × List Char) :=
  match firstPrefix fixedOps s with
  | some (o, r) => some (.op o, r)
  | none =>
  match firstKeyword keywords s with
  | some (k, r) => some (.kw k, r)
  | none =>
  match lexNumber s with
  | some (n, r) => some (.num (String.ofList n), r)
  | none =>
  match firstPrefix lateOps s with
  | some (o, r) => some (.op o, r)
  | none =>
  match firstPrefix ["True", "False"] s with
  | some (k, r) => some (.kw k, r)
  | none =>
  match lexIdent s with
  | some (a, r) => some (.ident (String.ofList a), r)
  | none =>
  match spanP isSpace s with
  | (c :: cs, r) => some (.ws (String.ofList (c :: cs)), r)
  | ([], _) =>
  match firstPrefix [",", ".", ":"] s with
  | some (o, r) => some (.op o, r)
  | none => none

def lexFuel : Nat → List Char → Option (List Tok)
  | _, [] => some []
  | 0, _ => none
  | fuel + 1, s =>
    match lexOne s with
    | none => none
    | some (t, r) =>
      match lexFuel fuel r with
      | some ts => some (t :: ts)
      | none => none

def lex (s : String) : Option (List Tok) := lexFuel (s.length + 1) s.toList

def dropWs (ts : List Tok) : List Tok := ts.filter fun t => match t with | .ws _ => false | _ => true

inductive PErr where
  | expected (what : String)     -- `pstate.expect` failed (ParseError)
  | notModelled                  -- a terminal of pymbolic's own parser
  deriving DecidableEq, Repr

/-- `_ExtendedParser.parse_terminal` on the whitespace-free token list -/
def parseTerminal : List Tok → Except PErr (Name × List Tok)
  | .op "<" :: rest =>
    match rest with
    | .ident tag :: rest1 =>
      match rest1 with
      | .op ">" :: rest2 =>
        match rest2 with
        | .ident name :: rest3 => .ok ("<" ++ tag ++ ">" ++ name, rest3)
        | _ => .ok ("<" ++ tag ++ ">", rest2)
      | _ => .error (.expected ">")
    | _ => .error (.expected "identifier")
  | .ident name :: rest => .ok (name, rest)
  | _ => .error .notModelled

/-- `varname[1:-1]` if the name starts and ends with a backtick -/
def unquote (n : Name) : Name :=
  match n.toList with
  | '`' :: rest =>
    match rest.reverse with
    | '`' :: mid => String.ofList mid.reverse
    | [] => ""                    -- the name is a single backtick: `"`"[1:-1] == ""`
    | _ => n
  | _ => n

mutual
/-- `SubstitutionMapper(remove_backticks)` -/
def removeBackticks : Expr → Expr
  | .const c => .const c
  | .var x => .var (unquote x)
  | .sum cs => .sum (removeL cs)
  | .prod cs => .prod (removeL cs)
  | .quot a b => .quot (removeBackticks a) (removeBackticks b)
  | .pow a b => .pow (removeBackticks a) (removeBackticks b)
  | .call f args kw => .call (unquote f) (removeL args) (removeK kw)
  | .sub a i => .sub (removeBackticks a) (removeBackticks i)
  | .attr a n => .attr (removeBackticks a) n
  | .cmp o a b => .cmp o (removeBackticks a) (removeBackticks b)
  | .lnot a => .lnot (removeBackticks a)
  | .land cs => .land (removeL cs)
  | .lor cs => .lor (removeL cs)
  | .ite c t e => .ite (removeBackticks c) (removeBackticks t) (removeBackticks e)
  | .min cs => .min (removeL cs)
  | .max cs => .max (removeL cs)
def removeL : List Expr → List Expr
  | [] => []
  | c :: cs => removeBackticks c :: removeL cs
def removeK : List (Name × Expr) → List (Name × Expr)
  | [] => []
  | (k, c) :: cs => (k, removeBackticks c) :: removeK cs
end

/-- parse a string that consists of one terminal: the variable it denotes -/
def parseName (s : String) : Except PErr Name :=
  match lex s with
  | none => .error (.expected "token")
  | some ts =>
    match parseTerminal (dropWs ts) with
    | .ok (n, []) => .ok (unquote n)
    | .ok (_, _) => .error (.expected "end")
    | .error e => .error e

end Dagrt.PrintParse
