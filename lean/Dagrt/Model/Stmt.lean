/-
Statements of the dagrt language, their declared read/write sets
(`get_read_variables` / `get_written_variables`, after the `fix:` commit) and what executing
one really does (`NumpyInterpreter.evaluate_condition` / `exec_*`), instrumented with the
store reads and writes it performs — properties C08, C02, C01.
-/
import Dagrt.Model.Sem
namespace Dagrt.Sem
open Dagrt

inductive Kind where
  /-- `Assign`: assignee, optional subscript, rhs, loops `(ident, start, stop)` outermost first -/
  | assign (lhs : Name) (sub : Option Expr) (rhs : Expr) (loops : List (Name × Expr × Expr))
  /-- `AssignFunctionCall` -/
  | callAssign (lhs : List Name) (f : Name) (args : List Expr) (kw : List (Name × Expr))
  /-- `YieldState` -/
  | yield (expr time : Expr) (timeId comp : String)
  | raise (err : String)
  | fail
  | switch (phase : Name)
  | nop
  deriving Repr, Inhabited

structure Stmt where
  cond : Expr                 -- `const (bool true)` = unconditional
  kind : Kind
  deriving Repr, Inhabited

def Kind.isAssignment : Kind → Bool
  | .assign .. => true
  | .callAssign .. => true
  | _ => false

def loopVars : List (Name × Expr × Expr) → List Name
  | [] => []
  | (_, a, b) :: r => depVars a ++ depVars b ++ loopVars r

def loopCounters : List (Name × Expr × Expr) → List Name
  | [] => []
  | (i, _, _) :: r => i :: loopCounters r

/-- `stmt.get_read_variables()` of a statement whose condition is `cond` -/
def declReads (s : Stmt) : List Name :=
  depVars s.cond ++
  match s.kind with
  | .assign _ sub rhs loops =>
    depVars rhs ++ (match sub with | some i => depVars i | none => []) ++ loopVars loops
  | .callAssign _ _ args kw => depVarsL args ++ depVarsK kw
  | .yield e t _ _ => depVars e ++ depVars t
  | _ => []

/-- `stmt.get_written_variables()` -/
def declWrites (s : Stmt) : List Name :=
  match s.kind with
  | .assign lhs _ _ _ => [lhs]
  | .callAssign lhs _ _ _ => lhs
  | _ => []

def counters (s : Stmt) : List Name :=
  match s.kind with
  | .assign _ _ _ loops => loopCounters loops
  | _ => []

/-! ### execution, instrumented: (new store, names read from the store, names written) -/

structure Acc where
  σ : Store
  reads : List Name
  writes : List Name

def Acc.write (a : Acc) (x : Name) (v : Val) : Acc :=
  { a with σ := a.σ.set x (.val v), writes := a.writes ++ [x] }

def Acc.read (a : Acc) (r : List Name) : Acc := { a with reads := a.reads ++ r }

/-- one execution of the loop body of an `Assign` -/
def assignOnce (F : Funs) (env : List (Name × Int)) (lhs : Name) (sub : Option Expr) (rhs : Expr)
    (a : Acc) : Acc :=
  match sub with
  | none =>
    let (v, r) := evalI F env a.σ rhs
    (a.read r).write lhs v
  | some i =>
    -- `self.context[assignee][eval(subscript)] = eval(expression)`: the right-hand side is
    -- evaluated first, then the aggregate is fetched and the subscript evaluated
    let (v, r) := evalI F env a.σ rhs
    let (vi, ri) := evalI F env a.σ i
    ((a.read (r ++ [lhs] ++ ri))).write lhs ((a.σ.get lhs).setIndex vi v)

def intOf : Val → Int
  | .int n => n
  | _ => 0

mutual
/-- `implement_loops`: the loops outermost first; bounds are evaluated when the loop is entered -/
def runLoops (F : Funs) (lhs : Name) (sub : Option Expr) (rhs : Expr) :
    List (Name × Expr × Expr) → List (Name × Int) → Acc → Acc
  | [], env, a => assignOnce F env lhs sub rhs a
  | (i, lo, hi) :: rest, env, a =>
    let (vlo, r1) := evalI F env a.σ lo
    let (vhi, r2) := evalI F env a.σ hi
    iterate F lhs sub rhs rest env i (intOf vlo) ((intOf vhi - intOf vlo).toNat) (a.read (r1 ++ r2))
/-- `for i in range(start, stop)`: `n` remaining iterations from `k` -/
def iterate (F : Funs) (lhs : Name) (sub : Option Expr) (rhs : Expr)
    (rest : List (Name × Expr × Expr)) (env : List (Name × Int)) (i : Name) (k : Int) :
    Nat → Acc → Acc
  | 0, a => a
  | n+1, a => iterate F lhs sub rhs rest env i (k + 1) n (runLoops F lhs sub rhs rest ((i, k) :: env) a)
end

def assignResults (a : Acc) : List Name → List Val → Acc
  | x :: xs, v :: vs => assignResults (a.write x v) xs vs
  | _, _ => a

def setExec (a : Acc) (log : List Event) (st : Status) : Acc :=
  { a with σ := a.σ.set EXEC (.exec log st), writes := a.writes ++ [EXEC] }

/-- what the controller does with one statement: a step that is no longer running does nothing;
    otherwise the guard is evaluated and, if it holds, the statement executed -/
def execI (F : Funs) (s : Stmt) (σ : Store) : Acc :=
  let a0 : Acc := { σ := σ, reads := [EXEC], writes := [] }
  match σ.status with
  | .running =>
    let (g, rg) := evalI F [] σ s.cond
    let a := a0.read rg
    bif g.truthy then
      match s.kind with
      | .assign lhs sub rhs loops => runLoops F lhs sub rhs loops [] a
      | .callAssign lhs f args kw =>
        let (vs, r1) := evalArgs F [] a.σ args
        let (ks, r2) := evalKw F [] a.σ kw
        assignResults (a.read (r1 ++ r2)) lhs (F f vs ks)
      | .yield e t tid comp =>
        let (vt, r1) := evalI F [] a.σ t
        let (ve, r2) := evalI F [] a.σ e
        setExec (a.read (r1 ++ r2)) (a.σ.log ++ [.stateComputed vt tid comp ve]) .running
      | .raise err => setExec a a.σ.log (.raised err)
      | .fail => setExec a a.σ.log .failed
      | .switch p => setExec a a.σ.log (.switched p)
      | .nop => a
    else a
  | _ => a0

def exec (F : Funs) (s : Stmt) (σ : Store) : Store := (execI F s σ).σ

end Dagrt.Sem
