/-
Model of the built-in functions' `get_result_kinds` (dagrt/function_registry.py,
both `check` modes) and of `dagrt.utils.resolve_args`.  Import-free.
-/
import Dagrt.Model.Kinds
namespace Dagrt.Kinds

def kwLookup (kw : List (Name × Option Kind)) (n : Name) : Option (Option Kind) :=
  match kw with
  | [] => none
  | (k, v) :: r => if k = n then some v else kwLookup r n

def kwErase (kw : List (Name × Option Kind)) (n : Name) : List (Name × Option Kind) :=
  kw.filter (fun p => p.1 != n)

/-- `resolve_args(arg_names, {}, arg_dict)`: positional first, then by keyword; a name given
    both ways, a missing argument or left-over arguments are `TypeError`s -/
def resolveArgs : List Name → List (Option Kind) → List (Name × Option Kind) → Except KErr (List (Option Kind))
  | [], [], [] => .ok []
  | [], _, _ => .error .typeError
  | n :: ns, p :: ps, kw =>
    match kwLookup kw n with
    | some _ => .error .typeError
    | none => do let r ← resolveArgs ns ps kw; .ok (p :: r)
  | n :: ns, [], kw =>
    match kwLookup kw n with
    | some v => do let r ← resolveArgs ns [] (kwErase kw n); .ok (v :: r)
    | none => .error .typeError

def realOf : Option Kind → Except KErr Bool
  | some (.scalar r) => .ok r
  | some (.array r) => .ok r
  | _ => .error .attributeError

/-- Python's `a.is_real_valued and b.is_real_valued` (short-circuit) -/
def realAnd (a b : Option Kind) : Except KErr Bool := do
  let ra ← realOf a
  bif ra then realOf b else .ok false

def isScalarK : Option Kind → Bool
  | some (.scalar _) => true
  | _ => false

def isArrayK : Option Kind → Bool
  | some (.array _) => true
  | _ => false

/-- `isinstance(k, (NoneType, Array, UserType))` -/
def vecOrNone : Option Kind → Bool
  | none => true
  | some (.array _) => true
  | some (.user _) => true
  | _ => false

/-- `isinstance(k, (NoneType, Scalar, Array, UserType))` -/
def dataOrNone : Option Kind → Bool
  | none => true
  | some (.scalar _) => true
  | some (.array _) => true
  | some (.user _) => true
  | _ => false

/-- a failed argument check of `get_result_kinds(..., check=True)` -/
def need (chk : Bool) (ok : Bool) : Except KErr Unit :=
  if chk && !ok then .error .typeError else .ok ()

def builtin (f : Name) : Option (Bool → List (Option Kind) → List (Name × Option Kind) → Except KErr (List Kind)) :=
  if f = "<builtin>norm_1" ∨ f = "<builtin>norm_2" ∨ f = "<builtin>norm_inf" then
    some fun chk p k => do
      match ← resolveArgs ["x"] p k with
      | [x] => do need chk (vecOrNone x); .ok [.scalar true]
      | _ => .error .typeError
  else if f = "<builtin>len" then
    some fun chk p k => do
      match ← resolveArgs ["x"] p k with
      | [x] => do need chk (dataOrNone x); .ok [.scalar true]
      | _ => .error .typeError
  else if f = "<builtin>elementwise_abs" then
    some fun _ p k => do
      match ← resolveArgs ["x"] p k with
      | [some (.user i)] => .ok [.user i]
      | [some (.array _)] => .ok [.array true]
      | [some (.scalar _)] => .ok [.scalar true]
      | _ => .error .typeError
  else if f = "<builtin>dot_product" then
    some fun chk p k => do
      match ← resolveArgs ["x", "y"] p k with
      | [x, y] => do need chk (vecOrNone x); need chk (vecOrNone y); .ok [.scalar false]
      | _ => .error .typeError
  else if f = "<builtin>isnan" then
    some fun chk p k => do
      match ← resolveArgs ["x"] p k with
      | [x] => do need chk (dataOrNone x); .ok [.boolean]
      | _ => .error .typeError
  else if f = "<builtin>array" then
    some fun chk p k => do
      match ← resolveArgs ["n"] p k with
      | [n] => do need chk (isScalarK n); .ok [.array true]
      | _ => .error .typeError
  else if f = "<builtin>matmul" ∨ f = "<builtin>linear_solve" then
    some fun chk p k => do
      match ← resolveArgs ["a", "b", "a_cols", "b_cols"] p k with
      | [a, b, ac, bc] =>
        match a, b with
        | none, _ => .error .unable
        | _, none => .error .unable
        | _, _ => do
          need chk (isArrayK a); need chk (isArrayK b); need chk (isScalarK ac); need chk (isScalarK bc)
          let r ← realAnd a b; .ok [.array r]
      | _ => .error .typeError
  else if f = "<builtin>transpose" then
    some fun chk p k => do
      match ← resolveArgs ["a", "a_cols"] p k with
      | [a, ac] =>
        match a with
        | none => .error .unable
        | _ => do need chk (isArrayK a); need chk (isScalarK ac); let r ← realOf a; .ok [.array r]
      | _ => .error .typeError
  else if f = "<builtin>svd" then
    some fun chk p k => do
      match ← resolveArgs ["a", "a_cols"] p k with
      | [a, ac] =>
        match a with
        | none => .error .unable
        | _ => do need chk (isArrayK a); need chk (isScalarK ac); let r ← realOf a; .ok [.array r, .array r, .array r]
      | _ => .error .typeError
  else if f = "<builtin>print" then
    some fun chk p k => do
      match ← resolveArgs ["arg"] p k with
      | [a] => do
        need chk (match a with | some .integer => true | some (.scalar _) => true | some (.array _) => true | _ => false)
        .ok []
      | _ => .error .typeError
  else none

/-- registry = built-ins + user functions with fixed result kinds (`FixedResultKindsFunction`) -/
def mkRegistry (fixed : List (Name × List Kind)) : Registry := fun f =>
  match builtin f with
  | some fn => some fn
  | none => match fixed.lookup f with
    | some ks => some fun _ _ _ => .ok ks
    | none => none

/-- the built-ins whose result kinds depend on the (refinable) kinds of their arguments in a way that is
    not monotone: they answer for a scalar argument and raise for the user type it may be refined to -/
def heavy (f : Name) : Bool :=
  f == "<builtin>matmul" || f == "<builtin>linear_solve" || f == "<builtin>transpose" || f == "<builtin>svd"

/-- the registry without those four: norms, `len`, `isnan`, `dot_product`, `array`, `print`,
    `elementwise_abs` + user functions with fixed result kinds -/
def mkRegistrySimple (fixed : List (Name × List Kind)) : Registry := fun f =>
  if heavy f then none else mkRegistry fixed f

end Dagrt.Kinds
