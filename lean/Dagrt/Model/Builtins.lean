/-
Model of the built-in functions' `get_result_kinds` (dagrt/function_registry.py,
with `check = False`) and of `dagrt.utils.resolve_args`.  Import-free.
-/
import Dagrt.Model.Kinds
namespace Dagrt.Kinds

def kwLookup (kw : List (Name × Option Kind)) (n : Name) : Option (Option Kind) :=
  match kw with
  | [] => none
  | (k, v) :: r => if k = n then some v else kwLookup r n

def kwErase (kw : List (Name × Option Kind)) (n : Name) : List (Name × Option Kind) :=
  kw.filter (fun p => p.1 != n)

/-- `resolve_args(arg_names, {}, arg_dict)`: positional first, then by keyword; a name given
    both ways, a missing argument or left-over arguments are `TypeError`s -/
def resolveArgs : List Name → List (Option Kind) → List (Name × Option Kind) → Except KErr (List (Option Kind))
  | [], [], [] => .ok []
  | [], _, _ => .error .typeError
  | n :: ns, p :: ps, kw =>
    match kwLookup kw n with
    | some _ => .error .typeError
    | none => do let r ← resolveArgs ns ps kw; .ok (p :: r)
  | n :: ns, [], kw =>
    match kwLookup kw n with
    | some v => do let r ← resolveArgs ns [] (kwErase kw n); .ok (v :: r)
    | none => .error .typeError

def realOf : Option Kind → Except KErr Bool
  | some (.scalar r) => .ok r
  | some (.array r) => .ok r
  | _ => .error .attributeError

/-- Python's `a.is_real_valued and b.is_real_valued` (short-circuit) -/
def realAnd (a b : Option Kind) : Except KErr Bool := do
  let ra ← realOf a
  bif ra then realOf b else .ok false

def builtin (f : Name) : Option (List (Option Kind) → List (Name × Option Kind) → Except KErr (List Kind)) :=
  if f = "<builtin>norm_1" ∨ f = "<builtin>norm_2" ∨ f = "<builtin>norm_inf" ∨ f = "<builtin>len" then
    some fun p k => do let _ ← resolveArgs ["x"] p k; .ok [.scalar true]
  else if f = "<builtin>elementwise_abs" then
    some fun p k => do
      match ← resolveArgs ["x"] p k with
      | [some (.user i)] => .ok [.user i]
      | [some (.array _)] => .ok [.array true]
      | [some (.scalar _)] => .ok [.scalar true]
      | _ => .error .typeError
  else if f = "<builtin>dot_product" then
    some fun p k => do let _ ← resolveArgs ["x", "y"] p k; .ok [.scalar false]
  else if f = "<builtin>isnan" then
    some fun p k => do let _ ← resolveArgs ["x"] p k; .ok [.boolean]
  else if f = "<builtin>array" then
    some fun p k => do let _ ← resolveArgs ["n"] p k; .ok [.array true]
  else if f = "<builtin>matmul" ∨ f = "<builtin>linear_solve" then
    some fun p k => do
      match ← resolveArgs ["a", "b", "a_cols", "b_cols"] p k with
      | [a, b, _, _] =>
        match a, b with
        | none, _ => .error .unable
        | _, none => .error .unable
        | _, _ => do let r ← realAnd a b; .ok [.array r]
      | _ => .error .typeError
  else if f = "<builtin>transpose" then
    some fun p k => do
      match ← resolveArgs ["a", "a_cols"] p k with
      | [a, _] =>
        match a with
        | none => .error .unable
        | _ => do let r ← realOf a; .ok [.array r]
      | _ => .error .typeError
  else if f = "<builtin>svd" then
    some fun p k => do
      match ← resolveArgs ["a", "a_cols"] p k with
      | [a, _] =>
        match a with
        | none => .error .unable
        | _ => do let r ← realOf a; .ok [.array r, .array r, .array r]
      | _ => .error .typeError
  else if f = "<builtin>print" then
    some fun p k => do let _ ← resolveArgs ["arg"] p k; .ok []
  else none

/-- registry = built-ins + user functions with fixed result kinds (`FixedResultKindsFunction`) -/
def mkRegistry (fixed : List (Name × List Kind)) : Registry := fun f =>
  match builtin f with
  | some fn => some fn
  | none => match fixed.lookup f with
    | some ks => some fun _ _ => .ok ks
    | none => none

end Dagrt.Kinds
