/-
Step loops of the two back ends and the reference semantics of a written builder program —
properties C01 and C11.

* `seqExec`: carrying out the builder calls one after another in the order they were written
  (`with cb.if_(e):` evaluates `e` on entry; the block runs iff it was true; `cb.else_()` runs iff
  the condition of the `if_` closed immediately before was false).
* `flatExec`: what both back ends really execute — the guarded flat statements the builder
  emitted (`Builder.run`), here in an arbitrary order `π` of statement indices (the interpreter's
  controller and the lowering each pick one that respects the recorded dependencies).
* `stepOf` / `runLoop`: `run_single_step` (next phase advanced to the default successor BEFORE the
  body runs, per-step variables discarded afterwards — also when the step fails or raises) and
  `run(t_end, max_steps)` of `NumpyInterpreter` and of the emitted class (failed steps are not
  counted against `max_steps`).
-/
import Dagrt.Model.Builder
namespace Dagrt.StepLoop
open Dagrt Dagrt.Sem Dagrt.Builder

/-! ### the written program, call by call -/

structure SeqState where
  σ : Store
  stack : List Bool          -- was the condition of each open `if_` / `else_` block true on entry?
  lastIf : Option Bool       -- condition of the `if_` block closed immediately before
  failed : Bool              -- the builder itself raised (unbalanced blocks): no program

def allTrue : List Bool → Bool
  | [] => true
  | b :: bs => b && allTrue bs

def seqStep (F : Funs) (s : SeqState) : BOp → SeqState
  | .stmt k =>
    -- `(execI …).σ` is `exec …` (by definition); written this way the compiled driver evaluates the
    -- statement once instead of once per later look-up (`Store` is a function type)
    bif allTrue s.stack then { s with σ := (execI F ⟨.const (.bool true), k⟩ s.σ).σ } else s
  | .ifBegin e =>
    let b := match s.σ.status with
      | .running => allTrue s.stack && (eval F [] s.σ e).truthy
      | _ => false
    { s with stack := s.stack ++ [b] }
  | .ifEnd =>
    match s.stack.reverse with
    | [] => { s with failed := true }
    | top :: restRev => { s with stack := restRev.reverse, lastIf := some top }
  | .elseBegin =>
    match s.lastIf with
    | none => { s with failed := true }
    | some b =>
      -- the entry condition of the else block is the negation of the `if_` condition; whether the
      -- block RUNS is `allTrue` of the whole stack (the enclosing blocks must run as well)
      { s with stack := s.stack ++ [!b] }
  | .elseEnd =>
    match s.stack.reverse with
    | [] => { s with failed := true }
    | _ :: restRev => { s with stack := restRev.reverse, lastIf := none }
  | .fresh _ => s

def seqExec (F : Funs) (ops : List BOp) (σ : Store) : SeqState :=
  ops.foldl (fun s op => bif s.failed then s else seqStep F s op) ⟨σ, [], none, false⟩

/-! ### the flat guarded statements, in a given order -/

def flatStmts (ops : List BOp) : List Stmt := (Builder.run ops).out.map (·.1)

/-- a store in a box: `Store` is a function type, and compiled code that *returns* a function is
    run again for every look-up; a structure (with two fields: a one-field structure is represented
    by its field) makes the driver run each statement once -/
structure Boxed where
  σ : Store
  pad : Nat := 0

def flatStepB (F : Funs) (stmts : List Stmt) (b : Boxed) (i : Nat) : Boxed :=
  match stmts[i]? with
  | some s => { σ := (execI F s b.σ).σ }
  | none => b

def flatStep (F : Funs) (stmts : List Stmt) (σ : Store) (i : Nat) : Store :=
  match stmts[i]? with
  | some s => (execI F s σ).σ
  | none => σ

def flatExec (F : Funs) (stmts : List Stmt) (π : List Nat) (σ : Store) : Store :=
  (π.foldl (flatStepB F stmts) { σ := σ }).σ

theorem flatStepB_σ (F : Funs) (stmts : List Stmt) (b : Boxed) (i : Nat) :
    (flatStepB F stmts b i).σ = flatStep F stmts b.σ i := by
  unfold flatStepB flatStep; split <;> rfl

/-- `flatExec` is the plain fold (the box is only there for the compiled driver) -/
theorem flatExec_def (F : Funs) (stmts : List Stmt) : ∀ (π : List Nat) (σ : Store),
    flatExec F stmts π σ = π.foldl (flatStep F stmts) σ := by
  intro π
  have : ∀ (b : Boxed), (π.foldl (flatStepB F stmts) b).σ = π.foldl (flatStep F stmts) b.σ := by
    induction π with
    | nil => intro b; rfl
    | cons i π ih => intro b; simp only [List.foldl_cons]; rw [ih, flatStepB_σ]
  intro σ
  exact this { σ := σ }

/-! ### one step -/

/-- names that outlive a step (`run_single_step`'s `finally`; instance attributes of the emitted class) -/
def hasPrefix (p n : String) : Bool := p.toList.isPrefixOf n.toList

def isPersistent (n : Name) : Bool :=
  n == "<t>" || n == "<dt>" || hasPrefix "<state>" n || hasPrefix "<p>" n

def persist (σ : Store) : Store := fun x => bif isPersistent x then σ x else .val .none

def startStep (σ : Store) : Store := (persist σ).set EXEC (.exec [] .running)

structure Phase where
  name : Name
  next : Name
  ops : List BOp

inductive Ev where
  | state (t : Val) (timeId comp : String) (v : Val)
  | completed (dt t : Val) (cur next : Name)
  | failed (t : Val)
  | raised (err : String)
  | noSuchPhase (p : Name)        -- `KeyError` from the phase table
  deriving DecidableEq, Repr

structure RunState where
  σ : Store          -- only the persistent names matter
  next : Name

def findPhase (ps : List Phase) (n : Name) : Option Phase := ps.find? (fun p => p.name == n)

def evOf : Event → Ev
  | .stateComputed t tid comp v => .state t tid comp v

inductive Outcome where
  | completed | failed | raised | stuck
  deriving DecidableEq, Repr

/-- what `run` makes of the store the body of a phase left behind (`@[noinline]`, and the store
    arrives in its box: the compiled driver must not move the execution of the body into the
    closure that represents the next store) -/
@[noinline] def finishStep (ph : Phase) (b : Boxed) : List Ev × Outcome × RunState :=
  let evs := b.σ.log.map evOf
  let σ' := persist b.σ
  match b.σ.status with
  | .running =>
    (evs ++ [.completed (σ'.get "<dt>") (σ'.get "<t>") ph.name ph.next], .completed, ⟨σ', ph.next⟩)
  | .switched p =>
    (evs ++ [.completed (σ'.get "<dt>") (σ'.get "<t>") ph.name p], .completed, ⟨σ', p⟩)
  | .failed => (evs ++ [.failed (σ'.get "<t>")], .failed, ⟨σ', ph.next⟩)
  | .raised e => (evs ++ [.raised e], .raised, ⟨σ', ph.next⟩)

/-- one pass through the body of `run`'s loop, given how the body of the phase is executed -/
def stepWith (body : Phase → Store → Boxed) (ps : List Phase) (s : RunState) : List Ev × Outcome × RunState :=
  match findPhase ps s.next with
  | none => ([.noSuchPhase s.next], .stuck, s)
  | some ph => finishStep ph (body ph (startStep s.σ))

/-- `<t> >= t_end` on the exact values of the model -/
def reached (σ : Store) (tEnd : Option Int) : Bool :=
  match tEnd, σ.get "<t>" with
  | some e, .int t => decide (t ≥ e)
  | _, _ => false

/-- `run(t_end, max_steps)`: at most `fuel` passes through the loop; returns the events and, after
    every pass, the state (what an observer sees after each step) -/
def stopNow (s : RunState) (tEnd : Option Int) (maxSteps : Option Nat) (n : Nat) : Bool :=
  reached s.σ tEnd || (match maxSteps with | some m => decide (n ≥ m) | none => false)

def runLoop (step : RunState → List Ev × Outcome × RunState) (tEnd : Option Int) (maxSteps : Option Nat) :
    Nat → Nat → RunState → List (List Ev × RunState)
  | 0, _, _ => []
  | fuel + 1, n, s =>
    match stopNow s tEnd maxSteps n with
    | true => []
    | false =>
      match step s with
      | (evs, .completed, s') => (evs, s') :: runLoop step tEnd maxSteps fuel (n + 1) s'
      | (evs, .failed, s') => (evs, s') :: runLoop step tEnd maxSteps fuel n s'
      | (evs, .raised, s') => [(evs, s')]
      | (evs, .stuck, s') => [(evs, s')]

/-- the reference: every step carries out the written program in program order -/
def stepRef (F : Funs) (ps : List Phase) : RunState → List Ev × Outcome × RunState :=
  stepWith (fun ph σ => { σ := (seqExec F ph.ops σ).σ }) ps

/-- a back end: every step executes the emitted flat statements in the order `sched` picks -/
def stepFlat (F : Funs) (sched : Phase → List Nat) (ps : List Phase) : RunState → List Ev × Outcome × RunState :=
  stepWith (fun ph σ => { σ := flatExec F (flatStmts ph.ops) (sched ph) σ }) ps

/-! ### a step that is cut short by an exception from a user function (C11)

The statements `pre` (a prefix of the order the back end uses) have been executed when the exception
leaves the step; `run_single_step`'s `finally` discards the per-step variables; the successor was
already stored. -/
def abortedStep (F : Funs) (ph : Phase) (pre : List Nat) (s : RunState) : RunState :=
  ⟨persist (flatExec F (flatStmts ph.ops) pre (startStep s.σ)), ph.next⟩

end Dagrt.StepLoop
