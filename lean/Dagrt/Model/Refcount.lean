/-
Model of the copy-on-write reference-count protocol of the generated Fortran — property C12:
the two routines the generator emits per user type (`dagrt_alloc_check_<type>`,
`dagrt_deinit_<type>`; fortran.py `emit_user_type_alloc_check` / `…_deinit`) and the move emitted
for a plain variable assignment (`emit_user_type_move`: release the assignee, point it and its
reference-count pointer at the source's, increment).  Import-free.

A block of storage is identified by a number; `rc b` is the value of its reference-count cell
(`0` = the block and its cell have been deallocated / never existed); a pointer variable is
`none` (disassociated) or `some b`.
-/
namespace Dagrt.Refcount

structure Heap where
  rc : Nat → Nat
  next : Nat                      -- blocks allocated so far
  vars : List (Option Nat)
  frees : Nat := 0                -- ghost: number of `deallocate(y)` executed

inductive Op where
  | allocCheck (i : Nat)
  | deinit (i : Nat)
  | move (dst src : Nat)
  deriving Repr, DecidableEq

inductive MemErr where
  | badVar            -- not a declared pointer variable (cannot happen in emitted code)
  | nullSource        -- move from a disassociated pointer: `refcnt = refcnt + 1` on a null pointer
  | selfMove
  deriving Repr, DecidableEq

def Heap.setRc (h : Heap) (b n : Nat) : Heap := { h with rc := fun x => if x = b then n else h.rc x }

def Heap.alloc (h : Heap) (i : Nat) : Heap :=
  { h with rc := fun x => if x = h.next then 1 else h.rc x, next := h.next + 1, vars := h.vars.set i (some h.next) }

/-- `call dagrt_alloc_check_T(v, refcnt)` -/
def allocCheck (h : Heap) (i : Nat) : Except MemErr Heap :=
  match h.vars[i]? with
  | none => .error .badVar
  | some none => .ok (h.alloc i)
  | some (some b) =>
    if h.rc b ≠ 1 then
      -- someone else holds the block as well: give up our reference, take a fresh block
      .ok ((h.setRc b (h.rc b - 1)).alloc i)
    else .ok h

/-- `call dagrt_deinit_T(v, refcnt)` -/
def deinit (h : Heap) (i : Nat) : Except MemErr Heap :=
  match h.vars[i]? with
  | none => .error .badVar
  | some none => .ok h
  | some (some b) =>
    if h.rc b = 1 then
      .ok { (h.setRc b 0) with vars := h.vars.set i none, frees := h.frees + 1 }
    else
      .ok { (h.setRc b (h.rc b - 1)) with vars := h.vars.set i none }

/-- `emit_user_type_move`: `dst <- src` -/
def move (h : Heap) (dst src : Nat) : Except MemErr Heap :=
  if dst = src then .error .selfMove
  else
    match deinit h dst with
    | .error e => .error e
    | .ok h1 =>
      match h1.vars[src]? with
      | none => .error .badVar
      | some none => .error .nullSource
      | some (some b) => .ok { (h1.setRc b (h1.rc b + 1)) with vars := h1.vars.set dst (some b) }

def step (h : Heap) : Op → Except MemErr Heap
  | .allocCheck i => allocCheck h i
  | .deinit i => deinit h i
  | .move d s => move h d s

def run (h : Heap) : List Op → Except MemErr Heap
  | [] => .ok h
  | op :: ops =>
    match step h op with
    | .error e => .error e
    | .ok h' => run h' ops

def Heap.init (n : Nat) : Heap := { rc := fun _ => 0, next := 0, vars := List.replicate n none }

/-- releasing every variable (exit label of a phase subroutine / `shutdown`) -/
def deinitAll (h : Heap) : Nat → Except MemErr Heap
  | 0 => .ok h
  | n + 1 =>
    match deinitAll h n with
    | .error e => .error e
    | .ok h' => deinit h' n

end Dagrt.Refcount
