/-
Model of `dagrt.data`: kinds, `unify`, `SymbolKindTable.set`, `KindInferenceMapper`,
`SymbolKindFinder.__call__` — properties C14 and C09.  Import-free.
-/
import Dagrt.Model.Expr
namespace Dagrt.Kinds
open Dagrt

inductive Kind where
  | boolean | integer
  | scalar (real : Bool)
  | array (real : Bool)
  | user (id : String)
  deriving DecidableEq, Repr, Inhabited

/-- the Python exceptions that can leave the modelled code -/
inductive KErr where
  | valueError | assertion | unable | typeError | runtimeError | functionNotFound
  | attributeError | unsupported | noneKind
  deriving DecidableEq, Repr, Inhabited

/-- `dagrt.data.unify` clause by clause (`None` = not yet known) -/
def unify : Option Kind → Option Kind → Except KErr (Option Kind)
  | none, b => .ok b
  | a, none => .ok a
  | some .boolean, some _ => .error .valueError
  | some _, some .boolean => .error .valueError
  | some (.user i), some (.user j) => if i = j then .ok (some (.user i)) else .error .valueError
  | some (.user i), some (.scalar _) => .ok (some (.user i))
  | some (.user i), some .integer => .ok (some (.user i))
  | some (.user _), some (.array _) => .error .assertion
  | some (.array r), some (.array r') => .ok (some (.array (r && r')))
  | some (.array r), some (.scalar r') => .ok (some (.array (r && r')))
  | some (.array r), some .integer => .ok (some (.array r))
  | some (.array _), some (.user _) => .error .assertion
  | some (.scalar _), some (.user j) => .ok (some (.user j))
  | some (.scalar r), some (.array r') => .ok (some (.array (r && r')))
  | some (.scalar r), some .integer => .ok (some (.scalar r))
  | some (.scalar r), some (.scalar r') => .ok (some (.scalar (r && r')))
  | some .integer, some (.user j) => .ok (some (.user j))
  | some .integer, some (.scalar r) => .ok (some (.scalar r))
  | some .integer, some (.array r) => .ok (some (.array r))
  | some .integer, some .integer => .ok (some .integer)

/-- unification on known kinds -/
def unifyK (a b : Kind) : Except KErr Kind :=
  match unify (some a) (some b) with
  | .ok (some k) => .ok k
  | .ok none => .error .noneKind
  | .error e => .error e

/-! ## symbol table -/

/-- `dagrt.utils.is_state_variable` -/
def isState (n : Name) : Bool :=
  n == "<t>" || n == "<dt>" || n.startsWith "<state>" || n.startsWith "<p>"
  || n.startsWith "<ret_time_id>" || n.startsWith "<ret_time>" || n.startsWith "<ret_state>"

/-- scope of a name: "" (global table) for state variables, else the phase -/
def scope (phase : Name) (n : Name) : Name := bif isState n then "" else phase

structure Table where
  entries : List ((Name × Name) × Kind)   -- ((scope, name), kind), insertion order irrelevant
  changed : Bool
  deriving Repr, Inhabited

def Table.init : Table :=
  { entries := [(("", "<t>"), .scalar true), (("", "<dt>"), .scalar true)], changed := false }

def lookupE (es : List ((Name × Name) × Kind)) (k : Name × Name) : Option Kind :=
  match es with
  | [] => none
  | (k', v) :: r => if k' = k then some v else lookupE r k

def updateE (es : List ((Name × Name) × Kind)) (k : Name × Name) (v : Kind) :
    List ((Name × Name) × Kind) :=
  match es with
  | [] => [(k, v)]
  | (k', v') :: r => if k' = k then (k, v) :: r else (k', v') :: updateE r k v

def Table.get (t : Table) (phase n : Name) : Option Kind := lookupE t.entries (scope phase n, n)

/-- `SymbolKindTable.set`: first kind wins; later kinds are unified in; a failed
    unification is printed and ignored; a change (or a new entry) raises the flag -/
def Table.set (t : Table) (phase n : Name) (k : Kind) : Table :=
  let key := (scope phase n, n)
  match lookupE t.entries key with
  | none => { entries := updateE t.entries key k, changed := true }
  | some old =>
    if old = k then t
    else match unifyK k old with
      | .error _ => t
      | .ok k' => if old = k' then t else { entries := updateE t.entries key k', changed := true }

/-! ## expression rules (`KindInferenceMapper`); `chk` is its `check` flag: `false` in the
    work-list loop, `true` in the final consistency pass -/

/-- result kinds of a registered function for the `check` flag, positional and keyword argument kinds;
    `.error` = any exception from `get_result_kinds`; `none` = function not registered -/
abbrev Registry := Name → Option (Bool → List (Option Kind) → List (Name × Option Kind) → Except KErr (List Kind))

/-- variable lookup of the mapper: global table first, then the phase's table -/
def lookupVar (t : Table) (phase n : Name) : Option Kind :=
  match lookupE t.entries ("", n) with
  | some k => some k
  | none => lookupE t.entries (phase, n)

def isRealValued : Kind → Except KErr Bool
  | .scalar r => .ok r
  | .array r => .ok r
  | _ => .error .attributeError

mutual
def infer (chk : Bool) (reg : Registry) (t : Table) (phase : Name) : Expr → Except KErr Kind
  | .const (.cplx _) => .ok (.scalar false)
  | .const (.bool _) => .ok .boolean
  | .const _ => .ok (.scalar true)
  | .var n => match lookupVar t phase n with
      | some k => .ok k
      | none => .error .unable
  | .sum cs => match inferSum chk reg t phase cs none with
      | .error e => .error e
      | .ok none => .error .unable
      | .ok (some k) => .ok k
  | .prod cs => match inferProd chk reg t phase cs none with
      | .error e => .error e
      | .ok none => .error .noneKind
      | .ok (some k) => .ok k
  | .quot a b => do
      let ka ← infer chk reg t phase a
      let kb ← infer chk reg t phase b
      unifyK ka kb
  | .pow a b => do
      -- check mode looks at the exponent first: it must be a Scalar or an Integer
      if chk then
        match ← infer chk reg t phase b with
        | .scalar _ => pure ()
        | .integer => pure ()
        | _ => throw .typeError
      let ka ← infer chk reg t phase a
      let kb ← infer chk reg t phase b
      unifyK ka kb
  | .call f args kw =>
      match reg f with
      | none => .error .functionNotFound
      | some fn => do
        let ak ← inferArgs chk reg t phase args
        let kk ← inferKw chk reg t phase kw
        match fn chk ak kk with
        | .error _ => .error .unable
        | .ok [k] => .ok k
        | .ok _ => .error .runtimeError
  | .sub a _ => do
      let ka ← infer chk reg t phase a
      if chk then
        match ka with
        | .array _ => pure ()
        | _ => throw .valueError
      let r ← isRealValued ka
      .ok (.scalar r)
  | .cmp _ _ _ => .ok .boolean
  | .lnot a => do
      let ka ← infer chk reg t phase a
      if chk && ka != .boolean then throw .valueError
      .ok .boolean
  | .land cs => do
      inferAllOk chk reg t phase cs
      .ok .boolean
  | .lor cs => do
      inferAllOk chk reg t phase cs
      .ok .boolean
  | .ite _ _ _ => .error .unsupported
  | .attr _ _ => .error .unsupported
  | .min _ => .ok (.scalar true)
  | .max _ => .ok (.scalar true)
/-- `map_sum`: children that cannot be inferred are skipped, except in check mode -/
def inferSum (chk : Bool) (reg : Registry) (t : Table) (phase : Name) : List Expr → Option Kind → Except KErr (Option Kind)
  | [], acc => .ok acc
  | c :: cs, acc =>
    match infer chk reg t phase c with
    | .error .unable => bif chk then .error .unable else inferSum chk reg t phase cs acc
    | .error e => .error e
    | .ok k => match unify acc (some k) with
      | .error e => .error e
      | .ok acc' => inferSum chk reg t phase cs acc'
/-- `map_product_like` -/
def inferProd (chk : Bool) (reg : Registry) (t : Table) (phase : Name) : List Expr → Option Kind → Except KErr (Option Kind)
  | [], acc => .ok acc
  | c :: cs, acc =>
    match infer chk reg t phase c with
    | .error e => .error e
    | .ok k => match unify acc (some k) with
      | .error e => .error e
      | .ok acc' => inferProd chk reg t phase cs acc'
def inferAllOk (chk : Bool) (reg : Registry) (t : Table) (phase : Name) : List Expr → Except KErr Unit
  | [] => .ok ()
  | c :: cs => match infer chk reg t phase c with
    | .error e => .error e
    | .ok k => if chk && k != .boolean then .error .valueError else inferAllOk chk reg t phase cs
/-- argument kinds: `UnableToInferKind` becomes `None` -/
def inferArgs (chk : Bool) (reg : Registry) (t : Table) (phase : Name) : List Expr → Except KErr (List (Option Kind))
  | [] => .ok []
  | c :: cs =>
    match infer chk reg t phase c with
    | .error .unable => do let r ← inferArgs chk reg t phase cs; .ok (none :: r)
    | .error e => .error e
    | .ok k => do let r ← inferArgs chk reg t phase cs; .ok (some k :: r)
def inferKw (chk : Bool) (reg : Registry) (t : Table) (phase : Name) : List (Name × Expr) → Except KErr (List (Name × Option Kind))
  | [] => .ok []
  | (n, c) :: cs =>
    match infer chk reg t phase c with
    | .error .unable => do let r ← inferKw chk reg t phase cs; .ok ((n, none) :: r)
    | .error e => .error e
    | .ok k => do let r ← inferKw chk reg t phase cs; .ok ((n, some k) :: r)
end

/-- `map_generic_call(..., single_return_only=False)` -/
def inferCall (chk : Bool) (reg : Registry) (t : Table) (phase : Name) (f : Name)
    (args : List Expr) (kw : List (Name × Expr)) : Except KErr (List Kind) :=
  match reg f with
  | none => .error .functionNotFound
  | some fn => do
    let ak ← inferArgs chk reg t phase args
    let kk ← inferKw chk reg t phase kw
    match fn chk ak kk with
    | .error _ => .error .unable
    | .ok ks => .ok ks

/-! ## statements and the work-list loop (`SymbolKindFinder.__call__`) -/

inductive KStmt where
  /-- `Assign`: assignee, has a subscript, rhs as written, `flatten(rhs)`, loop identifiers -/
  | assign (lhs : Name) (hasSub : Bool) (rhs rhsFlat : Expr) (loops : List Name)
  /-- `AssignFunctionCall` -/
  | callAssign (lhs : List Name) (f : Name) (args : List Expr) (kw : List (Name × Expr))
  | other
  deriving Repr, Inhabited

def setLoops (t : Table) (phase : Name) : List Name → Table
  | [] => t
  | i :: is => setLoops (t.set phase i .integer) phase is

def setZip (t : Table) (phase : Name) : List Name → List Kind → Table
  | n :: ns, k :: ks => setZip (t.set phase n k) phase ns ks
  | _, _ => t

/-- outcome of processing one popped statement -/
inductive Outcome where
  | done (t : Table)       -- kind obtained and entered (`made_progress = True`)
  | skipped (t : Table)    -- nothing to infer for this statement
  | retry (t : Table)      -- `UnableToInferKind`: pushed onto the buffer
  | fail (e : KErr)

def processStmt (reg : Registry) (t : Table) (phase : Name) : KStmt → Outcome
  | .assign lhs hasSub _ flat loops =>
    let t := setLoops t phase loops
    bif hasSub then .skipped t
    else match infer false reg t phase flat with
      | .error .unable => .retry t
      | .error e => .fail e
      | .ok k => .done (t.set phase lhs k)
  | .callAssign lhs f args kw =>
    match inferCall false reg t phase f args kw with
    | .error .unable => .retry t
    | .error e => .fail e
    | .ok ks => .done (setZip t phase lhs ks)
  | .other => .skipped t

/-- one sweep: `queue` is popped from its END (Python `list.pop()`), statements that
    cannot be inferred yet go to `buffer`; when the queue is empty the buffer becomes
    the queue, unless no progress was made (RuntimeError "failed to infer kinds") -/
def sweep (reg : Registry) : Nat → Table → List (Name × KStmt) → List (Name × KStmt) → Bool → Except KErr Table
  | 0, _, _, _, _ => .error .runtimeError   -- fuel exhausted (never with enough fuel)
  | fuel+1, t, queue, buffer, progress =>
    match queue.reverse with
    | [] =>
      match buffer with
      | [] => .ok t
      | _ => bif progress then sweep reg fuel t buffer [] false else .error .runtimeError
    | (ph, s) :: restRev =>
      match processStmt reg t ph s with
      | .done t' => sweep reg fuel t' restRev.reverse buffer true
      | .skipped t' => sweep reg fuel t' restRev.reverse buffer progress
      | .retry t' => sweep reg fuel t' restRev.reverse (buffer ++ [(ph, s)]) progress
      | .fail e => .error e

def sweepFuel (n : Nat) : Nat := (n + 1) * (n + 2) + 2

def outer (reg : Registry) (prog : List (Name × KStmt)) : Nat → Table → Except KErr Table
  | 0, _ => .error .runtimeError
  | fuel+1, t =>
    match sweep reg (sweepFuel prog.length) { t with changed := false } prog [] false with
    | .error e => .error e
    | .ok t' => bif t'.changed then outer reg prog fuel t' else .ok t'

/-- final consistency pass in check mode (expressions as written, results discarded) -/
def finalCheck (reg : Registry) (t : Table) : List (Name × KStmt) → Except KErr Unit
  | [] => .ok ()
  | (ph, .assign _ _ rhs _ _) :: r =>
    match infer true reg t ph rhs with
    | .error e => .error e
    | .ok _ => finalCheck reg t r
  | (ph, .callAssign lhs f args kw) :: r =>
    match inferCall true reg t ph f args kw with
    | .error e => .error e
    | .ok ks =>
      -- `len(func.result_names) != len(stmt.assignees)`; in the modelled registry a function
      -- has as many result names as result kinds
      bif ks.length != lhs.length then .error .valueError else finalCheck reg t r
  | (_, .other) :: r => finalCheck reg t r

def countNames (prog : List (Name × KStmt)) : Nat :=
  prog.foldl (fun n (_, s) => match s with
    | .assign _ _ _ _ loops => n + 1 + loops.length
    | .callAssign lhs _ _ _ => n + lhs.length
    | .other => n) 0

/-- `SymbolKindFinder.__call__(names, phases)` with the statements of all phases
    concatenated in the order given -/
def inferAll (reg : Registry) (prog : List (Name × KStmt)) : Except KErr Table := do
  let t ← outer reg prog (4 * countNames prog + 4) Table.init
  finalCheck reg t prog
  .ok t

end Dagrt.Kinds
