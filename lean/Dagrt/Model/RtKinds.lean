/-
Run-time kinds: the model of Python/NumPy dynamic typing that C09 compares the inferred kinds
with.  `Rt` = the kind of a VALUE the interpreter holds (`type(value)` mapped by the harness);
`rtEval` = how the evaluator combines them; `compat v k` = "a value of run-time kind `v` is of
(declared) kind `k`": an int is fine where a real scalar is declared, a real where a complex one
is, never a complex where real is claimed.
-/
import Dagrt.Model.Builtins
namespace Dagrt.Kinds
open Dagrt

inductive Rt where
  | bool
  | int
  | real
  | cplx
  | arr (complex : Bool)
  | user (id : String)
  | none                 -- Python `None` / a tuple / anything without a kind
  | err                  -- the evaluation raises (TypeError …): no value
  deriving DecidableEq, Repr, Inhabited

def compat : Rt → Kind → Bool
  | .bool, .boolean => true
  | .int, .integer => true
  | .int, .scalar _ => true
  | .real, .scalar _ => true
  | .cplx, .scalar r => !r
  | .arr c, .array r => !(c && r)
  | .user i, .user j => i == j
  -- a variable of array / user-type kind may hold a scalar (broadcast initialisation such as
  -- `acc <- 0` followed by `acc <- acc + vec`): scalars are below arrays and user types in the
  -- information order of `unify`
  | .int, .array _ => true
  | .real, .array _ => true
  | .cplx, .array r => !r
  | .int, .user _ => true
  | .real, .user _ => true
  | .cplx, .user _ => true
  | _, _ => false

/-- arithmetic combination (`+`, `*`): the numeric tower, arrays absorb scalars, user types
    absorb scalars; flags are ints for Python, but mixing them with numbers is not modelled -/
def Rt.arith : Rt → Rt → Rt
  | .int, .int => .int
  | .int, .real => .real | .real, .int => .real | .real, .real => .real
  | .int, .cplx => .cplx | .cplx, .int => .cplx | .real, .cplx => .cplx | .cplx, .real => .cplx
  | .cplx, .cplx => .cplx
  | .arr c, .int => .arr c | .int, .arr c => .arr c
  | .arr c, .real => .arr c | .real, .arr c => .arr c
  | .arr _, .cplx => .arr true | .cplx, .arr _ => .arr true
  | .arr c, .arr d => .arr (c || d)
  | .user i, .int => .user i | .int, .user i => .user i
  | .user i, .real => .user i | .real, .user i => .user i
  | .user i, .cplx => .user i | .cplx, .user i => .user i
  | .user i, .user j => if i = j then .user i else .err
  | _, _ => .err

/-- `min`/`max` of two values: only ordered scalars; Python returns one of its arguments -/
def Rt.ord : Rt → Rt → Rt
  | .int, .int => .int
  | .int, .real => .real | .real, .int => .real | .real, .real => .real
  | _, _ => .err

/-- true division: ints become reals -/
def Rt.div (a b : Rt) : Rt :=
  match a.arith b with
  | .int => .real
  | x => x

/-- run-time result kinds of a call: built-ins as implemented in `builtins_python.py`, user
    functions as declared to the harness -/
abbrev RtFuns := Name → List Rt → List (Name × Rt) → List Rt

mutual
def rtEval (F : RtFuns) (ρ : Name → Rt) : Expr → Rt
  | .const (.int _) => .int
  | .const (.bool _) => .bool
  | .const (.float _) => .real
  | .const (.cplx _) => .cplx
  | .const _ => .none
  | .var x => ρ x
  | .sum cs => rtFold F ρ .int cs            -- `sum()` starts from the int 0
  | .prod cs => rtFold F ρ .int cs           -- `product()` starts from the int 1
  | .quot a b => (rtEval F ρ a).div (rtEval F ρ b)
  | .pow a b => (rtEval F ρ a).arith (rtEval F ρ b)   -- under the `NoNegativePower` hypotheses of C09
  | .call f args kw =>
    match F f (rtEvalL F ρ args) (rtEvalK F ρ kw) with
    | [r] => r
    | _ => .none
  | .sub a _ =>
    match rtEval F ρ a with
    | .arr c => bif c then .cplx else .real
    | _ => .err
  | .attr a _ => rtEval F ρ a
  | .cmp _ a b =>
    match rtEval F ρ a, rtEval F ρ b with
    | .err, _ => .err
    | _, .err => .err
    | _, _ => .bool
  | .lnot _ => .bool
  | .land _ => .bool
  | .lor _ => .bool
  | .ite _ t e =>
    -- one of the branches: the weaker of the two claims
    let a := rtEval F ρ t
    let b := rtEval F ρ e
    if a = b then a else a.arith b
  | .min cs => rtFold1 F ρ cs
  | .max cs => rtFold1 F ρ cs
def rtFold (F : RtFuns) (ρ : Name → Rt) (acc : Rt) : List Expr → Rt
  | [] => acc
  | c :: cs => rtFold F ρ (acc.arith (rtEval F ρ c)) cs
def rtFold1 (F : RtFuns) (ρ : Name → Rt) : List Expr → Rt
  | [] => .err
  | [c] => (rtEval F ρ c).ord (rtEval F ρ c)
  | c :: cs => (rtEval F ρ c).ord (rtFold1 F ρ cs)
def rtEvalL (F : RtFuns) (ρ : Name → Rt) : List Expr → List Rt
  | [] => []
  | c :: cs => rtEval F ρ c :: rtEvalL F ρ cs
def rtEvalK (F : RtFuns) (ρ : Name → Rt) : List (Name × Expr) → List (Name × Rt)
  | [] => []
  | (k, c) :: cs => (k, rtEval F ρ c) :: rtEvalK F ρ cs
end

def rtBind (names : List Name) (pos : List Rt) (kw : List (Name × Rt)) : List Rt :=
  let rec go : List Name → List Rt → List Rt
    | [], _ => []
    | _ :: ns, p :: ps => p :: go ns ps
    | n :: ns, [] => ((kw.lookup n).getD .err) :: go ns []
  go names pos

/-- what the Python implementations of the built-ins return, by run-time kind of the arguments -/
def rtBuiltin (f : Name) (pos : List Rt) (kw : List (Name × Rt)) : Option (List Rt) :=
  if f = "<builtin>norm_1" ∨ f = "<builtin>norm_2" ∨ f = "<builtin>norm_inf" then
    match rtBind ["x"] pos kw with
    | [.int] => some [.int]            -- `abs(x)` of a Python int
    | [.real] => some [.real] | [.cplx] => some [.real]
    | [.arr _] => some [.real] | [.user _] => some [.real]
    | _ => some [.err]
  else if f = "<builtin>len" then some [.int]
  else if f = "<builtin>isnan" then
    match rtBind ["x"] pos kw with
    | [.err] => some [.err] | [.none] => some [.err] | [.bool] => some [.bool]
    | _ => some [.bool]
  else if f = "<builtin>dot_product" then
    match rtBind ["x", "y"] pos kw with
    | [.arr c, .arr d] => some [bif c || d then .cplx else .real]
    | [.user _, .user _] => some [.real]        -- user vectors are real numpy arrays in the harness
    | _ => some [.err]
  else if f = "<builtin>elementwise_abs" then
    match rtBind ["x"] pos kw with
    | [.int] => some [.int] | [.real] => some [.real] | [.cplx] => some [.real]
    | [.arr _] => some [.arr false] | [.user i] => some [.user i]
    | _ => some [.err]
  else if f = "<builtin>matmul" ∨ f = "<builtin>linear_solve" then
    match rtBind ["a", "b", "a_cols", "b_cols"] pos kw with
    | [.arr c, .arr d, .int, .int] => some [.arr (c || d)]
    | _ => some [.err]
  else if f = "<builtin>transpose" then
    match rtBind ["a", "a_cols"] pos kw with
    | [.arr c, .int] => some [.arr c]
    | _ => some [.err]
  else if f = "<builtin>array" then
    match rtBind ["n"] pos kw with
    | [.int] => some [.arr false] | [.bool] => some [.arr false]    -- `numpy.empty(n)` wants an integer
    | _ => some [.err]
  else none


/-! ### call statements (`exec_AssignFunctionCall`) -/

/-- `for assignee, res in zip(assignees, results): context[assignee] = res` -/
def assignZip (ρ : Name → Rt) : List Name → List Rt → (Name → Rt)
  | x :: xs, r :: rs => assignZip (fun y => if y = x then r else ρ y) xs rs
  | _, _ => ρ

/-- what the interpreter stores for `assignees <- f(args, kw)`: nothing for no assignee; for ONE
    assignee the whole result - the value of a single-result function, the TUPLE (`Rt.none`: a value
    without a kind) of a multi-result one; otherwise `assert len(results) == len(assignees)` (a failed
    assertion stores nothing) and the results one by one -/
def execCallRt (F : RtFuns) (ρ : Name → Rt) (lhs : List Name) (f : Name) (args : List Expr)
    (kw : List (Name × Expr)) : Name → Rt :=
  let rs := F f (rtEvalL F ρ args) (rtEvalK F ρ kw)
  match lhs with
  | [] => ρ
  | [x] => fun y => if y = x then (match rs with | [r] => r | _ => .none) else ρ y
  | _ => if rs.length = lhs.length then assignZip ρ lhs rs else ρ

end Dagrt.Kinds
