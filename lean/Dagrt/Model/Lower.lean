/-
Model of `dagrt.codegen.dag_ast.create_ast_from_phase` (topological sort by an iterative
depth-first search over sorted ids, per-statement wrapping, then `simplify_ast`) — property C05.
Statement ids are numbered by the harness in the order of Python's `sorted` on the id
strings, so `Nat` order is the order the code sorts by.  Import-free apart from the models
it composes.
-/
import Dagrt.Model.Basic
import Dagrt.Model.Simplify
import Dagrt.Model.Verify
namespace Dagrt.Lower
open Dagrt.Simplify

structure LStmt where
  id : Nat
  deps : List Nat          -- the `depends_on` frozenset in any order (it is sorted before use)
  isNop : Bool
  cond : Option Cond       -- `none` = the statement's condition is `True`
  loops : List Nat         -- loop descriptors (identifier, lower, upper), outermost first
  deriving Repr, Inhabited

abbrev Phase := List LStmt

/-- `statement_map = {inst.id: inst for inst in phase.statements}` (last one wins) -/
def lookup : Phase → Nat → Option LStmt
  | [], _ => none
  | s :: r, i =>
    match lookup r i with
    | some t => some t
    | none => if s.id = i then some s else none

def insertSorted (x : Nat) : List Nat → List Nat
  | [] => [x]
  | y :: ys => if x ≤ y then x :: y :: ys else y :: insertSorted x ys

/-- Python's `sorted` on a list of distinct ids -/
def isort : List Nat → List Nat
  | [] => []
  | x :: xs => insertSorted x (isort xs)

def ids (p : Phase) : List Nat := p.map (·.id)
def allDeps (p : Phase) : List Nat := p.flatMap (·.deps)

/-- `sorted(phase.depends_on)`: the ids no statement depends on -/
def sinks (p : Phase) : List Nat := isort ((ids p).eraseDups.filter (fun i => !(allDeps p).contains i))

def sortedDeps (p : Phase) (i : Nat) : List Nat :=
  match lookup p i with
  | some s => isort s.deps
  | none => []

abbrev St := Dagrt.Verify.St

inductive TRes where
  | done (order : List Nat)
  | keyError                    -- `statement_map[statement]` failed
  | running (s : St)

/-- one iteration of the `while stack:` loop (head of `stack` = Python's `stack[-1]`) -/
def tstep (p : Phase) (s : St) : TRes :=
  match s.stack with
  | [] => .done s.order
  | top :: rest =>
    if top ∈ s.visited then
      if top ∈ s.visiting then
        .running { stack := rest, visiting := s.visiting.erase top, visited := s.visited, order := s.order ++ [top] }
      else .running { s with stack := rest }
    else
      match lookup p top with
      | none => .keyError
      | some st => .running { stack := (isort st.deps).reverse ++ top :: rest, visiting := top :: s.visiting,
                              visited := top :: s.visited, order := s.order }

inductive LErr where | keyError | outOfFuel | indexError deriving DecidableEq, Repr

def trun (p : Phase) : Nat → St → Except LErr (List Nat)
  | 0, _ => .error .outOfFuel
  | fuel+1, s =>
    match tstep p s with
    | .done o => .ok o
    | .keyError => .error .keyError
    | .running s' => trun p fuel s'

def topoFuel (p : Phase) : Nat :=
  (ids p).length + (sinks p).length + Dagrt.Verify.cost (sortedDeps p) (ids p).eraseDups [] + 1

/-- the topological order computed by `create_ast_from_phase` -/
def topoOrder (p : Phase) : Except LErr (List Nat) :=
  trun p (topoFuel p) { stack := (sinks p).reverse, visiting := [], visited := [], order := [] }

/-! per-statement wrapping: the guard outermost (evaluated once, before the loop bounds — as the
    interpreter does; `fix:` commit), then the loops -/
def wrapLoops : List Nat → Ast → Ast
  | [], a => a
  | v :: vs, a => .loop v (wrapLoops vs a)

def wrap (s : LStmt) : Ast :=
  match s.cond with
  | none => wrapLoops s.loops (.leaf s.id)
  | some c => .ite c (wrapLoops s.loops (.leaf s.id)) .null

def mainBlock (p : Phase) : List Nat → Except LErr (List Ast)
  | [] => .ok []
  | i :: is =>
    match lookup p i with
    | none => .error .keyError
    | some s => do
      let r ← mainBlock p is
      .ok (bif s.isNop then r else wrap s :: r)

/-- `create_ast_from_phase` -/
def createAst (p : Phase) : Except LErr Ast := do
  let order ← topoOrder p
  let blk ← mainBlock p order
  match simplify (.block blk) with
  | .ok a => .ok a
  | .error _ => .error .indexError

end Dagrt.Lower
