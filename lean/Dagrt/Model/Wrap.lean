/-
Model of `dagrt.codegen.utils.split_outside_quotes` and `wrap_line_base` with the Python and
Fortran padding functions — property C20.  Strings are `List Char`.  Import-free.
-/
import Dagrt.Model.Basic
namespace Dagrt.Wrap

abbrev Tok := List Char

def isSpace (c : Char) : Bool := c == ' ' || c == '\t' || c == '\r' || c == '\n'
def isQuote (c : Char) : Bool := c == '\'' || c == '"'

/-- lexer state: finished tokens, current token, open quote, "next char is escaped" -/
structure LS where
  toks : List Tok
  tok : Tok
  quote : Option Char
  escaped : Bool
  deriving Repr, DecidableEq

def LS.init : LS := ⟨[], [], none, false⟩

/-- one character of `split_outside_quotes` -/
def lexStep (esc : Option Char) (s : LS) (c : Char) : LS :=
  match s.quote with
  | some q =>
    if s.escaped then { s with tok := s.tok ++ [c], escaped := false }
    else if some c = esc then { s with tok := s.tok ++ [c], escaped := true }
    else if c = q then { s with tok := s.tok ++ [c], quote := none }
    else { s with tok := s.tok ++ [c] }
  | none =>
    if isQuote c then { s with tok := s.tok ++ [c], quote := some c }
    else if isSpace c then
      (if s.tok = [] then s else { s with toks := s.toks ++ [s.tok], tok := [] })
    else { s with tok := s.tok ++ [c] }

def lexRun (esc : Option Char) (s : LS) (l : List Char) : LS := l.foldl (lexStep esc) s

inductive LexErr where | noClosingQuotation deriving DecidableEq, Repr

/-- `split_outside_quotes(line, escape_char)` -/
def split (esc : Option Char) (line : List Char) : Except LexErr (List Tok) :=
  let s := lexRun esc LS.init line
  match s.quote with
  | some _ => .error .noClosingQuotation
  | none => .ok (if s.tok = [] then s.toks else s.toks ++ [s.tok])

/-- `pad_python` / `pad_fortran`: pad to `width - 1`, then the continuation marker -/
def pad (marker : Char) (line : List Char) (width : Nat) : List Char :=
  line ++ List.replicate (width - 1 - line.length) ' ' ++ [marker]

/-- `" ".join(words)` -/
def joinWords : List Tok → List Char
  | [] => []
  | [w] => w
  | w :: ws => w ++ ' ' :: joinWords ws

/-- The `for index, word in enumerate(tokens)` loop of `wrap_line_base`, as a function from the
    remaining tokens to the lines' token lists: `cur` = the words of current_line (never empty),
    `curLen` = `len(current_line)`, `contLen` = `len(indentation)`, `acc` = finished lines. -/
def chunkLoop (width indentLen contLen : Nat) : List Tok → List Tok → Nat → List (List Tok) → List (List Tok)
  | [], cur, _, acc => acc ++ [cur]
  | w :: ws, cur, curLen, acc =>
    let nextLen := indentLen + curLen + 1 + w.length
    if nextLen < width ∨ (ws = [] ∧ nextLen = width) then
      chunkLoop width indentLen contLen ws (cur ++ [w]) (curLen + 1 + w.length) acc
    else
      chunkLoop width indentLen contLen ws [w] (contLen + w.length) (acc ++ [cur])

def chunks (width indentLen contLen : Nat) : List Tok → List (List Tok)
  | [] => [[]]
  | w :: ws => chunkLoop width indentLen contLen ws [w] w.length []

/-- text of the k-th line before padding: continuation lines start with the indentation -/
def lineText (indent : List Char) (first : Bool) (c : List Tok) : List Char :=
  (bif first then [] else indent) ++ joinWords c

/-- all lines but the last are padded and get the continuation marker -/
def renderLines (marker : Char) (padw : Nat) (indent : List Char) : Bool → List (List Tok) → List (List Char)
  | _, [] => []
  | first, [c] => [lineText indent first c]
  | first, c :: cs => pad marker (lineText indent first c) padw :: renderLines marker padw indent false cs

/-- `wrap_line_base(line, level, width, indentation, pad_func, lex_func)` on the token list -/
def wrapToks (marker : Char) (toks : List Tok) (level width : Nat) (indent : List Char) : List (List Char) :=
  let indentLen := level * indent.length
  renderLines marker (width - indentLen) indent true (chunks width indentLen indent.length toks)

def wrapLine (marker : Char) (esc : Option Char) (line : List Char) (level width : Nat) (indent : List Char) :
    Except LexErr (List (List Char)) :=
  match split esc line with
  | .error e => .error e
  | .ok toks => .ok (wrapToks marker toks level width indent)

end Dagrt.Wrap
