/-
Model of `dagrt.codegen.utils.make_identifier_from_name`, `KeyToUniqueNameMap`,
`pytools.UniqueNameGenerator` (third party: counter regex, numbered candidates),
`PythonNameManager`, `FortranNameManager` — property C13.  Strings are `String`/`List Char`.
-/
import Dagrt.Model.Kinds
namespace Dagrt.Names
open Dagrt

def isAsciiLetter (c : Char) : Bool := ('a' ≤ c && c ≤ 'z') || ('A' ≤ c && c ≤ 'Z')
def isAsciiDigit (c : Char) : Bool := '0' ≤ c && c ≤ '9'
/-- `_ident_chars = set("_" + ascii_letters + digits)` -/
def identChar (c : Char) : Bool := c == '_' || isAsciiLetter c || isAsciiDigit c

/-- `make_identifier_from_name(name, "dagrt_var")` -/
def makeIdentifier (name : List Char) : List Char :=
  let r := (name.map fun c => if identChar c then c else '_').dropWhile (· == '_')
  if r = [] then "dagrt_var".toList else r

/-! ### `pytools.UniqueNameGenerator` -/

structure Gen where
  existing : List (List Char)            -- `existing_names` (for the Fortran generator: lower-cased)
  forcedPrefix : List Char
  counters : List (List Char × Nat)      -- `prefix_to_counter`
  caseless : Bool                        -- the Fortran manager's case-insensitive subclass
  deriving Repr

def lowerChar (c : Char) : Char := if 'A' ≤ c ∧ c ≤ 'Z' then Char.ofNat (c.toNat + 32) else c
def Gen.norm (g : Gen) (n : List Char) : List Char := bif g.caseless then n.map lowerChar else n

def Gen.conflicting (g : Gen) (n : List Char) : Bool := g.existing.contains (g.norm n)
def Gen.addName (g : Gen) (n : List Char) : Gen := { g with existing := g.norm n :: g.existing }

def digitsToNat (ds : List Char) : Nat := ds.foldl (fun n c => 10 * n + (c.toNat - '0'.toNat)) 0

/-- `^(?P<based_on>\w+)_(?P<counter>\d+)$` on ASCII text: the split is at the last underscore -/
def counterMatch (s : List Char) : Option (List Char × Nat) :=
  let rev := s.reverse
  let digitsRev := rev.takeWhile isAsciiDigit
  let restRev := rev.dropWhile isAsciiDigit
  match restRev with
  | '_' :: baseRev =>
    if digitsRev ≠ [] ∧ baseRev ≠ [] ∧ baseRev.all identChar then
      some (baseRev.reverse, digitsToNat digitsRev.reverse)
    else none
  | _ => none

def numbered (base : List Char) (k : Nat) : List Char := base ++ '_' :: (toString k).toList

/-- first non-conflicting candidate among `base_k, base_{k+1}, …` → (next counter, name) -/
def searchFrom (g : Gen) (base : List Char) : Nat → Nat → Option (Nat × List Char)
  | 0, _ => none
  | fuel+1, k =>
    let nm := numbered base k
    if g.conflicting nm then searchFrom g base fuel (k + 1) else some (k + 1, nm)

def setCounter (cs : List (List Char × Nat)) (b : List Char) (k : Nat) : List (List Char × Nat) :=
  (b, k) :: cs.filter (fun p => p.1 != b)

/-- `UniqueNameGenerator.__call__(based_on)` -/
def Gen.call (g : Gen) (basedOn : List Char) : Option (Gen × List Char) :=
  let b0 := g.forcedPrefix ++ basedOn
  let fuel := g.existing.length + 2
  let finish := fun (b : List Char) (r : Option (Nat × List Char)) =>
    match r with
    | none => none
    | some (k, nm) => some ({ g with counters := setCounter g.counters b k }.addName nm, nm)
  match g.counters.lookup b0 with
  | some c => finish b0 (searchFrom g b0 fuel c)
  | none =>
    match counterMatch b0 with
    | some (b, c) => finish b (searchFrom g b fuel c)
    | none =>
      if g.conflicting b0 then finish b0 (searchFrom g b0 fuel 0)
      else finish b0 (some (0, b0))

/-! ### `KeyToUniqueNameMap` (the generator may be shared, so it is passed in and out) -/

abbrev KeyMap := List (String × List Char)

def KeyMap.get (m : KeyMap) (k : String) : Option (List Char) := m.lookup k

/-- `get_or_make_name_for_key(key, prefix)` -/
def getOrMake (m : KeyMap) (g : Gen) (key : String) (pfx : Option String) : Option (KeyMap × Gen × List Char) :=
  match m.get key with
  | some n => some (m, g, n)
  | none =>
    let seed := (pfx.getD "") ++ key
    match g.call (makeIdentifier seed.toList) with
    | none => none
    | some (g', n) => some ((key, n) :: m, g', n)

/-! ### the two name managers -/

structure PyNames where
  localM : KeyMap
  localG : Gen
  globalM : KeyMap
  globalG : Gen
  funcM : KeyMap
  funcG : Gen

def PyNames.init : PyNames :=
  { localM := [], localG := ⟨[], "local".toList, [], false⟩,
    globalM := [("<t>", "self.t".toList), ("<dt>", "self.dt".toList)],
    globalG := ⟨[], "self.global_".toList, [], false⟩,
    funcM := [], funcG := ⟨[], "self._functions.".toList, [], false⟩ }

inductive NameOp where
  | var (n : String)        -- `name_manager[n]`
  | func (n : String)       -- `name_function(n)`
  | unique (pfx : String)   -- Fortran only: `make_unique_fortran_name(pfx)`
  | refcount (n : String)   -- Fortran only: `name_refcount(n)` (unqualified part)
  deriving Repr

def PyNames.step (s : PyNames) : NameOp → Option (PyNames × List Char)
  | .var n =>
    if Dagrt.Kinds.isState n then
      match getOrMake s.globalM s.globalG n none with
      | some (m, g, r) => some ({ s with globalM := m, globalG := g }, r)
      | none => none
    else
      match getOrMake s.localM s.localG n none with
      | some (m, g, r) => some ({ s with localM := m, localG := g }, r)
      | none => none
  | .func n =>
    match getOrMake s.funcM s.funcG n none with
    | some (m, g, r) => some ({ s with funcM := m, funcG := g }, r)
    | none => none
  | _ => none

structure FNames where
  gen : Gen                 -- ONE generator shared by the three maps
  localM : KeyMap
  globalM : KeyMap
  funcM : KeyMap

def FNames.init : FNames :=
  let g : Gen := ⟨[], [], [], true⟩
  { gen := (g.addName "dagrt_t".toList).addName "dagrt_dt".toList,
    localM := [], globalM := [("<t>", "dagrt_t".toList), ("<dt>", "dagrt_dt".toList)], funcM := [] }

def FNames.nameLocal (s : FNames) (v : String) : Option (FNames × List Char) :=
  let pfx : Option String := if v.startsWith "dagrt_" then none else some "lploc_"
  match getOrMake s.localM s.gen v pfx with
  | some (m, g, r) => some ({ s with localM := m, gen := g }, r)
  | none => none

def FNames.nameGlobal (s : FNames) (v : String) : Option (FNames × List Char) :=
  match getOrMake s.globalM s.gen v none with
  | some (m, g, r) => some ({ s with globalM := m, gen := g }, r)
  | none => none

def FNames.step (s : FNames) : NameOp → Option (FNames × List Char)
  | .var n =>
    if Dagrt.Kinds.isState n then
      match s.nameGlobal n with
      | some (s', r) => some (s', "dagrt_state%".toList ++ r)
      | none => none
    else s.nameLocal n
  | .func n =>
    match getOrMake s.funcM s.gen n none with
    | some (m, g, r) => some ({ s with funcM := m, gen := g }, r)
    | none => none
  | .unique p =>
    match s.gen.call (makeIdentifier ("drtf_" ++ p).toList) with
    | some (g, r) => some ({ s with gen := g }, r)
    | none => none
  | .refcount n =>
    if Dagrt.Kinds.isState n then
      match s.nameGlobal n with
      | some (s', r) => some (s', "dagrt_refcnt_".toList ++ r)
      | none => none
    else s.nameLocal ("dagrt_refcnt_" ++ n)

end Dagrt.Names
