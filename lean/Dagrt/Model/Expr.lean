import Dagrt.Model.Basic
/-
Shared expression type of the models (DESIGN.md section 4): the pymbolic
expression classes that the dagrt language uses.  Import-free.
-/
namespace Dagrt

abbrev Name := String

/-- Python constants that can occur in expressions.  Non-integral floats and
    complex numbers are opaque (their text is kept for printing only). -/
inductive Const where
  | int (n : Int)
  | bool (b : Bool)
  | float (repr : String)
  | cplx (repr : String)
  | str (s : String)
  | none
  deriving DecidableEq, Repr, Inhabited

inductive Expr where
  | const (c : Const)
  | var (n : Name)
  | sum (cs : List Expr)
  | prod (cs : List Expr)
  | quot (a b : Expr)
  | pow (a b : Expr)
  | call (f : Name) (args : List Expr) (kw : List (Name × Expr))
  | sub (agg idx : Expr)
  | attr (agg : Expr) (name : String)     -- pymbolic `Lookup`: `agg.name`
  | cmp (op : String) (a b : Expr)
  | lnot (a : Expr)
  | land (cs : List Expr)
  | lor (cs : List Expr)
  | ite (c t e : Expr)
  | min (cs : List Expr)
  | max (cs : List Expr)
  deriving Repr, Inhabited

namespace Expr

mutual
def size : Expr → Nat
  | .const _ => 1
  | .var _ => 1
  | .sum cs => 1 + sizeL cs
  | .prod cs => 1 + sizeL cs
  | .quot a b => 1 + a.size + b.size
  | .pow a b => 1 + a.size + b.size
  | .call _ args kw => 1 + sizeL args + sizeK kw
  | .sub a i => 1 + a.size + i.size
  | .attr a _ => 1 + a.size
  | .cmp _ a b => 1 + a.size + b.size
  | .lnot a => 1 + a.size
  | .land cs => 1 + sizeL cs
  | .lor cs => 1 + sizeL cs
  | .ite c t e => 1 + c.size + t.size + e.size
  | .min cs => 1 + sizeL cs
  | .max cs => 1 + sizeL cs
def sizeL : List Expr → Nat
  | [] => 0
  | e :: es => e.size + sizeL es
def sizeK : List (Name × Expr) → Nat
  | [] => 0
  | (_, e) :: es => e.size + sizeK es
end

/-! structural (Boolean) equality, as Python `==` on pymbolic expressions -/
mutual
def beq : Expr → Expr → Bool
  | .const a, .const b => a == b
  | .var a, .var b => a == b
  | .sum a, .sum b => beqL a b
  | .prod a, .prod b => beqL a b
  | .quot a1 a2, .quot b1 b2 => beq a1 b1 && beq a2 b2
  | .pow a1 a2, .pow b1 b2 => beq a1 b1 && beq a2 b2
  | .call f a k, .call g b l => f == g && beqL a b && beqK k l
  | .sub a1 a2, .sub b1 b2 => beq a1 b1 && beq a2 b2
  | .attr a n, .attr b m => n == m && beq a b
  | .cmp o a1 a2, .cmp p b1 b2 => o == p && beq a1 b1 && beq a2 b2
  | .lnot a, .lnot b => beq a b
  | .land a, .land b => beqL a b
  | .lor a, .lor b => beqL a b
  | .ite a1 a2 a3, .ite b1 b2 b3 => beq a1 b1 && beq a2 b2 && beq a3 b3
  | .min a, .min b => beqL a b
  | .max a, .max b => beqL a b
  | _, _ => false
def beqL : List Expr → List Expr → Bool
  | [], [] => true
  | a :: as, b :: bs => beq a b && beqL as bs
  | _, _ => false
def beqK : List (Name × Expr) → List (Name × Expr) → Bool
  | [], [] => true
  | (k, a) :: as, (l, b) :: bs => k == l && beq a b && beqK as bs
  | _, _ => false
end

instance : BEq Expr := ⟨beq⟩

end Expr
end Dagrt
