/-
Model of `dagrt.transform.fuse_two_phases` / `fuse_two_dags` and of pymbolic's
`disambiguate_identifiers` / `fuse_statement_streams_with_unique_ids` (third party, modelled)
— property C16.  Uses the statement model of C08 and the name generator model of C13.
-/
import Dagrt.Model.Stmt
import Dagrt.Model.Names
namespace Dagrt.Fuse
open Dagrt Dagrt.Sem Dagrt.Names

/-! renaming of variables: `SubstitutionMapper(make_subst_func(subst))` (function symbols of
    calls are `Variable`s too and are looked up in the same table) -/
mutual
def renameExpr (σ : Name → Name) : Expr → Expr
  | .const c => .const c
  | .var x => .var (σ x)
  | .sum cs => .sum (renameL σ cs)
  | .prod cs => .prod (renameL σ cs)
  | .quot a b => .quot (renameExpr σ a) (renameExpr σ b)
  | .pow a b => .pow (renameExpr σ a) (renameExpr σ b)
  | .call f args kw => .call (σ f) (renameL σ args) (renameK σ kw)
  | .sub a i => .sub (renameExpr σ a) (renameExpr σ i)
  | .attr a n => .attr (renameExpr σ a) n
  | .cmp o a b => .cmp o (renameExpr σ a) (renameExpr σ b)
  | .lnot a => .lnot (renameExpr σ a)
  | .land cs => .land (renameL σ cs)
  | .lor cs => .lor (renameL σ cs)
  | .ite c t e => .ite (renameExpr σ c) (renameExpr σ t) (renameExpr σ e)
  | .min cs => .min (renameL σ cs)
  | .max cs => .max (renameL σ cs)
def renameL (σ : Name → Name) : List Expr → List Expr
  | [] => []
  | c :: cs => renameExpr σ c :: renameL σ cs
def renameK (σ : Name → Name) : List (Name × Expr) → List (Name × Expr)
  | [] => []
  | (k, c) :: cs => (k, renameExpr σ c) :: renameK σ cs
end

def renameLoops (σ : Name → Name) : List (Name × Expr × Expr) → List (Name × Expr × Expr)
  | [] => []
  | (i, a, b) :: r => (σ i, renameExpr σ a, renameExpr σ b) :: renameLoops σ r

/-- `stmt.map_expressions(subst_map)` with `include_lhs=True` (after the `fix:` commits: the
    condition and the loop identifiers are mapped as well) -/
def renameStmt (σ : Name → Name) (s : Stmt) : Stmt :=
  { cond := renameExpr σ s.cond,
    kind := match s.kind with
      | .assign lhs sub rhs loops => .assign (σ lhs) (sub.map (renameExpr σ)) (renameExpr σ rhs) (renameLoops σ loops)
      | .callAssign lhs f args kw => .callAssign (lhs.map σ) (σ f) (renameL σ args) (renameK σ kw)
      | .yield e t tid c => .yield (renameExpr σ e) (renameExpr σ t) tid c
      | k => k }

structure FStmt where
  id : List Char
  deps : List (List Char)
  stmt : Stmt
  deriving Repr

/-- `get_all_used_identifiers` -/
def usedIdents (ss : List FStmt) : List Name := ss.flatMap fun s => declReads s.stmt ++ declWrites s.stmt

/-- the loop over `id_a & id_b` (in the iteration order given): clashing names for which the
    predicate holds get a new name from a generator that knows all names of both methods -/
def disambiguate (pred : Name → Bool) : List Name → Gen → List (Name × Name) → Option (List (Name × Name))
  | [], _, acc => some acc
  | c :: cs, g, acc =>
    if pred c then
      match g.call c.toList with
      | some (g', n) => disambiguate pred cs g' (acc ++ [(c, String.ofList n)])
      | none => none
    else disambiguate pred cs g acc

def applySubst (sub : List (Name × Name)) (x : Name) : Name := (sub.lookup x).getD x

/-- `fuse_statement_streams_with_unique_ids`: new ids for the second stream, then the
    dependencies are translated -/
def renumber : List FStmt → Gen → List (List Char × List Char) → Option (List (List Char × List Char))
  | [], _, acc => some acc
  | b :: bs, g, acc =>
    match g.call b.id with
    | some (g', n) => renumber bs g' (acc ++ [(b.id, n)])
    | none => none

def lookupId (m : List (List Char × List Char)) (i : List Char) : Option (List Char) :=
  -- a dict: the LAST binding of a key wins
  (m.reverse.find? (fun p => p.1 == i)).map (·.2)

def remapDeps (m : List (List Char × List Char)) : List (List Char) → Option (List (List Char))
  | [] => some []
  | d :: ds =>
    match lookupId m d, remapDeps m ds with
    | some d', some r => some (d' :: r)
    | _, _ => none          -- KeyError

def zipIds : List FStmt → List (List Char × List Char) → List FStmt
  | b :: bs, (_, n) :: ms => { b with id := n } :: zipIds bs ms
  | _, _ => []

def remapAll (m : List (List Char × List Char)) : List FStmt → Option (List FStmt)
  | [] => some []
  | b :: bs =>
    match remapDeps m b.deps, remapAll m bs with
    | some d, some r => some ({ b with deps := d } :: r)
    | _, _ => none

/-- `disambiguate_and_fuse(statements_a, statements_b, should_disambiguate_name)`;
    `clashOrder` = iteration order of the set `id_a & id_b` -/
def fuse (pred : Name → Bool) (clashOrder : List Name) (A B : List FStmt) : Option (List FStmt) :=
  let idsAB := usedIdents A ++ usedIdents B
  let vng : Gen := ⟨idsAB.map String.toList, [], [], false⟩
  match disambiguate pred clashOrder vng [] with
  | none => none
  | some sub =>
    let B1 := B.map fun b => { b with stmt := renameStmt (applySubst sub) b.stmt }
    let idGen : Gen := ⟨A.map (·.id), [], [], false⟩
    match renumber B1 idGen [] with
    | none => none
    | some m =>
      match remapAll m (zipIds B1 m) with
      | none => none
      | some B2 => some (A ++ B2)

end Dagrt.Fuse
