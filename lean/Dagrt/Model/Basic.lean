/-! shared by all models -/
namespace Dagrt

instance {ε α : Type} [DecidableEq ε] [DecidableEq α] : DecidableEq (Except ε α) := fun a b =>
  match a, b with
  | .ok x, .ok y => if h : x = y then isTrue (by rw [h]) else isFalse (fun h' => h (by cases h'; rfl))
  | .error x, .error y => if h : x = y then isTrue (by rw [h]) else isFalse (fun h' => h (by cases h'; rfl))
  | .ok _, .error _ => isFalse (fun h => by cases h)
  | .error _, .ok _ => isFalse (fun h => by cases h)


end Dagrt
