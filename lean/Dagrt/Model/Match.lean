/-
Model of `dagrt.expression.match` (C17): the front end, `_ExtendedUnifier` (calls with keyword
arguments, function symbols, unification modulo identity) and the part of pymbolic's
`UnidirectionalUnifier` / `UnifierBase` / `UnificationRecord` it runs on (third party, modelled,
validated by the correspondence run).  Import-free.

Conventions: `pymbolic.flatten` is applied by the harness (third party) - the model receives the
flattened template and target; keyword arguments arrive sorted by key (the code sorts them);
Python sets of child indices iterate in ascending order (true for indices < 8, which the harness
respects); the iteration order of the SET of identity-candidate variables in
`map_modulo_identity` is an input (`vfirst`).  Templates containing and/or/min/max are not
modelled (pymbolic matches them through all permutations of the children): `unsupported`.
-/
import Dagrt.Model.Expr
namespace Dagrt.Match
open Dagrt

/-! ## unification records -/

structure URec where
  lmap : List (Name × Expr)     -- template variable ↦ expression (also: the record's equations)
  rmap : List (Name × Name)     -- target variable ↦ template variable matched with it
  deriving Repr, Inhabited

def lookupE (m : List (Name × Expr)) (x : Name) : Option Expr :=
  match m with
  | [] => none
  | (k, v) :: r => if k = x then some v else lookupE r x

def lookupN (m : List (Name × Name)) (x : Name) : Option Name :=
  match m with
  | [] => none
  | (k, v) :: r => if k = x then some v else lookupN r x

/-- the entries `unify_map(map1, map2)` adds to `map1`, `none` on a conflict -/
def addsE (m1 : List (Name × Expr)) : List (Name × Expr) → Option (List (Name × Expr))
  | [] => some []
  | (n, v) :: r =>
    match lookupE m1 n with
    | some v1 => if v1.beq v then addsE m1 r else none
    | none => match addsE m1 r with
      | some a => some ((n, v) :: a)
      | none => none

def addsN (m1 : List (Name × Name)) : List (Name × Name) → Option (List (Name × Name))
  | [] => some []
  | (n, v) :: r =>
    match lookupN m1 n with
    | some v1 => if v1 = v then addsN m1 r else none
    | none => match addsN m1 r with
      | some a => some ((n, v) :: a)
      | none => none

/-- `UnificationRecord.unify` -/
def URec.unify (a b : URec) : Option URec :=
  match addsE a.lmap b.lmap with
  | none => none
  | some l => match addsN a.rmap b.rmap with
    | none => none
    | some r => some { lmap := a.lmap ++ l, rmap := a.rmap ++ r }

def URec.empty : URec := { lmap := [], rmap := [] }

/-- `UnificationRecord([(Variable(x), e)])` -/
def URec.ofEq (x : Name) (e : Expr) : URec :=
  { lmap := [(x, e)], rmap := match e with | .var y => [(y, x)] | _ => [] }

/-- `dict` assignment -/
def setN (m : List (Name × Name)) (k v : Name) : List (Name × Name) :=
  match m with
  | [] => [(k, v)]
  | (k', v') :: r => if k' = k then (k, v) :: r else (k', v') :: setN r k v

/-- `UnificationRecord(eqns)` for the pre-match equations (distinct names): later equations
    overwrite earlier ones in `rmap` -/
def URec.ofEqs (eqs : List (Name × Expr)) : URec :=
  { lmap := eqs,
    rmap := eqs.foldl (fun m (x, e) => match e with | .var y => setN m y x | _ => m) [] }

def unifyMany (us : List URec) (u : URec) : List URec :=
  us.filterMap (fun u1 => u1.unify u)

/-! ## `flattened_sum` / `flattened_product` -/

def isZero : Expr → Bool
  | .const (.int 0) => true
  | _ => false

def isOne : Expr → Bool
  | .const (.int 1) => true
  | _ => false

mutual
def flatS : Expr → List Expr
  | .sum cs => flatSL cs
  | e => if isZero e then [] else [e]
def flatSL : List Expr → List Expr
  | [] => []
  | c :: cs => flatS c ++ flatSL cs
end

def flattenedSum (terms : List Expr) : Expr :=
  match flatSL terms with
  | [] => .const (.int 0)
  | [x] => x
  | xs => .sum xs

-- `none`: a zero factor was met (the product is the constant 0)
mutual
def flatP : Expr → Option (List Expr)
  | .prod cs => flatPL cs
  | e => if isZero e then none else if isOne e then some [] else some [e]
def flatPL : List Expr → Option (List Expr)
  | [] => some []
  | c :: cs => match flatP c with
    | none => none
    | some a => match flatPL cs with
      | none => none
      | some b => some (a ++ b)
end

def flattenedProduct (terms : List Expr) : Expr :=
  match flatPL terms with
  | none => .const (.int 0)
  | some [] => .const (.int 1)
  | some [x] => x
  | some xs => .prod xs

/-! ## enumeration of partitions (`match_plain_var_candidates`) -/

/-- `combinations(s, size)` together with the complement `s - subset`, in itertools order -/
def splits : List Nat → Nat → List (List Nat × List Nat)
  | [], 0 => [([], [])]
  | [], _ + 1 => []
  | x :: xs, 0 => [([], x :: xs)]
  | x :: xs, n + 1 =>
    (splits xs n).map (fun p => (x :: p.1, p.2)) ++ (splits xs (n + 1)).map (fun p => (p.1, x :: p.2))

/-- `partitions(s, k)`; `k = 0` yields nothing -/
def partitions : List Nat → Nat → List (List (List Nat))
  | _, 0 => []
  | s, 1 => [[s]]
  | s, k + 2 =>
    (List.range' 1 (s.length + 1 - (k + 2))).flatMap fun size =>
      (splits s size).flatMap fun p => (partitions p.2 (k + 1)).map (fun q => p.1 :: q)

inductive AC where
  | sum | prod
  deriving DecidableEq, Repr

def AC.factory : AC → List Expr → Expr
  | .sum => flattenedSum
  | .prod => flattenedProduct

def AC.mk : AC → List Expr → Expr
  | .sum => .sum
  | .prod => .prod

def AC.ident : AC → Expr
  | .sum => .const (.int 0)
  | .prod => .const (.int 1)

def pick (os : List Expr) (j : Nat) : Expr := os.getD j (.const (.int 0))

/-- merge the equations `var_i = factory(children of subset_i)` of one partition into `urec` -/
def tryPartition (k : AC) (os : List Expr) : List (List Nat) → List Name → URec → Option URec
  | g :: gs, x :: xs, r =>
    match r.unify (URec.ofEq x (k.factory (g.map (pick os)))) with
    | none => none
    | some r' => tryPartition k os gs xs r'
  | _, _, r => some r

def firstSome {α β : Type} (f : α → Option β) : List α → Option β
  | [] => none
  | a :: as => match f a with
    | some b => some b
    | none => firstSome f as

/-- `match_plain_var_candidates(urec, other_leftovers)` -/
def matchPlain (k : AC) (os : List Expr) (plain : List Name) (hasNonVar : Bool) (us : List URec)
    (urec : URec) (left : List Nat) : List URec :=
  if plain.isEmpty && left.isEmpty then [urec]
  else
    let ps := partitions left plain.length
    if hasNonVar then
      -- `yield result; return`: only the first partition that unifies
      match firstSome (fun p => tryPartition k os p plain urec) ps with
      | some r => [r]
      | none => []
    else
      ps.flatMap fun p => match tryPartition k os p plain urec with
        | some r => unifyMany us r
        | none => []

/-- `match_children(urec, next_cand_idx, other_leftovers)`; `rows[i]` = the children of the
    target that the i-th non-variable child of the template unifies with -/
def matchChildren (k : AC) (os : List Expr) (plain : List Name) (hasNonVar : Bool) (us : List URec) :
    List (List (Nat × List URec)) → URec → List Nat → List URec
  | [], urec, left => matchPlain k os plain hasNonVar us urec left
  | row :: rows, urec, left =>
    row.flatMap fun jp =>
      if left.contains jp.1 then
        (unifyMany jp.2 urec).flatMap fun cand =>
          matchChildren k os plain hasNonVar us rows cand (left.erase jp.1)
      else []

/-! ## the unifier -/

def hasChildren : Expr → Bool
  | .sum _ => true | .prod _ => true | .land _ => true | .lor _ => true | .min _ => true | .max _ => true
  | _ => false

def isCandVar (C : List Name) : Expr → Bool
  | .var x => C.contains x
  | _ => false

def plainNames (C : List Name) : List Expr → List Name
  | [] => []
  | .var x :: cs => if C.contains x then x :: plainNames C cs else plainNames C cs
  | _ :: cs => plainNames C cs

/-- `map_variable` -/
def unifVar (C : List Name) (x : Name) (o : Expr) (us : List URec) : List URec :=
  if C.contains x then unifyMany us (URec.ofEq x o)
  else match o with
    | .var y => if x = y then us else []
    | _ => []

def keysEq (a b : List (Name × Expr)) : Bool :=
  a.map (·.1) == b.map (·.1)

/-- the identity-candidate variables of a binary sum/product, in the iteration order of the
    Python set (`vfirst x y`: `x` comes before `y`) -/
def identVars (C : List Name) (vfirst : Name → Name → Bool) : List Expr → List Name
  | [a, b] =>
    match isCandVar C a, isCandVar C b, a, b with
    | true, true, .var x, .var y => if x = y then [x] else if vfirst x y then [x, y] else [y, x]
    | true, false, .var x, _ => [x]
    | false, true, _, .var y => [y]
    | _, _, _, _ => []
  | _ => []

/-- `map_commut_assoc` once the non-variable children have been unified with the target's children -/
def runAC (k : AC) (os : List Expr) (plain : List Name) (us : List URec)
    (rows : List (List (Nat × List URec))) : List URec :=
  matchChildren k os plain (!rows.isEmpty) us rows URec.empty (List.range os.length)

/-- the children of a target of the same class (`isinstance(other, type(expr))`) -/
def acTarget : AC → Expr → Option (List Expr)
  | .sum, .sum os => some os
  | .prod, .prod os => some os
  | _, _ => none

mutual
def unif (C : List Name) (vfirst : Name → Name → Bool) : Expr → Expr → List URec → List URec
  | .const c, o, us => if (Expr.const c).beq o then us else []
  | .var x, o, us => unifVar C x o us
  | .call f args kw, o, us =>
    match o with
    | .call g args' kw' =>
      if kw.isEmpty != kw'.isEmpty then []            -- Call vs. CallWithKwargs
      else if args.length != args'.length then []
      else if !keysEq kw kw' then []
      else
        let us1 := unifL C vfirst args args' us
        let us2 := unifK C vfirst kw kw' us1
        unifVar C f (.var g) us2
    | _ => []
  | .sum cs, o, us => unifAC C vfirst .sum cs o us
  | .prod cs, o, us => unifAC C vfirst .prod cs o us
  | .quot a b, o, us =>
    match o with
    | .quot a' b' => unif C vfirst a a' (unif C vfirst b b' us)
    | _ => []
  | .pow a b, o, us =>
    match o with
    | .pow a' b' => unif C vfirst a a' (unif C vfirst b b' us)
    | _ => []
  | .sub a i, o, us =>
    match o with
    | .sub a' i' => unif C vfirst a a' (unif C vfirst i i' us)
    | _ => []
  | .attr a n, o, us =>
    match o with
    | .attr a' n' => if n = n' then unif C vfirst a a' us else []
    | _ => []
  | .cmp op a b, o, us =>
    match o with
    | .cmp op' a' b' => if op = op' then unif C vfirst a a' (unif C vfirst b b' us) else []
    | _ => []
  | .lnot a, o, us =>
    match o with
    | .lnot a' => unif C vfirst a a' us
    | _ => []
  | .ite c t e, o, us =>
    match o with
    | .ite c' t' e' => unif C vfirst c c' (unif C vfirst t t' (unif C vfirst e e' us))
    | _ => []
  | .land _, _, _ => []      -- not modelled (driver answers `unsupported`)
  | .lor _, _, _ => []
  | .min _, _, _ => []
  | .max _, _, _ => []
/-- positional parameters, left to right, no early exit -/
def unifL (C : List Name) (vfirst : Name → Name → Bool) : List Expr → List Expr → List URec → List URec
  | c :: cs, o :: os, us => unifL C vfirst cs os (unif C vfirst c o us)
  | _, _, us => us
def unifK (C : List Name) (vfirst : Name → Name → Bool) :
    List (Name × Expr) → List (Name × Expr) → List URec → List URec
  | (_, c) :: cs, (_, o) :: os, us => unifK C vfirst cs os (unif C vfirst c o us)
  | _, _, us => us
/-- for every NON-variable child of the template: the target children it unifies with -/
def unifRows (C : List Name) (vfirst : Name → Name → Bool) : List Expr → List Expr → List URec →
    List (List (Nat × List URec))
  | [], _, _ => []
  | c :: cs, os, us =>
    if isCandVar C c then unifRows C vfirst cs os us
    else
      ((os.zipIdx.map fun oj => (oj.2, unif C vfirst c oj.1 us)).filter fun p => !p.2.isEmpty)
        :: unifRows C vfirst cs os us
/-- `map_modulo_identity` wrapped around `map_commut_assoc` -/
def unifAC (C : List Name) (vfirst : Name → Name → Bool) (k : AC) (cs : List Expr) (o : Expr)
    (us : List URec) : List URec :=
  if cs.length != 2 || hasChildren o then
    match acTarget k o with
    | some os => runAC k os (plainNames C cs) us (unifRows C vfirst cs os us)
    | none => []
  else
    (identVars C vfirst cs).flatMap fun x =>
      runAC k [k.ident, o] (plainNames C cs) (unifyMany us (URec.ofEq x k.ident))
        (unifRows C vfirst cs [k.ident, o] (unifyMany us (URec.ofEq x k.ident)))
end

mutual
def supported : Expr → Bool
  | .land _ => false | .lor _ => false | .min _ => false | .max _ => false
  | .const _ => true | .var _ => true
  | .sum cs => supportedL cs | .prod cs => supportedL cs
  | .quot a b => supported a && supported b | .pow a b => supported a && supported b
  | .call _ args kw => supportedL args && supportedK kw
  | .sub a i => supported a && supported i | .attr a _ => supported a
  | .cmp _ a b => supported a && supported b | .lnot a => supported a
  | .ite c t e => supported c && supported t && supported e
def supportedL : List Expr → Bool
  | [] => true
  | c :: cs => supported c && supportedL cs
def supportedK : List (Name × Expr) → Bool
  | [] => true
  | (_, c) :: cs => supported c && supportedK cs
end

-- templates the soundness theorem speaks about: no empty sum or product (`pymbolic.flatten`
-- never produces one)
mutual
def wfT : Expr → Bool
  | .const _ => true | .var _ => true
  | .sum cs => !cs.isEmpty && wfTL cs | .prod cs => !cs.isEmpty && wfTL cs
  | .land cs => wfTL cs | .lor cs => wfTL cs | .min cs => wfTL cs | .max cs => wfTL cs
  | .quot a b => wfT a && wfT b | .pow a b => wfT a && wfT b
  | .call _ args kw => wfTL args && wfTK kw
  | .sub a i => wfT a && wfT i | .attr a _ => wfT a
  | .cmp _ a b => wfT a && wfT b | .lnot a => wfT a
  | .ite c t e => wfT c && wfT t && wfT e
def wfTL : List Expr → Bool
  | [] => true
  | c :: cs => wfT c && wfTL cs
def wfTK : List (Name × Expr) → Bool
  | [] => true
  | (_, c) :: cs => wfT c && wfTK cs
end

/-! ## front end -/

inductive MErr where
  | preNotCandidate      -- ValueError "... was given in 'pre_match' but is not a candidate for matching"
  | cannotUnify          -- ValueError "Cannot unify expressions."
  deriving DecidableEq, Repr

/-- `match(template, expression, free_variable_names, pre_match=...)` on flattened operands;
    `pre = none`: no pre-match given -/
def matchE (C : List Name) (vfirst : Name → Name → Bool) (pre : Option (List (Name × Expr)))
    (tmpl target : Expr) : Except MErr (List (Name × Expr)) :=
  let start : Except MErr (List URec) :=
    match pre with
    | none => .ok [URec.empty]
    | some eqs => if eqs.all (fun p => C.contains p.1) then .ok [URec.ofEqs eqs] else .error .preNotCandidate
  match start with
  | .error e => .error e
  | .ok us =>
    match unif C vfirst tmpl target us with
    | [] => .error .cannotUnify
    | r :: _ => .ok r.lmap

/-! ## substitution -/

def substF (σ : Name → Option Expr) (f : Name) : Name :=
  match σ f with
  | some (.var g) => g
  | _ => f

mutual
def subst (σ : Name → Option Expr) : Expr → Expr
  | .const c => .const c
  | .var x => (σ x).getD (.var x)
  | .sum cs => .sum (substL σ cs)
  | .prod cs => .prod (substL σ cs)
  | .quot a b => .quot (subst σ a) (subst σ b)
  | .pow a b => .pow (subst σ a) (subst σ b)
  | .call f args kw => .call (substF σ f) (substL σ args) (substK σ kw)
  | .sub a i => .sub (subst σ a) (subst σ i)
  | .attr a n => .attr (subst σ a) n
  | .cmp o a b => .cmp o (subst σ a) (subst σ b)
  | .lnot a => .lnot (subst σ a)
  | .land cs => .land (substL σ cs)
  | .lor cs => .lor (substL σ cs)
  | .ite c t e => .ite (subst σ c) (subst σ t) (subst σ e)
  | .min cs => .min (substL σ cs)
  | .max cs => .max (substL σ cs)
def substL (σ : Name → Option Expr) : List Expr → List Expr
  | [] => []
  | c :: cs => subst σ c :: substL σ cs
def substK (σ : Name → Option Expr) : List (Name × Expr) → List (Name × Expr)
  | [] => []
  | (k, c) :: cs => (k, subst σ c) :: substK σ cs
end

end Dagrt.Match
