/-
Model of `dagrt.codegen.dag_ast.simplify_ast` (three passes) — property C06.
Import-free.  Conditions are compared structurally, as Python's `==` does on
pymbolic expressions; `is True` / `is False` are equality with `tt` / `ff`.
Python exceptions are `Except` values.
-/
namespace Dagrt.Simplify

inductive Cond where
  | tt | ff
  | flag (n : Nat)
  | not (c : Cond)
  deriving DecidableEq, Repr, Inhabited

inductive Ast where
  | leaf (n : Nat)
  | ifThen (c : Cond) (t : Ast)
  | ite (c : Cond) (t e : Ast)
  | loop (v : Nat) (body : Ast)
  | block (cs : List Ast)
  | null
  deriving Repr, Inhabited

inductive SErr where | indexError deriving Repr, DecidableEq

mutual
def Ast.size : Ast → Nat
  | .leaf _ => 1
  | .ifThen _ t => 1 + t.size
  | .ite _ t e => 1 + t.size + e.size
  | .loop _ b => 1 + b.size
  | .block cs => 1 + sizeList cs
  | .null => 1
def sizeList : List Ast → Nat
  | [] => 0
  | a :: as => a.size + sizeList as
end

/-! pass 1: `ASTPreSimplifyMapper` -/
mutual
def pre : Ast → Ast
  | .leaf n => .leaf n
  | .ifThen c t => .ite c (pre t) .null
  | .ite c t e => .ite c (pre t) (pre e)
  | .loop v b => .loop v (pre b)
  | .block cs => .block (preList cs)
  | .null => .null
def preList : List Ast → List Ast
  | [] => []
  | a :: as => pre a :: preList as
end

/-- `while isinstance(condition, LogicalNot): condition = condition.child; swap` -/
def stripNot : Cond → Ast → Ast → Cond × Ast × Ast
  | .not c, t, e => stripNot c e t
  | c, t, e => (c, t, e)

def isNull : Ast → Bool | .null => true | _ => false

/-- local function `flat_Block` of `ASTSimplifyMapper.map_Block` -/
def flatBlock (nodes : List Ast) : Ast :=
  .block (nodes.foldr (fun n acc => match n with
    | .null => acc
    | .block cs => cs ++ acc
    | x => x :: acc) [])

def collapseT (c : Cond) (t : Ast) : Ast :=
  match t with | .ite ci ti _ => if c = ci then ti else t | _ => t
def collapseE (c : Cond) (e : Ast) : Ast :=
  match e with | .ite ci _ ei => if c = ci then ei else e | _ => e

/-- the `while children_queue:` loop of `ASTSimplifyMapper.map_Block`
    (state: current child, queue, finished children); fuel ≥ summed size of queue + 1 -/
def mergeLoop : Nat → Ast → List Ast → List Ast → List Ast
  | 0, cur, _, acc => acc ++ [cur]   -- fuel exhausted (never with enough fuel)
  | _+1, cur, [], acc => acc ++ [cur]
  | f+1, cur, nxt :: q, acc =>
    match nxt with
    | .null => mergeLoop f cur q acc
    | .block cs => mergeLoop f cur (cs ++ q) acc
    | .ite c2 t2 e2 =>
      match cur with
      | .ite c1 t1 e1 =>
        if c1 = c2 then mergeLoop f (.ite c1 (flatBlock [t1, t2]) (flatBlock [e1, e2])) q acc
        else mergeLoop f nxt q (acc ++ [cur])
      | _ => mergeLoop f nxt q (acc ++ [cur])
    | _ => mergeLoop f nxt q (acc ++ [cur])

/-! pass 2: `ASTSimplifyMapper` -/
mutual
def simp : Ast → Except SErr Ast
  | .leaf n => .ok (.leaf n)
  | .null => .ok .null
  | .ifThen c t => do return .ifThen c (← simp t)
  | .loop v b => do return .loop v (← simp b)
  | .ite c t e =>
    if c = .tt then simp t
    else if c = .ff then simp e
    else do
      let t' ← simp t
      let e' ← simp e
      let (c', t', e') := stripNot c t' e'
      return .ite c' (collapseT c' t') (collapseE c' e')
  | .block cs => do
    let q ← simpList cs
    match q with
    | [] => return .block []
    | _ =>
      match q.dropWhile isNull with
      | [] => return .null
      | cur :: rest =>
        let children := mergeLoop (2 * sizeList q + 2) cur rest []
        match children with
        | [c] => return c
        | _ => return .block children
def simpList : List Ast → Except SErr (List Ast)
  | [] => .ok []
  | a :: as => do
    let a' ← simp a
    let as' ← simpList as
    return a' :: as'
end

/-! pass 3: `ASTPostSimplifyMapper` -/
mutual
def post : Ast → Ast
  | .leaf n => .leaf n
  | .null => .null
  | .ifThen c t => .ifThen c (post t)
  | .loop v b =>
    let b' := post b
    match isNull b' with
    | true => .null
    | false => .loop v b'
  | .ite c t e =>
    let t' := post t
    let e' := post e
    match isNull t', isNull e' with
    | true, true => .null
    | true, false => .ifThen (.not c) e'
    | false, true => .ifThen c t'
    | false, false => .ite c t' e'
  | .block cs =>
    match (postList cs).filter (fun a => !isNull a) with
    | [] => .null
    | [c] => c
    | l => .block l
def postList : List Ast → List Ast
  | [] => []
  | a :: as => post a :: postList as
end

def postTop (a : Ast) : Ast := match post a with | .null => .block [] | x => x

/-- `simplify_ast` -/
def simplify (a : Ast) : Except SErr Ast := do
  let b ← simp (pre a)
  return postTop b

/-! semantics: the sequence of leaves executed under a valuation of the flags
    (`it x` = trip count of loop variable `x`) -/
def Cond.eval (v : Nat → Bool) : Cond → Bool
  | .tt => true | .ff => false | .flag n => v n | .not c => !(c.eval v)

mutual
def trace (v : Nat → Bool) (it : Nat → Nat) : Ast → List Nat
  | .leaf n => [n]
  | .null => []
  | .ifThen c t => bif c.eval v then trace v it t else []
  | .ite c t e => bif c.eval v then trace v it t else trace v it e
  | .loop x b => (List.replicate (it x) (trace v it b)).flatten
  | .block cs => traceList v it cs
def traceList (v : Nat → Bool) (it : Nat → Nat) : List Ast → List Nat
  | [] => []
  | a :: as => trace v it a ++ traceList v it as
end

/-! shape predicate the back ends rely on: after simplification no `null`
    survives anywhere below the root (the root itself is never `null`) -/
mutual
def noNull : Ast → Bool
  | .leaf _ => true
  | .null => false
  | .ifThen _ t => noNull t
  | .ite _ t e => noNull t && noNull e
  | .loop _ b => noNull b
  | .block cs => noNullList cs
def noNullList : List Ast → Bool
  | [] => true
  | a :: as => noNull a && noNullList as
end

end Dagrt.Simplify

namespace Dagrt.Simplify

/-! `if` without `else` does not occur after pass 1 -/
mutual
def noIfThen : Ast → Bool
  | .leaf _ => true
  | .null => true
  | .ifThen _ _ => false
  | .ite _ t e => noIfThen t && noIfThen e
  | .loop _ b => noIfThen b
  | .block cs => noIfThenList cs
def noIfThenList : List Ast → Bool
  | [] => true
  | a :: as => noIfThen a && noIfThenList as
end

/-- events issued by the generic walker `StructuredCodeGenerator.lower_node`;
    a null node is the `ValueError` of its last branch -/
inductive Ev where
  | inst (n : Nat) | ifBegin (c : Cond) | elseBegin | ifEnd | forBegin (v : Nat) | forEnd (v : Nat)
  deriving DecidableEq, Repr

mutual
def walk : Ast → Option (List Ev)
  | .leaf n => some [.inst n]
  | .null => none
  | .ifThen c t => do let a ← walk t; some ([.ifBegin c] ++ a ++ [.ifEnd])
  | .ite c t e => do
      let a ← walk t
      let b ← walk e
      some ([.ifBegin c] ++ a ++ [.elseBegin] ++ b ++ [.ifEnd])
  | .loop v b => do let a ← walk b; some ([.forBegin v] ++ a ++ [.forEnd v])
  | .block cs => walkList cs
def walkList : List Ast → Option (List Ev)
  | [] => some []
  | a :: as => do let x ← walk a; let y ← walkList as; some (x ++ y)
end

end Dagrt.Simplify
