/-
Model of `dagrt.language.CodeBuilder`: `_add_statement` (last-writer / readers-since-last-write
bookkeeping, the `<exec>` token, the barrier for non-assignments), `if_` / `else_`,
`fresh_var_name` — property C02.  Statement ids are program positions (`"<name>_<k>"` ↦ `k`).
-/
import Dagrt.Model.Stmt
import Dagrt.Model.Kinds
namespace Dagrt.Builder
open Dagrt Dagrt.Sem

/-- the dependency bookkeeping, as functions (the code uses dicts; a missing key is `none` / `[]`) -/
structure Core where
  n : Nat                          -- number of statements emitted so far
  writer : Name → Option Nat       -- `_writer_map`
  readers : Name → List Nat        -- `_reader_map`
  D : Nat → List Nat               -- `depends_on` of each emitted statement
  R : Nat → List Name              -- effective read set used for statement k
  W : Nat → List Name              -- effective write set used for statement k

def Core.init : Core := ⟨0, fun _ => none, fun _ => [], fun _ => [], fun _ => [], fun _ => []⟩

/-- `depends_on` of a new statement with effective sets `r`, `w` -/
def depsOf (s : Core) (r w : List Name) : List Nat :=
  (r ++ w).filterMap s.writer ++ w.flatMap s.readers

/-- the map updates of `_add_statement` -/
def Core.add (s : Core) (r w : List Name) : Core :=
  let j := s.n
  { n := j + 1
    writer := fun v => if v ∈ w then some j else s.writer v
    readers := fun v => if v ∈ w then [] else if v ∈ r then j :: s.readers v else s.readers v
    D := fun k => if k = j then depsOf s r w else s.D k
    R := fun k => if k = j then r else s.R k
    W := fun k => if k = j then w else s.W k }

structure BState where
  core : Core
  out : List (Stmt × List Nat)     -- emitted statements with their `depends_on`, in program order
  condStack : List Expr            -- `_conditional_expression_stack`
  lastIf : Option Expr             -- `_last_if_block_conditional_expression`
  seen : List Name                 -- `_seen_var_names`
  gens : List (Name × Nat)         -- per prefix: how many names its memoized generator has produced
  failed : Option String           -- a Python exception left the builder (AssertionError, IndexError)

def BState.init : BState :=
  { core := Core.init, out := [], condStack := [], lastIf := none, seen := [EXEC], gens := [], failed := none }

/-- the `condition` attribute built from the stack -/
def condOf : List Expr → Expr
  | [] => .const (.bool true)
  | [c] => c
  | cs => .land cs

def kindReads (k : Kind) : List Name := declReads ⟨.const (.bool true), k⟩

/-- effective read set of `_add_statement` -/
def effReads (st : BState) (k : Kind) : List Name :=
  kindReads k ++ [EXEC] ++ depVars (condOf st.condStack) ++
    (bif k.isAssignment then [] else st.seen.filter Dagrt.Kinds.isState)

def effWrites (k : Kind) : List Name :=
  declWrites ⟨.const (.bool true), k⟩ ++ (bif k.isAssignment then [] else [EXEC])

/-- `_add_statement` -/
def addStatement (st : BState) (k : Kind) : BState :=
  let r := effReads st k
  let w := effWrites k
  { st with
    core := st.core.add r w
    out := st.out ++ [(⟨condOf st.condStack, k⟩, depsOf st.core r w)]
    seen := st.seen ++ r ++ w }

/-- the k-th name of `generate_unique_names(prefix)`: prefix, prefix_0, prefix_1, … -/
def genName (pfx : Name) : Nat → Name
  | 0 => pfx
  | k+1 => pfx ++ "_" ++ toString k

def genCount (gens : List (Name × Nat)) (pfx : Name) : Nat := (gens.lookup pfx).getD 0

def setGen (gens : List (Name × Nat)) (pfx : Name) (k : Nat) : List (Name × Nat) :=
  (pfx, k) :: gens.filter (fun p => p.1 != pfx)

/-- search of `fresh_var_name`: the first generated name from position `k` on that was not seen -/
def freshSearch (seen : List Name) (pfx : Name) : Nat → Nat → Option (Name × Nat)
  | 0, _ => none
  | fuel+1, k =>
    let nm := genName pfx k
    if nm ∈ seen then freshSearch seen pfx fuel (k + 1) else some (nm, k + 1)

/-- `fresh_var_name(prefix)`: returns the name; it joins the seen set; the generator advances -/
def freshVar (st : BState) (pfx : Name) : BState × Name :=
  match freshSearch st.seen pfx (st.seen.length + 2) (genCount st.gens pfx) with
  | some (nm, k) => ({ st with seen := st.seen ++ [nm], gens := setGen st.gens pfx k }, nm)
  | none => ({ st with failed := some "fresh-out-of-fuel" }, "")

inductive BOp where
  | stmt (k : Kind)        -- assign / call / yield_state / fail_step / raise_ / switch_phase
  | ifBegin (e : Expr)     -- entering `with cb.if_(e):`
  | ifEnd
  | elseBegin              -- entering `with cb.else_():`
  | elseEnd
  | fresh (pfx : Name)     -- `cb.fresh_var_name(pfx)`
  deriving Repr

def step (st : BState) : BOp → BState
  | .stmt k => addStatement st k
  | .ifBegin e =>
    let (st1, cv) := freshVar st "<cond>"
    let st2 := addStatement st1 (.assign cv none e [])
    { st2 with condStack := st2.condStack ++ [.var cv] }
  | .ifEnd =>
    match st.condStack.reverse with
    | [] => { st with failed := some "IndexError" }
    | top :: restRev => { st with condStack := restRev.reverse, lastIf := some top }
  | .elseBegin =>
    match st.lastIf with
    | none => { st with failed := some "AssertionError" }
    | some c => { st with condStack := st.condStack ++ [.lnot c] }
  | .elseEnd =>
    match st.condStack.reverse with
    | [] => { st with failed := some "IndexError" }
    | _ :: restRev => { st with condStack := restRev.reverse, lastIf := none }
  | .fresh pfx => (freshVar st pfx).1

/-- an exception ends the program: later calls are not made -/
def run (ops : List BOp) : BState :=
  ops.foldl (fun st op => if st.failed.isSome then st else step st op) BState.init

end Dagrt.Builder
