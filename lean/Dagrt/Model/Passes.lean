/-
Model of the four statement-rewriting passes of `dagrt/codegen/transform.py` — property C07:
`SelfDependencyEliminator`, `StatementFunctionArgumentIsolator`, `StatementFunctionCallIsolator`,
`StatementIfThenElseExpander`, with the two `UniqueNameGenerator`s (statement ids, variable names;
the C13 model) threaded in the order the Python code calls them.

Input class (what the passes are applied to in the Fortran pipeline and in the correspondence run):
leaf statements of a structured phase — `Assign` (loops, if any, are carried along and their bounds
mapped), `AssignFunctionCall`, `YieldState`, others unchanged; statement guards are flags,
negations and conjunctions of flags (mapping them is the identity, except for the copy-in
substitution of self-dependency elimination).  Keyword arguments arrive sorted by key.
After the `fix:` commits: call isolation passes the guard on to nested calls; conditional-expression
expansion emits the flag assignment before the statements of the branches.
-/
import Dagrt.Model.Fuse
import Dagrt.Model.Match
namespace Dagrt.Passes
open Dagrt Dagrt.Sem Dagrt.Names Dagrt.Fuse

structure PS where
  ids : Gen                  -- `stmt_id_gen`
  vars : Gen                 -- `var_name_gen`
  out : List FStmt           -- `new_statements`
  newVars : List (List Char) := []    -- ghost: every name `var_name_gen` has handed out
  newIds : List (List Char) := []     -- ghost: every id `stmt_id_gen` has handed out
  deriving Repr

/-- `UniqueNameGenerator.__call__` never fails (C13.generator_total); the fall-back is never taken -/
def genCall (g : Gen) (b : List Char) : Gen × List Char :=
  match g.call b with
  | some r => r
  | none => (g, b)

def PS.freshVar (s : PS) (b : String) : Name × PS :=
  let (g, n) := genCall s.vars b.toList
  (String.ofList n, { s with vars := g, newVars := s.newVars ++ [n] })

def PS.freshId (s : PS) (b : String) : List Char × PS :=
  let (g, n) := genCall s.ids b.toList
  (n, { s with ids := g, newIds := s.newIds ++ [n] })

/-! `pymbolic.flatten` (third party): the `Assign` constructor applies it to every right-hand side -/
mutual
def flattenE : Expr → Expr
  | .const c => .const c
  | .var x => .var x
  | .sum cs => Match.flattenedSum (flattenL cs)
  | .prod cs => Match.flattenedProduct (flattenL cs)
  | .quot a b =>
    let a' := flattenE a
    let b' := flattenE b
    bif Match.isZero a' then .const (.int 0) else bif Match.isOne b' then a' else .quot a' b'
  | .pow a b =>
    let a' := flattenE a
    let b' := flattenE b
    bif Match.isOne b' then a' else .pow a' b'
  | .call f args kw => .call f (flattenL args) (flattenK kw)
  | .sub a i => .sub (flattenE a) (flattenE i)
  | .attr a n => .attr (flattenE a) n
  | .cmp o a b => .cmp o (flattenE a) (flattenE b)
  | .lnot a => .lnot (flattenE a)
  | .land cs => .land (flattenL cs)
  | .lor cs => .lor (flattenL cs)
  | .ite c t e => .ite (flattenE c) (flattenE t) (flattenE e)
  | .min cs => .min (flattenL cs)
  | .max cs => .max (flattenL cs)
def flattenL : List Expr → List Expr
  | [] => []
  | c :: cs => flattenE c :: flattenL cs
def flattenK : List (Name × Expr) → List (Name × Expr)
  | [] => []
  | (k, c) :: cs => (k, flattenE c) :: flattenK cs
end

/-- what constructing / copying a statement does to it -/
def normStmt (s : Stmt) : Stmt :=
  match s.kind with
  | .assign lhs sub rhs loops => { s with kind := .assign lhs sub (flattenE rhs) loops }
  | _ => s

def PS.emit (s : PS) (st : FStmt) : PS := { s with out := s.out ++ [{ st with stmt := normStmt st.stmt }] }

/-- mapper state: the pass state and the `extra_deps` list currently being filled -/
structure MS where
  ps : PS
  extra : List (List Char)

inductive Mode where
  | fai     -- `ExprFunctionArgumentIsolator`
  | fci     -- `ExpressionFunctionCallIsolator`
  | ite     -- `ExprIfThenElseExpander`
  deriving DecidableEq, Repr

def flatAndParts : Expr → List Expr
  | .land cs => cs
  | e => [e]

/-- `flat_LogicalAnd(a, b)` -/
def flatAnd (a b : Expr) : Expr := .land (flatAndParts a ++ flatAndParts b)

def isVar : Expr → Bool
  | .var _ => true
  | _ => false

mutual
/-- `mapper(expr, base_condition, base_deps, extra_deps)` -/
def mapE (m : Mode) (cond : Expr) (deps : List (List Char)) (e : Expr) (s : MS) : Expr × MS :=
  match e, s with
  | .const c, s => (.const c, s)
  | .var x, s => (.var x, s)
  | .sum cs, s => let (cs', s') := mapL m cond deps cs s; (.sum cs', s')
  | .prod cs, s => let (cs', s') := mapL m cond deps cs s; (.prod cs', s')
  | .quot a b, s =>
    let (a', s1) := mapE m cond deps a s
    let (b', s2) := mapE m cond deps b s1
    (.quot a' b', s2)
  | .pow a b, s =>
    let (a', s1) := mapE m cond deps a s
    let (b', s2) := mapE m cond deps b s1
    (.pow a' b', s2)
  | .sub a i, s =>
    let (a', s1) := mapE m cond deps a s
    let (i', s2) := mapE m cond deps i s1
    (.sub a' i', s2)
  | .attr a n, s => let (a', s1) := mapE m cond deps a s; (.attr a' n, s1)
  | .cmp o a b, s =>
    let (a', s1) := mapE m cond deps a s
    let (b', s2) := mapE m cond deps b s1
    (.cmp o a' b', s2)
  | .lnot a, s => let (a', s1) := mapE m cond deps a s; (.lnot a', s1)
  | .land cs, s => let (cs', s') := mapL m cond deps cs s; (.land cs', s')
  | .lor cs, s => let (cs', s') := mapL m cond deps cs s; (.lor cs', s')
  | .min cs, s => let (cs', s') := mapL m cond deps cs s; (.min cs', s')
  | .max cs, s => let (cs', s') := mapL m cond deps cs s; (.max cs', s')
  | .call f args kw, s =>
    match m with
    | .fai =>
      let (args', s1) := isoL cond deps args s
      let (kw', s2) := isoK cond deps kw s1
      (.call f args' kw', s2)
    | .fci =>
      let (tv, p1) := s.ps.freshVar "tmp"
      let (tid, p2) := p1.freshId "tmp"
      let saved := s.extra ++ [tid]
      let (args', s1) := mapL .fci cond deps args ⟨p2, []⟩
      let (kw', s2) := mapK .fci cond deps kw s1
      let st : FStmt := { id := tid, deps := deps ++ s2.extra, stmt := ⟨cond, .callAssign [tv] f args' kw'⟩ }
      (.var tv, ⟨s2.ps.emit st, saved⟩)
    | .ite =>
      let (args', s1) := mapL .ite cond deps args s
      let (kw', s2) := mapK .ite cond deps kw s1
      (.call f args' kw', s2)
  | .ite c t e, s =>
    match m with
    | .ite =>
      let (flag, p1) := s.ps.freshVar "<cond>ifthenelse_cond"
      let (res, p2) := p1.freshVar "ifthenelse_result"
      let (ifId, p3) := p2.freshId "ifthenelse_cond"
      let (thenId, p4) := p3.freshId "ifthenelse_then"
      let (elseId, p5) := p4.freshId "ifthenelse_else"
      let (c', s1) := mapE .ite cond deps c ⟨p5, []⟩
      let flagStmt : FStmt := { id := ifId, deps := deps ++ s1.extra, stmt := ⟨cond, .assign flag none c' []⟩ }
      let thenCond := flatAnd cond (.var flag)
      let (t', s2) := mapE .ite thenCond (deps ++ [ifId]) t ⟨s1.ps.emit flagStmt, []⟩
      let thenStmt : FStmt := { id := thenId, deps := deps ++ s2.extra ++ [ifId], stmt := ⟨thenCond, .assign res none t' []⟩ }
      let elseCond := flatAnd cond (.lnot (.var flag))
      let (e', s3) := mapE .ite elseCond (deps ++ [ifId]) e ⟨s2.ps.emit thenStmt, []⟩
      let elseStmt : FStmt := { id := elseId, deps := deps ++ s3.extra ++ [ifId], stmt := ⟨elseCond, .assign res none e' []⟩ }
      (.var res, ⟨s3.ps.emit elseStmt, s.extra ++ [thenId, elseId]⟩)
    | _ =>
      let (c', s1) := mapE m cond deps c s
      let (t', s2) := mapE m cond deps t s1
      let (e', s3) := mapE m cond deps e s2
      (.ite c' t' e', s3)
termination_by structural e
def mapL (m : Mode) (cond : Expr) (deps : List (List Char)) (l : List Expr) (s : MS) : List Expr × MS :=
  match l, s with
  | [], s => ([], s)
  | c :: cs, s =>
    let (c', s1) := mapE m cond deps c s
    let (cs', s2) := mapL m cond deps cs s1
    (c' :: cs', s2)
termination_by structural l
def mapK (m : Mode) (cond : Expr) (deps : List (List Char)) (l : List (Name × Expr)) (s : MS) : List (Name × Expr) × MS :=
  match l, s with
  | [], s => ([], s)
  | (k, c) :: cs, s =>
    let (c', s1) := mapE m cond deps c s
    let (cs', s2) := mapK m cond deps cs s1
    ((k, c') :: cs', s2)
termination_by structural l
/-- `isolate_arg` over the positional parameters -/
def isoL (cond : Expr) (deps : List (List Char)) (l : List Expr) (s : MS) : List Expr × MS :=
  match l, s with
  | [], s => ([], s)
  | c :: cs, s =>
    bif isVar c then
      let (cs', s2) := isoL cond deps cs s
      (c :: cs', s2)
    else
      let (tv, p1) := s.ps.freshVar "tmp"
      let (tid, p2) := p1.freshId "tmp"
      let (c', s1) := mapE .fai cond deps c ⟨p2, []⟩
      let st : FStmt := { id := tid, deps := deps ++ s1.extra, stmt := ⟨cond, .assign tv none c' []⟩ }
      let (cs', s2) := isoL cond deps cs ⟨s1.ps.emit st, s.extra ++ [tid]⟩
      (.var tv :: cs', s2)
termination_by structural l
def isoK (cond : Expr) (deps : List (List Char)) (l : List (Name × Expr)) (s : MS) : List (Name × Expr) × MS :=
  match l, s with
  | [], s => ([], s)
  | (k, c) :: cs, s =>
    bif isVar c then
      let (cs', s2) := isoK cond deps cs s
      ((k, c) :: cs', s2)
    else
      let (tv, p1) := s.ps.freshVar "tmp"
      let (tid, p2) := p1.freshId "tmp"
      let (c', s1) := mapE .fai cond deps c ⟨p2, []⟩
      let st : FStmt := { id := tid, deps := deps ++ s1.extra, stmt := ⟨cond, .assign tv none c' []⟩ }
      let (cs', s2) := isoK cond deps cs ⟨s1.ps.emit st, s.extra ++ [tid]⟩
      ((k, .var tv) :: cs', s2)
termination_by structural l
end

def mapLoops (m : Mode) (cond : Expr) (deps : List (List Char)) :
    List (Name × Expr × Expr) → MS → List (Name × Expr × Expr) × MS
  | [], s => ([], s)
  | (i, a, b) :: r, s =>
    let (a', s1) := mapE m cond deps a s
    let (b', s2) := mapE m cond deps b s1
    let (r', s3) := mapLoops m cond deps r s2
    ((i, a', b') :: r', s3)

/-- `map_statement` of the three expression-driven passes: the new statements, the rewritten
    statement last -/
def mapStmt (m : Mode) (st : FStmt) (p : PS) : List FStmt × PS :=
  let cond := st.stmt.cond
  let s0 : MS := ⟨{ p with out := [] }, []⟩
  let finish := fun (k : Kind) (s : MS) =>
    (s.ps.out ++ [{ st with deps := st.deps ++ s.extra, stmt := normStmt ⟨cond, k⟩ }], { s.ps with out := p.out })
  match st.stmt.kind with
  | .assign lhs sub rhs loops =>
    let (sub', s1) := match sub with
      | some i => let (i', s1) := mapE m cond st.deps i s0; (some i', s1)
      | none => (none, s0)
    let (rhs', s2) := mapE m cond st.deps rhs s1
    let (loops', s3) := mapLoops m cond st.deps loops s2
    finish (.assign lhs sub' rhs' loops') s3
  | .callAssign lhs f args kw =>
    match m with
    | .fci => ([st], p)
    | .fai =>
      let (args', s1) := isoL cond st.deps args s0
      let (kw', s2) := isoK cond st.deps kw s1
      finish (.callAssign lhs f args' kw') s2
    | .ite =>
      let (args', s1) := mapL .ite cond st.deps args s0
      let (kw', s2) := mapK .ite cond st.deps kw s1
      finish (.callAssign lhs f args' kw') s2
  | .yield e t tid comp =>
    match m with
    | .fci => ([st], p)
    | _ =>
      let (e', s1) := mapE m cond st.deps e s0
      let (t', s2) := mapE m cond st.deps t s1
      finish (.yield e' t' tid comp) s2
  | _ => ([st], p)

/-- `"temp_" + var_name.replace("<", "_").replace(">", "_")` -/
def tempBase (v : Name) : String :=
  "temp_" ++ String.ofList (v.toList.map fun c => if c = '<' ∨ c = '>' then '_' else c)

/-- the copy-in statements of `SelfDependencyEliminator` for the variables `vs` (in the iteration
    order of the set) -/
def copyIns (st : FStmt) : List Name → PS → List (Name × Name) → List (List Char) →
    PS × List (Name × Name) × List (List Char)
  | [], p, sub, tids => (p, sub, tids)
  | v :: vs, p, sub, tids =>
    let (tv, p1) := p.freshVar (tempBase v)
    let (tid, p2) := p1.freshId "temp"
    let cp : FStmt := { id := tid, deps := st.deps, stmt := ⟨st.stmt.cond, .assign tv none (.var v) []⟩ }
    copyIns st vs (p2.emit cp) (sub ++ [(v, tv)]) (tids ++ [tid])

def substLoopsRhs (σ : Name → Name) : List (Name × Expr × Expr) → List (Name × Expr × Expr)
  | [] => []
  | (i, a, b) :: r => (i, renameExpr σ a, renameExpr σ b) :: substLoopsRhs σ r

/-- `stmt.map_expressions(substitute, include_lhs=False)`: the assignee, its subscript and the loop
    identifiers stay -/
def substRhs (σ : Name → Name) (s : Stmt) : Stmt :=
  { cond := renameExpr σ s.cond,
    kind := match s.kind with
      | .assign lhs sub rhs loops => .assign lhs sub (renameExpr σ rhs) (substLoopsRhs σ loops)
      | .callAssign lhs f args kw => .callAssign lhs (σ f) (renameL σ args) (renameK σ kw)
      | .yield e t tid c => .yield (renameExpr σ e) (renameExpr σ t) tid c
      | k => k }

/-- `SelfDependencyEliminator.map_statement`; `order` = iteration order of `reads & writes` -/
def selfDep (order : List Name) (st : FStmt) (p : PS) : List FStmt × PS :=
  match order with
  | [] => ([st], p)
  | _ =>
    let (p1, sub, tids) := copyIns st order { p with out := [] } [] []
    let st' : FStmt := { st with deps := st.deps ++ tids, stmt := normStmt (substRhs (applySubst sub) st.stmt) }
    (p1.out ++ [st'], { p1 with out := p.out })

/-- `reads & writes` of a statement (as a duplicate-free list; the harness supplies Python's order) -/
def readAndWritten (s : Stmt) : List Name :=
  (declWrites s).eraseDups.filter fun x => (declReads s).contains x

inductive Pass where
  | selfDep | argIso | callIso | iteExp
  deriving DecidableEq, Repr

/-- the generators `apply_statement_rewriter` seeds from the phase: the ids of its statements; the
    variables its statements read or write and (`extra`) the names its loop and conditional nodes
    mention — loop variables, variables in loop bounds and in conditions -/
def initPS (stmts : List FStmt) (extra : List Name := []) : PS :=
  { ids := ⟨stmts.map (·.id), [], [], false⟩,
    vars := ⟨(usedIdents stmts ++ extra).map String.toList, [], [], false⟩,
    out := [] }

/-- one pass over the leaves of a structured phase, left to right; `orders` = for each leaf the
    iteration order of its `reads & writes` set (used by `selfDep` only) -/
def runPass (pass : Pass) : List FStmt → List (List Name) → PS → List (List FStmt)
  | [], _, _ => []
  | st :: rest, orders, p =>
    let (order, orders') := match orders with
      | o :: os => (o, os)
      | [] => (readAndWritten st.stmt, [])
    let (news, p') := match pass with
      | .selfDep => selfDep order st p
      | .argIso => mapStmt .fai st p
      | .callIso => mapStmt .fci st p
      | .iteExp => mapStmt .ite st p
    news :: runPass pass rest orders' p'

def applyPass (pass : Pass) (stmts : List FStmt) (orders : List (List Name)) (extra : List Name := []) :
    List (List FStmt) :=
  runPass pass stmts orders (initPS stmts extra)

end Dagrt.Passes
