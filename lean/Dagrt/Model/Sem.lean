/-
Value-level semantics shared by C01, C02, C08, C11: values, stores, the evaluator
(`dagrt.expression.EvaluationMapper` over pymbolic's), instrumented with the list of
store reads it performs.  Import-free apart from `Expr`.

Conventions (DESIGN.md section 4 / 7-C02):
* the store maps every name to a cell; an unknown variable evaluates to Python's `None`
  (`EvaluationMapper.map_variable` falls through);
* operations Python would raise on (or whose result is not exactly representable) give the
  poison value `undef`, which propagates; the correspondence generators stay away from them
  and count the cases they had to drop;
* the events yielded so far and the status of the step are the value of the pseudo-variable
  `<exec>` — exactly the code builder's own view of side effects.
-/
import Dagrt.Model.Expr
namespace Dagrt.Sem
open Dagrt

inductive Val where
  | int (n : Int)
  | bool (b : Bool)
  | arr (l : List (Option Int))    -- `none` = element never assigned (`numpy.empty`)
  | str (s : String)
  | none
  | undef
  deriving DecidableEq, Repr, Inhabited

inductive Event where
  | stateComputed (t : Val) (timeId : String) (comp : String) (v : Val)
  deriving DecidableEq, Repr

inductive Status where
  | running
  | failed                  -- FailStep
  | switched (p : Name)     -- SwitchPhase
  | raised (err : String)   -- Raise
  deriving DecidableEq, Repr

inductive Cell where
  | val (v : Val)
  | exec (log : List Event) (st : Status)
  deriving DecidableEq, Repr

abbrev Store := Name → Cell

def EXEC : Name := "<exec>"

def Store.get (σ : Store) (x : Name) : Val :=
  match σ x with
  | .val v => v
  | .exec _ _ => .none

def Store.set (σ : Store) (x : Name) (c : Cell) : Store := fun y => if y = x then c else σ y

def Store.status (σ : Store) : Status :=
  match σ EXEC with
  | .exec _ st => st
  | .val _ => .running

def Store.log (σ : Store) : List Event :=
  match σ EXEC with
  | .exec l _ => l
  | .val _ => []

/-- interpretation of function symbols: total and pure (failing functions: C11) -/
abbrev Funs := Name → List Val → List (Name × Val) → List Val

/-! ### arithmetic on values -/

def zipOpt (f : Int → Int → Int) : List (Option Int) → List (Option Int) → Option (List (Option Int))
  | [], [] => some []
  | a :: as, b :: bs =>
    match zipOpt f as bs with
    | some r => some ((match a, b with | some x, some y => some (f x y) | _, _ => Option.none) :: r)
    | Option.none => Option.none
  | _, _ => Option.none

def Val.add : Val → Val → Val
  | .int a, .int b => .int (a + b)
  | .arr a, .arr b => match zipOpt (· + ·) a b with | some r => .arr r | Option.none => .undef
  | .int a, .arr b => .arr (b.map (Option.map (a + ·)))
  | .arr a, .int b => .arr (a.map (Option.map (· + b)))
  | _, _ => .undef

def Val.mul : Val → Val → Val
  | .int a, .int b => .int (a * b)
  | .int a, .arr b => .arr (b.map (Option.map (a * ·)))
  | .arr a, .int b => .arr (a.map (Option.map (· * b)))
  | .arr a, .arr b => match zipOpt (· * ·) a b with | some r => .arr r | Option.none => .undef
  | _, _ => .undef

/-- true division, defined where the result is an exact integer -/
def Val.quot : Val → Val → Val
  | .int a, .int b => if b ≠ 0 ∧ a % b = 0 then .int (a / b) else .undef
  | _, _ => .undef

def Val.pow : Val → Val → Val
  | .int a, .int b => if 0 ≤ b then .int (a ^ b.toNat) else .undef
  | _, _ => .undef

def Val.cmp (op : String) : Val → Val → Val
  | .int a, .int b =>
    if op = "<" then .bool (a < b) else if op = "<=" then .bool (a ≤ b)
    else if op = ">" then .bool (a > b) else if op = ">=" then .bool (a ≥ b)
    else if op = "==" then .bool (a = b) else if op = "!=" then .bool (a ≠ b) else .undef
  | .bool a, .bool b =>
    if op = "==" then .bool (a = b) else if op = "!=" then .bool (a ≠ b) else .undef
  | _, _ => .undef

def Val.min2 : Val → Val → Val
  | .int a, .int b => .int (if b < a then b else a)
  | _, _ => .undef
def Val.max2 : Val → Val → Val
  | .int a, .int b => .int (if a < b then b else a)
  | _, _ => .undef

/-- Python truthiness of the values a guard can take -/
def Val.truthy : Val → Bool
  | .bool b => b
  | .int n => n != 0
  | _ => false

def normIndex (len : Nat) (i : Int) : Option Nat :=
  if 0 ≤ i then (if i.toNat < len then some i.toNat else Option.none)
  else (if (-i).toNat ≤ len then some (len - (-i).toNat) else Option.none)

def Val.index : Val → Val → Val
  | .arr a, .int i =>
    match normIndex a.length i with
    | some k => match a[k]? with
      | some (some x) => .int x
      | _ => .undef
    | Option.none => .undef
  | _, _ => .undef

/-- `getattr(value, name)` for the two attributes numbers and arrays have -/
def Val.attr (name : String) : Val → Val
  | .int n => if name = "real" then .int n else if name = "imag" then .int 0 else .undef
  | .arr a => if name = "real" then .arr a else if name = "imag" then .arr (a.map fun _ => some 0) else .undef
  | _ => .undef

def Val.setIndex : Val → Val → Val → Val
  | .arr a, .int i, .int x =>
    match normIndex a.length i with
    | some k => .arr (a.set k (some x))
    | Option.none => .undef
  | _, _, _ => .undef

/-! ### the instrumented evaluator

`env` = loop counters of the statement being executed (they shadow the store).
Result: the value and the names looked up in the STORE, in order. -/

def lookupEnv (env : List (Name × Int)) (x : Name) : Option Int :=
  match env with
  | [] => Option.none
  | (k, v) :: r => if k = x then some v else lookupEnv r x

mutual
def evalI (F : Funs) (env : List (Name × Int)) (σ : Store) : Expr → Val × List Name
  | .const (.int n) => (.int n, [])
  | .const (.bool b) => (.bool b, [])
  | .const (.str s) => (.str s, [])
  | .const .none => (.none, [])
  | .const _ => (.undef, [])
  | .var x =>
    match lookupEnv env x with
    | some i => (.int i, [])
    | Option.none => (σ.get x, [x])
  | .sum cs => evalFold F env σ Val.add (.int 0) cs
  | .prod cs => evalFold F env σ Val.mul (.int 1) cs
  | .quot a b =>
    let (va, ra) := evalI F env σ a
    let (vb, rb) := evalI F env σ b
    (va.quot vb, ra ++ rb)
  | .pow a b =>
    let (va, ra) := evalI F env σ a
    let (vb, rb) := evalI F env σ b
    (va.pow vb, ra ++ rb)
  | .call f args kw =>
    let (vs, r1) := evalArgs F env σ args
    let (ks, r2) := evalKw F env σ kw
    ((match F f vs ks with | [v] => v | _ => .undef), r1 ++ r2)
  | .sub a i =>
    let (va, ra) := evalI F env σ a
    let (vi, ri) := evalI F env σ i
    (va.index vi, ra ++ ri)
  | .attr a n =>
    let (va, ra) := evalI F env σ a
    (va.attr n, ra)
  | .cmp op a b =>
    let (va, ra) := evalI F env σ a
    let (vb, rb) := evalI F env σ b
    (Val.cmp op va vb, ra ++ rb)
  | .lnot a =>
    let (va, ra) := evalI F env σ a
    (.bool (!va.truthy), ra)
  | .land cs => evalAll F env σ cs
  | .lor cs => evalAny F env σ cs
  | .ite c t e =>
    let (vc, rc) := evalI F env σ c
    bif vc.truthy then
      let (vt, rt) := evalI F env σ t
      (vt, rc ++ rt)
    else
      let (ve, re) := evalI F env σ e
      (ve, rc ++ re)
  | .min cs => evalFold1 F env σ Val.min2 cs
  | .max cs => evalFold1 F env σ Val.max2 cs
/-- `sum(...)` / `product(...)`: left fold from the neutral element -/
def evalFold (F : Funs) (env : List (Name × Int)) (σ : Store) (op : Val → Val → Val) (acc : Val) :
    List Expr → Val × List Name
  | [] => (acc, [])
  | c :: cs =>
    let (v, r) := evalI F env σ c
    let (v', r') := evalFold F env σ op (op acc v) cs
    (v', r ++ r')
/-- `min(...)` / `max(...)` of a non-empty argument list -/
def evalFold1 (F : Funs) (env : List (Name × Int)) (σ : Store) (op : Val → Val → Val) :
    List Expr → Val × List Name
  | [] => (.undef, [])
  | [c] => evalI F env σ c
  | c :: cs =>
    let (v, r) := evalI F env σ c
    let (v', r') := evalFold1 F env σ op cs
    (op v v', r ++ r')
/-- `all(...)`: stops at the first false operand -/
def evalAll (F : Funs) (env : List (Name × Int)) (σ : Store) : List Expr → Val × List Name
  | [] => (.bool true, [])
  | c :: cs =>
    let (v, r) := evalI F env σ c
    bif v.truthy then
      let (v', r') := evalAll F env σ cs
      (v', r ++ r')
    else (.bool false, r)
/-- `any(...)`: stops at the first true operand -/
def evalAny (F : Funs) (env : List (Name × Int)) (σ : Store) : List Expr → Val × List Name
  | [] => (.bool false, [])
  | c :: cs =>
    let (v, r) := evalI F env σ c
    bif v.truthy then (.bool true, r)
    else
      let (v', r') := evalAny F env σ cs
      (v', r ++ r')
def evalArgs (F : Funs) (env : List (Name × Int)) (σ : Store) : List Expr → List Val × List Name
  | [] => ([], [])
  | c :: cs =>
    let (v, r) := evalI F env σ c
    let (vs, r') := evalArgs F env σ cs
    (v :: vs, r ++ r')
def evalKw (F : Funs) (env : List (Name × Int)) (σ : Store) : List (Name × Expr) → List (Name × Val) × List Name
  | [] => ([], [])
  | (k, c) :: cs =>
    let (v, r) := evalI F env σ c
    let (vs, r') := evalKw F env σ cs
    ((k, v) :: vs, r ++ r')
end

def eval (F : Funs) (env : List (Name × Int)) (σ : Store) (e : Expr) : Val := (evalI F env σ e).1

/-! ### variables of an expression: `ExtendedDependencyMapper(include_subscripts=False,
    include_lookups=False, include_calls="descend_args")` -/
mutual
def depVars : Expr → List Name
  | .const _ => []
  | .var x => [x]
  | .sum cs => depVarsL cs
  | .prod cs => depVarsL cs
  | .quot a b => depVars a ++ depVars b
  | .pow a b => depVars a ++ depVars b
  | .call _ args kw => depVarsL args ++ depVarsK kw
  | .sub a i => depVars a ++ depVars i
  | .attr a _ => depVars a
  | .cmp _ a b => depVars a ++ depVars b
  | .lnot a => depVars a
  | .land cs => depVarsL cs
  | .lor cs => depVarsL cs
  | .ite c t e => depVars c ++ depVars t ++ depVars e
  | .min cs => depVarsL cs
  | .max cs => depVarsL cs
def depVarsL : List Expr → List Name
  | [] => []
  | c :: cs => depVars c ++ depVarsL cs
def depVarsK : List (Name × Expr) → List Name
  | [] => []
  | (_, c) :: cs => depVars c ++ depVarsK cs
end

end Dagrt.Sem
