import Dagrt.Model.Basic
/-
Model of `dagrt.language.ExecutionController` (reset / update_plan / __call__) — property C04.
Statement ids are numbered by the harness.  Import-free.
-/
namespace Dagrt.Controller

inductive CErr where
  | keyError      -- `id_to_stmt[dep_id]` failed
  | recursion     -- fuel exhausted (Python: RecursionError); never under well-formedness
  deriving DecidableEq, Repr

/-- dependency lists (in the iteration order of the frozensets); `none` = unknown id -/
abbrev Graph := Nat → Option (List Nat)

structure St where
  plan : List Nat
  executed : List Nat
  deriving Repr, DecidableEq

/-- state of one `update_plan` call: the (shrinking) old plan and the growing early plan -/
structure UP where
  plan : List Nat
  early : List Nat
  deriving Repr, DecidableEq

/-- `for x in xs: u = f(u, x)` with exceptions -/
def foldE (f : UP → Nat → Except CErr UP) : UP → List Nat → Except CErr UP
  | u, [] => .ok u
  | u, d :: ds =>
    match f u d with
    | .error e => .error e
    | .ok u' => foldE f u' ds

/-- `add_with_deps` (the dependency loop is the `foldE`) -/
def addWithDeps (g : Graph) (executed : List Nat) : Nat → UP → Nat → Except CErr UP
  | 0, _, _ => .error .recursion
  | fuel+1, u, id =>
    match g id with
    | none => .error .keyError
    | some deps =>
      if id ∈ executed then .ok u
      else if id ∈ u.early then .ok u
      else
        let u1 : UP := if id ∈ u.plan then { u with plan := u.plan.erase id } else u
        match foldE (addWithDeps g executed fuel) u1 deps with
        | .error e => .error e
        | .ok u2 => .ok { u2 with early := u2.early ++ [id] }

/-- `for stmt_id in execute_ids: add_with_deps(id_to_stmt[stmt_id])` -/
def addList (g : Graph) (executed : List Nat) (fuel : Nat) (u : UP) (ds : List Nat) : Except CErr UP :=
  foldE (addWithDeps g executed fuel) u ds

/-- `update_plan(phase, execute_ids)`; `n` = number of statements (recursion depth bound) -/
def updatePlan (g : Graph) (n : Nat) (s : St) (ids : List Nat) : Except CErr St :=
  match addList g s.executed (n + 1) { plan := s.plan, early := [] } ids with
  | .error e => .error e
  | .ok u => .ok { plan := u.early ++ u.plan, executed := s.executed }

def reset : St := { plan := [], executed := [] }

/-- what the target does with a popped statement -/
inductive Action where
  | skip                      -- guard false: no effect, still counts as visited
  | run (request : List Nat)  -- executed; possibly requests further statements (`new_deps`)
  | abort                     -- exception out of the step (failure, switch, raise, user error)
  deriving Repr

/-- `__call__`: pop, mark executed, ask the target; the visit log is what the target observes -/
def runLoop (g : Graph) (n : Nat) (target : Nat → Action) : Nat → St → List Nat → Except CErr (List Nat × St)
  | 0, s, log => .ok (log, s)
  | fuel+1, s, log =>
    match s.plan with
    | [] => .ok (log, s)
    | x :: rest =>
      let s1 : St := { plan := rest, executed := x :: s.executed }
      match target x with
      | .skip => runLoop g n target fuel s1 (log ++ [x])
      | .abort => .ok (log ++ [x], s1)
      | .run [] => runLoop g n target fuel s1 (log ++ [x])
      | .run req =>
        match updatePlan g n s1 req with
        | .error e => .error e
        | .ok s2 => runLoop g n target fuel s2 (log ++ [x])

/-- one step as the interpreter drives it: reset, plan the roots, run -/
def step (g : Graph) (n : Nat) (roots : List Nat) (target : Nat → Action) : Except CErr (List Nat × St) :=
  match updatePlan g n reset roots with
  | .error e => .error e
  | .ok s => runLoop g n target (n + 1) s []

end Dagrt.Controller
