/-
Model of `dagrt.expression.collapse_constants` (`_ConstantFindingMapper`,
`_ExpressionCollapsingMapper`) — property C18.  New variables are `h0, h1, …` in the order in
which the code calls `new_var_func`.
-/
import Dagrt.Model.Expr
namespace Dagrt.Hoist
open Dagrt

def hname (k : Nat) : Name := "h" ++ toString k

/-! `_ConstantFindingMapper`: no free variable below; function symbols count as variables -/
mutual
def isConst (free : List Name) : Expr → Bool
  | .const _ => true
  | .var x => !free.contains x
  | .sum cs => allConst free cs
  | .prod cs => allConst free cs
  | .quot a b => isConst free a && isConst free b
  | .pow a b => isConst free a && isConst free b
  | .call f args kw => !free.contains f && allConst free args && allConstK free kw
  | .sub a i => isConst free a && isConst free i
  | .attr a _ => isConst free a
  | .cmp _ a b => isConst free a && isConst free b
  | .lnot a => isConst free a
  | .land cs => allConst free cs
  | .lor cs => allConst free cs
  | .ite c t e => isConst free c && isConst free t && isConst free e
  | .min cs => allConst free cs
  | .max cs => allConst free cs
def allConst (free : List Name) : List Expr → Bool
  | [] => true
  | c :: cs => isConst free c && allConst free cs
def allConstK (free : List Name) : List (Name × Expr) → Bool
  | [] => true
  | (_, c) :: cs => isConst free c && allConstK free cs
end

/-- `_is_atomic` -/
def atomic : Expr → Bool
  | .const _ => true
  | .var _ => true
  | _ => false

structure HS where
  next : Nat
  assigns : List (Name × Expr)     -- in the order `assign_func` is called
  deriving Repr

def HS.hoist (s : HS) (e : Expr) : Expr × HS :=
  (.var (hname s.next), { next := s.next + 1, assigns := s.assigns ++ [(hname s.next, e)] })

/-- combine `(folded,) + non_constants` / the special cases of `map_commut_assoc` -/
def finishCA (mk : List Expr → Expr) (ks ns : List Expr) (s : HS) : Expr × HS :=
  match ks with
  | [] => (match ns with | [n] => (n, s) | _ => (mk ns, s))
  | _ =>
    let (folded, s') : Expr × HS :=
      match ks with
      | [k] => bif atomic k then (k, s) else s.hoist k
      | _ => s.hoist (mk ks)
    match ns with
    | [] => (folded, s')
    | _ => (mk (folded :: ns), s')

mutual
/-- `top = true`: the root call (`IdentityMapper.__call__`, which does not go through the
    overridden `rec`); `top = false`: `self.rec` -/
def collapseG (free : List Name) (top : Bool) : Expr → HS → Expr × HS
  | e@(.const _), s => (e, s)
  | e@(.var _), s => (e, s)
  | e@(.sum cs), s =>
    bif !top && isConst free e then s.hoist e
    else let (ks, ns, s') := partitionC free cs s; finishCA .sum ks ns s'
  | e@(.prod cs), s =>
    bif !top && isConst free e then s.hoist e
    else let (ks, ns, s') := partitionC free cs s; finishCA .prod ks ns s'
  | e@(.quot a b), s =>
    bif !top && isConst free e then s.hoist e
    else let (a', s1) := collapseG free false a s; let (b', s2) := collapseG free false b s1; (.quot a' b', s2)
  | e@(.pow a b), s =>
    bif !top && isConst free e then s.hoist e
    else let (a', s1) := collapseG free false a s; let (b', s2) := collapseG free false b s1; (.pow a' b', s2)
  | e@(.call f args kw), s =>
    bif !top && isConst free e then s.hoist e
    else let (as', s1) := collapseL free args s; let (kw', s2) := collapseK free kw s1; (.call f as' kw', s2)
  | e@(.sub a i), s =>
    bif !top && isConst free e then s.hoist e
    else let (a', s1) := collapseG free false a s; let (i', s2) := collapseG free false i s1; (.sub a' i', s2)
  | e@(.attr a n), s =>
    bif !top && isConst free e then s.hoist e
    else let (a', s1) := collapseG free false a s; (.attr a' n, s1)
  | e@(.cmp o a b), s =>
    bif !top && isConst free e then s.hoist e
    else let (a', s1) := collapseG free false a s; let (b', s2) := collapseG free false b s1; (.cmp o a' b', s2)
  | e@(.lnot a), s =>
    bif !top && isConst free e then s.hoist e
    else let (a', s1) := collapseG free false a s; (.lnot a', s1)
  | e@(.land cs), s =>
    bif !top && isConst free e then s.hoist e
    else let (cs', s1) := collapseL free cs s; (.land cs', s1)
  | e@(.lor cs), s =>
    bif !top && isConst free e then s.hoist e
    else let (cs', s1) := collapseL free cs s; (.lor cs', s1)
  | e@(.ite c t f), s =>
    bif !top && isConst free e then s.hoist e
    else
      let (c', s1) := collapseG free false c s
      let (t', s2) := collapseG free false t s1
      let (f', s3) := collapseG free false f s2
      (.ite c' t' f', s3)
  | e@(.min cs), s =>
    bif !top && isConst free e then s.hoist e
    else let (cs', s1) := collapseL free cs s; (.min cs', s1)
  | e@(.max cs), s =>
    bif !top && isConst free e then s.hoist e
    else let (cs', s1) := collapseL free cs s; (.max cs', s1)
def collapseL (free : List Name) : List Expr → HS → List Expr × HS
  | [], s => ([], s)
  | c :: cs, s =>
    let (c', s1) := collapseG free false c s
    let (cs', s2) := collapseL free cs s1
    (c' :: cs', s2)
def collapseK (free : List Name) : List (Name × Expr) → HS → List (Name × Expr) × HS
  | [], s => ([], s)
  | (k, c) :: cs, s =>
    let (c', s1) := collapseG free false c s
    let (cs', s2) := collapseK free cs s1
    ((k, c') :: cs', s2)
/-- the classification loop of `map_commut_assoc`: constant children are kept as they are,
    the others are recursed into, left to right -/
def partitionC (free : List Name) : List Expr → HS → List Expr × List Expr × HS
  | [], s => ([], [], s)
  | c :: cs, s =>
    bif isConst free c then
      let (ks, ns, s') := partitionC free cs s
      (c :: ks, ns, s')
    else
      let (c', s1) := collapseG free false c s
      let (ks, ns, s2) := partitionC free cs s1
      (ks, c' :: ns, s2)
end

/-- `collapse_constants(expression, free_variables, assign_func, new_var_func)` -/
def collapse (free : List Name) (e : Expr) : Expr × List (Name × Expr) :=
  let (e', s) := collapseG free true e { next := 0, assigns := [] }
  (e', s.assigns)

end Dagrt.Hoist
