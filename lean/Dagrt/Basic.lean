def hello := "world"
