"""C17 — a reported expression match is a genuine match."""
import itertools
import zlib
from fractions import Fraction

import ser

ID = "C17"
SOURCES = ["dagrt/expression.py"]
RULE = ("exhaustive: every template with <= 3 nodes over {+, *, f(.), x, y, 2} against every target with <= 3 nodes over "
        "{+, *, f(.), g(.), a, 2, 0, 1} x candidate sets {x,y,f}, {x}, {x,y}; random: templates of depth <= 3 with nested "
        "sums/products, calls with positional and keyword arguments, function symbols as candidates, quotients, powers, "
        "subscripts, comparisons, conditional expressions, repeated variables; targets = instances of the template (children of "
        "sums/products shuffled, units inserted, one factor dropped for the modulo-identity rule) and unrelated expressions; "
        "pre-matches consistent, contradictory and for non-candidates. Compared with the Lean model: the substitution returned by "
        "the REAL dagrt.expression.match (or the kind of ValueError) and the number of unification records. Oracle on the real "
        "answer alone: only declared free variables are bound, every pre-supplied binding is kept, and the template with the "
        "answer substituted has the value of the target at 8 random integer points under 3 random function tables (independent "
        "evaluator); any exception other than the two documented ValueErrors is a failure. Non-trivial: a substitution binding "
        ">= 1 variable was returned.")
TRUSTED = ["pymbolic.flatten and pymbolic's UnidirectionalUnifier are third party: the enumeration is MODELLED (Model/Match.lean) and validated by this run",
           "values are integers (commutative ring); quotients are evaluated exactly (fractions) by the oracle",
           "iteration order of Python sets of small integers is ascending (children indices < 8); the order of the identity-candidate variable set is read off the real objects"]
ASSUMPTIONS = ["templates contain no and/or/min/max (matched by pymbolic through permutations; the model answers `unsupported` and only the oracle sees them)"]

V = lambda n: ["v", n]
C = lambda n: ["c", n]


# ---------------------------------------------------------------- generators

def enum_t(n, atoms, funs):
    if n == 1:
        return list(atoms)
    out = []
    for a in enum_t(n - 1, atoms, funs):
        for f in funs:
            out.append(["call", f, [a], []])
    for k in range(1, n - 1):
        for a in enum_t(k, atoms, funs):
            for b in enum_t(n - 1 - k, atoms, funs):
                out.append(["+", [a, b]])
                out.append(["*", [a, b]])
    return out


def rand_leaf(rng, names):
    if rng.random() < 0.7:
        return V(rng.choice(names))
    return C(rng.choice([0, 1, 2, 3]))


def rand_expr(rng, d, names, funs, rich=True):
    r = rng.random()
    if d <= 0 or r < 0.28:
        return rand_leaf(rng, names)
    if r < 0.50:
        return ["+", [rand_expr(rng, d - 1, names, funs, rich) for _ in range(rng.choice([2, 2, 3]))]]
    if r < 0.68:
        return ["*", [rand_expr(rng, d - 1, names, funs, rich) for _ in range(rng.choice([2, 2, 3]))]]
    if r < 0.84 or not rich:
        f = rng.choice(funs)
        args = [rand_expr(rng, d - 1, names, funs, rich) for _ in range(rng.randint(0, 2))]
        kw = []
        if rng.random() < 0.35:
            keys = rng.sample(["k", "m", "b"], rng.randint(1, 2))
            kw = [[k, rand_expr(rng, d - 1, names, funs, rich)] for k in keys]
        return ["call", f, args, kw]
    if r < 0.88:
        return ["**", rand_expr(rng, d - 1, names, funs, rich), C(rng.randint(0, 2))]
    if r < 0.91:
        return ["/", rand_expr(rng, d - 1, names, funs, rich), rand_expr(rng, d - 1, names, funs, rich)]
    if r < 0.94:
        return ["sub", V(rng.choice(["arr", "brr"])), rand_expr(rng, d - 1, names, funs, rich)]
    if r < 0.96:
        return ["cmp", rng.choice(["<", "==", ">="]), rand_expr(rng, d - 1, names, funs, rich), rand_expr(rng, d - 1, names, funs, rich)]
    if r < 0.98:
        return ["if", rand_expr(rng, d - 1, names, funs, rich), rand_expr(rng, d - 1, names, funs, rich), rand_expr(rng, d - 1, names, funs, rich)]
    return ["not", rand_expr(rng, d - 1, names, funs, rich)]


def subst_js(j, sig, fsig):
    k = j[0]
    if k == "v":
        return sig.get(j[1], j)
    if k in ("+", "*", "and", "or", "min", "max"):
        return [k, [subst_js(c, sig, fsig) for c in j[1]]]
    if k in ("/", "**", "sub"):
        return [k, subst_js(j[1], sig, fsig), subst_js(j[2], sig, fsig)]
    if k == "call":
        return ["call", fsig.get(j[1], j[1]), [subst_js(c, sig, fsig) for c in j[2]],
                [[kk, subst_js(v, sig, fsig)] for kk, v in j[3]]]
    if k == "attr":
        return ["attr", subst_js(j[1], sig, fsig), j[2]]
    if k == "cmp":
        return ["cmp", j[1], subst_js(j[2], sig, fsig), subst_js(j[3], sig, fsig)]
    if k == "not":
        return ["not", subst_js(j[1], sig, fsig)]
    if k == "if":
        return ["if", subst_js(j[1], sig, fsig), subst_js(j[2], sig, fsig), subst_js(j[3], sig, fsig)]
    return j


def perturb(rng, j, p_shuffle, p_unit, p_kw):
    """semantics-preserving rewriting of a target: shuffle commutative children, insert units, reorder keywords"""
    k = j[0]
    if k in ("+", "*"):
        cs = [perturb(rng, c, p_shuffle, p_unit, p_kw) for c in j[1]]
        if rng.random() < p_shuffle:
            rng.shuffle(cs)
        if rng.random() < p_unit:
            cs.insert(rng.randint(0, len(cs)), C(0 if k == "+" else 1))
        return [k, cs]
    if k in ("/", "**", "sub"):
        return [k, perturb(rng, j[1], p_shuffle, p_unit, p_kw), perturb(rng, j[2], p_shuffle, p_unit, p_kw)]
    if k == "call":
        kw = [[kk, perturb(rng, v, p_shuffle, p_unit, p_kw)] for kk, v in j[3]]
        if rng.random() < p_kw:
            rng.shuffle(kw)
        return ["call", j[1], [perturb(rng, c, p_shuffle, p_unit, p_kw) for c in j[2]], kw]
    if k == "cmp":
        return ["cmp", j[1], perturb(rng, j[2], p_shuffle, p_unit, p_kw), perturb(rng, j[3], p_shuffle, p_unit, p_kw)]
    if k == "if":
        return ["if"] + [perturb(rng, c, p_shuffle, p_unit, p_kw) for c in j[1:]]
    if k == "not":
        return ["not", perturb(rng, j[1], p_shuffle, p_unit, p_kw)]
    return j


def drop_factor(rng, j):
    """replace one binary sum/product by one of its children (exercises the modulo-identity rule)"""
    k = j[0]
    if k in ("+", "*") and len(j[1]) == 2 and rng.random() < 0.5:
        return j[1][rng.randint(0, 1)]
    if k in ("+", "*"):
        cs = list(j[1])
        i = rng.randrange(len(cs))
        cs[i] = drop_factor(rng, cs[i])
        return [k, cs]
    if k == "call" and j[2]:
        cs = list(j[2])
        i = rng.randrange(len(cs))
        cs[i] = drop_factor(rng, cs[i])
        return ["call", j[1], cs, j[3]]
    return j


def names_of(j, vs, fs):
    k = j[0]
    if k == "v":
        vs.add(j[1])
    elif k in ("+", "*", "and", "or", "min", "max"):
        for c in j[1]:
            names_of(c, vs, fs)
    elif k in ("/", "**", "sub"):
        names_of(j[1], vs, fs)
        names_of(j[2], vs, fs)
    elif k == "call":
        fs.add(j[1])
        for c in j[2]:
            names_of(c, vs, fs)
        for _k, v in j[3]:
            names_of(v, vs, fs)
    elif k in ("attr", "not"):
        names_of(j[1], vs, fs)
    elif k == "cmp":
        names_of(j[2], vs, fs)
        names_of(j[3], vs, fs)
    elif k == "if":
        for c in j[1:]:
            names_of(c, vs, fs)


TV = ["x", "y", "z", "w"]
TF = ["f", "g"]
EV = ["a", "b", "c", "x"]       # `x` also on the target side: names are not kept apart
EF = ["f", "g", "h"]


def rand_case(rng):
    t = rand_expr(rng, rng.randint(1, 3), TV + ["a"], TF)
    vs, fs = set(), set()
    names_of(t, vs, fs)
    cands = sorted(n for n in vs | fs if rng.random() < 0.7 and n != "a")
    sig = {n: rand_expr(rng, rng.randint(0, 2), EV, EF, rich=False) for n in cands if n in vs}
    fsig = {n: rng.choice(EF) for n in cands if n in fs}
    for n in fsig:       # a name used both as variable and function symbol must be bound to a variable
        if n in sig:
            sig[n] = V(fsig[n])
    kind = rng.random()
    if kind < 0.2:
        e, tag = subst_js(t, sig, fsig), "instance"
    elif kind < 0.6:
        e, tag = perturb(rng, subst_js(t, sig, fsig), 0.7, 0.15, 0.5), "shuffled"
    elif kind < 0.75:
        e, tag = drop_factor(rng, perturb(rng, subst_js(t, sig, fsig), 0.5, 0.0, 0.3)), "identity"
    elif kind < 0.85:
        e, tag = rand_expr(rng, rng.randint(0, 3), EV, EF), "unrelated"
    else:
        # a near miss: the instance with one leaf changed
        e, tag = subst_js(subst_js(t, sig, fsig), {"a": C(7), "b": V("q")}, {"f": "h"}), "near-miss"
    pre = None
    r = rng.random()
    if cands and r < 0.3:
        # one to three pre-supplied bindings: the ones the target was built from, others, or a non-candidate
        ns = rng.sample(cands, rng.randint(1, min(3, len(cands))))
        pre = []
        all_good = True
        for n in ns:
            good = sig.get(n) if n in sig else V(fsig[n])
            if rng.random() < 0.75:
                pre.append([n, good])
            else:
                pre.append([n, rand_expr(rng, 1, EV, EF, rich=False)])
                all_good = False
        rng.shuffle(pre)
        if rng.random() < 0.2:
            # a pre-match for a name that is not a candidate: one that does not occur at all, or (more telling, since
            # the target keeps such names literally and the rest still unifies) a variable or function symbol OF THE
            # TEMPLATE that was left out of the candidates
            others = sorted((vs | fs) - set(cands))
            if others and rng.random() < 0.7:
                n = rng.choice(others)
                pre.insert(rng.randint(0, len(pre)), [n, V(rng.choice(EF if n in fs and n not in vs else EV))])
                tag += "+pre-noncand-in-template"
            else:
                pre.insert(rng.randint(0, len(pre)), ["nocand", V("a")])
                tag += "+pre-noncand"
        else:
            tag += ("+pre-ok" if all_good else "+pre-other") + str(len(pre))
    return {"op": "C17.match", "tag": tag, "tmpl": t, "target": e, "cands": cands, "pre": pre,
            "kw_rev": rng.random() < 0.5}


def cases(rng, tier):
    ts = []
    for n in (1, 2, 3):
        ts += enum_t(n, [V("x"), V("y"), C(2)], ["f"])
    es = []
    for n in (1, 2, 3):
        es += enum_t(n, [V("a"), C(2), C(0), C(1)], ["f", "g"]) if n < 3 else enum_t(n, [V("a"), C(2), C(1)], ["f", "g"])
    if tier == "quick":
        es = [e for k, e in enumerate(es) if k % 3 == 0 or len(str(e)) < 40]
    for t in ts:
        for e in es:
            for cands in (["f", "x", "y"], ["x"], ["x", "y"]):
                yield {"op": "C17.match", "tag": "exh", "tmpl": t, "target": e, "cands": cands, "pre": None}
    # calls whose keyword arguments are WRITTEN in different orders in template and target
    for kws in (["k", "m"], ["k", "m", "n"]):
        for _ in range(12):
            tv = rng.sample(TV, len(kws))
            vals = [rand_expr(rng, rng.randint(0, 1), EV, EF, rich=False) for _ in kws]
            tm = ["call", "f", [V("a")], [[k, V(v)] for k, v in zip(kws, tv)]]
            tg = ["call", "f", [V("a")], [[k, e] for k, e in zip(kws, vals)]]
            if rng.random() < 0.5:
                tm, tg = ["+", [tm, V("b")]], ["+", [V("b"), tg]]
            yield {"op": "C17.match", "tag": "kw-written-order", "tmpl": tm, "target": tg, "cands": sorted(tv), "pre": None,
                   "kw_rev": True}
    # a call WITHOUT keyword arguments against a call WITH keyword arguments (and the other way round), same
    # positional arguments: the keyword arguments of either side must not be ignored
    for _ in range(16):
        pos_t = [V(x) for x in rng.sample(TV, rng.randint(1, 2))]
        pos_e = [rand_expr(rng, rng.randint(0, 1), EV, EF, rich=False) for _ in pos_t]
        kws = [[k, rand_expr(rng, 0, EV, EF, rich=False)] for k in rng.sample(["k", "m", "n"], rng.randint(1, 2))]
        plain_t, plain_e = ["call", "f", pos_t, []], ["call", "f", pos_e, []]
        with_t, with_e = ["call", "f", pos_t, [[k, V("w")] for k, _ in kws]], ["call", "f", pos_e, kws]
        cands = sorted({x[1] for x in pos_t} | {"w"})
        for tm, tg in ((plain_t, with_e), (with_t, plain_e)):
            if rng.random() < 0.5:
                tm, tg = ["+", [tm, V("b")]], ["+", [V("b"), tg]]
            yield {"op": "C17.match", "tag": "kw-on-one-side", "tmpl": tm, "target": tg, "cands": cands, "pre": None, "kw_rev": False}
    for _ in range(3000 if tier == "quick" else 40000):
        yield rand_case(rng)


def exhaustive(tier):
    return tier == "thorough"


# ---------------------------------------------------------------- the real code

def reverse_kwargs(expr):
    """the same expression with the keyword arguments of every call WRITTEN in the opposite order (a dict keeps
    insertion order; which keyword comes first must not matter to the unifier)"""
    from pymbolic.mapper import IdentityMapper
    from pymbolic.primitives import CallWithKwargs

    class M(IdentityMapper):
        def map_call_with_kwargs(self, ex):
            kw = [(k, self.rec(v)) for k, v in ex.kw_parameters.items()]
            return CallWithKwargs(self.rec(ex.function), tuple(self.rec(p) for p in ex.parameters), dict(reversed(kw)))
    return M()(expr)


def real_inputs(case):
    t = ser.from_js(case["tmpl"])
    e = ser.from_js(case["target"])
    if case.get("kw_rev"):
        e = reverse_kwargs(e)
    pre = None
    if case.get("pre") is not None:
        pre = {n: ser.from_js(x) for n, x in case["pre"]}
    return t, e, set(case["cands"]), pre


def max_children(j):
    if not isinstance(j, list):
        return 0
    m = len(j[1]) if j and j[0] in ("+", "*") else 0
    return max([m] + [max_children(c) for c in j if isinstance(c, list)])


BUDGET_S = 4.0


class _OverBudget(BaseException):
    pass


def _alarm(signum, frame):
    raise _OverBudget()


def impl(case):
    """the real match() under a time budget: the number of unification records the real unifier keeps
    is exponential in the number of commutative nodes (a pair that takes minutes and tens of GB exists
    among 40000 random ones); cost is not part of the property, such a case is dropped and counted"""
    import signal
    import threading
    if threading.current_thread() is not threading.main_thread():
        return impl_unbounded(case)
    old = signal.signal(signal.SIGALRM, _alarm)
    signal.setitimer(signal.ITIMER_REAL, BUDGET_S)
    try:
        return impl_unbounded(case)
    except _OverBudget:
        return {"dropped": "real unifier over its time budget"}
    finally:
        signal.setitimer(signal.ITIMER_REAL, 0)
        signal.signal(signal.SIGALRM, old)


def impl_unbounded(case):
    import warnings
    from dagrt.expression import match
    from pymbolic import flatten
    t, e, cands, pre = real_inputs(case)
    if max_children(ser.to_js(flatten(e))) > 8:
        # Python sets of child indices >= 8 no longer iterate in ascending order (modelled: ascending)
        return {"dropped": "more than 8 children"}
    with warnings.catch_warnings():
        warnings.simplefilter("ignore")
        try:
            res = match(t, e, free_variable_names=cands, pre_match=pre)
        except ValueError as ex:
            msg = str(ex)
            if "not a candidate" in msg:
                return {"err": "preNotCandidate"}
            if "Cannot unify" in msg:
                return {"err": "cannotUnify"}
            return {"err": "ValueError:" + msg[:60]}
        except Exception as ex:        # not the documented error
            return {"err": "other:" + type(ex).__name__, "msg": str(ex)[:120]}
        # number of records (the front end only warns about it)
        n = None
        try:
            from dagrt.expression import _ExtendedUnifier
            from pymbolic import flatten
            from pymbolic.mapper.unifier import UnificationRecord
            from pymbolic.primitives import Variable
            urecs = None
            if pre is not None:
                urecs = [UnificationRecord([(Variable(k), v) for k, v in pre.items()])]
            n = len(_ExtendedUnifier(cands)(flatten(t), flatten(e), urecs))
        except Exception:
            pass
    try:
        return {"ok": sorted([k, ser.to_js(v)] for k, v in res.items()), "n": n}
    except ser.Unsupported as ex:
        return {"dropped": "unserialisable:" + str(ex)}


def sort_kw(j):
    """keyword arguments are a dict in pymbolic (order-insensitive equality); canonical form: sorted by key"""
    if not isinstance(j, list) or not j:
        return j
    if j[0] == "call":
        return ["call", j[1], [sort_kw(c) for c in j[2]], sorted([k, sort_kw(v)] for k, v in j[3])]
    return [sort_kw(c) if isinstance(c, list) else c for c in j]


def normalise(out):
    if isinstance(out, dict) and "ok" in out:
        out = dict(out)
        out["ok"] = [[n, sort_kw(x)] for n, x in out["ok"]]
    return out


def model_input(case):
    from pymbolic import flatten
    from pymbolic.primitives import Variable
    t, e, cands, pre = real_inputs(case)
    firsts = []
    cl = sorted(cands)
    for x in cl:
        for y in cl:
            if x != y:
                s = {term for term in (Variable(x), Variable(y))}
                if next(iter(s)).name == x:
                    firsts.append([x, y])
    pre_js = case.get("pre")
    if pre_js is not None:
        pre_js = [[n, sort_kw(x)] for n, x in pre_js]
    return {"op": "C17.match", "tmpl": sort_kw(ser.to_js(flatten(t))), "target": sort_kw(ser.to_js(flatten(e))),
            "cands": cl, "pre": pre_js, "vfirst": firsts}


def normalise_pair(case, a, b):
    if isinstance(b, dict) and b.get("unsupported"):
        ctx.count("model:unsupported")
        return None, None
    if isinstance(a, dict) and isinstance(b, dict) and "ok" in a and "ok" in b:
        b = dict(b)
        alts = b.pop("alts", None) or []
        if a["ok"] != b["ok"] and a.get("n") == b.get("n") and a["ok"] in alts:
            # the real front end returned another of the model's records (every one of them is proved to be a
            # genuine match; which comes first is an iteration order the property leaves open)
            ctx.count("tie:other-record-of-the-model")
            b["ok"] = a["ok"]
    return a, b


# ---------------------------------------------------------------- oracle (independent evaluator)

class Skip(Exception):
    pass


def F(salt, name, args, kw):
    blob = repr((salt, name, [str(a) for a in args], sorted((k, str(v)) for k, v in kw))).encode()
    return Fraction(zlib.crc32(blob) % 13 - 6)


def ev(j, env, fmap, salt):
    k = j[0]
    if k == "c":
        return Fraction(j[1])
    if k == "cb":
        return Fraction(1 if j[1] else 0)
    if k == "v":
        v = env.get(j[1])
        if v is None:
            raise Skip()
        return v(env, fmap, salt) if callable(v) else v
    if k == "+":
        return sum((ev(c, env, fmap, salt) for c in j[1]), Fraction(0))
    if k == "*":
        r = Fraction(1)
        for c in j[1]:
            r *= ev(c, env, fmap, salt)
        return r
    if k == "/":
        d = ev(j[2], env, fmap, salt)
        if d == 0:
            raise Skip()
        return ev(j[1], env, fmap, salt) / d
    if k == "**":
        b, x = ev(j[1], env, fmap, salt), ev(j[2], env, fmap, salt)
        if x.denominator != 1 or x < 0 or x > 4:
            raise Skip()
        return b ** int(x)
    if k == "call":
        return F(salt, fmap.get(j[1], j[1]), [ev(c, env, fmap, salt) for c in j[2]],
                 [(kk, ev(v, env, fmap, salt)) for kk, v in j[3]])
    if k == "sub":
        return F(salt, "<sub>", [ev(j[1], env, fmap, salt), ev(j[2], env, fmap, salt)], [])
    if k == "attr":
        return F(salt, "<attr>" + j[2], [ev(j[1], env, fmap, salt)], [])
    if k == "cmp":
        a, b = ev(j[2], env, fmap, salt), ev(j[3], env, fmap, salt)
        return Fraction(int({"<": a < b, "<=": a <= b, ">": a > b, ">=": a >= b, "==": a == b, "!=": a != b}[j[1]]))
    if k == "not":
        return Fraction(int(ev(j[1], env, fmap, salt) == 0))
    if k == "if":
        return ev(j[2], env, fmap, salt) if ev(j[1], env, fmap, salt) != 0 else ev(j[3], env, fmap, salt)
    if k == "and":
        return Fraction(int(all(ev(c, env, fmap, salt) != 0 for c in j[1])))
    if k == "or":
        return Fraction(int(any(ev(c, env, fmap, salt) != 0 for c in j[1])))
    if k == "min":
        return min(ev(c, env, fmap, salt) for c in j[1])
    if k == "max":
        return max(ev(c, env, fmap, salt) for c in j[1])
    raise Skip()


def oracle(case, out):
    if not isinstance(out, dict):
        return {"what": "no output"}
    if "harness_error" in out:
        return {"what": "match could not be called: " + out["harness_error"] + ": " + out.get("msg", "")}
    if "err" in out:
        if out["err"] in ("cannotUnify",):
            return None
        if out["err"] == "preNotCandidate":
            if case.get("pre") and any(n not in case["cands"] for n, _ in case["pre"]):
                return None
            return {"what": "pre-match rejected although every pre-matched name is a declared free variable"}
        return {"what": "match raised " + out["err"] + " instead of the documented ValueError", "sig": "exception:" + out["err"][:30]}
    sig = {n: x for n, x in out["ok"]}
    for n in sig:
        if n not in case["cands"]:
            return {"what": f"the answer binds '{n}', which is not a declared free variable", "sig": "binds-non-candidate"}
    for n, x in case.get("pre") or []:
        if sig.get(n) != x:
            return {"what": f"pre-supplied binding of '{n}' is not kept in the answer", "sig": "pre-match-dropped"}
    # value: template under the answer == target
    vs, fs = set(), set()
    names_of(case["tmpl"], vs, fs)
    names_of(case["target"], vs, fs)
    for x in sig.values():
        names_of(x, vs, fs)
    vs |= fs
    fmap = {}
    for n, x in sig.items():
        if x[0] == "v":
            fmap[n] = x[1]
    import random
    rr = random.Random(zlib.crc32(repr(case).encode()))
    checked = 0
    for salt in range(3):
        for _ in range(3 if salt else 2):
            base = {v: Fraction(rr.randint(-4, 5)) for v in sorted(vs)}
            env_t = dict(base)
            for n, x in sig.items():
                env_t[n] = (lambda _e, _f, _s, x=x, base=base: ev(x, base, {}, _s))
            try:
                # function symbols bound by the answer are renamed inside the template only
                a = ev(case["tmpl"], env_t, {n: g for n, g in fmap.items()}, salt)
                b = ev(case["target"], base, {}, salt)
            except Skip:
                continue
            checked += 1
            if a != b:
                return {"what": f"substituting the answer into the template gives {a}, the target evaluates to {b} "
                                f"at {dict((k, str(v)) for k, v in base.items())} (function table {salt})",
                        "sig": "value-differs"}
    ctx.count("oracle:points", checked)
    return None


def nontrivial(case, out):
    return isinstance(out, dict) and bool(out.get("ok"))


def shrink(case, still_fails):
    cur = case
    changed = True
    while changed:
        changed = False
        for key in ("tmpl", "target"):
            for cand in shrink_expr(cur[key]):
                c2 = dict(cur)
                c2[key] = cand
                if still_fails(c2):
                    cur = c2
                    changed = True
                    break
        if cur.get("pre") is not None:
            c2 = dict(cur)
            c2["pre"] = None
            if still_fails(c2):
                cur = c2
                changed = True
    return cur


def shrink_expr(j):
    k = j[0]
    if k in ("+", "*", "and", "or", "min", "max"):
        for c in j[1]:
            yield c
        if len(j[1]) > 2:
            for i in range(len(j[1])):
                yield [k, j[1][:i] + j[1][i + 1:]]
        for i, c in enumerate(j[1]):
            for s in shrink_expr(c):
                yield [k, j[1][:i] + [s] + j[1][i + 1:]]
    elif k in ("/", "**", "sub"):
        yield j[1]
        for s in shrink_expr(j[1]):
            yield [k, s, j[2]]
        for s in shrink_expr(j[2]):
            yield [k, j[1], s]
    elif k == "call":
        for c in j[2]:
            yield c
        if j[3]:
            yield ["call", j[1], j[2], []]
        for i, c in enumerate(j[2]):
            for s in shrink_expr(c):
                yield ["call", j[1], j[2][:i] + [s] + j[2][i + 1:], j[3]]
    elif k in ("if",):
        yield j[2]
        yield j[3]
    elif k == "not":
        yield j[1]
    elif k == "cmp":
        yield j[2]
