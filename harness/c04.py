"""C04 — each step runs every statement of the phase once, after its dependencies."""
import itertools

ID = "C04"
SOURCES = ["dagrt/language.py", "dagrt/exec_numpy.py"]
RULE = ("exhaustive: every acyclic dependency graph on <= 4 statements (labels permuted so that id order is not a topological "
        "order) x every guard valuation (skip/run), roots = the phase's sinks; plus every single abort position on the 3-statement "
        "graphs; random: DAGs of up to 12 statements with skips, one abort, dynamic requests (new_deps) from executed statements, "
        "partial root sets, occasional dangling dependencies. The real ExecutionController is driven with a mock target that logs "
        "evaluate_condition/exec callbacks; the iteration order of every frozenset is read off the real objects and handed to the "
        "model, so the visit log must match exactly. Oracle on the real log: every id at most once, each after all its dependencies, "
        "nothing after an abort, all statements visited when roots are the sinks and nothing aborts, requested statements and their "
        "unvisited dependencies run before anything planned earlier. Non-trivial: >= 2 statements and >= 1 edge.")
TRUSTED = ["iteration orders of depends_on frozensets / the sink set are inputs of the model (any order is covered by the theorems)"]


class Abort(Exception):
    pass


def build(case):
    from dagrt.language import DAGCode, ExecutionPhase, Nop
    n = case["n"]
    stmts = [Nop(id=f"s{i}", depends_on=[f"s{d}" for d in case["deps"][i]]) for i in range(n)]
    order = case.get("storage", list(range(n)))
    ph = ExecutionPhase("p", "p", [stmts[i] for i in order])
    return DAGCode({"p": ph}, "p"), ph, stmts


class Target:
    def __init__(self, case, log):
        self.case = case
        self.log = log

    def evaluate_condition(self, stmt):
        i = int(stmt.id[1:])
        self.log.append(i)
        return self.case["target"][i] != "skip"

    def exec_Nop(self, stmt):
        i = int(stmt.id[1:])
        a = self.case["target"][i]
        if a == "abort":
            raise Abort()
        if a[0] == "run" and a[1]:
            return None, [f"s{d}" for d in a[1]]
        return None


def real_roots(case, ph):
    if case["roots"] == "sinks":
        return list(ph.depends_on)  # iteration order of the real set
    return [f"s{i}" for i in case["roots"]]


def impl(case):
    from dagrt.language import ExecutionController
    code, ph, stmts = build(case)
    ec = ExecutionController(code)
    log = []
    try:
        ec.reset()
        ec.update_plan(ph, real_roots(case, ph))
        for _ in ec(ph, Target(case, log)):
            pass
    except Abort:
        pass
    except KeyError:
        return {"err": "KeyError"}
    except RecursionError:
        return {"err": "RecursionError"}
    out = {"log": log, "plan": [int(x[1:]) for x in ec.plan]}
    # a SECOND step on the same controller (as run_single_step starts it: reset, plan from the roots), in which every
    # statement runs and nothing aborts or requests: whatever the first step left behind must not show
    log2 = []
    case2 = dict(case, target=[["run", []]] * case["n"])
    try:
        ec.reset()
        ec.update_plan(ph, real_roots(case, ph))
        for _ in ec(ph, Target(case2, log2)):
            pass
        out["second"] = {"log": log2}
    except Exception as e:
        out["second"] = {"err": type(e).__name__}
    return out


def normalise(out):
    if isinstance(out, dict):
        return {k: v for k, v in out.items() if k != "second"}
    return out


def model_input(case):
    code, ph, stmts = build(case)
    n = case["n"]
    graph = [[int(d[1:]) for d in stmts[i].depends_on] for i in range(n)]  # real iteration order
    roots = [int(r[1:]) for r in real_roots(case, ph)]
    return {"op": "C04.step", "graph": graph, "roots": roots, "target": case["target"]}


def closure(deps, ids):
    out = set()
    todo = list(ids)
    while todo:
        x = todo.pop()
        if x in out or x >= len(deps):
            continue
        out.add(x)
        todo.extend(deps[x])
    return out


def oracle(case, out):
    r = oracle_step(case, out)
    if r is not None or "second" not in out:
        return r
    n = case["n"]
    if not all(d < n for ds in case["deps"] for d in ds):
        return None
    r2 = oracle_step(dict(case, target=[["run", []]] * n), out["second"])
    if r2 is not None:
        return {"what": "second step on the same controller (after a step that " +
                        ("was aborted" if "abort" in case["target"] else "completed") + "): " + r2["what"],
                "sig": "second-step-" + r2.get("sig", "")}
    return None


def oracle_step(case, out):
    n = case["n"]
    deps = case["deps"]
    wf = all(d < n for ds in deps for d in ds)
    if "err" in out:
        if wf:
            return {"what": f"controller raised {out['err']} on a well-formed phase", "sig": "err"}
        return None
    log = out["log"]
    if len(set(log)) != len(log):
        return {"what": f"a statement was visited twice: {log}", "sig": "twice"}
    seen = set()
    aborted = False
    for k, i in enumerate(log):
        if aborted:
            return {"what": f"statement visited after the step was aborted: {log}", "sig": "after-abort"}
        for d in deps[i]:
            if d < n and d not in seen:
                return {"what": f"s{i} visited before its dependency s{d}: log {log}", "sig": "before-dep"}
        seen.add(i)
        if case["target"][i] == "abort":
            aborted = True
        # dynamic request: the requested statements with their unvisited dependencies come next
        a = case["target"][i]
        if a != "skip" and a != "abort" and a[1] and wf:
            need = closure(deps, a[1]) - seen
            nxt = log[k + 1:k + 1 + len(need)]
            clean = all(case["target"][j] in ("skip", ["run", []]) for j in nxt)
            if clean and len(nxt) == len(need) and set(nxt) != need:
                return {"what": f"request {a[1]} by s{i}: expected {sorted(need)} next, log continues {nxt}", "sig": "request-order"}
    if wf and not aborted and case["roots"] == "sinks" and set(log) != set(range(n)):
        return {"what": f"step completed but visited only {sorted(log)} of {n} statements", "sig": "incomplete"}
    if wf and not aborted and case["roots"] != "sinks":
        want = closure(deps, case["roots"])
        for i in log:
            a = case["target"][i]
            if a not in ("skip", "abort") and a[1]:
                want |= closure(deps, a[1])
        if set(log) != want:
            return {"what": f"visited {sorted(log)}, expected the dependency closure {sorted(want)}", "sig": "closure"}
    return None


def nontrivial(case, out):
    return case["n"] >= 2 and any(case["deps"])


def dags(n):
    pairs = [(i, j) for i in range(n) for j in range(i)]
    for mask in range(1 << len(pairs)):
        deps = [[] for _ in range(n)]
        for b, (i, j) in enumerate(pairs):
            if mask >> b & 1:
                deps[i].append(j)
        yield deps


def relabel(deps, perm):
    n = len(deps)
    out = [[] for _ in range(n)]
    for i in range(n):
        out[perm[i]] = [perm[d] for d in deps[i]]
    return out


def cases(rng, tier):
    nmax = 4
    for n in range(1, nmax + 1):
        for deps in dags(n):
            perm = list(range(n))
            rng.shuffle(perm)
            d2 = relabel(deps, perm)
            for guards in itertools.product(["skip", ["run", []]], repeat=n):
                yield {"op": "C04.step", "tag": f"exh{n}", "n": n, "deps": d2, "roots": "sinks", "target": list(guards)}
            if n == 3:
                for pos in range(n):
                    t = [["run", []]] * n
                    t = list(t)
                    t[pos] = "abort"
                    yield {"op": "C04.step", "tag": "exh3-abort", "n": n, "deps": d2, "roots": "sinks", "target": t}
    for _ in range(1500 if tier == "quick" else 30000):
        n = rng.randint(1, 12)
        deps = []
        for i in range(n):
            k = rng.randint(0, min(3, i))
            deps.append(rng.sample(range(i), k))
        perm = list(range(n))
        rng.shuffle(perm)
        deps = relabel(deps, perm)
        if rng.random() < 0.03:
            deps[rng.randrange(n)].append(n + 3)  # dangling
        target = []
        for i in range(n):
            r = rng.random()
            if r < 0.25:
                target.append("skip")
            elif r < 0.45:
                target.append(["run", rng.sample(range(n), rng.randint(1, min(2, n)))])
            else:
                target.append(["run", []])
        if rng.random() < 0.25:
            target[rng.randrange(n)] = "abort"
        roots = "sinks" if rng.random() < 0.5 else rng.sample(range(n), rng.randint(1, min(3, n)))
        storage = list(range(n))
        rng.shuffle(storage)
        yield {"op": "C04.step", "tag": "random", "n": n, "deps": deps, "roots": roots, "target": target, "storage": storage}


def exhaustive(tier):
    return True


def shrink(case, still_fails):
    cur = case
    changed = True
    while changed:
        changed = False
        # simplify actions
        for i in range(cur["n"]):
            if cur["target"][i] != ["run", []]:
                t = list(cur["target"])
                t[i] = ["run", []]
                c2 = dict(cur, target=t)
                if still_fails(c2):
                    cur = c2
                    changed = True
                    break
        if changed:
            continue
        for i in range(cur["n"]):
            for k in range(len(cur["deps"][i])):
                d = [list(x) for x in cur["deps"]]
                del d[i][k]
                c2 = dict(cur, deps=d)
                if still_fails(c2):
                    cur = c2
                    changed = True
                    break
            if changed:
                break
    return cur
