"""Shared by C03, C12, C15: generator of methods inside the subset the Fortran target supports, the
REAL Fortran generator + gfortran + a generated driver program, the REAL interpreter on the same
method, and parsing of what the driver prints."""
import os
import re
import shutil
import subprocess
import tempfile

import c02
import sem_common as sc

N = 3          # length of the user-type vector
SCALARS = ["s", "r", "q"]
VECTORS = ["v1", "v2", "w"]
PHASES = ["p0", "p1"]

V = lambda n: ["v", n]
C = lambda n: ["c", n]


# ---------------------------------------------------------------- generator

class Scope:
    def __init__(self, scal, vec, arr):
        self.scal, self.vec, self.arr = list(scal), list(vec), list(arr)

    def copy(self):
        return Scope(self.scal, self.vec, self.arr)


def g_vec(rng, sc_, d=1):
    """user-type valued expression"""
    r = rng.random()
    if d <= 0 or r < 0.35:
        return V(rng.choice(sc_.vec))
    if r < 0.7:
        a, b = V(rng.choice(sc_.vec)), V(rng.choice(sc_.vec))
        q = rng.random()
        if q < 0.4:
            return ["+", [a, ["*", [V("<dt>"), b]]]]
        if q < 0.7:
            return ["+", [["*", [C(rng.choice([2, -1, 3])), a]], b]]
        return ["+", [a, ["*", [C(-1), b]]]]
    if r < 0.85:
        return ["*", [C(rng.choice([2, -2, 4])), V(rng.choice(sc_.vec))]]
    return ["call", "<builtin>elementwise_abs", [V(rng.choice(sc_.vec))], []]


EXACT = [False]     # integer-exact family: no norm_2, no division (compared with the Lean reference as well)


def g_scal(rng, sc_, d):
    r = rng.random()
    if EXACT[0] and 0.52 <= r < 0.68:
        r = 0.3
    if EXACT[0] and r >= 0.97:
        r = 0.3
    if d <= 0 or r < 0.25:
        q = rng.random()
        if q < 0.5 and sc_.scal:
            return V(rng.choice(sc_.scal))
        if q < 0.7:
            return V(rng.choice(["<t>", "<dt>"]))
        n = rng.choice([0, 1, 2, 3, -1, 4])
        if not EXACT[0] and rng.random() < 0.3:
            return ["cf", repr(float(n))]          # int / float twins of the same value (2 and 2.0)
        return C(n)
    if r < 0.42:
        return ["+", [g_scal(rng, sc_, d - 1), g_scal(rng, sc_, d - 1)]]
    if r < 0.52:
        return ["*", [g_scal(rng, sc_, d - 1), C(rng.choice([2, -2, 3]))]]
    if r < 0.68:
        # the only norm the Fortran target has a template for
        return ["call", "<builtin>norm_2", [V(rng.choice(sc_.vec))], []]
    if r < 0.82:
        return ["if", g_cmp(rng, sc_, d - 1), g_scal(rng, sc_, d - 1), g_scal(rng, sc_, d - 1)]
    if r < 0.88:
        return ["**", g_scal(rng, sc_, 0), C(2)]
    if r < 0.94 and sc_.arr:
        return ["sub", V(rng.choice(sc_.arr)), C(rng.randrange(N))]
    if r < 0.97 and sc_.arr:
        return ["call", "<builtin>len", [V(rng.choice(sc_.arr))], []]
    if EXACT[0]:
        return ["+", [g_scal(rng, sc_, d - 1), C(1)]]
    return ["/", g_scal(rng, sc_, d - 1), C(rng.choice([2, 4]))]


def g_cmp(rng, sc_, d):
    return ["cmp", rng.choice(["<", "<=", ">", ">=", "!=", "=="]), g_scal(rng, sc_, d), C(rng.choice([0, 1, 2, 3]))]


def g_actions(rng, sc_, depth, budget):
    ops = []
    while budget[0] > 0:
        budget[0] -= 1
        r = rng.random()
        if r < 0.16:
            tgt = rng.choice(VECTORS)
            arg = V(rng.choice(sc_.vec)) if rng.random() < 0.75 else g_vec(rng, sc_)
            ops.append(["stmt", ["call", [tgt], "<func>rhs", [V("<t>"), arg], []]])
            sc_.vec.append(tgt) if tgt not in sc_.vec else None
        elif r < 0.3:
            tgt = rng.choice(VECTORS + ["<state>y"])
            ops.append(["stmt", ["assign", tgt, None, g_vec(rng, sc_, 1), []]])
            sc_.vec.append(tgt) if tgt not in sc_.vec else None
        elif r < 0.36 and len(sc_.vec) > 1:
            tgt = rng.choice(VECTORS)          # plain copy: a move of the reference
            src = rng.choice([v for v in sc_.vec if v != tgt])
            ops.append(["stmt", ["assign", tgt, None, V(src), []]])
            sc_.vec.append(tgt) if tgt not in sc_.vec else None
        elif r < 0.56:
            tgt = rng.choice(SCALARS + ["<p>k"])
            ops.append(["stmt", ["assign", tgt, None, g_scal(rng, sc_, rng.choice([1, 2, 2, 3])), []]])
            sc_.scal.append(tgt) if tgt not in sc_.scal else None
        elif r < 0.59 and sc_.scal:
            # a scalar that mixes a loop counter (Integer) with a real: its kind is refined during inference,
            # and a second scalar takes its kind from it only
            tgt, dep = rng.sample(SCALARS, 2)
            z = rng.choice(sc_.scal)
            ops.append(["stmt", ["assign", tgt, None, ["+", [V("i"), ["/", V(z), C(4)]] if not EXACT[0] else [V("i"), V(z)]],
                                 [["i", C(0), C(N)]]]])
            ops.append(["stmt", ["assign", dep, None, V(tgt), []]])
            ops.append(["stmt", ["assign", "<p>k", None, ["+", [V("<p>k"), ["*", [V(dep), V("<dt>")]]]], []]])
            for n in (tgt, dep):
                sc_.scal.append(n) if n not in sc_.scal else None
        elif r < 0.62:
            ops.append(["stmt", ["assign", "<t>", None, ["+", [V("<t>"), V("<dt>")]], []]])
        elif r < 0.68:
            ops.append(["stmt", ["call", ["a"], "<builtin>array", [C(N)], []]])
            ops.append(["stmt", ["assign", "a", V("i"), ["+", [g_scal(rng, sc_, 1), V("i")]], [["i", C(0), C(N)]]]])
            sc_.arr.append("a") if "a" not in sc_.arr else None
        elif r < 0.72 and len(VECTORS) >= 2:
            # two user-type temporaries made by ONE call and used last by ONE statement
            lo, hi = rng.sample(VECTORS, 2)
            ops.append(["stmt", ["call", [lo, hi], "<func>split", [V(rng.choice(sc_.vec))], []]])
            ops.append(["stmt", ["assign", "<state>y", None, ["+", [V(lo), V(hi)]], []]])
            for n in (lo, hi):
                sc_.vec.append(n) if n not in sc_.vec else None
        elif r < 0.74:
            # a PERSISTENT array re-created with a size that differs between occurrences (phases, branches, run
            # calls), filled completely, then used as a whole (len, norm_2): storage kept from a larger incarnation shows
            n_w = rng.choice([2, 3, N, N + 1])
            ops.append(["stmt", ["call", ["<p>w"], "<builtin>array", [C(n_w)], []]])
            ops.append(["stmt", ["assign", "<p>w", V("i"), ["+", [g_scal(rng, sc_, 1), V("i")]], [["i", C(0), C(n_w)]]]])
            whole = ["call", rng.choice(["<builtin>len", "<builtin>norm_2"] if not EXACT[0] else ["<builtin>len"]), [V("<p>w")], []]
            ops.append(["stmt", ["assign", "<p>k", None, ["+", [V("<p>k"), whole]], []]])
        elif r < 0.78:
            ops.append(["stmt", ["yield", V("<state>y"), V("<t>"), "final", "y"]])
        elif r < 0.8 and depth > 0:
            ops.append(["stmt", ["fail"]])
        elif r < 0.83:
            ops.append(["stmt", ["switch", rng.choice(PHASES)]])
        elif depth < 2:
            ops.append(["if", g_cmp(rng, sc_, 1)])
            inner = sc_.copy()
            ops += g_actions(rng, inner, depth + 1, [min(budget[0], rng.randint(1, 3))]) or \
                [["stmt", ["assign", "s", None, C(1), []]]]
            ops.append(["endif"])
            if rng.random() < 0.4:
                ops.append(["else"])
                inner = sc_.copy()
                ops += g_actions(rng, inner, depth + 1, [rng.randint(1, 2)]) or [["stmt", ["assign", "s", None, C(2), []]]]
                ops.append(["endelse"])
        if rng.random() < 0.15:
            break
    return ops


def g_method(rng, n_phases=None, exact=False):
    EXACT[0] = exact
    try:
        return _g_method(rng, n_phases, exact)
    finally:
        EXACT[0] = False


def _g_method(rng, n_phases, exact):
    n = n_phases or rng.randint(1, 2)
    phases = []
    for k in range(n):
        sc_ = Scope(["<p>k"], ["<state>y"], [])
        ops = []
        if k == 0:
            # kinds flow from the result of <func>f into <state>y (kind inference has no other source for it)
            ops = [["stmt", ["call", ["v1"], "<func>rhs", [V("<t>"), V("<state>y")], []]],
                   ["stmt", ["assign", "<state>y", None, ["+", [V("<state>y"), ["*", [V("<dt>"), V("v1")]]]], []]],
                   ["stmt", ["assign", "<p>k", None, ["+", [V("<p>k"), C(1)]], []]]]
            sc_.vec.append("v1")
        budget = [rng.randint(3, 9)]
        while budget[0] > 0:
            ops += g_actions(rng, sc_, 0, budget)
        if not any(op[0] == "stmt" and op[1][0] == "yield" for op in ops) and rng.random() < 0.6:
            ops.append(["stmt", ["yield", V("<state>y"), V("<t>"), "final", "y"]])
        names = PHASES if n <= len(PHASES) else [f"p{i}" for i in range(n)]
        phases.append({"name": names[k], "next": rng.choice(names[:n]), "prog": ops})
    for ph in phases:       # switch targets must exist
        for op in ph["prog"]:
            if op[0] == "stmt" and op[1][0] == "switch" and op[1][1] not in [p["name"] for p in phases]:
                op[1][1] = phases[0]["name"]
    if exact:
        return {"phases": phases, "initial": "p0", "y0": [rng.choice([1, 2, -1, 0, 3]) for _ in range(N)], "exact": True,
                "k0": rng.choice([0, 1, 2, -1]), "t0": 0, "dt": rng.choice([1, 2]), "runs": rng.randint(1, 4)}
    return {"phases": phases, "initial": "p0", "y0": [rng.choice([1, 2, -1, 0.5, 3]) for _ in range(N)], "exact": False,
            "k0": rng.choice([0, 1, 2, -1]), "t0": 0, "dt": rng.choice([0.5, 1, 0.25]), "runs": rng.randint(1, 4)}


# ---------------------------------------------------------------- real code

def build_code(m):
    from dagrt.language import CodeBuilder, DAGCode
    phases = []
    for ph in m["phases"]:
        cb = CodeBuilder(ph["name"])
        fresh, failed = c02.drive_builder(cb, ph["prog"])
        if failed:
            raise ValueError("builder failed")
        phases.append(cb.as_execution_phase(ph["next"]))
    return DAGCode.from_phases_list(phases, m["initial"])


def make_generator(module_name="meth", **kw):
    import dagrt.codegen.fortran as f
    from dagrt.function_registry import base_function_registry, register_ode_rhs
    freg = register_ode_rhs(base_function_registry, "y", identifier="<func>rhs", input_names=("y",))
    freg = freg.register_codegen("<func>rhs", "fortran", f.CallCode("""
        ${result} = -2*${y} + ${t}
        """))
    # a user function with TWO user-type results (one statement is then the first mention of two temporaries)
    from dagrt.data import UserType
    from dagrt.function_registry import register_function
    freg = register_function(freg, "<func>split", ("y",), result_names=("lo", "hi"),
                             result_kinds=(UserType("y"), UserType("y")))
    freg = freg.register_codegen("<func>split", "fortran", f.CallCode("""
        ${lo} = 2*${y}
        ${hi} = -${y}
        """))
    # a user function whose FIRST result is a scalar and whose second is a user type
    from dagrt.data import Scalar
    freg = register_function(freg, "<func>rate", ("y",), result_names=("lam", "k"),
                             result_kinds=(Scalar(True), UserType("y")))
    freg = freg.register_codegen("<func>rate", "fortran", f.CallCode("""
        ${lam} = 0.5d0
        ${k} = -${y}
        """))
    return f.CodeGenerator(module_name, function_registry=freg,
                           user_type_map={"y": f.ArrayType((N,), f.BuiltinType("real*8"))},
                           timing_function="second", **kw)


def fortran_text(m, module_name="meth"):
    import contextlib
    import io
    buf = io.StringIO()
    with contextlib.redirect_stdout(buf):          # kind inference prints its left-overs
        try:
            # "trace": the generator's own option that makes the module narrate what it does (write statements)
            # "instrument": the generator's profiling option (counters and timers around every phase)
            kw = {}
            if m.get("trace"):
                kw["trace"] = True
            if m.get("instrument"):
                kw["emit_instrumentation"] = True
            return make_generator(module_name, **kw)(build_code(m))
        except Exception as e:
            e.args = (str(e) + " | " + buf.getvalue()[-300:].replace("\n", " / "),)
            raise


def fortran_driver(text, m, module_name="meth"):
    sig = re.search(r"subroutine initialize\(([^)]*)\)", text.replace("&\n", " "))
    args = [a.strip() for a in sig.group(1).replace("&", " ").split(",")]
    fields = re.search(r"type dagrt_state_type(.*?)end type", text, re.S).group(1)
    init = []
    for a in args:
        if a == "dagrt_state":
            init.append("dagrt_state=dagrt_state_ptr")
        elif a == "dagrt_t":
            init.append(f"dagrt_t={float(m['t0'])!r}d0")
        elif a == "dagrt_dt":
            init.append(f"dagrt_dt={float(m['dt'])!r}d0")
        elif a == "p_k":
            init.append(f"p_k={float(m['k0'])!r}d0")
        elif a == "state_y":
            init.append("state_y=y0")
        elif a == "p_w":
            pass            # optional: the persistent array is created by the method itself
        else:
            raise ValueError("unexpected initialize argument " + a)
    prints = ["write(*,'(A,I6)') 'next ', dagrt_state%dagrt_next_phase"]
    for name, label in (("dagrt_t", "t"), ("dagrt_dt", "dt"), ("p_k", "k"), ("ret_time_y", "rett"), ("ret_time_id_y", "rettid")):
        if re.search(r"\b" + name + r"\b", fields):
            prints.append(f"write(*,'(A,ES25.16E3)') '{label} ', dagrt_state%{name}")
    for name, label in (("state_y", "y"), ("ret_state_y", "rety")):
        if re.search(r"\b" + name + r"\b", fields):
            prints.append(f"if (associated(dagrt_state%{name})) then")
            prints.append(f"  write(*,'(A,{N}ES25.16E3)') '{label} ', dagrt_state%{name}")
            prints.append("else")
            prints.append(f"  write(*,'(A)') '{label} none'")
            prints.append("end if")
    y0 = ", ".join(f"{float(v)!r}d0" for v in m["y0"])
    body = "\n    ".join(prints)
    return f"""program driver
  use {module_name}, only: dagrt_state_type, timestep_initialize => initialize, timestep_run => run, &
    timestep_shutdown => shutdown
  implicit none
  type(dagrt_state_type), target :: dagrt_state
  type(dagrt_state_type), pointer :: dagrt_state_ptr
  real*8, dimension({N}) :: y0
  integer istep
  dagrt_state_ptr => dagrt_state
  y0 = (/ {y0} /)
  call timestep_initialize({", ".join(init)})
  do istep = 1, {int(m['runs'])}
    call timestep_run(dagrt_state=dagrt_state_ptr)
    write(*,'(A,I4)') 'step ', istep
    {body}
  end do
  call timestep_shutdown(dagrt_state=dagrt_state_ptr)
  write(*,'(A)') 'done'
end program
"""


def compile_and_run(text, driver, asan=False, timeout=120):
    """returns dict(compiled, compile_log, rc, stdout, stderr)"""
    d = tempfile.mkdtemp(prefix="dagrt-verif-f-")
    try:
        with open(os.path.join(d, "meth.f90"), "w") as f:
            f.write(text)
        with open(os.path.join(d, "driver.f90"), "w") as f:
            f.write(driver)
        cmd = ["gfortran", "-g", "-O0", "-Wno-unused", "-ffree-line-length-none", "-o", "runtest", "meth.f90", "driver.f90",
               "-llapack", "-lblas"]
        if asan:
            cmd[1:1] = ["-fsanitize=address", "-fno-omit-frame-pointer"]
        # a loaded machine must not turn into a finding: the compiler gets a second, much longer chance
        try:
            r = subprocess.run(cmd, cwd=d, capture_output=True, text=True, timeout=timeout)
        except subprocess.TimeoutExpired:
            r = subprocess.run(cmd, cwd=d, capture_output=True, text=True, timeout=timeout * 8)
        if r.returncode != 0:
            return {"compiled": False, "compile_log": (r.stdout + r.stderr)[-1500:]}
        env = dict(os.environ, ASAN_OPTIONS="detect_leaks=1:halt_on_error=1:exitcode=23")
        exe = [os.path.join(d, "runtest")]
        try:
            r = subprocess.run(exe, cwd=d, capture_output=True, text=True, timeout=timeout, env=env)
        except subprocess.TimeoutExpired:
            # the generated steppers take milliseconds; only a second expiry (8 x as long) counts as "does not terminate"
            r = subprocess.run(exe, cwd=d, capture_output=True, text=True, timeout=timeout * 8, env=env)
        return {"compiled": True, "rc": r.returncode, "stdout": r.stdout, "stderr": r.stderr[-3000:]}
    finally:
        shutil.rmtree(d, ignore_errors=True)


def parse_driver_output(out):
    steps = []
    cur = None
    for line in out.splitlines():
        parts = line.split()
        if not parts:
            continue
        if parts[0] == "step":
            cur = {}
            steps.append(cur)
        elif parts[0] == "done":
            break
        elif cur is not None:
            if parts[0] == "next":
                cur["next"] = int(parts[1])
            elif len(parts) >= 2 and parts[1] == "none":
                cur[parts[0]] = None
            elif len(parts) == 2:
                cur[parts[0]] = fnum(parts[1])
            else:
                cur[parts[0]] = [fnum(x) for x in parts[1:]]
    return steps


def fnum(s):
    try:
        return float(s)
    except ValueError:
        return float("nan")


def run_interpreter(m):
    """the REAL interpreter, one run_single_step per Fortran run() call; the same observations"""
    import warnings
    import numpy as np
    from dagrt.exec_numpy import FailStepException, NumpyInterpreter, TransitionEvent
    warnings.simplefilter("ignore", RuntimeWarning)        # overflow to infinity is part of some methods
    code = build_code(m)
    interp = NumpyInterpreter(code, {"<func>rhs": lambda t, y: -2 * y + t, "<func>split": lambda y: (2 * y, -y),
                                     "<func>rate": lambda y: (0.5, -y)})
    interp.set_up(t_start=float(m["t0"]), dt_start=float(m["dt"]), context={"y": np.array([float(v) for v in m["y0"]])})
    interp.context["<p>k"] = float(m["k0"])
    phase_ids = {name: k for k, name in enumerate(sorted(code.phases))}
    steps = []
    last = {"rett": float("nan"), "rettid": float("nan"), "rety": None}
    for _ in range(int(m["runs"])):
        try:
            for ev in interp.run_single_step():
                if type(ev).__name__ == "StateComputed":
                    last = {"rett": float(ev.t), "rettid": 0.0,
                            "rety": [float(x) for x in np.array(ev.state_component, dtype=float).reshape(-1)]}
        except FailStepException:
            pass
        except TransitionEvent as e:
            interp.next_phase = e.next_phase
        st = {"next": phase_ids[interp.next_phase], "t": float(interp.context["<t>"]), "dt": float(interp.context["<dt>"]),
              "k": float(interp.context["<p>k"]),
              "y": [float(x) for x in np.array(interp.context["<state>y"], dtype=float).reshape(-1)]}
        st.update(last)
        steps.append(st)
    return steps


def close(a, b):
    import math
    if a is None or b is None:
        return a is None and b is None
    if isinstance(a, list) or isinstance(b, list):
        return isinstance(a, list) and isinstance(b, list) and len(a) == len(b) and all(close(x, y) for x, y in zip(a, b))
    if math.isnan(a) or math.isnan(b):
        return math.isnan(a) and math.isnan(b)
    if math.isinf(a) or math.isinf(b):
        return a == b
    return abs(a - b) <= 1e-9 * max(1.0, abs(a), abs(b))


def compare_steps(fsteps, isteps):
    """None if equal on everything both sides report, else a description"""
    if len(fsteps) != len(isteps):
        return f"{len(fsteps)} run() calls reported by the driver, {len(isteps)} interpreter steps"
    for k, (f, i) in enumerate(zip(fsteps, isteps)):
        for key in ("next", "t", "dt", "k", "y", "rett", "rettid", "rety"):
            if key in f and not close(f[key], i.get(key)):
                return f"after run() call {k + 1}: {key} = {f[key]} (Fortran) vs {i.get(key)} (interpreter)"
    return None
