"""Shared by C08, C02, C01, C11: typed generators of statements / builder programs over exact
integer data, conversion of Python values to the JSON the Lean driver reads, the deterministic
user functions registered on both sides, a recording store."""
import math

import ser

INT_VARS = ["a", "b", "c", "n", "j", "<p>k", "<state>y"]
ARR_VARS = ["u", "<state>v"]
FLAG_VARS = ["fl"]
ARR_LEN = 4


class Inexact(Exception):
    """value outside the exact domain of the model (non-integral float, complex, tuple, huge)"""


def val_js(v):
    import numpy as np
    if v is None:
        return None
    if isinstance(v, (bool, np.bool_)):
        return bool(v)
    if isinstance(v, (int, np.integer)):
        if abs(int(v)) > 2 ** 50:
            raise Inexact("huge")
        return int(v)
    if isinstance(v, (float, np.floating)):
        if math.isnan(v) or math.isinf(v) or v != int(v) or abs(v) > 2 ** 50:
            raise Inexact(repr(v))
        return int(v)
    if isinstance(v, np.ndarray):
        if v.ndim != 1:
            raise Inexact("ndim")
        out = []
        for x in v.tolist():
            if isinstance(x, float) and math.isnan(x):
                out.append(None)
            else:
                out.append(val_js(x))
        return ["arr", out]
    if isinstance(v, str):
        return ["str", v]
    raise Inexact(type(v).__name__)


def val_py(j):
    import numpy as np
    if j is None or isinstance(j, (bool, int)):
        return j
    if j == "undef":
        raise Inexact("undef")
    if j[0] == "arr":
        return np.array([float("nan") if x is None else float(x) for x in j[1]], dtype=np.float64)
    if j[0] == "str":
        return j[1]
    raise ValueError(j)


# ---- deterministic functions, mirrored in lean/Dagrt/Driver/SemJson.lean (driverFuns)

def f_f(x):
    return 2 * x + 1


def f_g(x, y):
    return x - y


def f_h(x):
    return (x + 1, x * 2)


def b_array(n):
    import numpy as np
    return np.full(int(n), float("nan"))


def b_len(x):
    import numpy as np
    return int(np.size(x))


USER_FUNCS = {"<func>f": f_f, "<func>g": f_g, "<func>h": f_h}


def patch_builtins(functions):
    functions["<builtin>array"] = b_array
    functions["<builtin>len"] = b_len


def rec_arr_class():
    import numpy as np

    class RecArr(np.ndarray):
        """numpy array that records in-place element assignment under the name it is stored as"""
        _name = None
        _log = None

        def __array_finalize__(self, obj):
            self._name = None
            self._log = None

        def __setitem__(self, k, v):
            if self._log is not None:
                self._log.append(self._name)
            super().__setitem__(k, v)
    return RecArr


_REC_ARR = None


def wrap_arr(v, name, log):
    global _REC_ARR
    import numpy as np
    if isinstance(v, np.ndarray):
        if _REC_ARR is None:
            _REC_ARR = rec_arr_class()
        w = v.view(_REC_ARR)
        w._name = name
        w._log = log
        return w
    return v


class RecDict(dict):
    """records look-ups (reads) and assignments / deletions (writes)"""

    def __init__(self, *a, **k):
        super().__init__(*a, **k)
        self.reads = []
        self.writes = []
        self.first_reads = []       # names whose FIRST access was a look-up (the value came from outside the statement)

    def _read(self, k):
        self.reads.append(k)
        if k not in self.writes and k not in self.first_reads:
            self.first_reads.append(k)

    def __getitem__(self, k):
        self._read(k)
        return super().__getitem__(k)

    def __contains__(self, k):
        self._read(k)
        return super().__contains__(k)

    def __setitem__(self, k, v):
        self.writes.append(k)
        super().__setitem__(k, wrap_arr(v, k, self.writes))

    def __delitem__(self, k):
        self.writes.append(k)
        super().__delitem__(k)

    def pop(self, k, *d):
        self.writes.append(k)
        return super().pop(k, *d)


# ---- typed expression generators (JSON form of ser.py)

def g_int(rng, depth, env):
    """env: dict(ints=[...], arrs=[...], flags=[...], counters={name: (lo, hi)})"""
    r = rng.random()
    if depth <= 0 or r < 0.3:
        q = rng.random()
        if q < 0.45 and env["ints"]:
            return ["v", rng.choice(env["ints"])]
        if q < 0.6 and env["counters"]:
            return ["v", rng.choice(list(env["counters"]))]
        return ["c", rng.randint(-3, 6)]
    if r < 0.45:
        return ["+", [g_int(rng, depth - 1, env) for _ in range(rng.randint(2, 3))]]
    if r < 0.55:
        return ["*", [g_int(rng, depth - 1, env), ["c", rng.randint(-2, 3)]]]
    if r < 0.65 and env["arrs"]:
        return ["sub", ["v", rng.choice(env["arrs"])], g_index(rng, env)]
    if r < 0.75:
        f = rng.choice(["<func>f", "<func>g"])
        if f == "<func>f":
            return ["call", f, [g_int(rng, depth - 1, env)], []] if rng.random() < 0.7 else \
                ["call", f, [], [["x", g_int(rng, depth - 1, env)]]]
        a, b = g_int(rng, depth - 1, env), g_int(rng, depth - 1, env)
        q = rng.random()
        if q < 0.4:
            return ["call", f, [a, b], []]
        if q < 0.7:
            return ["call", f, [a], [["y", b]]]
        return ["call", f, [], [["y", b], ["x", a]]]
    if r < 0.8 and env["arrs"]:
        return ["call", "<builtin>len", [["v", rng.choice(env["arrs"])]], []]
    if r < 0.87:
        return ["if", g_bool(rng, depth - 1, env), g_int(rng, depth - 1, env), g_int(rng, depth - 1, env)]
    if r < 0.93:
        return [rng.choice(["min", "max"]), [g_int(rng, depth - 1, env), g_int(rng, depth - 1, env)]]
    if r < 0.955:
        return ["attr", g_int(rng, depth - 1, env), rng.choice(["real", "real", "imag"])]
    if r < 0.975:
        return ["**", g_int(rng, 0, env), ["c", rng.randint(0, 2)]]
    return ["/", g_int(rng, depth - 1, env), ["c", rng.choice([1, -1])]]


def g_index(rng, env):
    r = rng.random()
    cs = [c for c, (lo, hi) in env["counters"].items() if 0 <= lo and hi <= ARR_LEN]
    if r < 0.45 and cs:
        return ["v", rng.choice(cs)]
    if r < 0.6 and "j" in env["ints"]:
        return ["v", "j"]          # generators keep j within the array
    if r < 0.7:
        return ["c", -1]
    return ["c", rng.randrange(ARR_LEN)]


def g_bool(rng, depth, env):
    r = rng.random()
    if depth <= 0 or r < 0.45:
        if env["flags"] and rng.random() < 0.4:
            return ["v", rng.choice(env["flags"])]
        return ["cmp", rng.choice(["<", "<=", "==", ">", ">=", "!="]), g_int(rng, 0, env), g_int(rng, 0, env)]
    if r < 0.6:
        return ["not", g_bool(rng, depth - 1, env)]
    if r < 0.8:
        return [rng.choice(["and", "or"]), [g_bool(rng, depth - 1, env) for _ in range(2)]]
    return ["cmp", rng.choice(["<", "=="]), g_int(rng, depth - 1, env), g_int(rng, depth - 1, env)]


def base_env():
    return {"ints": list(INT_VARS), "arrs": list(ARR_VARS), "flags": list(FLAG_VARS), "counters": {}}


def g_store(rng):
    st = []
    for x in INT_VARS:
        v = rng.randint(-4, 6)
        if x == "j":
            v = rng.randrange(ARR_LEN)
        if x == "n":
            v = rng.randint(0, ARR_LEN)
        st.append([x, v])
    for x in ARR_VARS:
        st.append([x, ["arr", [rng.randint(-5, 9) for _ in range(ARR_LEN)]]])
    for x in FLAG_VARS:
        st.append([x, rng.random() < 0.5])
    st.append(["<t>", rng.randint(0, 5)])
    st.append(["<dt>", 1])
    return st


def g_kind(rng, env, allow_nonassign=True):
    """a statement kind in JSON form (see lean/Dagrt/Driver/SemJson.lean kindOfJ)"""
    r = rng.random()
    if r < 0.35:
        lhs = rng.choice([x for x in env["ints"] if x not in ("j", "n")] + ["t1", "t2"])
        return ["assign", lhs, None, g_int(rng, rng.choice([0, 1, 2, 2]), env), []]
    if r < 0.48 and env["arrs"]:
        return ["assign", rng.choice(env["arrs"]), g_index(rng, env), g_int(rng, rng.choice([0, 1, 2]), env), []]
    if r < 0.66 and env["arrs"]:
        # loops: outer counter i, optional inner counter k
        lo = rng.randint(0, 2)
        hi = ["c", rng.randint(0, ARR_LEN)] if rng.random() < 0.6 else ["v", "n"]
        loops = [["i", ["c", lo], hi]]
        env2 = dict(env, counters=dict(env["counters"], i=(lo, ARR_LEN)))
        if rng.random() < 0.3:
            hi2 = ["v", "i"] if rng.random() < 0.5 else ["c", rng.randint(0, 3)]
            loops.append(["k", ["c", 0], hi2])
            env2 = dict(env2, counters=dict(env2["counters"], k=(0, ARR_LEN)))
        if rng.random() < 0.75:
            return ["assign", rng.choice(env["arrs"]), ["v", "i"], g_int(rng, rng.choice([0, 1, 2]), env2), loops]
        lhs = rng.choice(["t1", "a"])
        return ["assign", lhs, None, ["+", [["v", lhs] if lhs in env["ints"] else ["c", 0], g_int(rng, 1, env2)]], loops]
    if r < 0.76:
        q = rng.random()
        if q < 0.4:
            return ["call", [rng.choice(["t1", "a"]), rng.choice(["t2", "b"])], "<func>h", [g_int(rng, 1, env)], []]
        if q < 0.7:
            return ["call", [rng.choice(["t1", "c"])], "<func>g", [g_int(rng, 1, env)], [["y", g_int(rng, 1, env)]]]
        if q < 0.85:
            return ["call", [rng.choice(["w"])], "<builtin>array", [["c", ARR_LEN]], []]
        return ["call", [rng.choice(["t2", "b"])], "<func>f", [], [["x", g_int(rng, 1, env)]]]
    if not allow_nonassign:
        return ["assign", "t1", None, g_int(rng, 1, env), []]
    if r < 0.88:
        e = g_int(rng, 1, env) if rng.random() < 0.7 or not env["arrs"] else ["v", rng.choice(env["arrs"])]
        return ["yield", e, ["v", "<t>"] if rng.random() < 0.6 else g_int(rng, 0, env),
                rng.choice(["final", "mid"]), rng.choice(["y", "z"])]
    if r < 0.91:
        return ["fail"]
    if r < 0.94:
        return ["switch", rng.choice(["p1", "p2"])]
    if r < 0.97:
        return ["raise", rng.choice(["ErrA", "ErrB"])]
    return ["nop"]


class ErrA(Exception):
    pass


class ErrB(Exception):
    pass


ERRS = {"ErrA": ErrA, "ErrB": ErrB}


def from_js_x(j):
    """ser.from_js, plus (top level only) a numpy object array whose entries are expressions: ["objarr", [e, ...]]"""
    if isinstance(j, list) and j and j[0] == "objarr":
        import numpy as np
        arr = np.empty(len(j[1]), dtype=object)
        for i, x in enumerate(j[1]):
            arr[i] = ser.from_js(x)
        return arr
    return ser.from_js(j)


def build_stmt(kind, cond, sid="s", deps=()):
    """real statement object from the JSON form"""
    import dagrt.language as lang
    c = True if cond == ["cb", True] else ser.from_js(cond)
    k = kind[0]
    common = dict(id=sid, depends_on=frozenset(deps))
    if k == "assign":
        _, lhs, sub, rhs, loops = kind
        return lang.Assign(assignee=lhs, assignee_subscript=(ser.from_js(sub),) if sub is not None else (),
                           expression=from_js_x(rhs),
                           loops=[(i, ser.from_js(lo), ser.from_js(hi)) for i, lo, hi in loops],
                           condition=c, **common)
    if k == "call":
        _, lhs, f, args, kw = kind
        return lang.AssignFunctionCall(assignees=tuple(lhs), function_id=f,
                                       parameters=tuple(from_js_x(a) for a in args),
                                       kw_parameters={kk: ser.from_js(v) for kk, v in kw}, condition=c, **common)
    if k == "yield":
        _, e, t, tid, comp = kind
        return lang.YieldState(expression=from_js_x(e), time=ser.from_js(t), time_id=tid, component_id=comp,
                               condition=c, **common)
    if k == "raise":
        # ["raise", E, "nomsg"]: no message given (the default of Raise and of CodeBuilder.raise_)
        return lang.Raise(ERRS[kind[1]], None if kind[2:] == ["nomsg"] else "msg", condition=c, **common)
    if k == "fail":
        return lang.FailStep(condition=c, **common)
    if k == "switch":
        return lang.SwitchPhase(kind[1], condition=c, **common)
    if k == "nop":
        return lang.Nop(**common)
    raise ValueError(kind)


def stmt_js(st):
    """JSON form (for the model) of a REAL statement object — what the object holds after construction
    (e.g. `flatten` applied to the right-hand side)"""
    import dagrt.language as lang
    cond = getattr(st, "condition", True)
    cj = ["cb", True] if cond is True else ser.to_js(cond)
    if isinstance(st, lang.Assign):
        sub = st.assignee_subscript
        if isinstance(sub, tuple):
            sub = sub[0] if sub else None
        kind = ["assign", st.assignee, ser.to_js(sub) if sub is not None else None, ser.to_js(st.expression),
                [[i, ser.to_js(lo), ser.to_js(hi)] for i, lo, hi in st.loops]]
    elif isinstance(st, lang.AssignFunctionCall):
        kind = ["call", list(st.assignees), st.function_id, [ser.to_js(a) for a in st.parameters],
                [[k, ser.to_js(v)] for k, v in st.kw_parameters.items()]]
    elif isinstance(st, lang.YieldState):
        kind = ["yield", ser.to_js(st.expression), ser.to_js(st.time), st.time_id, st.component_id]
    elif isinstance(st, lang.Raise):
        kind = ["raise", st.error_condition.__name__]
    elif isinstance(st, lang.FailStep):
        kind = ["fail"]
    elif isinstance(st, lang.SwitchPhase):
        kind = ["switch", st.next_phase]
    elif isinstance(st, lang.Nop):
        kind = ["nop"]
    else:
        raise ser.Unsupported(type(st).__name__)
    return {"cond": cj, "kind": kind}


def make_interp(store):
    """a real NumpyInterpreter whose context is a recording dict holding `store`"""
    from dagrt.exec_numpy import NumpyInterpreter
    from dagrt.language import DAGCode, ExecutionPhase
    code = DAGCode({"p": ExecutionPhase("p", "p", [])}, "p")
    interp = NumpyInterpreter(code, dict(USER_FUNCS))
    patch_builtins(interp.functions)
    rec = RecDict()
    for k, v in store:
        dict.__setitem__(rec, k, wrap_arr(val_py(v), k, rec.writes))
    interp.context = rec
    interp.eval_mapper.context = rec
    return interp, rec


def exec_real(interp, st):
    """what the controller does with one statement; returns (event or None, status)"""
    from dagrt.exec_numpy import FailStepException, TransitionEvent
    try:
        if not interp.evaluate_condition(st):
            return None, "running"
        res = getattr(interp, st.exec_method)(st)
    except FailStepException:
        return None, "failed"
    except TransitionEvent as e:
        return None, ["switched", e.next_phase]
    except (ErrA, ErrB) as e:
        return None, ["raised", type(e).__name__]
    ev = None
    if res is not None and res[0] is not None:
        e = res[0]
        ev = ["state", val_js(e.t), e.time_id, e.component_id, val_js(e.state_component)]
    return ev, "running"
