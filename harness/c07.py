"""C07 — statement-rewriting passes preserve meaning and never capture names."""
import collections
import json
import copy

import c01
import sem_common as sc
import ser
from common import matcher

ID = "C07"
SOURCES = ["dagrt/codegen/transform.py", "dagrt/language.py", "dagrt/codegen/dag_ast.py"]
RULE = ("random structured phases (blocks, if-nodes on flags, counted loops; 2-7 leaf statements: plain and subscripted "
        "assignments, self-referencing assignments incl. neighbouring array elements inside a loop, call statements with "
        "expression and keyword arguments, yields; right-hand sides with nested calls, conditional expressions nested in "
        "conditions and branches, calls under conditional branches and short-circuit operands; guards on leaves; user variables "
        "and statement ids that look generated: tmp, tmp_0, temp, temp_a, ifthenelse_result, <cond>ifthenelse_cond, "
        "ifthenelse_then) pushed through each REAL pass alone and through the order the Fortran generator uses. Compared with "
        "the Lean model: every statement each leaf is replaced by (id, depends_on, guard, kind). Oracle on the real output, with "
        "an independent tree-walking executor on 4 random valuations: every original variable ends with the same value, the "
        "multiset of external calls (function, arguments) is the same, no introduced variable is read before it is set, "
        "introduced ids and names are new and pairwise different, every derived statement carries the guard of its origin "
        "(extended by introduced flags only). Non-trivial: the pass introduced >= 1 statement.")
TRUSTED = ["pymbolic's IdentityMapper / substitute and pytools.UniqueNameGenerator are third party: modelled (C13 generator "
           "model), validated by this run",
           "the iteration order of `reads & writes` in SelfDependencyEliminator is read off the real statement objects"]
ASSUMPTIONS = ["guards are flags, negations and conjunctions of flags (the form the builder and the lowering produce)",
               "values are exact integers; arrays have value semantics in the executor (no aliasing besides the copy-in temporaries, "
               "which are never written)"]

PASSES = ["selfDep", "argIso", "callIso", "iteExp", "pipeline"]
ODD_VARS = ["tmp", "tmp_0", "temp_a", "ifthenelse_result", "<cond>ifthenelse_cond", "temp__state_y"]
ODD_IDS = ["tmp", "temp", "tmp_0", "ifthenelse_then", "ifthenelse_cond", "temp_0"]


# ---------------------------------------------------------------- generator

def g_expr(rng, d, ints, arrs, cnts, lazy_calls):
    """integer expression; `lazy_calls`: allow calls under conditional branches / short-circuit operands"""
    r = rng.random()
    if d <= 0 or r < 0.25:
        q = rng.random()
        if q < 0.55 and ints:
            return ["v", rng.choice(ints)]
        if q < 0.65 and cnts:
            return ["v", rng.choice(cnts)]
        return ["c", rng.randint(-2, 5)]
    if r < 0.42:
        return ["+", [g_expr(rng, d - 1, ints, arrs, cnts, lazy_calls) for _ in range(rng.randint(2, 3))]]
    if r < 0.5:
        return ["*", [g_expr(rng, d - 1, ints, arrs, cnts, lazy_calls), ["c", rng.choice([-2, 2, 3])]]]
    if r < 0.72:
        f = rng.choice(["<func>f", "<func>g", "<func>f"])
        if f == "<func>f":
            return ["call", f, [g_expr(rng, d - 1, ints, arrs, cnts, lazy_calls)], []]
        a, b = g_expr(rng, d - 1, ints, arrs, cnts, lazy_calls), g_expr(rng, d - 1, ints, arrs, cnts, lazy_calls)
        return ["call", f, [a], [["y", b]]] if rng.random() < 0.5 else ["call", f, [a, b], []]
    if r < 0.9:
        c = g_cond(rng, d - 1, ints, arrs, cnts, lazy_calls)
        inner = lazy_calls
        return ["if", c, g_expr(rng, d - 1, ints, arrs, cnts, inner) if inner else g_pure(rng, d - 1, ints, cnts, True),
                g_expr(rng, d - 1, ints, arrs, cnts, inner) if inner else g_pure(rng, d - 1, ints, cnts, True)]
    if r < 0.95 and arrs:
        idx = ["v", rng.choice(cnts)] if cnts and rng.random() < 0.6 else ["c", rng.randrange(sc.ARR_LEN)]
        return ["sub", ["v", rng.choice(arrs)], idx]
    return [rng.choice(["min", "max"]), [g_expr(rng, d - 1, ints, arrs, cnts, lazy_calls), ["c", rng.randint(0, 4)]]]


def g_pure(rng, d, ints, cnts, allow_if):
    """no calls (safe under lazily evaluated operands)"""
    r = rng.random()
    if d <= 0 or r < 0.4:
        if ints and rng.random() < 0.6:
            return ["v", rng.choice(ints)]
        return ["c", rng.randint(-2, 5)]
    if r < 0.7:
        return ["+", [g_pure(rng, d - 1, ints, cnts, allow_if), g_pure(rng, d - 1, ints, cnts, allow_if)]]
    if allow_if:
        return ["if", ["cmp", rng.choice(["<", "==", ">="]), g_pure(rng, 0, ints, cnts, False), ["c", rng.randint(0, 3)]],
                g_pure(rng, d - 1, ints, cnts, True), g_pure(rng, d - 1, ints, cnts, True)]
    return ["*", [g_pure(rng, d - 1, ints, cnts, False), ["c", 2]]]


def g_cond(rng, d, ints, arrs, cnts, lazy_calls):
    a = g_expr(rng, d, ints, arrs, cnts, lazy_calls)
    c = ["cmp", rng.choice(["<", "<=", "==", ">", "!="]), a, ["c", rng.randint(-1, 4)]]
    r = rng.random()
    if r < 0.2:
        other = ["cmp", "<", (g_expr(rng, d, ints, arrs, cnts, True) if lazy_calls else g_pure(rng, d, ints, cnts, False)), ["c", 3]]
        return [rng.choice(["and", "or"]), [c, other]]
    if r < 0.3:
        return ["not", c]
    return c


def g_phase(rng):
    ints = ["a", "b", "c", "<state>y"] + rng.sample(ODD_VARS, rng.randint(0, 2))
    arrs = ["u"]
    lazy = rng.random() < 0.12
    ids = []
    nodes = []

    def new_id():
        cand = rng.choice(ODD_IDS) if rng.random() < 0.25 else f"s{len(ids)}"
        while cand in ids:
            cand = f"s{len(ids)}_{rng.randint(0, 99)}"
        ids.append(cand)
        return cand

    pool = []       # (loop counters in scope, expression): operator expressions of earlier statements of the phase

    def remember(cnts, kind):
        def walk(j):
            if isinstance(j, list) and j:
                if j[0] in ("+", "*", "if", "call", "min", "max", "sub") and len(pool) < 40:
                    pool.append((list(cnts), j))
                for x in j[1:]:
                    if isinstance(x, list):
                        for y in (x if x and isinstance(x[0], list) else [x]):
                            walk(y)
        for part in kind[1:]:
            if isinstance(part, list):
                walk(part)

    def repeated(cnts, d):
        """the SAME subexpression several times: in one statement (once inside a branch of a conditional and again
        where that branch does not run; twice side by side) or taken verbatim from an EARLIER statement of the phase
        (whose variables may have been reassigned since, or which sat under a guard / loop that did not run)"""
        usable = [e for c, e in pool if all(x in cnts for x in c)]
        if usable and rng.random() < 0.6:
            e = copy.deepcopy(rng.choice(usable))
        else:
            e = ["if", ["cmp", rng.choice(["<", ">="]), ["v", rng.choice(ints)], ["c", rng.randint(0, 3)]],
                 g_pure(rng, 1, ints, cnts, False), g_pure(rng, 1, ints, cnts, False)]
        if lazy_unsafe(e):
            e = ["if", ["cmp", "<", ["v", rng.choice(ints)], ["c", 2]], ["v", rng.choice(ints)], ["c", rng.randint(0, 4)]]
        p_ = ["cmp", rng.choice(["<", ">=", "=="]), ["v", rng.choice(ints)], ["c", rng.randint(0, 3)]]
        r_ = ["cmp", rng.choice(["<", ">="]), ["v", rng.choice(ints)], ["c", rng.randint(0, 3)]]
        a_, b_ = g_pure(rng, 1, ints, cnts, False), g_pure(rng, 1, ints, cnts, False)
        shape = rng.randrange(5)
        if shape == 0:
            return ["+", [["if", p_, e, a_], ["if", p_, b_, copy.deepcopy(e)]]]
        if shape == 1:
            return ["if", p_, e, ["if", r_, copy.deepcopy(e), a_]]
        if shape == 2:
            return ["*", [e, copy.deepcopy(e)]]
        if shape == 3:
            return ["+", [["if", p_, a_, e], copy.deepcopy(e)]]
        return e

    def lazy_unsafe(e):
        return (not lazy) and has_call(e)

    def has_call(j):
        if isinstance(j, list) and j:
            if j[0] == "call":
                return True
            return any(has_call(x) for x in j if isinstance(x, list))
        return False

    def leaf(cnts, guard_ok=True):
        nd = leaf0(cnts, guard_ok)
        remember(cnts, nd[1]["stmt"]["kind"])
        return nd

    def leaf0(cnts, guard_ok=True):
        sid = new_id()
        deps = sorted(rng.sample(ids[:-1], min(len(ids) - 1, rng.randint(0, 2))))
        cond = ["cb", True]
        if guard_ok and rng.random() < 0.25:
            # (a DISJUNCTION as a guard is not something the builder produces, but hand-made statements may carry one:
            # it is ONE conjunct to the passes' guard-combining helper)
            cond = rng.choice([["v", "fl"], ["not", ["v", "fl"]], ["and", [["v", "fl"], ["v", "gl"]]],
                               ["or", [["v", "fl"], ["v", "gl"]]], ["and", [["or", [["v", "fl"], ["v", "gl"]]], ["v", "fl"]]]])
        r = rng.random()
        d = rng.choice([1, 2, 2, 3])
        if rng.random() < 0.14:
            q = rng.random()
            if q < 0.5:
                kind = ["assign", rng.choice(ints), None, repeated(cnts, d), []]
            elif q < 0.8:
                # the argument of a call taken verbatim from an earlier statement
                usable = [e for c, e in pool if all(x in cnts for x in c) and not has_call(e)]
                arg = copy.deepcopy(rng.choice(usable)) if usable else ["+", [["v", "<t>"], ["c", 1]]]
                kind = ["call", [rng.choice(ints)], "<func>f", [arg], []]
            else:
                kind = ["yield", repeated(cnts, d), ["v", "<t>"], "final", "y"]
            return ["leaf", {"id": sid, "deps": deps, "stmt": {"cond": cond, "kind": kind}}]
        if r < 0.35:
            kind = ["assign", rng.choice(ints), None, g_expr(rng, d, ints, arrs, cnts, lazy), []]
        elif r < 0.5:
            x = rng.choice(ints)          # self-dependency
            kind = ["assign", x, None, ["+", [["v", x], g_expr(rng, d - 1, ints, arrs, cnts, lazy)]], []]
        elif r < 0.62 and cnts:
            i = rng.choice(cnts)          # neighbouring array element inside a loop
            kind = ["assign", "u", ["v", i], ["+", [["sub", ["v", "u"], ["+", [["v", i], ["c", -1]]]],
                                                   g_expr(rng, 1, ints, arrs, cnts, lazy)]], []]
        elif r < 0.7:
            kind = ["assign", "u", ["c", rng.randrange(sc.ARR_LEN)], g_expr(rng, d, ints, arrs, cnts, lazy), []]
        elif r < 0.88:
            q = rng.random()
            if q < 0.5:
                kind = ["call", [rng.choice(ints)], "<func>g", [g_expr(rng, d - 1, ints, arrs, cnts, lazy)],
                        [["y", g_expr(rng, d - 1, ints, arrs, cnts, lazy)]]]
            elif q < 0.8:
                kind = ["call", [rng.choice(ints), rng.choice(["b", "c"])], "<func>h", [g_expr(rng, d - 1, ints, arrs, cnts, lazy)], []]
            else:
                x = rng.choice(ints)      # call statement that reads what it writes
                kind = ["call", [x], "<func>f", [["+", [["v", x], ["c", 1]]]], []]
            if len(set(kind[1])) != len(kind[1]):
                kind[1] = [kind[1][0], "c" if kind[1][0] != "c" else "b"]
        else:
            kind = ["yield", g_expr(rng, d, ints, arrs, cnts, lazy), ["v", "<t>"], "final", "y"]
        return ["leaf", {"id": sid, "deps": deps, "stmt": {"cond": cond, "kind": kind}}]

    def block(depth, cnts, n):
        out = []
        for _ in range(n):
            r = rng.random()
            if depth < 2 and r < 0.15:
                out.append(["if", rng.choice([["v", "fl"], ["not", ["v", "gl"]]]), block(depth + 1, cnts, rng.randint(1, 2))])
            elif depth < 2 and r < 0.3 and len(cnts) < 2:
                i = "i" if "i" not in cnts else "k"
                if rng.random() < 0.3:
                    # a loop variable that looks generated; half of the time no statement of the body mentions it
                    # (the only place the name then occurs in the phase is the loop node)
                    i = rng.choice([n for n in ("tmp", "tmp_0", "ifthenelse_result", "ifthenelse_result_0") if n not in cnts])
                    inner = cnts + [i] if rng.random() < 0.5 else cnts
                else:
                    inner = cnts + [i]
                out.append(["for", i, ["c", 1], ["c", rng.randint(1, sc.ARR_LEN)], block(depth + 1, inner, rng.randint(1, 2))])
            else:
                out.append(leaf(cnts))
        return out
    nodes = block(0, [], rng.randint(2, 5))
    return nodes, ints


def g_valuation(rng, ints):
    st = {n: rng.randint(-3, 5) for n in set(ints) | {"a", "b", "c", "<state>y", "<t>"}}
    st["u"] = [rng.randint(-4, 8) for _ in range(sc.ARR_LEN)]
    st["fl"] = rng.random() < 0.6
    st["gl"] = rng.random() < 0.6
    return st


def implicit_cases():
    """the rarely used implicit-solve statement through every pass: it is not a kind of the Lean model; what the passes
    may and may not do to it is checked on the real output (the variables it assigns stay the variables it assigns,
    what it reads of a variable it also writes goes through the copy-in temporary, its guard and id stay)"""
    for pass_name in PASSES:
        for guarded in (False, True):
            for assignee, solve in (("y", "s"), ("<p>y", "s"), ("y", "y_new")):
                yield {"op": None, "tag": "implicit-solve", "pass": pass_name,
                       "implicit": {"assignee": assignee, "solve": solve, "guarded": guarded}}


def run_implicit(case):
    from pymbolic import var
    from dagrt.codegen.dag_ast import Block, StatementWrapper, get_statements_in_ast
    from dagrt.language import Assign, AssignImplicit
    spec = case["implicit"]
    y, s_ = spec["assignee"], spec["solve"]
    cond = var("fl") if spec["guarded"] else True
    st0 = Assign(id="init", assignee="h", assignee_subscript=(), expression=var("<dt>") * 2, depends_on=frozenset())
    st1 = AssignImplicit(assignees=(y,), solve_variables=(s_,), expressions=(var(s_) - var(y) - 3 * var("h"),),
                         other_params={"guess": var(y)}, solver_id="solver", id="solve", depends_on=frozenset(["init"]),
                         condition=cond)
    ast = Block(StatementWrapper(st0), StatementWrapper(st1))
    new = apply_real(case["pass"], ast)
    stmts = list(get_statements_in_ast(new))
    imp = [x for x in stmts if isinstance(x, AssignImplicit)]
    return {"n_implicit": len(imp),
            "assignees": [list(x.assignees) for x in imp], "ids": [x.id for x in imp],
            "conds": [str(x.condition) for x in imp],
            "others": [[x.id, sorted(x.get_written_variables()), str(x.condition)] for x in stmts if not isinstance(x, AssignImplicit)]}


def oracle_implicit(case, out):
    spec = case["implicit"]
    if "exc" in out:
        return {"what": f"pass {case['pass']} raises {out['exc']} on an implicit-solve statement: {out.get('msg')}",
                "sig": "implicit-raises"}
    if out["n_implicit"] != 1 or out["ids"] != ["solve"]:
        return {"what": f"the implicit-solve statement was lost / duplicated / renumbered by {case['pass']}: {out}", "sig": "implicit-lost"}
    if out["assignees"] != [[spec["assignee"]]]:
        return {"what": f"{case['pass']}: the implicit solve assigns {out['assignees'][0]} instead of ['{spec['assignee']}'] "
                        f"(the variable it is written to assign keeps its old value)", "sig": "implicit-assignee"}
    want = "fl" if spec["guarded"] else "True"
    if out["conds"] != [want]:
        return {"what": f"{case['pass']}: guard of the implicit solve changed: {out['conds']}", "sig": "implicit-guard"}
    for oid, ws, c in out["others"]:
        if oid != "init" and c != want:
            return {"what": f"{case['pass']}: statement {oid} derived from the guarded implicit solve has guard {c}", "sig": "guard-not-carried"}
    return None


def cases(rng, tier):
    yield from implicit_cases()
    n = 1500 if tier == "quick" else 20000
    for k in range(n):
        nodes, ints = g_phase(rng)
        yield {"op": "C07.pass", "tag": "random", "pass": PASSES[k % len(PASSES)], "ast": nodes, "ints": ints,
               "vals": [g_valuation(rng, ints) for _ in range(4)]}


# ---------------------------------------------------------------- real passes

def leaves_of(nodes):
    for nd in nodes:
        if nd[0] == "leaf":
            yield nd[1]
        elif nd[0] == "if":
            yield from leaves_of(nd[2])
        elif nd[0] == "for":
            yield from leaves_of(nd[4])


def canon_kw(kind):
    if kind[0] == "call":
        kind = list(kind)
        kind[4] = sorted(kind[4])
    return kind


def build_ast(nodes):
    from dagrt.codegen.dag_ast import Block, ForLoop, IfThen, StatementWrapper
    out = []
    for nd in nodes:
        if nd[0] == "leaf":
            f = nd[1]
            out.append(StatementWrapper(sc.build_stmt(canon_kw(f["stmt"]["kind"]), f["stmt"]["cond"], f["id"], f["deps"])))
        elif nd[0] == "if":
            out.append(IfThen(ser.from_js(nd[1]), build_ast(nd[2])))
        else:
            out.append(ForLoop(nd[1], ser.from_js(nd[2]), ser.from_js(nd[3]), build_ast(nd[4])))
    return Block(*out)


def apply_real(pass_name, ast):
    import dagrt.codegen.transform as tr
    fns = {"selfDep": tr.eliminate_self_dependencies, "argIso": tr.isolate_function_arguments,
           "callIso": tr.isolate_function_calls, "iteExp": tr.expand_IfThenElse}
    if pass_name == "pipeline":
        for p in ("selfDep", "argIso", "callIso", "iteExp"):
            ast = fns[p](ast)
        return ast
    return fns[pass_name](ast)


def fstmt_js(st):
    j = sc.stmt_js(st)
    j["kind"] = canon_kw(j["kind"])
    return {"id": st.id, "deps": sorted(st.depends_on), "stmt": j}


def out_nodes(ast):
    """the rewritten tree in the JSON form of the input (a leaf position holds a list of statements)"""
    from dagrt.codegen.dag_ast import Block, ForLoop, IfThen, StatementWrapper
    if isinstance(ast, StatementWrapper):
        return [["leaf", fstmt_js(ast.statement)]]
    if isinstance(ast, Block):
        out = []
        for c in ast.children:
            out += out_nodes(c)
        return out
    if isinstance(ast, IfThen):
        return [["if", ser.to_js(ast.condition), out_nodes(ast.then)]]
    if isinstance(ast, ForLoop):
        return [["for", ast.loop_var_name, ser.to_js(ast.lbound), ser.to_js(ast.ubound), out_nodes(ast.body)]]
    raise ser.Unsupported(type(ast).__name__)


def leaves_with_path(ast, path=()):
    """the statements of a tree in program order, each with the if / for nodes it sits under"""
    from dagrt.codegen.dag_ast import Block, ForLoop, IfThen, IfThenElse, StatementWrapper
    if isinstance(ast, StatementWrapper):
        return [(path, ast.statement)]
    if isinstance(ast, Block):
        out = []
        for c in ast.children:
            out += leaves_with_path(c, path)
        return out
    if isinstance(ast, IfThen):
        return leaves_with_path(ast.then, path + (("if", json.dumps(ser.to_js(ast.condition))),))
    if isinstance(ast, ForLoop):
        return leaves_with_path(ast.body, path + (("for", ast.loop_var_name, json.dumps(ser.to_js(ast.lbound)),
                                                   json.dumps(ser.to_js(ast.ubound))),))
    if isinstance(ast, IfThenElse):
        c = json.dumps(ser.to_js(ast.condition))
        return (leaves_with_path(ast.then, path + (("if", c),)) +
                leaves_with_path(ast.else_, path + (("else", c),)))
    raise ser.Unsupported(type(ast).__name__)


def per_leaf(orig_ast, new_ast):
    """for every original leaf (in order) the statements it was replaced by.

    How the passes group what they emit into Blocks is not looked at (a Block has no guard, scope or
    effect): the rewritten statement keeps its id and comes last, the statements derived from it
    come directly before it, under the same if / for nodes.  A statement that turns up under other
    nodes than its origin is reported with where it sits."""
    old = leaves_with_path(orig_ast)
    new = leaves_with_path(new_ast)
    res = []
    k = 0
    for n_leaf, (path, st) in enumerate(old):
        group = []
        last = n_leaf == len(old) - 1
        while k < len(new):
            npath, nst = new[k]
            k += 1
            js = fstmt_js(nst)
            if npath != path:
                js = dict(js, moved_under=[list(x) for x in npath])
            group.append(js)
            if nst.id == st.id and not last:
                break
        res.append(group)
    return res


_cache = {}


def run_real(case):
    key = c01.ser_key(case)
    if key not in _cache:
        if len(_cache) > 4:
            _cache.clear()
        ast = build_ast(case["ast"])
        orders = []
        from dagrt.codegen.dag_ast import get_statements_in_ast
        for st in get_statements_in_ast(ast):
            orders.append(sorted(st.get_read_variables() & st.get_written_variables()))
        try:
            new = apply_real(case["pass"], ast)
            _cache[key] = (ast, new, orders, None)
        except Exception as ex:
            _cache[key] = (ast, None, orders, ex)
    return _cache[key]


def impl(case):
    if case.get("implicit") is not None:
        try:
            return run_implicit(case)
        except Exception as ex:
            return {"exc": type(ex).__name__, "msg": str(ex)[:120]}
    try:
        ast, new, orders, ex = run_real(case)
    except (ValueError, TypeError, ser.Unsupported) as e:
        return {"dropped": "cannot build: " + type(e).__name__}
    if ex is not None:
        return {"exc": type(ex).__name__, "msg": str(ex)[:120]}
    if case["pass"] == "pipeline":
        from dagrt.codegen.dag_ast import get_statements_in_ast
        return {"out": [fstmt_js(st) for st in get_statements_in_ast(new)]}
    return {"out": per_leaf(ast, new)}


def model_input(case):
    ast, new, orders, ex = run_real(case)
    from dagrt.codegen.dag_ast import get_statements_in_ast
    return {"op": "C07.pass", "pass": case["pass"], "orders": orders,
            "extra": sorted(structure_names(case["ast"])),
            "stmts": [fstmt_js(st) for st in get_statements_in_ast(ast)]}


def _strings(j, acc):
    if isinstance(j, str):
        acc.add(j)
    elif isinstance(j, list):
        for x in j:
            _strings(x, acc)
    elif isinstance(j, dict):
        for k, x in j.items():
            if k not in ("id", "deps"):         # statement ids are a name space of their own
                _strings(x, acc)


def canon_introduced(out, known, known_ids):
    """the output with every INTRODUCED variable name / statement id (one that occurs nowhere in the input) replaced
    by #v0, #v1, ... / #s0, #s1, ... in order of first occurrence: how the passes spell and number what they
    introduce is not part of the property, only that it is new (which is what 'occurs nowhere in the input' says)"""
    groups = out["out"]
    nested = bool(groups) and isinstance(groups[0], list)
    vmap, imap = {}, {}

    def v(n):
        return n if n in known else vmap.setdefault(n, f"#v{len(vmap)}")

    def i(n):
        return n if n in known_ids else imap.setdefault(n, f"#s{len(imap)}")

    def walk(j):
        if isinstance(j, list):
            if len(j) == 2 and j[0] == "v" and isinstance(j[1], str):
                return ["v", v(j[1])]
            return [walk(x) for x in j]
        return j

    def stmt(s):
        s = dict(s)
        s["id"] = i(s["id"])
        k = list(s["stmt"]["kind"])
        cond = walk(s["stmt"]["cond"])
        if k[0] == "assign":
            k[4] = [[v(l[0]), walk(l[1]), walk(l[2])] for l in k[4]]
            k[1], k[2], k[3] = v(k[1]), walk(k[2]), walk(k[3])
        elif k[0] == "call":
            k[3], k[4] = walk(k[3]), [[kk, walk(x)] for kk, x in k[4]]
            k[1] = [v(x) for x in k[1]]
        else:
            k = [k[0]] + [walk(x) for x in k[1:]]
        s["stmt"] = {"cond": cond, "kind": k}
        return s

    def deps(s):
        return dict(s, deps=sorted(imap.get(d, d) for d in s["deps"]))
    if nested:
        res = [[stmt(s) for s in g] for g in groups]
        res = [[deps(s) for s in g] for g in res]
    else:
        res = [deps(s) for s in [stmt(s) for s in groups]]
    return dict(out, out=res)


def normalise_pair(case, a, b):
    if isinstance(a, dict) and isinstance(b, dict) and "out" in a and "out" in b and a != b:
        known = set()
        _strings(case["ast"], known)
        known_ids = set()           # statement ids are a name space of their own
        for f in leaves_of(case["ast"]):
            known_ids.add(f["id"])
            known_ids.update(f["deps"])
        try:
            ca, cb = canon_introduced(a, known, known_ids), canon_introduced(b, known, known_ids)
        except (KeyError, IndexError, TypeError, ValueError):
            return a, b
        if ca == cb:
            ctx.count("tie:introduced-names-spelled-or-numbered-differently")
            return ca, cb
    return a, b


# ---------------------------------------------------------------- oracle

class Calls:
    def __init__(self):
        self.log = collections.Counter()


def run_tree(nodes, st, calls):
    """top to bottom; returns nothing, mutates st; raises c01.RefUndefined on an undefined read"""
    orig_call = c01.r_call

    def logged(f, args, kw):
        if f.startswith("<func>"):
            calls.log[(f, tuple(args), tuple(sorted(kw.items())))] += 1
        return orig_call(f, args, kw)
    c01.r_call = logged
    try:
        walk(nodes, st, {})
    finally:
        c01.r_call = orig_call


def walk(nodes, st, cnt):
    for nd in nodes:
        if nd[0] == "leaf":
            exec_leaf(nd[1]["stmt"], st, cnt)
        elif nd[0] == "if":
            if c01.truthy(c01.r_eval(nd[1], st, cnt)):
                walk(nd[2], st, cnt)
        else:
            lo, hi = c01.r_eval(nd[2], st, cnt), c01.r_eval(nd[3], st, cnt)
            for x in range(lo, hi):
                walk(nd[4], st, dict(cnt, **{nd[1]: x}))


def exec_leaf(stmt, st, cnt):
    cond = stmt["cond"]
    if cond != ["cb", True] and not c01.truthy(c01.r_eval(cond, st, cnt)):
        return
    kind = stmt["kind"]
    t = kind[0]
    if t == "assign":
        # a plain copy of an array is a copy (Fortran semantics; the copy-in temporaries are never written)
        c01.r_assign(kind, st, cnt)
    elif t == "call":
        _, lhs, f, args, kw = kind
        res = c01.r_call(f, [c01.r_eval(a, st, cnt) for a in args], {kk: c01.r_eval(v, st, cnt) for kk, v in kw})
        if len(lhs) == 1:
            res = (res,)
        for n, v in zip(lhs, res):
            st[n] = v
    elif t == "yield":
        c01.r_eval(kind[1], st, cnt)
        c01.r_eval(kind[2], st, cnt)


def conjuncts(c):
    if c == ["cb", True]:
        return []
    if c[0] == "and":
        out = []
        for x in c[1]:
            out += conjuncts(x)
        return out
    return [c]


def structure_names(nodes):
    """names that the loop and conditional nodes of a phase mention (as opposed to its statements)"""
    acc = set()
    for nd in nodes:
        if nd[0] == "if":
            c01.names_in(nd[1], acc)
            acc |= structure_names(nd[2])
        elif nd[0] == "for":
            acc.add(nd[1])
            c01.names_in(nd[2], acc)
            c01.names_in(nd[3], acc)
            acc |= structure_names(nd[4])
    return acc


def names_of_stmt(f):
    acc = set()
    c01.names_in(f["stmt"], acc)
    k = f["stmt"]["kind"]
    return acc


def has_lazy_call(j, under=False):
    """a user-function call inside a conditional branch or a non-first and/or operand"""
    if isinstance(j, dict):
        return any(has_lazy_call(x, under) for x in j.values())
    if not isinstance(j, list) or not j:
        return False
    if j[0] == "call" and under and isinstance(j[1], str) and j[1].startswith("<func>"):
        return True
    if j[0] == "if" and len(j) == 4:
        return has_lazy_call(j[1], under) or has_lazy_call(j[2], True) or has_lazy_call(j[3], True)
    if j[0] in ("and", "or") and len(j) == 2 and isinstance(j[1], list):
        return any(has_lazy_call(c, under or k > 0) for k, c in enumerate(j[1]))
    return any(has_lazy_call(x, under) for x in j if isinstance(x, (list, dict)))


def oracle(case, out):
    if not isinstance(out, dict) or "dropped" in out:
        return None
    if case.get("implicit") is not None:
        return oracle_implicit(case, out)
    if "harness_error" in out:
        return {"what": "the pass could not be applied: " + out["harness_error"] + ": " + out.get("msg", "")}
    if "exc" in out:
        return {"what": f"pass {case['pass']} raises {out['exc']}: {out.get('msg')}", "sig": "pass-raises-" + out["exc"],
                "lazy": has_lazy_call(case["ast"])}
    ast, new, orders, ex = run_real(case)
    new_nodes = out_nodes(new)
    orig_leaves = list(leaves_of(case["ast"]))
    new_leaves = list(leaves_of(new_nodes))
    orig_ids = {f["id"] for f in orig_leaves}
    orig_names = set(structure_names(case["ast"]))      # loop variables, names in loop bounds and conditions
    for f in orig_leaves:
        orig_names |= names_of_stmt(f)
    # ids: unique, introduced ones new
    ids = [f["id"] for f in new_leaves]
    if len(set(ids)) != len(ids):
        return {"what": f"statement ids are not unique after {case['pass']}: {sorted(i for i in ids if ids.count(i) > 1)}",
                "sig": "duplicate-id"}
    # introduced variables: written by introduced statements and not an original name … must be new
    introduced_vars = set()
    for f in new_leaves:
        if f["id"] not in orig_ids:
            k = f["stmt"]["kind"]
            ws = [k[1]] if k[0] == "assign" else (k[1] if k[0] == "call" else [])
            for w in ws:
                if w in orig_names:
                    return {"what": f"{case['pass']}: introduced statement {f['id']} writes '{w}', a name of the original phase",
                            "sig": "name-capture"}
                introduced_vars.add(w)
    # guards
    by_orig = None
    if case["pass"] != "pipeline":
        for o, news in zip(orig_leaves, out["out"]):
            base = conjuncts(o["stmt"]["cond"])
            for f in news:
                cj = [c for c in conjuncts(f["stmt"]["cond"]) if c != ["cb", True]]
                subst_base = cj[:len(base)]
                extra = cj[len(base):]
                ok_base = len(subst_base) == len(base)
                ok_extra = all((c[0] == "v" and c[1] in introduced_vars) or
                               (c[0] == "not" and c[1][0] == "v" and c[1][1] in introduced_vars) for c in extra)
                if case["pass"] == "selfDep":
                    ok = ok_base and not extra
                else:
                    ok = ok_base and subst_base == base and ok_extra
                if not ok:
                    return {"what": f"{case['pass']}: statement {f['id']} derived from {o['id']} (guard {o['stmt']['cond']}) "
                                    f"has guard {f['stmt']['cond']}", "sig": "guard-not-carried"}
    # behaviour
    for vals in case["vals"]:
        st0 = copy.deepcopy(vals)
        st1 = copy.deepcopy(vals)
        c0, c1 = Calls(), Calls()
        try:
            run_tree(case["ast"], st0, c0)
        except c01.RefUndefined:
            continue
        try:
            run_tree(new_nodes, st1, c1)
        except c01.RefUndefined as e:
            return {"what": f"{case['pass']}: the rewritten phase fails where the original runs: {e}", "sig": "read-before-set",
                    "lazy": has_lazy_call(case["ast"])}
        for n in sorted(orig_names):
            if st0.get(n) != st1.get(n):
                return {"what": f"{case['pass']}: variable '{n}' ends as {st1.get(n)}, the original phase gives {st0.get(n)}",
                        "sig": "value-differs", "lazy": has_lazy_call(case["ast"])}
        if c0.log != c1.log:
            d = (c1.log - c0.log) + (c0.log - c1.log)
            return {"what": f"{case['pass']}: external calls differ: {list(d.items())[:3]}", "sig": "calls-differ",
                    "lazy": has_lazy_call(case["ast"])}
    return None


def nontrivial(case, out):
    if not isinstance(out, dict) or "out" not in out:
        return False
    if case["pass"] == "pipeline":
        return len(out["out"]) > len(list(leaves_of(case["ast"])))
    return any(len(x) > 1 for x in out["out"])


def shrink(case, still_fails):
    cur = case

    def drop(nodes):
        for i, nd in enumerate(nodes):
            yield nodes[:i] + nodes[i + 1:]
            if nd[0] == "if":
                for sub in drop(nd[2]):
                    if sub:
                        yield nodes[:i] + [["if", nd[1], sub]] + nodes[i + 1:]
                yield nodes[:i] + nd[2] + nodes[i + 1:]
            elif nd[0] == "for":
                for sub in drop(nd[4]):
                    if sub:
                        yield nodes[:i] + [["for", nd[1], nd[2], nd[3], sub]] + nodes[i + 1:]
    changed = True
    while changed:
        changed = False
        for cand in drop(cur["ast"]):
            if not cand:
                continue
            ids = {f["id"] for f in leaves_of(cand)}
            cand = prune_deps(cand, ids)
            c2 = dict(cur, ast=cand)
            if still_fails(c2):
                cur = c2
                changed = True
                break
    return cur


def prune_deps(nodes, ids):
    out = []
    for nd in nodes:
        if nd[0] == "leaf":
            f = dict(nd[1])
            f["deps"] = [d for d in f["deps"] if d in ids]
            out.append(["leaf", f])
        elif nd[0] == "if":
            out.append(["if", nd[1], prune_deps(nd[2], ids)])
        else:
            out.append(["for", nd[1], nd[2], nd[3], prune_deps(nd[4], ids)])
    return out


@matcher
def call_under_lazy_operand(case, fail, **kw):
    return fail.get("sig") in ("calls-differ",) and bool(fail.get("lazy")) and case.get("pass") in ("argIso", "callIso", "pipeline")
