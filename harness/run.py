import os, sys
sys.dont_write_bytecode = True
sys.path.insert(0, os.path.dirname(os.path.abspath(__file__)))
import common
if __name__ == "__main__":
    sys.exit(common.main(sys.argv[1:]))
