"""Canonical JSON <-> pymbolic expressions (shared with lean/Dagrt/Driver/ExprJson.lean)."""
import pymbolic.primitives as p


class Unsupported(Exception):
    pass


def to_js(e):
    if isinstance(e, bool):
        return ["cb", e]
    if isinstance(e, int):
        return ["c", e]
    if isinstance(e, float):
        if e == int(e) and abs(e) < 2**53:
            return ["cf", repr(e)]
        return ["cf", repr(e)]
    if isinstance(e, complex):
        return ["cz", repr(e)]
    if isinstance(e, str):
        return ["cs", e]
    if e is None:
        return ["cn"]
    if isinstance(e, p.Variable):
        return ["v", e.name]
    if isinstance(e, p.Sum):
        return ["+", [to_js(c) for c in e.children]]
    if isinstance(e, p.Product):
        return ["*", [to_js(c) for c in e.children]]
    if isinstance(e, p.Quotient):
        return ["/", to_js(e.numerator), to_js(e.denominator)]
    if isinstance(e, p.Power):
        return ["**", to_js(e.base), to_js(e.exponent)]
    if isinstance(e, p.CallWithKwargs):
        kw = e.kw_parameters
        items = list(kw.items()) if hasattr(kw, "items") else list(kw)
        return ["call", fname(e.function), [to_js(c) for c in e.parameters],
                [[k, to_js(v)] for k, v in items]]
    if isinstance(e, p.Call):
        return ["call", fname(e.function), [to_js(c) for c in e.parameters], []]
    if isinstance(e, p.Subscript):
        idx = e.index
        if isinstance(idx, tuple):
            if len(idx) != 1:
                raise Unsupported("multi-index subscript")
            idx = idx[0]
        return ["sub", to_js(e.aggregate), to_js(idx)]
    if isinstance(e, p.Lookup):
        return ["attr", to_js(e.aggregate), e.name]
    if isinstance(e, p.Comparison):
        return ["cmp", e.operator, to_js(e.left), to_js(e.right)]
    if isinstance(e, p.LogicalNot):
        return ["not", to_js(e.child)]
    if isinstance(e, p.LogicalAnd):
        return ["and", [to_js(c) for c in e.children]]
    if isinstance(e, p.LogicalOr):
        return ["or", [to_js(c) for c in e.children]]
    if isinstance(e, p.If):
        return ["if", to_js(e.condition), to_js(e.then), to_js(e.else_)]
    if isinstance(e, p.Min):
        return ["min", [to_js(c) for c in e.children]]
    if isinstance(e, p.Max):
        return ["max", [to_js(c) for c in e.children]]
    raise Unsupported(type(e).__name__)


def fname(f):
    if isinstance(f, p.Variable):
        return f.name
    raise Unsupported("non-variable function")


def from_js(j):
    k = j[0]
    if k == "c":
        return j[1]
    if k == "cb":
        return bool(j[1])
    if k == "cf":
        return float(j[1])
    if k == "cz":
        return complex(j[1])
    if k == "cs":
        return j[1]
    if k == "cn":
        return None
    if k == "v":
        return p.Variable(j[1])
    if k == "+":
        return p.Sum(tuple(from_js(c) for c in j[1]))
    if k == "*":
        return p.Product(tuple(from_js(c) for c in j[1]))
    if k == "/":
        return p.Quotient(from_js(j[1]), from_js(j[2]))
    if k == "**":
        return p.Power(from_js(j[1]), from_js(j[2]))
    if k == "call":
        args = tuple(from_js(c) for c in j[2])
        if j[3]:
            return p.CallWithKwargs(p.Variable(j[1]), args, {kk: from_js(v) for kk, v in j[3]})
        return p.Call(p.Variable(j[1]), args)
    if k == "sub":
        return p.Subscript(from_js(j[1]), from_js(j[2]))
    if k == "attr":
        return p.Lookup(from_js(j[1]), j[2])
    if k == "cmp":
        return p.Comparison(from_js(j[2]), j[1], from_js(j[3]))
    if k == "not":
        return p.LogicalNot(from_js(j[1]))
    if k == "and":
        return p.LogicalAnd(tuple(from_js(c) for c in j[1]))
    if k == "or":
        return p.LogicalOr(tuple(from_js(c) for c in j[1]))
    if k == "if":
        return p.If(from_js(j[1]), from_js(j[2]), from_js(j[3]))
    if k == "min":
        return p.Min(tuple(from_js(c) for c in j[1]))
    if k == "max":
        return p.Max(tuple(from_js(c) for c in j[1]))
    raise Unsupported(str(k))


def exc_name(e):
    n = type(e).__name__
    return n
