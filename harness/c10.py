"""C10 — verify_code accepts exactly the well-formed methods."""
import itertools

ID = "C10"
SOURCES = ["dagrt/codegen/analysis.py", "dagrt/language.py", "dagrt/codegen/dag_ast.py"]
RULE = ("exhaustive: every directed graph on n statements of phase A whose dependency sets range over "
        "{A's ids (self-loops incl.), one dangling id, one id of phase B} for n <= 2, over {A's ids, dangling} for n = 3 "
        "(thorough: n = 3 with the cross-phase id too, n = 4 over A's ids), each combined with switch statements to an "
        "existing/missing phase and a condition flag assigned 0/1/2 times; random: 1-3 phases of up to 12 statements. "
        "Compared with the Lean model: the outcome class (accepted / documented error / other exception) - not the wording or the number of messages, which the property leaves open. Oracle: independent well-formedness "
        "checker (Kahn's algorithm + look-ups) vs. outcome, exception type, >= 1 message; accepted methods are pushed through "
        "create_ast_from_phase and the execution controller's planner. Non-trivial: at least one dependency edge.")
TRUSTED = ["statement ids are assumed unique within a phase (the builder guarantees it; duplicates are outside the property)",
           "iteration order of each depends_on frozenset is read off the real object and passed to the model"]


def build(case):
    """case['phases'] = [{'name':..,'stmts':[{'id','deps','sw'?, 'cw'?}]}] -> DAGCode"""
    from dagrt.language import Assign, DAGCode, ExecutionPhase, Nop, SwitchPhase
    phases = {}
    for ph in case["phases"]:
        stmts = []
        for s in ph["stmts"]:
            if s.get("sw") is not None:
                st = SwitchPhase(next_phase=s["sw"], id=s["id"], depends_on=s["deps"])
            elif s.get("cw") and s.get("cwk") == "call":
                # the flag is written by a CALL statement (assignees, not assignee), together with a plain variable
                from dagrt.language import AssignFunctionCall
                st = AssignFunctionCall(assignees=(s["cw"], "other_" + s["id"]), function_id="<func>two", parameters=(1,),
                                        id=s["id"], depends_on=s["deps"])
            elif s.get("cw"):
                st = Assign(id=s["id"], assignee=s["cw"], assignee_subscript=(), expression=1, depends_on=s["deps"])
            else:
                st = Nop(id=s["id"], depends_on=s["deps"])
            stmts.append(st)
        phases[ph["name"]] = ExecutionPhase(ph["name"], ph["name"], stmts)
    return DAGCode(phases, case["phases"][0]["name"])


def model_input(case):
    code = build(case)
    names = [ph["name"] for ph in case["phases"]]
    out = []
    for ph in case["phases"]:
        ids = {}
        for s in ph["stmts"]:
            ids.setdefault(s["id"], len(ids))
        unknown = {}
        conds = {}
        ms = []
        for s, st in zip(ph["stmts"], code.phases[ph["name"]].statements):
            deps = []
            for d in st.depends_on:       # iteration order of the real frozenset
                if d in ids:
                    deps.append(ids[d])
                else:
                    deps.append(1000 + unknown.setdefault(d, len(unknown)))
            m = {"id": ids[s["id"]], "deps": deps}
            if s.get("sw") is not None:
                m["sw"] = names.index(s["sw"]) if s["sw"] in names else 999
            if s.get("cw"):
                m["cw"] = [conds.setdefault(s["cw"], len(conds))] if s["cw"].startswith("<cond>") else []
            ms.append(m)
        out.append(ms)
    return {"op": "C10.verify", "phases": out}


def kinds_of(errors):
    ks = set()
    for e in errors:
        if e.startswith("Dependency \"") or e.startswith("Dependencies "):
            ks.add("deps")
        elif e.startswith("Circular"):
            ks.add("cycle")
        elif e.startswith("Phase \""):
            ks.add("switch")
        elif e.startswith("Conditional variable"):
            ks.add("cond")
        else:
            ks.add("unknown:" + e[:30])
    order = ["deps", "cycle", "switch", "cond"]
    return sorted(ks, key=lambda k: order.index(k) if k in order else 99)


class _Cut(Exception):
    pass


BUDGET_S = 10.0


class _OverBudget(BaseException):
    pass


def _alarm(signum, frame):
    raise _OverBudget()


def impl(case):
    """verify_code under a time budget ('it never hangs'): the modelled passes look at every statement and every edge
    a bounded number of times; the largest generated method has 80 statements"""
    import signal
    import threading
    if threading.current_thread() is not threading.main_thread():
        return impl_unbounded(case)
    old = signal.signal(signal.SIGALRM, _alarm)
    signal.setitimer(signal.ITIMER_REAL, BUDGET_S)
    try:
        return impl_unbounded(case)
    except _OverBudget:
        return {"res": "timeout"}
    finally:
        signal.setitimer(signal.ITIMER_REAL, 0)
        signal.signal(signal.SIGALRM, old)


def impl_unbounded(case):
    from dagrt.codegen.analysis import CodeGenerationError, verify_code
    code = build(case)
    try:
        verify_code(code)
    except CodeGenerationError as e:
        return {"res": "codegen", "kinds": kinds_of(e.errors), "n": len(e.errors)}
    except Exception as e:
        return {"res": "other", "exc": type(e).__name__}
    # accepted: consumers must not hit a dependency-resolution failure
    from dagrt.codegen.dag_ast import create_ast_from_phase
    from dagrt.language import ExecutionController
    cons = "ok"
    try:
        for name, ph in code.phases.items():
            create_ast_from_phase(code, name)
            ec = ExecutionController(code)
            ec.reset()
            ec.update_plan(ph, ph.depends_on)
            if sorted(ec.plan) != sorted(s.id for s in ph.statements):
                cons = "plan-incomplete"
            # ... and stepped: a step cut short after its first statement, then a whole step on the same controller
            for cut in (1, 2, None):
                seen = []

                class T:
                    def evaluate_condition(self, stmt):
                        seen.append(stmt.id)
                        if cut is not None and len(seen) >= cut:
                            raise _Cut()
                        return False
                ec.reset()
                ec.update_plan(ph, ph.depends_on)
                try:
                    for _ in ec(ph, T()):
                        pass
                except _Cut:
                    pass
                if cut is None and sorted(seen) != sorted(s.id for s in ph.statements):
                    cons = "step-after-cut-incomplete"
    except Exception as e:
        cons = type(e).__name__
    return {"res": "accept", "consumers": cons}


def normalise(out):
    if isinstance(out, dict):
        # message texts and which passes still get to report after the first failure are not part of the
        # property (a harmless rewording / a pass that keeps going must not break the tie): outcome class only
        return {k: v for k, v in out.items() if k in ("res", "exc", "bad", "harness_error")}
    return out


def well_formed(case):
    names = {ph["name"] for ph in case["phases"]}
    why = []
    for ph in case["phases"]:
        ids = {s["id"] for s in ph["stmts"]}
        deps = {s["id"]: set(s["deps"]) for s in ph["stmts"]}
        if any(not d <= ids for d in deps.values()):
            why.append("deps")
        else:
            # Kahn
            indeg_done = set()
            progress = True
            while progress:
                progress = False
                for i in ids - indeg_done:
                    if deps[i] <= indeg_done:
                        indeg_done.add(i)
                        progress = True
            if indeg_done != ids:
                why.append("cycle")
        for s in ph["stmts"]:
            if s.get("sw") is not None and s["sw"] not in names:
                why.append("switch")
        cw = {}
        for s in ph["stmts"]:
            if s.get("cw") and s["cw"].startswith("<cond>"):
                cw[s["cw"]] = cw.get(s["cw"], 0) + 1
        if any(v > 1 for v in cw.values()):
            why.append("cond")
    return why


def oracle(case, out):
    why = well_formed(case)
    if out.get("res") == "timeout":
        n = sum(len(ph["stmts"]) for ph in case["phases"])
        return {"what": f"verify_code did not finish within {BUDGET_S:.0f} s on a method of {n} statements", "sig": "hangs"}
    if out.get("res") == "other":
        return {"what": f"verify_code raised {out.get('exc')} instead of CodeGenerationError (ill-formed because: {why})", "sig": "other-exc"}
    if out.get("res") == "accept":
        if why:
            return {"what": f"ill-formed method accepted ({why})", "sig": "accept-illformed"}
        if out.get("consumers") != "ok":
            return {"what": f"accepted method fails in a consumer: {out.get('consumers')}", "sig": "consumer"}
        return None
    if out.get("res") == "codegen":
        if not why:
            return {"what": f"well-formed method rejected: {out}", "sig": "reject-wellformed"}
        if out.get("n", 0) < 1:
            return {"what": "CodeGenerationError without a message", "sig": "no-message"}
        return None
    return {"what": f"unexpected harness output {out}", "sig": "harness"}


def nontrivial(case, out):
    return any(s["deps"] for ph in case["phases"] for s in ph["stmts"])


def subsets(xs):
    for r in range(len(xs) + 1):
        for c in itertools.combinations(xs, r):
            yield list(c)


def graph_cases(n, targets_extra, tag):
    ids = [f"a{i}" for i in range(n)]
    universe = ids + targets_extra
    all_subsets = list(subsets(universe))
    for choice in itertools.product(all_subsets, repeat=n):
        stmts = [{"id": ids[i], "deps": choice[i]} for i in range(n)]
        yield {"op": "C10.verify", "tag": tag,
               "phases": [{"name": "A", "stmts": stmts}, {"name": "B", "stmts": [{"id": "b0", "deps": []}]}]}


def decorate(rng, case):
    """add switch statements / flag assignments to a graph case"""
    c = {"op": case["op"], "tag": case["tag"] + "+deco", "phases": [dict(ph, stmts=[dict(s) for s in ph["stmts"]]) for ph in case["phases"]]}
    stmts = c["phases"][0]["stmts"]
    ids = [s["id"] for s in stmts]
    k = 0
    for _ in range(rng.randint(1, 3)):
        r = rng.random()
        deps = rng.sample(ids, rng.randint(0, min(2, len(ids))))
        if r < 0.4:
            stmts.append({"id": f"x{k}", "deps": deps, "sw": rng.choice(["A", "B", "nowhere"])})
        else:
            stmts.append({"id": f"x{k}", "deps": deps, "cw": rng.choice(["<cond>c", "<cond>c", "<cond>d", "plain"]),
                          "cwk": rng.choice(["assign", "assign", "call"])})
        k += 1
    return c


def rand_case(rng):
    nph = rng.randint(1, 3)
    names = [f"P{i}" for i in range(nph)]
    phases = []
    for pi, name in enumerate(names):
        n = rng.randint(1, 12)
        ids = [f"{name}s{i}" for i in range(n)]
        stmts = []
        acyclic = rng.random() < 0.7
        for i, sid in enumerate(ids):
            pool = ids[:i] if acyclic else ids
            deps = rng.sample(pool, rng.randint(0, min(3, len(pool)))) if pool else []
            if rng.random() < 0.04:
                deps.append("dangling")
            if rng.random() < 0.04 and nph > 1:
                other = names[(pi + 1) % nph]
                deps.append(f"{other}s0")
            s = {"id": sid, "deps": deps}
            r = rng.random()
            if r < 0.1:
                s["sw"] = rng.choice(names + ["nowhere"] * (1 if rng.random() < 0.3 else 0) or names)
            elif r < 0.25:
                s["cw"] = rng.choice(["<cond>c", "<cond>d", "<cond>e", "<cond>f", "v"])
                s["cwk"] = rng.choice(["assign", "assign", "call"])
            stmts.append(s)
        rng.shuffle(stmts)
        phases.append({"name": name, "stmts": stmts})
    return {"op": "C10.verify", "tag": "random", "phases": phases}


def flag_cases():
    """every arrangement of the writers of two condition flags (one written twice, one once or twice) among plain
    statements, in every storage order: a duplicate writer must be found wherever it is stored"""
    for writers in (["<cond>c", "<cond>c", "<cond>d"], ["<cond>c", "<cond>d", "<cond>c", "<cond>d"],
                    ["<cond>c", "<cond>d", "<cond>e"], ["<cond>c", "<cond>d", "v", "<cond>c"]):
        for perm in sorted(set(itertools.permutations(writers))):
            # the writers as assignments, as call statements, and mixed (first writer of each flag an assignment)
            for how in ("assign", "call", "mixed"):
                seen = set()
                stmts = []
                for i, w in enumerate(perm):
                    kind = how if how != "mixed" else ("call" if w in seen else "assign")
                    seen.add(w)
                    stmts.append({"id": f"w{i}", "deps": [f"w{i - 1}"] if i else [], "cw": w, "cwk": kind})
                yield {"op": "C10.verify", "tag": "flags-" + how, "phases": [{"name": "A", "stmts": stmts}]}


def ladder(layers, back_edge):
    """2 statements per layer, each depending on BOTH statements of the next layer: 2**layers paths, 4*layers edges"""
    stmts = []
    for k in range(layers):
        for side in "ab":
            deps = [f"L{k + 1}a", f"L{k + 1}b"] if k + 1 < layers else []
            stmts.append({"id": f"L{k}{side}", "deps": deps})
    if back_edge:
        stmts[-1]["deps"] = ["L0a"]
    return {"op": "C10.verify", "tag": "ladder", "phases": [{"name": "A", "stmts": stmts}]}


def reused_id_cases():
    """two phases that use the SAME statement ids (ids are scoped by phase): every pair of graphs on {a0, a1}, and a
    three-statement first phase against small second phases - a cycle in one phase must be found whatever a phase
    that comes later does with the same ids"""
    ids = ["a0", "a1"]
    subs = list(subsets(ids))
    for ca in itertools.product(subs, repeat=2):
        for cb in itertools.product(subs, repeat=2):
            yield {"op": "C10.verify", "tag": "reused-ids",
                   "phases": [{"name": "A", "stmts": [{"id": ids[i], "deps": ca[i]} for i in range(2)]},
                              {"name": "B", "stmts": [{"id": ids[i], "deps": cb[i]} for i in range(2)]}]}
    ids3 = ["a0", "a1", "a2"]
    subs3 = list(subsets(ids3))
    for ca in itertools.product(subs3[:6], repeat=3):
        for second in ([{"id": "a0", "deps": []}], [{"id": "a1", "deps": []}, {"id": "a2", "deps": ["a1"]}]):
            yield {"op": "C10.verify", "tag": "reused-ids",
                   "phases": [{"name": "A", "stmts": [{"id": ids3[i], "deps": ca[i]} for i in range(3)]},
                              {"name": "B", "stmts": second}]}


def cases(rng, tier):
    yield from flag_cases()
    yield from reused_id_cases()
    for layers in (8, 40):
        yield ladder(layers, False)
        yield ladder(layers, True)
    for n in (1, 2):
        for c in graph_cases(n, ["zz", "b0"], f"exh{n}"):
            yield c
            if rng.random() < 0.5:
                yield decorate(rng, c)
    for c in graph_cases(3, ["zz"], "exh3"):
        yield c
        if rng.random() < 0.1:
            yield decorate(rng, c)
    if tier == "thorough":
        for c in graph_cases(3, ["zz", "b0"], "exh3x"):
            yield c
        for c in graph_cases(4, [], "exh4"):
            yield c
    for _ in range(1500 if tier == "quick" else 20000):
        yield rand_case(rng)


def exhaustive(tier):
    return True


def shrink(case, still_fails):
    if case.get("tag") == "ladder":
        return case          # every shrink candidate of a run-away case costs the whole time budget
    cur = case
    changed = True
    while changed:
        changed = False
        for pi, ph in enumerate(cur["phases"]):
            for si in range(len(ph["stmts"])):
                # drop a statement
                phs = [dict(p, stmts=list(p["stmts"])) for p in cur["phases"]]
                del phs[pi]["stmts"][si]
                if not phs[pi]["stmts"]:
                    continue
                c2 = dict(cur, phases=phs)
                if still_fails(c2):
                    cur = c2
                    changed = True
                    break
                # drop a dependency
                for di in range(len(ph["stmts"][si]["deps"])):
                    phs = [dict(p, stmts=[dict(s, deps=list(s["deps"])) for s in p["stmts"]]) for p in cur["phases"]]
                    del phs[pi]["stmts"][si]["deps"][di]
                    c2 = dict(cur, phases=phs)
                    if still_fails(c2):
                        cur = c2
                        changed = True
                        break
                if changed:
                    break
            if changed:
                break
    return cur
